// Full AST dump through public accessors (used by C02, C03, C09, C13, C16, C20 ...), one S-expression per file.
use crate::front::{hexs, parse_opts, show_diags, text_of};
use slicec::compile_from_strings;
use slicec::grammar::*;
use slicec::slice_file::{SliceFile, Span};

fn sp(s: &Span) -> String { format!("{}:{}-{}:{}", s.start.row, s.start.col, s.end.row, s.end.col) }

fn attrs(v: &[&Attribute]) -> String {
    let items: Vec<String> = v.iter().map(|a| {
        let (dir, args): (String, Vec<String>) = match a.downcast::<attributes::Unparsed>() {
            Some(u) => (u.directive.clone(), u.args.clone()),
            None => {
                if let Some(x) = a.downcast::<attributes::Allow>() { ("allow".into(), x.allowed_lints.clone()) }
                else if let Some(x) = a.downcast::<attributes::Deprecated>() { ("deprecated".into(), x.reason.iter().cloned().collect()) }
                else if let Some(x) = a.downcast::<attributes::Compress>() { ("compress".into(), [("Args", x.compress_args), ("Return", x.compress_return)].iter().filter(|p| p.1).map(|p| p.0.to_string()).collect()) }
                else if let Some(x) = a.downcast::<attributes::SlicedFormat>() { ("slicedFormat".into(), [("Args", x.sliced_args), ("Return", x.sliced_return)].iter().filter(|p| p.1).map(|p| p.0.to_string()).collect()) }
                else { (a.kind.directive().to_string(), vec![]) }
            }
        };
        format!("(a {} ({}) {})", dir, args.iter().map(|x| hexs(x)).collect::<Vec<_>>().join(" "), sp(&a.span))
    }).collect();
    format!("(attrs {})", items.join(" "))
}

pub fn typeref(t: &TypeRef) -> String { typeref_d(t, 0) }
/// Self-referential aliases (rejected with E019) leave a cyclic structure behind; the dump stops at depth 12.
fn typeref_d(t: &TypeRef, depth: usize) -> String {
    if depth > 12 { return "(tr deep)".into(); }
    let typeref = |x: &TypeRef| typeref_d(x, depth + 1);
    let target = match &t.definition {
        TypeRefDefinition::Unpatched(id) => format!("(unpatched {} {})", id.value, sp(&id.span)),
        TypeRefDefinition::Patched(_) => match t.concrete_type() {
            Types::Primitive(p) => format!("(prim {})", p.kind()),
            Types::Struct(x) => format!("(named struct {})", x.module_scoped_identifier()),
            Types::Enum(x) => format!("(named enum {})", x.module_scoped_identifier()),
            Types::CustomType(x) => format!("(named custom {})", x.module_scoped_identifier()),
            Types::Sequence(s) => format!("(seq {})", typeref(&s.element_type)),
            Types::Dictionary(d) => format!("(dict {} {})", typeref(&d.key_type), typeref(&d.value_type)),
            Types::ResultType(r) => format!("(res {} {})", typeref(&r.success_type), typeref(&r.failure_type)),
        },
    };
    format!("(tr {}:{} {} {} {})", t.span.file, sp(&t.span), if t.is_optional { 1 } else { 0 }, attrs(&t.attributes()), target)
}

fn tag(t: &Option<Integer<u32>>) -> String { match t { Some(i) => format!("{}@{}", i.value, sp(&i.span)), None => "-".into() } }

fn comment(c: Option<&DocComment>) -> String {
    fn msg(m: &Message) -> String {
        m.value.iter().map(|c| match c {
            MessageComponent::Text(t) => format!("(t {})", hexs(t)),
            MessageComponent::Link(l) => match l.linked_entity() {
                Ok(e) => format!("(l ok {} {} {})", e.kind().replace(' ', "_"), e.parser_scoped_identifier(), sp(&l.span)),
                Err(id) => format!("(l unresolved {} {})", id.value, sp(&l.span)),
            },
        }).collect::<Vec<_>>().join(" ")
    }
    match c {
        None => "(doc -)".into(),
        Some(c) => format!("(doc {} (overview {}) (params {}) (returns {}) (see {}))", sp(&c.span),
            c.overview.as_ref().map(|m| format!("{} {}", sp(&m.span), msg(m))).unwrap_or("-".into()),
            c.params.iter().map(|p| format!("(p {} {} {})", p.identifier.value, sp(&p.span), msg(&p.message))).collect::<Vec<_>>().join(" "),
            c.returns.iter().map(|p| format!("(r {} {} {})", p.identifier.as_ref().map(|i| i.value.clone()).unwrap_or("-".into()), sp(&p.span), msg(&p.message))).collect::<Vec<_>>().join(" "),
            c.see.iter().map(|s| match s.linked_entity() {
                Ok(e) => format!("(s ok {} {} {})", e.kind().replace(' ', "_"), e.parser_scoped_identifier(), sp(&s.span)),
                Err(id) => format!("(s unresolved {} {})", id.value, sp(&s.span)),
            }).collect::<Vec<_>>().join(" ")),
    }
}

fn field(f: &Field) -> String {
    format!("(field {} {} {} {} {} {} {})", f.identifier(), sp(&f.identifier.span), tag(&f.tag), sp(f.span()), attrs(&f.attributes()), comment(f.comment()), typeref(&f.data_type))
}
fn param(p: &Parameter) -> String {
    format!("(param {} {} {} {} {} {} {})", p.identifier(), sp(&p.identifier.span), tag(&p.tag), if p.is_streamed { 1 } else { 0 }, sp(p.span()), attrs(&p.attributes()), typeref(&p.data_type))
}

pub fn file(f: &SliceFile) -> String {
    let module = match &f.module {
        Some(m) => { let m = m.borrow(); format!("(module {} {} {} {})", m.nested_module_identifier(), sp(&m.identifier.span), sp(&m.span), attrs(&m.attributes())) }
        None => "(module -)".into(),
    };
    let fattrs: Vec<&Attribute> = f.attributes.iter().map(|a| a.borrow()).collect();
    let defs: Vec<String> = f.contents.iter().map(|d| match d {
        Definition::Struct(s) => { let s = s.borrow();
            format!("(struct {} {} {} {} {} {} (fields {}))", s.identifier(), sp(&s.identifier.span), if s.is_compact {1} else {0}, sp(s.span()), attrs(&s.attributes()), comment(s.comment()),
                s.fields().iter().map(|x| field(x)).collect::<Vec<_>>().join(" ")) }
        Definition::Enum(e) => { let e = e.borrow();
            let und = match &e.underlying { Some(u) => match &u.definition {
                    TypeRefDefinition::Patched(p) => format!("(under {} {} {} (prim {}))", sp(&u.span), if u.is_optional {1} else {0}, attrs(&u.attributes()), p.borrow().kind()),
                    TypeRefDefinition::Unpatched(id) => format!("(under {} {} {} (unpatched {} {}))", sp(&u.span), if u.is_optional {1} else {0}, attrs(&u.attributes()), id.value, sp(&id.span)) },
                None => "(under -)".into() };
            format!("(enum {} {} {} {} {} {} {} {} (enumerators {}))", e.identifier(), sp(&e.identifier.span), if e.is_compact {1} else {0}, if e.is_unchecked {1} else {0}, sp(e.span()), attrs(&e.attributes()), comment(e.comment()), und,
                e.enumerators().iter().map(|x| format!("(enumerator {} {} {} {} {} {} {} (fields {}))", x.identifier(), sp(&x.identifier.span), x.value(),
                    match &x.value { EnumeratorValue::Explicit(i) => format!("explicit@{}", sp(&i.span)), EnumeratorValue::Implicit(_) => "implicit".into() },
                    sp(x.span()), attrs(&x.attributes()), comment(x.comment()),
                    match &x.fields { Some(_) => x.fields().iter().map(|y| field(y)).collect::<Vec<_>>().join(" "), None => "-".into() })).collect::<Vec<_>>().join(" ")) }
        Definition::Interface(i) => { let i = i.borrow();
            let bases: Vec<String> = i.bases.iter().map(|b| match &b.definition {
                TypeRefDefinition::Patched(p) => format!("(base {} {} (named interface {}))", sp(&b.span), attrs(&b.attributes()), p.borrow().module_scoped_identifier()),
                TypeRefDefinition::Unpatched(id) => format!("(base {} {} (unpatched {} {}))", sp(&b.span), attrs(&b.attributes()), id.value, sp(&id.span)) }).collect();
            format!("(interface {} {} {} {} {} (bases {}) (ops {}))", i.identifier(), sp(&i.identifier.span), sp(i.span()), attrs(&i.attributes()), comment(i.comment()), bases.join(" "),
                i.operations().iter().map(|o| format!("(op {} {} {} {} {} {} (params {}) (rets {}))", o.identifier(), sp(&o.identifier.span), if o.is_idempotent {1} else {0}, sp(o.span()), attrs(&o.attributes()), comment(o.comment()),
                    o.parameters().iter().map(|p| param(p)).collect::<Vec<_>>().join(" "), o.return_members().iter().map(|p| param(p)).collect::<Vec<_>>().join(" "))).collect::<Vec<_>>().join(" ")) }
        Definition::CustomType(c) => { let c = c.borrow(); format!("(custom {} {} {} {} {})", c.identifier(), sp(&c.identifier.span), sp(c.span()), attrs(&c.attributes()), comment(c.comment())) }
        Definition::TypeAlias(t) => { let t = t.borrow(); format!("(alias {} {} {} {} {} {})", t.identifier(), sp(&t.identifier.span), sp(t.span()), attrs(&t.attributes()), comment(t.comment()), typeref(&t.underlying)) }
    }).collect();
    format!("(file {} {} {} (defs {}))", hexs(&f.relative_path), module, attrs(&fattrs), defs.join(" "))
}

/// dump <opts> <hex file>...  ->  (file ...) (file ...) || diagnostics
pub fn dump(toks: &[&str]) -> String {
    let options = parse_opts(toks[0]);
    let texts: Vec<String> = toks[1..].iter().map(|h| text_of(h)).collect();
    let refs: Vec<&str> = texts.iter().map(|s| s.as_str()).collect();
    let state = compile_from_strings(&refs, Some(&options));
    let files: Vec<String> = state.files.iter().map(file).collect();
    let d = state.diagnostics.into_updated(&state.ast, &state.files, &options);
    format!("{} || {}", files.join(" "), show_diags(&d))
}


/// Recording visitor (C20).  `events` name what is presented; `located` says where each presented entity is written (file, start).
struct Recorder { events: Vec<String>, located: Vec<String> }
impl Recorder {
    fn at(&mut self, kind: &str, span: &slicec::slice_file::Span) { self.located.push(format!("{}@{}@{}:{}", kind, hexs(&span.file), span.start.row, span.start.col)); }
}
impl slicec::visitor::Visitor for Recorder {
    fn visit_file(&mut self, f: &SliceFile) { self.events.push(format!("file:{}", f.relative_path)); }
    fn visit_module(&mut self, m: &Module) { self.events.push(format!("module:{}", m.nested_module_identifier())); self.at("module", &m.span); }
    fn visit_struct(&mut self, x: &Struct) { self.events.push(format!("struct:{}", x.parser_scoped_identifier())); self.at("struct", x.span()); }
    fn visit_interface(&mut self, x: &Interface) { self.events.push(format!("interface:{}", x.parser_scoped_identifier())); self.at("interface", x.span()); }
    fn visit_enum(&mut self, x: &Enum) { self.events.push(format!("enum:{}", x.parser_scoped_identifier())); self.at("enum", x.span()); }
    fn visit_operation(&mut self, x: &Operation) { self.events.push(format!("operation:{}", x.parser_scoped_identifier())); self.at("operation", x.span()); }
    fn visit_custom_type(&mut self, x: &CustomType) { self.events.push(format!("custom:{}", x.parser_scoped_identifier())); self.at("custom", x.span()); }
    fn visit_type_alias(&mut self, x: &TypeAlias) { self.events.push(format!("alias:{}", x.parser_scoped_identifier())); self.at("alias", x.span()); }
    fn visit_field(&mut self, x: &Field) { self.events.push(format!("field:{}@{}", x.parser_scoped_identifier(), sp(x.span()))); self.at("field", x.span()); }
    fn visit_parameter(&mut self, x: &Parameter) { self.events.push(format!("parameter:{}@{}", x.parser_scoped_identifier(), sp(x.span()))); self.at("parameter", x.span()); }
    fn visit_enumerator(&mut self, x: &Enumerator) { self.events.push(format!("enumerator:{}", x.parser_scoped_identifier())); self.at("enumerator", x.span()); }
    fn visit_type_ref(&mut self, x: &TypeRef) { self.events.push(format!("tr:{}:{}", x.span.file, sp(&x.span))); }
}
/// visit <opts> <hex file>...  ->  per file: (file ...) => events @@ located ;; ... || diagnostics
pub fn visit(toks: &[&str]) -> String {
    let options = parse_opts(toks[0]);
    let texts: Vec<String> = toks[1..].iter().map(|h| text_of(h)).collect();
    let refs: Vec<&str> = texts.iter().map(|s| s.as_str()).collect();
    let state = compile_from_strings(&refs, Some(&options));
    let per: Vec<String> = state.files.iter().map(|f| {
        let mut r = Recorder { events: Vec::new(), located: Vec::new() };
        f.visit_with(&mut r);
        format!("{} => {} @@ {}", file(f), r.events.join(" "), r.located.join(" "))
    }).collect();
    let d = state.diagnostics.into_updated(&state.ast, &state.files, &options);
    format!("{} || {}", per.join(" ;; "), show_diags(&d))
}
