// Codec stream (C10, C11): typed encode/decode through the real Encoder/Decoder.
use slice_codec::buffer::slice::{SliceInputSource, SliceOutputTarget};
use slice_codec::buffer::vec::VecOutputTarget;
use slice_codec::buffer::{InputSource, OutputTarget};
use slice_codec::decode_from::DecodeFrom;
use slice_codec::decoder::Decoder;
use slice_codec::encode_into::EncodeInto;
use slice_codec::encoder::Encoder;
use slice_codec::{Error, ErrorKind, InvalidDataErrorKind};
use std::collections::{BTreeMap, HashMap};

pub fn hex(v: &[u8]) -> String {
    if v.is_empty() { "-".into() } else { v.iter().map(|b| format!("{b:02x}")).collect() }
}
pub fn unhex(s: &str) -> Vec<u8> {
    if s == "-" { vec![] } else { (0..s.len() / 2).map(|i| u8::from_str_radix(&s[2 * i..2 * i + 2], 16).unwrap()).collect() }
}

/// Values in the prefix token syntax shared with the model driver.
pub trait Tok: Sized {
    fn parse(t: &mut std::slice::Iter<&str>) -> Self;
    fn show(&self, out: &mut Vec<String>);
}
macro_rules! tok_num {
    ($ty:ty, $tag:literal) => {
        impl Tok for $ty {
            fn parse(t: &mut std::slice::Iter<&str>) -> Self { assert_eq!(*t.next().unwrap(), $tag); t.next().unwrap().parse().unwrap() }
            fn show(&self, out: &mut Vec<String>) { out.push($tag.into()); out.push(self.to_string()); }
        }
    };
}
tok_num!(u8, "n"); tok_num!(u16, "n"); tok_num!(u32, "n"); tok_num!(u64, "n");
tok_num!(i8, "z"); tok_num!(i16, "z"); tok_num!(i32, "z"); tok_num!(i64, "z");
impl Tok for bool {
    fn parse(t: &mut std::slice::Iter<&str>) -> Self { assert_eq!(*t.next().unwrap(), "b"); *t.next().unwrap() == "1" }
    fn show(&self, out: &mut Vec<String>) { out.push("b".into()); out.push(if *self { "1" } else { "0" }.into()); }
}
impl Tok for String {
    fn parse(t: &mut std::slice::Iter<&str>) -> Self { assert_eq!(*t.next().unwrap(), "s"); String::from_utf8(unhex(t.next().unwrap())).unwrap() }
    fn show(&self, out: &mut Vec<String>) { out.push("s".into()); out.push(hex(self.as_bytes())); }
}
impl<T: Tok> Tok for Vec<T> {
    fn parse(t: &mut std::slice::Iter<&str>) -> Self {
        assert_eq!(*t.next().unwrap(), "L");
        let n: usize = t.next().unwrap().parse().unwrap();
        (0..n).map(|_| T::parse(t)).collect()
    }
    fn show(&self, out: &mut Vec<String>) { out.push("L".into()); out.push(self.len().to_string()); for x in self { x.show(out) } }
}
impl<K: Tok + Eq + std::hash::Hash, V: Tok> Tok for HashMap<K, V> {
    fn parse(t: &mut std::slice::Iter<&str>) -> Self {
        assert_eq!(*t.next().unwrap(), "D");
        let n: usize = t.next().unwrap().parse().unwrap();
        (0..n).map(|_| { let k = K::parse(t); let v = V::parse(t); (k, v) }).collect()
    }
    fn show(&self, out: &mut Vec<String>) { out.push("D".into()); out.push(self.len().to_string()); for (k, v) in self { k.show(out); v.show(out) } }
}
impl<K: Tok + Ord, V: Tok> Tok for BTreeMap<K, V> {
    fn parse(t: &mut std::slice::Iter<&str>) -> Self {
        assert_eq!(*t.next().unwrap(), "D");
        let n: usize = t.next().unwrap().parse().unwrap();
        (0..n).map(|_| { let k = K::parse(t); let v = V::parse(t); (k, v) }).collect()
    }
    fn show(&self, out: &mut Vec<String>) { out.push("D".into()); out.push(self.len().to_string()); for (k, v) in self { k.show(out); v.show(out) } }
}

pub fn err_class(e: &Error) -> &'static str {
    match e.kind() {
        ErrorKind::UnexpectedEob { .. } => "eob",
        ErrorKind::InvalidReservation { .. } => "badres",
        ErrorKind::AllocationError(_) => "alloc",
        ErrorKind::AllocationLimitReached { .. } => "alloclimit",
        ErrorKind::InvalidData(InvalidDataErrorKind::IllegalValue { desc, .. }) => {
            if desc.contains("duplicate") { "dupkey" } else { "illegal" }
        }
        ErrorKind::InvalidData(InvalidDataErrorKind::InvalidString(_)) => "utf8",
        ErrorKind::InvalidData(InvalidDataErrorKind::OutOfRange { .. }) => "range",
        _ => "other",
    }
}
/// Every error must render (C11); a panic in Display is reported as such.
pub fn render_err(e: &Error) -> String {
    let cls = err_class(e);
    match std::panic::catch_unwind(std::panic::AssertUnwindSafe(|| e.to_string())) {
        Ok(s) if !s.is_empty() => format!("err {cls}"),
        Ok(_) => format!("err {cls} emptymsg"),
        Err(_) => format!("err {cls} displaypanic"),
    }
}

fn enc_with<F: Fn(&mut Encoder<VecOutputTarget>) -> slice_codec::Result<()>, G: Fn(&mut Encoder<SliceOutputTarget>) -> slice_codec::Result<()>>(f: F, g: G) -> String {
    let mut v = Vec::new();
    let r = { let mut e = Encoder::from(&mut v); f(&mut e) };
    match r {
        Ok(()) => {
            // same value into an exactly-sized fixed slice: must succeed and give the same bytes;
            // into a slice one byte too short: must fail.
            let mut buf = vec![0xAAu8; v.len()];
            let ok = { let mut e = Encoder::from(&mut buf[..]); g(&mut e).is_ok() && e.remaining() == 0 };
            if !ok || buf != v { return format!("slicemismatch {} {}", hex(&v), hex(&buf)); }
            if !v.is_empty() {
                let mut small = vec![0u8; v.len() - 1];
                let mut e = Encoder::from(&mut small[..]);
                if g(&mut e).is_ok() { return "sliceoverrun".into(); }
            }
            if ATOMIC.with(|a| a.get()) {
                // every fixed slice that is too small: the refused number leaves position and contents as they were
                for cap in 0..v.len() {
                    let mut small = vec![0xA5u8; cap];
                    let left = { let mut e = Encoder::from(&mut small[..]); if g(&mut e).is_ok() { return "sliceoverrun".into(); } e.remaining() };
                    if left != cap || small.iter().any(|b| *b != 0xA5) { return format!("partialwrite cap={} left={} {}", cap, left, hex(&small)); }
                }
            }
            format!("ok {}", hex(&v))
        }
        Err(_) => "refused".into(),
    }
}
fn enc_t<T: Tok>(toks: &[&str]) -> String where for<'a> &'a T: EncodeInto {
    let mut it = toks.iter();
    let val = T::parse(&mut it);
    enc_with(|e| e.encode(&val), |e| e.encode(&val))
}
fn dec_t<T: Tok + DecodeFrom>(bytes: &[u8]) -> String {
    let mut d: Decoder<SliceInputSource> = Decoder::from(bytes);
    match d.decode::<T>() {
        Ok(v) => { let mut out = vec!["ok".to_string()]; v.show(&mut out); out.push("|".into()); out.push(d.remaining().to_string()); out.join(" ") }
        Err(e) => render_err(&e),
    }
}

macro_rules! menu {
    ($( $name:literal => $ty:ty ),* $(,)?) => {
        fn enc_menu(t: &str, toks: &[&str]) -> Option<String> { match t { $( $name => Some(enc_t::<$ty>(toks)), )* _ => None } }
        fn dec_menu(t: &str, bytes: &[u8]) -> Option<String> { match t { $( $name => Some(dec_t::<$ty>(bytes)), )* _ => None } }
        pub const TYPE_MENU: &[&str] = &[ $( $name ),* ];
    };
}
menu! {
    "bool" => bool, "u8" => u8, "u16" => u16, "u32" => u32, "u64" => u64,
    "i8" => i8, "i16" => i16, "i32" => i32, "i64" => i64, "str" => String,
    "seq(u8)" => Vec<u8>, "seq(bool)" => Vec<bool>, "seq(i16)" => Vec<i16>, "seq(str)" => Vec<String>,
    "seq(seq(u16))" => Vec<Vec<u16>>, "seq(seq(seq(u8)))" => Vec<Vec<Vec<u8>>>, "seq(seq(str))" => Vec<Vec<String>>,
    "dict(u8,bool)" => HashMap<u8, bool>, "dict(i16,seq(str))" => HashMap<i16, Vec<String>>,
    "dict(str,u8)" => HashMap<String, u8>, "dict(bool,dict(u8,u8))" => HashMap<bool, HashMap<u8, u8>>,
    "bdict(str,i32)" => BTreeMap<String, i32>, "bdict(u8,seq(bdict(u8,bool)))" => BTreeMap<u8, Vec<BTreeMap<u8, bool>>>,
    "seq(dict(u8,u8))" => Vec<HashMap<u8, u8>>, "bdict(i64,u64)" => BTreeMap<i64, u64>,
}

fn show_diag(x: &crate::definition_types::Diagnostic) -> String {
    format!("X {} {} {}", x.level as u8, hex(x.message.as_bytes()), match &x.source { Some(s) => hex(s.as_bytes()), None => "none".into() })
}
pub fn handle(toks: &[&str]) -> String {
    if toks.first() == Some(&"dec") {
        crate::MAX_ALLOC.store(0, std::sync::atomic::Ordering::Relaxed);
        let r = handle_inner(toks);
        return format!("{} ~{}", r, crate::MAX_ALLOC.load(std::sync::atomic::Ordering::Relaxed));
    }
    handle_inner(toks)
}
thread_local! { static ATOMIC: std::cell::Cell<bool> = std::cell::Cell::new(false); }
fn handle_inner(toks: &[&str]) -> String {
    // a number is one operation on the buffer: when it does not fit, nothing of it may have been written
    ATOMIC.with(|a| a.set(toks.len() > 1 && toks[0] == "enc" && matches!(toks[1], "bool" | "u8" | "i8" | "u16" | "i16" | "u32" | "i32" | "u64" | "i64" | "f32" | "f64" | "varuint" | "varint" | "size")));
    match toks {
        ["menu"] => TYPE_MENU.join(" "),
        ["enc", "varuint", "n", v] => { let x: u64 = v.parse().unwrap(); enc_with(|e| e.encode_varuint(x), |e| e.encode_varuint(x)) }
        ["enc", "size", "n", v] => { let x: usize = v.parse().unwrap(); enc_with(|e| e.encode_size(x), |e| e.encode_size(x)) }
        ["enc", "varint", "z", v] => { let x: i64 = v.parse().unwrap(); enc_with(|e| e.encode_varint(x), |e| e.encode_varint(x)) }
        ["enc", "f32", "n", v] => { let x = f32::from_bits(v.parse().unwrap()); enc_with(|e| e.encode(x), |e| e.encode(x)) }
        ["enc", "f64", "n", v] => { let x = f64::from_bits(v.parse().unwrap()); enc_with(|e| e.encode(x), |e| e.encode(x)) }
        ["enc", t, rest @ ..] => enc_menu(t, rest).unwrap_or_else(|| "?".into()),
        ["dec", t, h] => {
            let bytes = unhex(h);
            let mut d: Decoder<SliceInputSource> = Decoder::from(&bytes[..]);
            match *t {
                "varuint" => match d.decode_varuint::<u64>() { Ok(x) => format!("ok n {} | {}", x, d.remaining()), Err(e) => render_err(&e) },
                "size" => match d.decode_size() { Ok(x) => format!("ok n {} | {}", x, d.remaining()), Err(e) => render_err(&e) },
                "varint" => match d.decode_varint::<i64>() { Ok(x) => format!("ok z {} | {}", x, d.remaining()), Err(e) => render_err(&e) },
                "varint32" => match d.decode_varint::<i32>() { Ok(x) => format!("ok z {} | {}", x, d.remaining()), Err(e) => render_err(&e) },
                // the generic decoders at other integer types (what a caller of the library may ask for)
                "varint@u64" => match d.decode_varint::<u64>() { Ok(x) => format!("ok z {} | {}", x, d.remaining()), Err(e) => render_err(&e) },
                "varint@usize" => match d.decode_varint::<usize>() { Ok(x) => format!("ok z {} | {}", x, d.remaining()), Err(e) => render_err(&e) },
                "varint@u8" => match d.decode_varint::<u8>() { Ok(x) => format!("ok z {} | {}", x, d.remaining()), Err(e) => render_err(&e) },
                "varint@i8" => match d.decode_varint::<i8>() { Ok(x) => format!("ok z {} | {}", x, d.remaining()), Err(e) => render_err(&e) },
                "varint@u16" => match d.decode_varint::<u16>() { Ok(x) => format!("ok z {} | {}", x, d.remaining()), Err(e) => render_err(&e) },
                "varint@i16" => match d.decode_varint::<i16>() { Ok(x) => format!("ok z {} | {}", x, d.remaining()), Err(e) => render_err(&e) },
                "varuint@i8" => match d.decode_varuint::<i8>() { Ok(x) => format!("ok n {} | {}", x, d.remaining()), Err(e) => render_err(&e) },
                "varuint@u16" => match d.decode_varuint::<u16>() { Ok(x) => format!("ok n {} | {}", x, d.remaining()), Err(e) => render_err(&e) },
                "varuint@i64" => match d.decode_varuint::<i64>() { Ok(x) => format!("ok n {} | {}", x, d.remaining()), Err(e) => render_err(&e) },
                "varuint32" => match d.decode_varuint::<u32>() { Ok(x) => format!("ok n {} | {}", x, d.remaining()), Err(e) => render_err(&e) },
                "f32" => match d.decode::<f32>() { Ok(x) => format!("ok n {} | {}", x.to_bits(), d.remaining()), Err(e) => render_err(&e) },
                "f64" => match d.decode::<f64>() { Ok(x) => format!("ok n {} | {}", x.to_bits(), d.remaining()), Err(e) => render_err(&e) },
                "genfile" => match d.decode::<crate::definition_types::GeneratedFile>() {
                    Ok(f) => format!("ok G {} {} | {}", hex(f.path.as_bytes()), hex(f.contents.as_bytes()), d.remaining()), Err(e) => render_err(&e) },
                "glevel" => match d.decode::<crate::definition_types::DiagnosticLevel>() {
                    Ok(l) => format!("ok n {} | {}", l as u8, d.remaining()), Err(e) => render_err(&e) },
                "gdiag" => match d.decode::<crate::definition_types::Diagnostic>() {
                    Ok(x) => format!("ok {} | {}", show_diag(&x), d.remaining()), Err(e) => render_err(&e) },
                "reply" => {
                    // as main.rs::handle_generator_response reads it
                    let r1: slice_codec::Result<Vec<crate::definition_types::GeneratedFile>> = d.decode();
                    match r1 {
                        Err(e) => render_err(&e),
                        Ok(fs) => match d.decode::<Vec<crate::definition_types::Diagnostic>>() {
                            Err(e) => render_err(&e),
                            Ok(ds) => format!("ok {} ; {} | {}",
                                fs.iter().map(|f| format!("G {} {}", hex(f.path.as_bytes()), hex(f.contents.as_bytes()))).collect::<Vec<_>>().join(" "),
                                ds.iter().map(show_diag).collect::<Vec<_>>().join(" "), d.remaining()),
                        },
                    }
                }
                "skiptags" => match d.skip_tagged_fields() { Ok(()) => format!("ok u | {}", d.remaining()), Err(e) => render_err(&e) },
                _ => dec_menu(t, &bytes).unwrap_or_else(|| "?".into()),
            }
        }
        _ => "?".into(),
    }
}
