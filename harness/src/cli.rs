// Generator specifications (C19) through clap: SliceOptions::try_parse_from.
use crate::codec::{hex, unhex};
use clap::Parser;
use slicec::slice_options::SliceOptions;

fn one(spec: &str) -> String {
    let arg = format!("--generator={spec}");
    match SliceOptions::try_parse_from(["slicec", arg.as_str()]) {
        Ok(o) => {
            if o.generators.len() != 1 { return format!("err count{}", o.generators.len()); }
            let g = &o.generators[0];
            let mut out = vec!["ok".to_string(), hex(g.path.as_bytes()), g.args.len().to_string()];
            for (k, v) in &g.args { out.push(hex(k.as_bytes())); out.push(hex(v.as_bytes())); }
            out.join(" ")
        }
        Err(e) => {
            let m = e.to_string();
            if m.contains("can only appear once") { "err doubleeq".into() }
            else if m.contains("missing plugin path") { "err missingpath".into() }
            else if m.contains("missing argument key") { "err missingkey".into() }
            else { format!("err other:{:?}", e.kind()) }
        }
    }
}

pub fn handle(toks: &[&str]) -> String {
    match toks {
        ["spec", h] => one(&String::from_utf8(unhex(h)).unwrap()),
        // repeated -G options: each is parsed on its own, order preserved
        ["specs", hs @ ..] => {
            let specs: Vec<String> = hs.iter().map(|h| String::from_utf8(unhex(h)).unwrap()).collect();
            let mut argv = vec!["slicec".to_string()];
            for s in &specs { argv.push(format!("--generator={s}")); }
            match SliceOptions::try_parse_from(argv) {
                Ok(o) => o.generators.iter().map(|g| {
                    let mut out = vec![hex(g.path.as_bytes()), g.args.len().to_string()];
                    for (k, v) in &g.args { out.push(hex(k.as_bytes())); out.push(hex(v.as_bytes())); }
                    out.join(" ")
                }).collect::<Vec<_>>().join(" / "),
                Err(_) => "err".into(),
            }
        }
        _ => "?".into(),
    }
}
