// Buffer histories (C12): lock-step on the real SliceOutputTarget / VecOutputTarget / SliceInputSource,
// with guard bytes around the fixed slice.
use crate::codec::{hex, unhex};
use slice_codec::buffer::slice::{SliceInputSource, SliceOutputTarget};
use slice_codec::buffer::vec::VecOutputTarget;
use slice_codec::buffer::{InputSource, OutputTarget, Reservation};
use slice_codec::{Error, ErrorKind};

fn split_ops<'a>(toks: &'a [&'a str]) -> Vec<&'a [&'a str]> {
    toks.split(|t| *t == ";").filter(|s| !s.is_empty()).collect()
}
fn cls(e: &Error) -> &'static str {
    match e.kind() { ErrorKind::UnexpectedEob { .. } => "eob", ErrorKind::InvalidReservation { .. } => "badres", _ => "other" }
}
fn show_res(rs: &[Reservation]) -> String {
    if rs.is_empty() { return "-".into(); }
    rs.iter().map(|r| { let d = format!("{r:?}"); d.trim_start_matches("Reservation(").trim_end_matches(')').to_string() }).collect::<Vec<_>>().join(",")
}
const GUARD: usize = 8;

fn run_target<T: OutputTarget>(t: &mut T, ops: &[&[&str]], mut snapshot: impl FnMut(&T) -> (usize, String)) -> String {
    let mut rs: Vec<Reservation> = Vec::new();
    let mut obs = Vec::new();
    for op in ops {
        let r: Result<(), String> = match *op {
            ["wb", h] => t.write_byte(unhex(h)[0]).map_err(|e| cls(&e).to_string()),
            ["w", h] => t.write_bytes_exact(&unhex(h)).map_err(|e| cls(&e).to_string()),
            ["rs", k] => t.reserve_space(k.parse().unwrap()).map(|r| rs.push(r)).map_err(|e| cls(&e).to_string()),
            ["wr", r, h] => match rs.get_mut(r.parse::<usize>().unwrap()) {
                Some(res) => t.write_bytes_into_reserved_exact(res, &unhex(h)).map_err(|e| cls(&e).to_string()),
                None => Err("badres".into()),
            },
            _ => Err("?".into()),
        };
        let (pos, contents) = snapshot(t);
        obs.push(format!("{} {} {} {}", match r { Ok(()) => "ok".to_string(), Err(e) => e }, pos, contents, show_res(&rs)));
    }
    obs.join(" ; ")
}

pub fn handle(toks: &[&str]) -> String {
    match toks {
        ["slice", h, ops @ ..] => {
            let init = unhex(h);
            let n = init.len();
            let mut mem = vec![0xEEu8; n + 2 * GUARD];
            mem[GUARD..GUARD + n].copy_from_slice(&init);
            let base = mem.as_ptr();
            let ops = split_ops(ops);
            let out = {
                let (_, rest) = mem.split_at_mut(GUARD);
                let (mid, _) = rest.split_at_mut(n);
                let mut t = SliceOutputTarget::from(mid);
                // contents are read through the raw allocation so that the guards are observed too
                run_target(&mut t, &ops, |t| {
                    let all = unsafe { std::slice::from_raw_parts(base, n + 2 * GUARD) };
                    let guards_ok = all[..GUARD].iter().chain(all[GUARD + n..].iter()).all(|b| *b == 0xEE);
                    (n - t.remaining(), if guards_ok { hex(&all[GUARD..GUARD + n]) } else { format!("GUARD-OVERWRITTEN:{}", hex(all)) })
                })
            };
            out
        }
        ["vec", h, ops @ ..] => {
            // "<hex>+<n>": the caller's vector comes with n bytes of spare capacity (a reused scratch buffer)
            let (h, spare) = match h.split_once('+') { Some((a, b)) => (a, b.parse::<usize>().unwrap()), None => (*h, 0) };
            let init = unhex(h);
            let mut v: Vec<u8> = Vec::with_capacity(init.len() + spare);
            v.extend_from_slice(&init);
            let ops = split_ops(ops);
            let vp: *const Vec<u8> = &v;
            let mut t = VecOutputTarget::from(&mut v);
            run_target(&mut t, &ops, |_| {
                let v = unsafe { &*vp };
                if v.len() > v.capacity() { (v.len(), format!("LENGTH-EXCEEDS-CAPACITY:{}>{}", v.len(), v.capacity())) } else { (v.len(), hex(v)) }
            })
        }
        ["src", h, rops @ ..] => {
            let b = unhex(h);
            let mut s = SliceInputSource::from(&b[..]);
            let mut obs = Vec::new();
            for op in split_ops(rops) {
                let r: Result<Vec<u8>, String> = match *op {
                    ["p1"] => s.peek_byte().map(|x| vec![x]).map_err(|e| cls(&e).to_string()),
                    ["r1"] => s.read_byte().map(|x| vec![x]).map_err(|e| cls(&e).to_string()),
                    ["pk", k] => s.peek_byte_slice_exact(k.parse().unwrap()).map(|x| x.to_vec()).map_err(|e| cls(&e).to_string()),
                    ["rk", k] => {
                        // alternate between the slice-returning and the copying read
                        let k: usize = k.parse().unwrap();
                        if k % 2 == 0 { s.read_byte_slice_exact(k).map(|x| x.to_vec()).map_err(|e| cls(&e).to_string()) }
                        else { let mut d = vec![0u8; k]; s.read_bytes_into_exact(&mut d).map(|_| d).map_err(|e| cls(&e).to_string()) }
                    }
                    _ => Err("?".into()),
                };
                obs.push(format!("{} {}", match r { Ok(v) => format!("ok {}", hex(&v)), Err(e) => e }, b.len() - s.remaining()));
            }
            obs.join(" ; ")
        }
        _ => "?".into(),
    }
}
