// Fake code generator for the driver checks (C07, C08, C18).  Behaviour is chosen by the executable's own name
// (gen-<mode>[-<tag>]); it records that it ran and what it received under $FAKEGEN_DIR.
use std::io::{Read, Write};

fn main() {
    let exe = std::env::args().next().unwrap_or_default();
    let base = std::path::Path::new(&exe).file_name().unwrap().to_string_lossy().to_string();
    let dir = std::env::var("FAKEGEN_DIR").unwrap_or_else(|_| ".".into());
    let mode = base.strip_prefix("gen-").unwrap_or(&base).split('-').next().unwrap_or("ok").to_string();
    let path = |ext: &str| format!("{dir}/{base}.{ext}");
    {
        let mut f = std::fs::OpenOptions::new().create(true).append(true).open(path("invoked")).unwrap();
        writeln!(f, "invoked").unwrap();
    }
    if mode == "noread" {
        std::process::exit(0);
    }
    let mut input = Vec::new();
    std::io::stdin().read_to_end(&mut input).unwrap();
    std::fs::write(path("stdin"), &input).unwrap();
    let out = std::io::stdout();
    let mut out = out.lock();
    match mode.as_str() {
        "ok" => { out.write_all(&[0, 0]).unwrap(); }                       // no files, no diagnostics
        "reply" => { let r = std::fs::read(path("reply")).unwrap_or_default(); out.write_all(&r).unwrap(); }
        "empty" => {}
        "exit1" => std::process::exit(1),
        "exit255" => std::process::exit(255),
        "replyexit1" => { let r = std::fs::read(path("reply")).unwrap_or_default(); out.write_all(&r).unwrap(); out.flush().unwrap(); std::process::exit(1) }
        "stderr" => { out.write_all(&[0, 0]).unwrap(); eprintln!("generator complains"); }
        // far more than a pipe buffer on one or both of the output streams (after the request has been read)
        "bigstderr" => { let mut chunk = vec![b'e'; 65536]; chunk[65535] = b'\n'; for _ in 0..16 { std::io::stderr().write_all(&chunk).unwrap(); } out.write_all(&[0, 0]).unwrap(); }
        "bigout" => { out.write_all(&[0, 0]).unwrap(); let chunk = vec![0u8; 65536]; for _ in 0..16 { out.write_all(&chunk).unwrap(); } }
        "bigboth" => { out.write_all(&[0, 0]).unwrap(); let mut chunk = vec![b'x'; 65536]; chunk[65535] = b'\n';
                       for _ in 0..8 { std::io::stderr().write_all(&chunk).unwrap(); out.write_all(&chunk).unwrap(); out.flush().unwrap(); } }
        "replysigkill" => { let r = std::fs::read(path("reply")).unwrap_or_default(); out.write_all(&r).unwrap(); out.flush().unwrap(); unsafe { libc_kill(9) } }
        "sigkill" => unsafe { libc_kill(9) },
        "sigsegv" => unsafe { libc_kill(11) },
        _ => { out.write_all(&[0, 0]).unwrap(); }
    }
    out.flush().unwrap();
}

extern "C" { fn kill(pid: i32, sig: i32) -> i32; fn getpid() -> i32; }
unsafe fn libc_kill(sig: i32) { kill(getpid(), sig); std::thread::sleep(std::time::Duration::from_secs(5)); }
