// Front-end streams through slicec::compile_from_strings.
use crate::codec::unhex;
use slicec::compile_from_strings;
use slicec::grammar::*;
use slicec::slice_options::SliceOptions;

pub fn text_of(h: &str) -> String { String::from_utf8(unhex(h)).unwrap() }

/// prep <symbols|-> <hex file>...  ->  per file: `acc S..@row:col ...` or `rej`, then `| diag codes`
pub fn prep(toks: &[&str]) -> String {
    let syms: Vec<String> = if toks[0] == "-" { vec![] } else { toks[0].split(',').map(|s| s.to_string()).collect() };
    let texts: Vec<String> = toks[1..].iter().map(|h| text_of(h)).collect();
    let refs: Vec<&str> = texts.iter().map(|s| s.as_str()).collect();
    let options = SliceOptions { defined_symbols: syms, ..Default::default() };
    let state = compile_from_strings(&refs, Some(&options));
    let mut out = Vec::new();
    let diags: Vec<(String, String)> = state.diagnostics.into_updated(&state.ast, &state.files, &options).iter()
        .map(|d| (d.code().to_string(), d.span().map(|s| s.file.clone()).unwrap_or_default())).collect();
    for f in &state.files {
        let rejected = diags.iter().any(|(c, file)| c == "E002" && *file == f.relative_path);
        if rejected { out.push("rej".to_string()); continue; }
        let mut items = vec!["acc".to_string()];
        for d in &f.contents {
            if let Definition::Struct(s) = d {
                let s = s.borrow();
                items.push(format!("{}@{}:{}", s.identifier(), s.span().start.row, s.span().start.col));
            }
        }
        out.push(items.join(" "));
    }
    out.join(" / ")
}

pub fn hexs(s: &str) -> String { crate::codec::hex(s.as_bytes()) }

pub fn parse_opts(o: &str) -> SliceOptions {
    let mut options = SliceOptions::default();
    if o != "-" {
        for item in o.split(',') {
            if let Some(s) = item.strip_prefix("D:") { options.defined_symbols.push(s.to_string()); }
            if let Some(s) = item.strip_prefix("A:") { options.allowed_lints.push(s.to_string()); }
        }
    }
    options
}

pub fn show_span(s: Option<&slicec::slice_file::Span>) -> String {
    match s { Some(s) => format!("{}@{}:{}-{}:{}", hexs(&s.file), s.start.row, s.start.col, s.end.row, s.end.col), None => "-".into() }
}

pub fn show_diags(diags: &[slicec::diagnostics::Diagnostic]) -> String {
    if diags.is_empty() { return "none".into(); }
    diags.iter().map(|d| {
        let mut parts = vec![d.code().to_string(), format!("{:?}", d.level()), show_span(d.span()), hexs(&d.message()),
                             d.scope().map(|s| hexs(s)).unwrap_or("-".into())];
        for n in d.notes() { parts.push(format!("note:{}:{}", show_span(n.span.as_ref()), hexs(&n.message))); }
        parts.join(" ")
    }).collect::<Vec<_>>().join(" ;; ")
}

/// diags <opts> <hex file>...  ->  every diagnostic (after level update) in recorded order
pub fn diags(toks: &[&str]) -> String {
    let options = parse_opts(toks[0]);
    let texts: Vec<String> = toks[1..].iter().map(|h| text_of(h)).collect();
    let refs: Vec<&str> = texts.iter().map(|s| s.as_str()).collect();
    let state = compile_from_strings(&refs, Some(&options));
    let d = state.diagnostics.into_updated(&state.ast, &state.files, &options);
    let shown = show_diags(&d);
    // the diagnostics are also written in the human-readable format (snippets, underlines) into a buffer: a crash there is a crash
    {
        use slicec::diagnostic_emitter::DiagnosticEmitter;
        let mut human = parse_opts(toks[0]);
        human.diagnostic_format = slicec::slice_options::DiagnosticFormat::Human;
        human.disable_color = true;
        let mut out: Vec<u8> = Vec::new();
        let mut emitter = DiagnosticEmitter::new(&mut out, &human, &state.files);
        let _ = emitter.emit_diagnostics(d);
    }
    shown
}

/// lookup <opts> <hex file>... -- <hex scoped identifier>...  ->  the E010 reports, then what Ast::find_node finds for every identifier:
/// "module <nested identifier>", "entity <file> <row>:<col> <kind>" (where its identifier is written), "none" or "other"
pub fn lookup(toks: &[&str]) -> String {
    use slicec::ast::node::Node;
    use slicec::grammar::{Entity, NamedSymbol};
    let options = parse_opts(toks[0]);
    let cut = toks.iter().position(|t| *t == "--").unwrap_or(toks.len());
    let texts: Vec<String> = toks[1..cut].iter().map(|h| text_of(h)).collect();
    let refs: Vec<&str> = texts.iter().map(|s| s.as_str()).collect();
    let state = compile_from_strings(&refs, Some(&options));
    let mut out = Vec::new();
    for h in &toks[(cut + 1).min(toks.len())..] {
        let key = text_of(h);
        out.push(match state.ast.find_node(&key) {
            Err(_) => "none".to_string(),
            Ok(Node::Module(m)) => format!("module {}", m.borrow().nested_module_identifier()),
            Ok(Node::Primitive(p)) => format!("primitive {}", p.borrow().kind()),
            Ok(node) => match <&dyn Entity>::try_from(node) {
                Ok(e) => { let sp = e.raw_identifier().span(); format!("entity {} {}:{} {}", sp.file, sp.start.row, sp.start.col, e.kind()) }
                Err(_) => "other".to_string(),
            },
        });
    }
    let d = state.diagnostics.into_updated(&state.ast, &state.files, &options);
    format!("{} || {}", show_diags(&d), out.join(" ; "))
}

/// emit <json|human> <opts> (<hexname>:<hextext>)...  ->  hex of what DiagnosticEmitter wrote (colours disabled) || diagnostics || totals
/// Files are written under a scratch directory and compiled through compile_from_options, so that file names are arbitrary.
pub fn emit(toks: &[&str]) -> String {
    use slicec::diagnostic_emitter::DiagnosticEmitter;
    use slicec::slice_options::DiagnosticFormat;
    let mut options = parse_opts(toks[1]);
    options.diagnostic_format = if toks[0].starts_with("json") { DiagnosticFormat::Json } else { DiagnosticFormat::Human };
    // "human+color" / "json+color": colours are not disabled (whether the console library uses them is decided by the environment:
    // the check sets CLICOLOR_FORCE=1)
    options.disable_color = !toks[0].ends_with("+color");
    let dir = std::env::temp_dir().join(format!("vh-emit-{}", std::process::id()));
    let _ = std::fs::remove_dir_all(&dir);
    std::fs::create_dir_all(&dir).unwrap();
    std::env::set_current_dir(&dir).unwrap();
    for t in &toks[2..] {
        let (n, x) = t.split_once(':').unwrap();
        let name = text_of(n);
        if let Some(parent) = std::path::Path::new(&name).parent() { let _ = std::fs::create_dir_all(parent); }
        std::fs::write(&name, crate::codec::unhex(x)).unwrap();
        options.sources.push(name);
    }
    let state = slicec::compile_from_options(&options);
    let files = state.files;
    let diags = state.diagnostics.into_updated(&state.ast, &files, &options);
    let shown = show_diags(&diags);
    let totals = slicec::diagnostics::get_totals(&diags);
    let mut out: Vec<u8> = Vec::new();
    {
        let mut emitter = DiagnosticEmitter::new(&mut out, &options, &files);
        emitter.emit_diagnostics(diags).unwrap();
    }
    let _ = std::env::set_current_dir("/");
    let _ = std::fs::remove_dir_all(&dir);
    format!("{} || {} || totals {} {}", crate::codec::hex(&out), shown, totals.0, totals.1)
}

/// Runs the real slicec binary ($VH_SLICEC) in a scratch directory with fake generators ($VH_FAKEGEN copied under the given names).
/// run <dryrun 0|1> <extra opts: -|a;b;c (hex each)> G (<genname>:<hexargs|->:<hexreply|->)* F (<S|R>:<hexname>:<hextext>)*
///   (F kinds: S source, R reference, X other file, D directory)
///   -> exit=<code|signal> || <gen>:<invoked count>:<stdin hex> ... || stdout hex || stderr hex || outdir listing || dump of the same files compiled in-process
pub fn run(toks: &[&str]) -> String {
    use std::process::Command;
    let slicec = std::env::var("VH_SLICEC").unwrap_or_default();
    let fakegen = std::env::var("VH_FAKEGEN").unwrap_or_default();
    let dir = std::env::temp_dir().join(format!("vh-run-{}", std::process::id()));
    let _ = std::fs::remove_dir_all(&dir);
    std::fs::create_dir_all(dir.join("gens")).unwrap();
    std::fs::create_dir_all(dir.join("w")).unwrap();
    let w = dir.join("w");
    let mut argv: Vec<String> = Vec::new();
    if toks[0] == "1" { argv.push("--dry-run".into()); }
    if toks[1] != "-" { for o in toks[1].split(';') { argv.push(text_of(o)); } }
    let mut i = 2;
    let mut gens: Vec<String> = Vec::new();
    if toks.get(i) == Some(&"G") { i += 1; while i < toks.len() && toks[i] != "F" {
        let parts: Vec<&str> = toks[i].split(':').collect();
        let name = parts[0].to_string();
        let gpath = dir.join("gens").join(&name);
        if !name.starts_with("gen-missing") {
            std::fs::copy(&fakegen, &gpath).unwrap();
            if name.starts_with("gen-notexec") {
                use std::os::unix::fs::PermissionsExt;
                std::fs::set_permissions(&gpath, std::fs::Permissions::from_mode(0o644)).unwrap();
            }
        }
        if parts.len() > 2 && parts[2] != "-" { std::fs::write(dir.join("gens").join(format!("{name}.reply")), crate::codec::unhex(parts[2])).unwrap(); }
        let args = if parts.len() > 1 && parts[1] != "-" { format!(",{}", text_of(parts[1])) } else { String::new() };
        // how the generator's path is written on the command line: absolute (default), relative to the working directory, with a '.' component or a doubled slash
        let spelled = match parts.get(3).copied().unwrap_or("abs") {
            "rel" => format!("../gens/{name}"),
            "dot" => format!("{}/./{name}", dir.join("gens").display()),
            "dslash" => format!("{}//{name}", dir.join("gens").display()),
            "updown" => format!("{}/../gens/{name}", dir.join("gens").display()),
            // an absolute path below the working directory, where no program is
            "cwd" => format!("{}/tools/{name}", w.display()),
            "ctl" | "astral" => {
                // a directory whose name contains control characters, or characters beyond the basic plane
                let odd = dir.join("gens").join(if parts[3] == "ctl" { "c\u{1}t\u{9b}l\u{7f}" } else { "a\u{1F600}\u{10FFFF}z" });
                std::fs::create_dir_all(&odd).unwrap();
                if gpath.exists() { let _ = std::fs::copy(&gpath, odd.join(&name)); }
                format!("{}/{name}", odd.display())
            }
            "bslash" => {
                // a directory whose name contains backslashes (none of them before ',' or '='): the same program under that path
                let odd = dir.join("gens").join("odd\\dir \\x");
                std::fs::create_dir_all(&odd).unwrap();
                if gpath.exists() { let _ = std::fs::copy(&gpath, odd.join(&name)); }
                format!("{}/{name}", odd.display())
            }
            _ => gpath.display().to_string(),
        };
        argv.push(format!("--generator={}{}", spelled, args));
        gens.push(name);
        i += 1;
    } }
    let mut options = SliceOptions::default();
    if toks.get(i) == Some(&"F") { i += 1; while i < toks.len() {
        let parts: Vec<&str> = toks[i].splitn(3, ':').collect();
        if parts[0] == "B" {
            // a file that is merely present under a name given byte by byte (not necessarily UTF-8)
            #[cfg(unix)]
            {
                use std::os::unix::ffi::OsStringExt;
                let p = w.join(std::ffi::OsString::from_vec(crate::codec::unhex(parts[1])));
                if let Some(parent) = p.parent() { let _ = std::fs::create_dir_all(parent); }
                let _ = std::fs::write(&p, crate::codec::unhex(parts[2]));
            }
            i += 1;
            continue;
        }
        let name = text_of(parts[1]);
        if let Some(parent) = std::path::Path::new(&name).parent() { let _ = std::fs::create_dir_all(w.join(parent)); }
        std::fs::write(w.join(&name), crate::codec::unhex(parts[2])).unwrap();
        if parts[0] == "S" { argv.push(name.clone()); options.sources.push(name); }
        else if parts[0] == "R" { argv.push("-R".into()); argv.push(name.clone()); options.references.push(name); }
        // X: a file that is merely present (e.g. an earlier generated file); D: a directory
        else if parts[0] == "X" {
            // an earlier file: given an old modification time, so that the listing can tell whether it was rewritten
            if let Ok(f) = std::fs::OpenOptions::new().write(true).open(w.join(&name)) {
                let _ = f.set_modified(std::time::UNIX_EPOCH + std::time::Duration::from_secs(1_000_000_000));
            }
        }
        else if parts[0] == "D" { let _ = std::fs::remove_file(w.join(&name)); std::fs::create_dir_all(w.join(&name)).unwrap(); }
        // L: a symbolic link whose target is the file's text (e.g. itself: a loop)
        else if parts[0] == "L" {
            let _ = std::fs::remove_file(w.join(&name));
            #[cfg(unix)]
            { let _ = std::os::unix::fs::symlink(String::from_utf8_lossy(&crate::codec::unhex(parts[2])).to_string(), w.join(&name)); }
        }
        i += 1;
    } }
    // "--vh-force-color" (not passed on): the console library is told through the environment that colours are wanted
    let force_color = argv.iter().any(|a| a == "--vh-force-color");
    argv.retain(|a| a != "--vh-force-color");
    let mut cmd = Command::new(&slicec);
    cmd.args(&argv).current_dir(&w).env("FAKEGEN_DIR", dir.join("gens"));
    if force_color { cmd.env_remove("NO_COLOR").env("CLICOLOR_FORCE", "1"); } else { cmd.env("NO_COLOR", "1"); }
    let out = cmd.output();
    let (status, so, se) = match out {
        Ok(o) => (match o.status.code() { Some(c) => format!("exit={c}"), None => "exit=signal".to_string() }, o.stdout, o.stderr),
        Err(e) => (format!("exit=spawnfail:{e}"), vec![], vec![]),
    };
    let ginfo: Vec<String> = gens.iter().map(|g| {
        let inv = std::fs::read_to_string(dir.join("gens").join(format!("{g}.invoked"))).map(|s| s.lines().count()).unwrap_or(0);
        let stdin = std::fs::read(dir.join("gens").join(format!("{g}.stdin"))).map(|b| crate::codec::hex(&b)).unwrap_or("none".into());
        format!("{g}:{inv}:{stdin}")
    }).collect();
    // what the working directory contains afterwards (generated files)
    let mut listing: Vec<String> = Vec::new();
    fn walk(base: &std::path::Path, p: &std::path::Path, out: &mut Vec<String>) {
        if let Ok(rd) = std::fs::read_dir(p) { for e in rd.flatten() {
            let path = e.path();
            let is_link = std::fs::symlink_metadata(&path).map(|m| m.file_type().is_symlink()).unwrap_or(false);
            if path.is_dir() && !is_link { walk(base, &path, out); } else if path.is_dir() { /* a link to a directory: not followed */ } else {
                let rel = path.strip_prefix(base).unwrap().to_string_lossy().to_string();
                let data = std::fs::read(&path).unwrap_or_default();
                let old = e.metadata().ok().and_then(|m| m.modified().ok()).map(|t| t < std::time::UNIX_EPOCH + std::time::Duration::from_secs(1_100_000_000)).unwrap_or(false);
                out.push(format!("{}={}{}", hexs(&rel), crate::codec::hex(&data), if old { "@old" } else { "" }));
            }
        } }
    }
    walk(&w, &w, &mut listing);
    listing.sort();
    // the same files compiled in-process, for the AST dump
    std::env::set_current_dir(&w).unwrap();
    let state = slicec::compile_from_options(&options);
    let files: Vec<String> = state.files.iter().map(|f| format!("{} {}", if f.is_source { "S" } else { "R" }, crate::dump::file(f))).collect();
    let _ = std::env::set_current_dir("/");
    let _ = std::fs::remove_dir_all(&dir);
    format!("{} || {} || {} || {} || {} || {}", status, ginfo.join(" "), crate::codec::hex(&so), crate::codec::hex(&se), listing.join(" "), files.join(" ;; "))
}


/// fileset <hex cwd> (S:<hexarg> | R:<hexarg>)*  ->  (S|R):<hexpath>:<parsed 0|1> ... || diagnostics
/// compile_from_options in an existing directory tree (C17): which files make up the compilation, in which order, as what.
pub fn fileset(toks: &[&str]) -> String {
    let cwd = text_of(toks[0]);
    if std::env::set_current_dir(&cwd).is_err() { return "?cwd".into(); }
    // the options come from the command-line parser, as they do for the binary: every reference after its own -R, the sources after "--"
    use clap::Parser;
    let mut argv: Vec<String> = vec!["slicec".into()];
    let mut sources: Vec<String> = Vec::new();
    for t in &toks[1..] {
        let (k, h) = t.split_once(':').unwrap();
        if k == "S" { sources.push(text_of(h)); } else { argv.push("-R".into()); argv.push(text_of(h)); }
    }
    argv.push("--".into());
    argv.extend(sources);
    let options = match SliceOptions::try_parse_from(&argv) { Ok(o) => o, Err(e) => { let _ = std::env::set_current_dir("/"); return format!("?usage {}", hexs(&e.to_string())); } };
    let state = slicec::compile_from_options(&options);
    let files: Vec<String> = state.files.iter().map(|f| format!("{}:{}:{}", if f.is_source { "S" } else { "R" }, hexs(&f.relative_path), if f.module.is_some() || !f.contents.is_empty() { 1 } else { 0 })).collect();
    let d = state.diagnostics.into_updated(&state.ast, &state.files, &options);
    let _ = std::env::set_current_dir("/");
    format!("{} || {}", files.join(" "), show_diags(&d))
}
