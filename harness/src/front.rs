// Front-end streams through slicec::compile_from_strings.
use crate::codec::unhex;
use slicec::compile_from_strings;
use slicec::grammar::*;
use slicec::slice_options::SliceOptions;

pub fn text_of(h: &str) -> String { String::from_utf8(unhex(h)).unwrap() }

/// prep <symbols|-> <hex file>...  ->  per file: `acc S..@row:col ...` or `rej`, then `| diag codes`
pub fn prep(toks: &[&str]) -> String {
    let syms: Vec<String> = if toks[0] == "-" { vec![] } else { toks[0].split(',').map(|s| s.to_string()).collect() };
    let texts: Vec<String> = toks[1..].iter().map(|h| text_of(h)).collect();
    let refs: Vec<&str> = texts.iter().map(|s| s.as_str()).collect();
    let options = SliceOptions { defined_symbols: syms, ..Default::default() };
    let state = compile_from_strings(&refs, Some(&options));
    let mut out = Vec::new();
    let diags: Vec<(String, String)> = state.diagnostics.into_updated(&state.ast, &state.files, &options).iter()
        .map(|d| (d.code().to_string(), d.span().map(|s| s.file.clone()).unwrap_or_default())).collect();
    for f in &state.files {
        let rejected = diags.iter().any(|(c, file)| c == "E002" && *file == f.relative_path);
        if rejected { out.push("rej".to_string()); continue; }
        let mut items = vec!["acc".to_string()];
        for d in &f.contents {
            if let Definition::Struct(s) = d {
                let s = s.borrow();
                items.push(format!("{}@{}:{}", s.identifier(), s.span().start.row, s.span().start.col));
            }
        }
        out.push(items.join(" "));
    }
    out.join(" / ")
}

pub fn hexs(s: &str) -> String { crate::codec::hex(s.as_bytes()) }

pub fn parse_opts(o: &str) -> SliceOptions {
    let mut options = SliceOptions::default();
    if o != "-" {
        for item in o.split(',') {
            if let Some(s) = item.strip_prefix("D:") { options.defined_symbols.push(s.to_string()); }
            if let Some(s) = item.strip_prefix("A:") { options.allowed_lints.push(s.to_string()); }
        }
    }
    options
}

pub fn show_span(s: Option<&slicec::slice_file::Span>) -> String {
    match s { Some(s) => format!("{}@{}:{}-{}:{}", hexs(&s.file), s.start.row, s.start.col, s.end.row, s.end.col), None => "-".into() }
}

pub fn show_diags(diags: &[slicec::diagnostics::Diagnostic]) -> String {
    if diags.is_empty() { return "none".into(); }
    diags.iter().map(|d| {
        let mut parts = vec![d.code().to_string(), format!("{:?}", d.level()), show_span(d.span()), hexs(&d.message()),
                             d.scope().map(|s| hexs(s)).unwrap_or("-".into())];
        for n in d.notes() { parts.push(format!("note:{}:{}", show_span(n.span.as_ref()), hexs(&n.message))); }
        parts.join(" ")
    }).collect::<Vec<_>>().join(" ;; ")
}

/// diags <opts> <hex file>...  ->  every diagnostic (after level update) in recorded order
pub fn diags(toks: &[&str]) -> String {
    let options = parse_opts(toks[0]);
    let texts: Vec<String> = toks[1..].iter().map(|h| text_of(h)).collect();
    let refs: Vec<&str> = texts.iter().map(|s| s.as_str()).collect();
    let state = compile_from_strings(&refs, Some(&options));
    let d = state.diagnostics.into_updated(&state.ast, &state.files, &options);
    show_diags(&d)
}

/// emit <json|human> <opts> (<hexname>:<hextext>)...  ->  hex of what DiagnosticEmitter wrote (colours disabled) || diagnostics || totals
/// Files are written under a scratch directory and compiled through compile_from_options, so that file names are arbitrary.
pub fn emit(toks: &[&str]) -> String {
    use slicec::diagnostic_emitter::DiagnosticEmitter;
    use slicec::slice_options::DiagnosticFormat;
    let mut options = parse_opts(toks[1]);
    options.diagnostic_format = if toks[0] == "json" { DiagnosticFormat::Json } else { DiagnosticFormat::Human };
    options.disable_color = true;
    let dir = std::env::temp_dir().join(format!("vh-emit-{}", std::process::id()));
    let _ = std::fs::remove_dir_all(&dir);
    std::fs::create_dir_all(&dir).unwrap();
    std::env::set_current_dir(&dir).unwrap();
    for t in &toks[2..] {
        let (n, x) = t.split_once(':').unwrap();
        let name = text_of(n);
        if let Some(parent) = std::path::Path::new(&name).parent() { let _ = std::fs::create_dir_all(parent); }
        std::fs::write(&name, crate::codec::unhex(x)).unwrap();
        options.sources.push(name);
    }
    let state = slicec::compile_from_options(&options);
    let files = state.files;
    let diags = state.diagnostics.into_updated(&state.ast, &files, &options);
    let shown = show_diags(&diags);
    let totals = slicec::diagnostics::get_totals(&diags);
    let mut out: Vec<u8> = Vec::new();
    {
        let mut emitter = DiagnosticEmitter::new(&mut out, &options, &files);
        emitter.emit_diagnostics(diags).unwrap();
    }
    let _ = std::env::set_current_dir("/");
    let _ = std::fs::remove_dir_all(&dir);
    format!("{} || {} || totals {} {}", crate::codec::hex(&out), shown, totals.0, totals.1)
}
