// Front-end streams through slicec::compile_from_strings.
use crate::codec::unhex;
use slicec::compile_from_strings;
use slicec::grammar::*;
use slicec::slice_options::SliceOptions;

pub fn text_of(h: &str) -> String { String::from_utf8(unhex(h)).unwrap() }

/// prep <symbols|-> <hex file>...  ->  per file: `acc S..@row:col ...` or `rej`, then `| diag codes`
pub fn prep(toks: &[&str]) -> String {
    let syms: Vec<String> = if toks[0] == "-" { vec![] } else { toks[0].split(',').map(|s| s.to_string()).collect() };
    let texts: Vec<String> = toks[1..].iter().map(|h| text_of(h)).collect();
    let refs: Vec<&str> = texts.iter().map(|s| s.as_str()).collect();
    let options = SliceOptions { defined_symbols: syms, ..Default::default() };
    let state = compile_from_strings(&refs, Some(&options));
    let mut out = Vec::new();
    let diags: Vec<(String, String)> = state.diagnostics.into_updated(&state.ast, &state.files, &options).iter()
        .map(|d| (d.code().to_string(), d.span().map(|s| s.file.clone()).unwrap_or_default())).collect();
    for f in &state.files {
        let rejected = diags.iter().any(|(c, file)| c == "E002" && *file == f.relative_path);
        if rejected { out.push("rej".to_string()); continue; }
        let mut items = vec!["acc".to_string()];
        for d in &f.contents {
            if let Definition::Struct(s) = d {
                let s = s.borrow();
                items.push(format!("{}@{}:{}", s.identifier(), s.span().start.row, s.span().start.col));
            }
        }
        out.push(items.join(" "));
    }
    out.join(" / ")
}
