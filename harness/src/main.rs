// Implementation-side harness: runs /repo's crates on case files, one case per line.
mod buffer;
mod cli;
mod codec;
mod front;

use std::io::{BufRead, Write};

fn main() {
    let comp = std::env::args().nth(1).unwrap_or_default();
    // Panics are reported per case; keep the default hook quiet.
    std::panic::set_hook(Box::new(|_| {}));
    let handler: fn(&[&str]) -> String = match comp.as_str() {
        "codec" => codec::handle,
        "buffer" => buffer::handle,
        "cli" => cli::handle,
        "prep" => |t| front::prep(&t[1..]),
        _ => {
            eprintln!("unknown component {comp}");
            std::process::exit(2);
        }
    };
    let stdin = std::io::stdin();
    let out = std::io::stdout();
    let mut out = std::io::BufWriter::new(out.lock());
    for line in stdin.lock().lines() {
        let line = line.unwrap();
        let toks: Vec<&str> = line.split(' ').filter(|s| !s.is_empty()).collect();
        let res = match std::panic::catch_unwind(|| handler(&toks)) {
            Ok(r) => r,
            Err(_) => "panic".to_string(),
        };
        writeln!(out, "{res}").unwrap();
    }
}
