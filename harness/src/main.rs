// Implementation-side harness: runs /repo's crates on case files, one case per line.
mod buffer;
mod cli;
mod codec;
mod dump;
#[allow(dead_code)]
#[path = "/repo/slicec/src/definition_types.rs"]
mod definition_types;
mod front;

use std::io::{BufRead, Write};

/// Counting allocator: records the largest single allocation request since the last reset (C11: cost).
pub struct Counting;
pub static MAX_ALLOC: std::sync::atomic::AtomicUsize = std::sync::atomic::AtomicUsize::new(0);
unsafe impl std::alloc::GlobalAlloc for Counting {
    unsafe fn alloc(&self, l: std::alloc::Layout) -> *mut u8 {
        MAX_ALLOC.fetch_max(l.size(), std::sync::atomic::Ordering::Relaxed);
        // refuse absurd requests instead of letting the OS thrash: the request size is what is being measured
        if l.size() > (1usize << 31) { return std::ptr::null_mut(); }
        std::alloc::System.alloc(l)
    }
    unsafe fn dealloc(&self, p: *mut u8, l: std::alloc::Layout) { std::alloc::System.dealloc(p, l) }
    unsafe fn realloc(&self, p: *mut u8, l: std::alloc::Layout, n: usize) -> *mut u8 {
        MAX_ALLOC.fetch_max(n, std::sync::atomic::Ordering::Relaxed);
        if n > (1usize << 31) { return std::ptr::null_mut(); }
        std::alloc::System.realloc(p, l, n)
    }
}
#[global_allocator]
static GLOBAL: Counting = Counting;


fn main() {
    let comp = std::env::args().nth(1).unwrap_or_default();
    // Panics are reported per case; keep the default hook quiet.
    if std::env::var("VH_VERBOSE").is_err() { std::panic::set_hook(Box::new(|_| {})); }
    let handler: fn(&[&str]) -> String = match comp.as_str() {
        "codec" => codec::handle,
        "buffer" => buffer::handle,
        "cli" => cli::handle,
        "prep" => |t| front::prep(&t[1..]),
        "diags" => |t| front::diags(&t[1..]),
        "lookup" => |t| front::lookup(&t[1..]),
        "dump" => |t| dump::dump(&t[1..]),
        "visit" => |t| dump::visit(&t[1..]),
        "emit" => |t| front::emit(&t[1..]),
        "run" => |t| front::run(&t[1..]),
        "fileset" => |t| front::fileset(&t[1..]),
        _ => {
            eprintln!("unknown component {comp}");
            std::process::exit(2);
        }
    };
    let stdin = std::io::stdin();
    let out = std::io::stdout();
    let mut out = std::io::BufWriter::new(out.lock());
    for line in stdin.lock().lines() {
        let line = line.unwrap();
        let toks: Vec<&str> = line.split(' ').filter(|s| !s.is_empty()).collect();
        let res = match std::panic::catch_unwind(|| handler(&toks)) {
            Ok(r) => r,
            Err(_) => "panic".to_string(),
        };
        writeln!(out, "{res}").unwrap();
        out.flush().unwrap(); // so that a crash is attributed to the right case
    }
}
