(* Generator specifications (C19).
   spec <hex utf8>                         -> ok <hexpath> <n> <hexk> <hexv> ... | err <kind>
   render <hexpath> <trailing 0|1> <n> (<omit 0|1> <hexk> <hexv>)*   -> <hex of the written specification> *)
open Model
open Conv

let codes_of_utf8 (s : string) : n list =
  match utf8_decode (List.init (String.length s) (fun i -> n_of_int (Char.code s.[i]))) with
  | Some l -> l | None -> failwith "invalid utf-8 in case"
let str_of_hex h = if h = "-" then "" else String.init (String.length h / 2) (fun i -> Char.chr (int_of_string ("0x" ^ String.sub h (2 * i) 2)))
let hex_of_str s = if s = "" then "-" else String.concat "" (List.init (String.length s) (fun i -> Printf.sprintf "%02x" (Char.code s.[i])))
let hex_of_codes l = hex_of_str (string_of_codes l)

let handle toks = match toks with
  | ["spec"; h] ->
    (match parse (codes_of_utf8 (str_of_hex h)) with
     | POk (p, args) -> String.concat " " (["ok"; hex_of_codes p; string_of_int (List.length args)]
                          @ List.concat_map (fun (k, v) -> [hex_of_codes k; hex_of_codes v]) args)
     | PErr EDoubleEq -> "err doubleeq" | PErr EMissingPath -> "err missingpath" | PErr EMissingKey -> "err missingkey")
  | "render" :: p :: tr :: _n :: rest ->
    let rec args = function
      | o :: k :: v :: r -> ((o = "1"), (codes_of_utf8 (str_of_hex k), codes_of_utf8 (str_of_hex v))) :: args r
      | _ -> [] in
    let s = render_opt (codes_of_utf8 (str_of_hex p)) (args rest) @ (if tr = "1" then [n_of_int 44] else []) in
    hex_of_codes s
  | _ -> "?"
