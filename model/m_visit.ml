(* Visitor traversal (C20).  vis <module id|-> <ndefs> def*   (prefix encoding, see vlib/checks/c20.py)
   -> the event list of visit_file; the declarative pre-order of the file's tree is computed alongside and must agree *)
open Model
open Conv

let nat_of s = nat_of_int (int_of_string s)
let rec parse_tref = function
  | "T" :: l :: n :: r ->
    let rec go k r acc = if k = 0 then (List.rev acc, r) else let (t, r') = parse_tref r in go (k - 1) r' (t :: acc) in
    let (ns, r') = go (int_of_string n) r [] in (TR (nat_of l, ns), r')
  | _ -> failwith "tref"
let parse_field = function
  | "F" :: id :: r -> let (t, r') = parse_tref r in ({ vf_id = nat_of id; vf_ty = t }, r')
  | _ -> failwith "field"
let rec parse_n f k r acc = if k = 0 then (List.rev acc, r) else let (x, r') = f r in parse_n f (k - 1) r' (x :: acc)
let parse_def = function
  | "S" :: id :: n :: r -> let (fs, r') = parse_n parse_field (int_of_string n) r [] in (VStruct (nat_of id, fs), r')
  | "I" :: id :: n :: r ->
    let parse_op = function
      | "O" :: oid :: np :: r -> let (ps, r1) = parse_n parse_field (int_of_string np) r [] in
        (match r1 with nr :: r2 -> let (rs, r3) = parse_n parse_field (int_of_string nr) r2 [] in ({ vo_id = nat_of oid; vo_params = ps; vo_rets = rs }, r3) | _ -> failwith "op")
      | _ -> failwith "op" in
    let (ops, r') = parse_n parse_op (int_of_string n) r [] in (VIface (nat_of id, ops), r')
  | "E" :: id :: n :: r ->
    let parse_en = function
      | "N" :: eid :: nf :: r -> let (fs, r1) = parse_n parse_field (int_of_string nf) r [] in ((nat_of eid, fs), r1)
      | _ -> failwith "enumerator" in
    let (es, r') = parse_n parse_en (int_of_string n) r [] in (VEnum (nat_of id, es), r')
  | "C" :: id :: r -> (VCustom (nat_of id), r)
  | "A" :: id :: r -> let (t, r') = parse_tref r in (VAlias (nat_of id, t), r')
  | _ -> failwith "def"
let show_event = function
  | EFile -> "file" | EModule i -> "module:" ^ string_of_int (int_of_nat i) | EStruct i -> "struct:" ^ string_of_int (int_of_nat i)
  | EField i -> "field:" ^ string_of_int (int_of_nat i) | EIface i -> "interface:" ^ string_of_int (int_of_nat i)
  | EOp i -> "operation:" ^ string_of_int (int_of_nat i) | EParam i -> "parameter:" ^ string_of_int (int_of_nat i)
  | EEnum i -> "enum:" ^ string_of_int (int_of_nat i) | EEnumerator i -> "enumerator:" ^ string_of_int (int_of_nat i)
  | ECustom i -> "custom:" ^ string_of_int (int_of_nat i) | EAlias i -> "alias:" ^ string_of_int (int_of_nat i)
  | ETypeRef l -> "tr:" ^ string_of_int (int_of_nat l)

let handle = function
  | "vis" :: m :: n :: r ->
    let (defs, _) = parse_n parse_def (int_of_string n) r [] in
    let f = { vfile_module = (if m = "-" then None else Some (nat_of m)); vfile_defs = defs } in
    let ev = visit_file f in
    (if ev = preorder (tree_of_file f) then "" else "SPECMISMATCH ") ^ String.concat " " (List.map show_event ev)
  | _ -> "?"
