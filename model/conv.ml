(* Conversions between OCaml strings/ints and the extracted Coq numerals. No Extract Constant is used:
   N, Z, positive and nat are the extracted inductive types. *)
open Model

let rec pos_of_int n = if n = 1 then XH else if n land 1 = 0 then XO (pos_of_int (n lsr 1)) else XI (pos_of_int (n lsr 1))
let n_of_int n = if n = 0 then N0 else Npos (pos_of_int n)
let z_of_int n = if n = 0 then Z0 else if n > 0 then Zpos (pos_of_int n) else Zneg (pos_of_int (-n))
let rec pos_bits = function XH -> 1 | XO p | XI p -> 1 + pos_bits p
let rec int_of_pos = function XH -> 1 | XO p -> 2 * int_of_pos p | XI p -> 2 * int_of_pos p + 1
let int_of_n = function N0 -> 0 | Npos p -> int_of_pos p
let rec nat_of_int n = if n = 0 then O else S (nat_of_int (n - 1))
let rec int_of_nat = function O -> 0 | S k -> 1 + int_of_nat k

(* arbitrary-size decimal <-> positive, used only beyond 60 bits *)
let bits_of_decimal (s : string) : bool list =
  let digits = ref (List.init (String.length s) (fun i -> Char.code s.[i] - 48)) in
  let bits = ref [] in
  let is_zero l = List.for_all (fun d -> d = 0) l in
  while not (is_zero !digits) do
    let rem = ref 0 in
    digits := List.map (fun d -> let cur = !rem * 10 + d in rem := cur mod 2; cur / 2) !digits;
    bits := (!rem = 1) :: !bits
  done; !bits
let pos_of_bits = function [] -> failwith "zero" | _ :: rest -> List.fold_left (fun acc b -> if b then XI acc else XO acc) XH rest
let n_of_string s =
  if String.length s <= 17 then n_of_int (int_of_string s)
  else match bits_of_decimal s with [] -> N0 | b -> Npos (pos_of_bits b)
let z_of_string s =
  if s.[0] = '-' then (match n_of_string (String.sub s 1 (String.length s - 1)) with N0 -> Z0 | Npos p -> Zneg p)
  else (match n_of_string s with N0 -> Z0 | Npos p -> Zpos p)
let rec digits_of_pos p : int list =
  let double_plus ds c = let carry = ref c in
    let r = List.map (fun d -> let v = d * 2 + !carry in carry := v / 10; v mod 10) ds in
    if !carry > 0 then r @ [!carry] else r in
  match p with XH -> [1] | XO q -> double_plus (digits_of_pos q) 0 | XI q -> double_plus (digits_of_pos q) 1
let string_of_pos p =
  if pos_bits p <= 60 then string_of_int (int_of_pos p)
  else String.concat "" (List.rev_map string_of_int (digits_of_pos p))
let string_of_n = function N0 -> "0" | Npos p -> string_of_pos p
let string_of_z = function Z0 -> "0" | Zpos p -> string_of_pos p | Zneg p -> "-" ^ string_of_pos p

(* bytes as hex; "-" is the empty string *)
let hex_of_bytes (l : n list) : string =
  if l = [] then "-" else String.concat "" (List.map (fun b -> Printf.sprintf "%02x" (int_of_n b)) l)
let bytes_of_hex (s : string) : n list =
  if s = "-" then [] else List.init (String.length s / 2) (fun i -> n_of_int (int_of_string ("0x" ^ String.sub s (2 * i) 2)))
let string_of_codes (l : n list) : string = (* list of code points -> UTF-8 OCaml string *)
  let b = Buffer.create 16 in
  List.iter (fun c -> Buffer.add_utf_8_uchar b (Uchar.of_int (int_of_n c))) l; Buffer.contents b
