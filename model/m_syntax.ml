(* Slice lexer + parser (C02, C09).
   parse <hex text>                                  the whole text as one block starting at 1:1
   parseb (<row>:<col>:<hex>)*                       explicit source blocks
   lex <hex text>                                    tokens only: kind@r:c-r:c ...
   -> ok (file ...) | diags <code>@sspan ...    or    err token r:c-r:c | err eof r:c | err lex <kind> r:c-r:c *)
open Model
open Conv

let codes_of_utf8 = M_doc.codes_of_utf8
let str_of_hex = M_doc.str_of_hex
let hex_of_codes = M_doc.hex_of_codes
let s_of l = string_of_codes l
let loc l = Printf.sprintf "%d:%d" (int_of_nat l.l_row) (int_of_nat l.l_col)
let sp s = loc s.ss_start ^ "-" ^ loc s.ss_end
let prim_name_s p = s_of (prim_name p)
let attrs l = "(attrs " ^ String.concat " " (List.map (fun a -> Printf.sprintf "(a %s (%s) %s)" (s_of a.at_dir) (String.concat " " (List.map hex_of_codes a.at_args)) (sp a.at_span)) l) ^ ")"
let rec stref (STRef (s, o, a, d)) = Printf.sprintf "(tr %s %d %s %s)" (sp s) (if o then 1 else 0) (attrs a) (stdef d)
and stdef = function
  | DPrim p -> "(prim " ^ prim_name_s p ^ ")"
  | DSeq e -> "(seq " ^ stref e ^ ")"
  | DDict (k, v) -> "(dict " ^ stref k ^ " " ^ stref v ^ ")"
  | DRes (k, v) -> "(res " ^ stref k ^ " " ^ stref v ^ ")"
  | DNamed i -> Printf.sprintf "(ref %s %s)" (s_of i.si_val) (sp i.si_span)
let doc d = match d with [] -> "(doc -)" | (_, s0) :: _ -> Printf.sprintf "(doc %d %s %s)" (List.length d) (sp s0) (sp (snd (List.nth d (List.length d - 1))))
let tag = function None -> "-" | Some (z, s) -> string_of_z z ^ "@" ^ sp s
let field m = Printf.sprintf "(field %s %s %s %s %s %s %s)" (s_of m.sm_name.si_val) (sp m.sm_name.si_span) (tag m.sm_tag) (sp m.sm_span) (attrs m.sm_attrs) (doc m.sm_doc) (stref m.sm_type)
let param m = Printf.sprintf "(param %s %s %s %d %s %s %s)" (s_of m.sm_name.si_val) (sp m.sm_name.si_span) (tag m.sm_tag) (if m.sm_stream then 1 else 0) (sp m.sm_span) (attrs m.sm_attrs) (stref m.sm_type)
let b x = if x then "1" else "0"
let defn = function
  | DStruct (d, a, c, n, fs, s) -> Printf.sprintf "(struct %s %s %s %s %s %s (fields %s))" (s_of n.si_val) (sp n.si_span) (b c) (sp s) (attrs a) (doc d) (String.concat " " (List.map field fs))
  | DIface (d, a, n, bs, os, s) ->
    Printf.sprintf "(interface %s %s %s %s %s (bases %s) (ops %s))" (s_of n.si_val) (sp n.si_span) (sp s) (attrs a) (doc d)
      (String.concat " " (List.map (fun (STRef (s, _, a, t)) -> Printf.sprintf "(base %s %s %s)" (sp s) (attrs a) (stdef t)) bs))
      (String.concat " " (List.map (fun o -> Printf.sprintf "(op %s %s %s %s %s %s (params %s) (rets %s))" (s_of o.so_name.si_val) (sp o.so_name.si_span) (b o.so_idem) (sp o.so_span)
         (attrs o.so_attrs) (doc o.so_doc) (String.concat " " (List.map param o.so_params)) (String.concat " " (List.map param o.so_rets))) os))
  | DEnum (d, a, c, u, n, under, es, s) ->
    Printf.sprintf "(enum %s %s %s %s %s %s %s %s (enumerators %s))" (s_of n.si_val) (sp n.si_span) (b c) (b u) (sp s) (attrs a) (doc d)
      (match under with None -> "(under -)" | Some (STRef (s, o, a, t)) -> Printf.sprintf "(under %s %s %s %s)" (sp s) (b o) (attrs a) (stdef t))
      (String.concat " " (List.map (fun e -> Printf.sprintf "(enumerator %s %s %s %s %s %s %s (fields %s))" (s_of e.se_name.si_val) (sp e.se_name.si_span) (string_of_z e.se_value)
         (match e.se_explicit with Some s -> "explicit@" ^ sp s | None -> "implicit") (sp e.se_span) (attrs e.se_attrs) (doc e.se_doc)
         (match e.se_fields with None -> "-" | Some fs -> String.concat " " (List.map field fs))) es))
  | DCustom (d, a, n, s) -> Printf.sprintf "(custom %s %s %s %s %s)" (s_of n.si_val) (sp n.si_span) (sp s) (attrs a) (doc d)
  | DAlias (d, a, n, t, s) -> Printf.sprintf "(alias %s %s %s %s %s %s)" (s_of n.si_val) (sp n.si_span) (sp s) (attrs a) (doc d) (stref t)
let file f =
  Printf.sprintf "(file - %s %s (defs %s))"
    (match f.f_module with None -> "(module -)" | Some m -> Printf.sprintf "(module %s %s %s %s)" (s_of m.mo_name.si_val) (sp m.mo_name.si_span) (sp m.mo_span) (attrs m.mo_attrs))
    (attrs f.f_attrs) (String.concat " " (List.map defn f.f_defs))
let diag_name = function
  | PdDocOnModule -> "doc-on-module" | PdDocOnParam -> "doc-on-parameter" | PdSmallTuple -> "E011" | PdInvalidInt bse -> "E004:" ^ string_of_n bse
  | PdIntOverflow -> "E003" | PdTagBounds -> "E012" | PdModuleRequired -> "module-required"
let lexerr_name = function LxUnknownSymbol s -> "unknownsymbol:" ^ hex_of_codes s | LxUnterminatedString -> "unterminatedstring" | LxUnterminatedBlockComment -> "unterminatedblockcomment"
let show = function
  | POk_ (f, s) -> "ok " ^ file f ^ " | diags " ^ String.concat " " (List.map (fun (d, s) -> diag_name d ^ "@" ^ sp s) s.ps_diags)
  | PErr_ (PeToken ((l, _), e)) -> "err token " ^ loc l ^ "-" ^ loc e
  | PErr_ (PeEof l) -> "err eof " ^ loc l
  | PErr_ (PeLex ((l, k), e)) -> "err lex " ^ lexerr_name k ^ " " ^ loc l ^ "-" ^ loc e
  | PErr_ PeFuel -> "err fuel"
let tok_name = function
  | TkIdent s -> "sident:" ^ hex_of_codes s | TkInt s -> "int:" ^ hex_of_codes s | TkStr s -> "str:" ^ hex_of_codes s | TkDoc s -> "doc:" ^ hex_of_codes s
  | TkKw _ -> "kw" | TkLParen -> "(" | TkRParen -> ")" | TkLBracket -> "[" | TkRBracket -> "]" | TkDLBracket -> "[[" | TkDRBracket -> "]]"
  | TkLBrace -> "{" | TkRBrace -> "}" | TkLt -> "<" | TkGt -> ">" | TkComma -> "," | TkColon -> ":" | TkDColon -> "::" | TkEq -> "=" | TkQuestion -> "?"
  | TkArrow -> "->" | TkMinus -> "-"

let handle = function
  | ["parse"; h] -> show (parse_text (codes_of_utf8 (str_of_hex h)))
  | "parseb" :: bs ->
    show (parse_blocks (List.map (fun x -> match String.split_on_char ':' x with
      | [r; c; h] -> ({ l_row = nat_of_int (int_of_string r); l_col = nat_of_int (int_of_string c) }, codes_of_utf8 (str_of_hex h)) | _ -> failwith "block") bs))
  | ["lex"; h] ->
    let s = codes_of_utf8 (str_of_hex h) in
    let (ts, er) = lex_blocks [({ l_row = nat_of_int 1; l_col = nat_of_int 1 }, s)] false in
    String.concat " " (List.map (fun ((l, t), e) -> tok_name t ^ "@" ^ loc l ^ "-" ^ loc e) ts) ^ (match er with None -> "" | Some ((l, k), e) -> " ERR " ^ lexerr_name k ^ "@" ^ loc l ^ "-" ^ loc e)
  | _ -> "?"
