(* Type-reference resolution (C03).
   res <entry>* # <query>*
     entry: <key>;<kind>;<id>;<mscoped>;<under>     key/mscoped = dot-separated ints or '-'
            under = - | n:<global 0|1>:<name>:<attrs>:<mscope> | a:<node>:<prim|anon>:<attrs>
     query: <T|I|P>;<mscope>;<global>;<name>
   -> per query: B<id>:<attrs> | missing | mismatch | fuel *)
open Model
open Conv

let ints s = if s = "-" || s = "" then [] else List.map (fun x -> nat_of_int (int_of_string x)) (String.split_on_char '.' s)
let show_ints l = if l = [] then "-" else String.concat "." (List.map (fun n -> string_of_int (int_of_nat n)) l)
let kind_of = function
  | "struct" -> KStruct | "enum" -> KEnum | "custom" -> KCustom | "prim" -> KPrim | "anon" -> KAnon | "alias" -> KAlias
  | "iface" -> KIface | "module" -> KModule | "field" -> KField | "op" -> KOp | "param" -> KParam | "enumerator" -> KEnumerator
  | k -> failwith ("kind " ^ k)
let parse_under s = match String.split_on_char ':' s with
  | ["-"] -> None
  | ["n"; g; name; attrs; ms] -> Some (UNamed ({ tr_global = (g = "1"); tr_name = ints name; tr_attrs = ints attrs }, ints ms))
  | ["a"; node; k; attrs] -> Some (UAnon (nat_of_int (int_of_string node), kind_of k, ints attrs))
  | _ -> failwith "under"
let parse_entry s = match String.split_on_char ';' s with
  | [key; kind; id; ms; u] -> (ints key, { e_kind = kind_of kind; e_id = nat_of_int (int_of_string id); e_mscoped = ints ms; e_under = parse_under u })
  | _ -> failwith "entry"

let handle toks = match toks with
  | "res" :: rest ->
    let rec split acc = function "#" :: r -> (List.rev acc, r) | x :: r -> split (x :: acc) r | [] -> (List.rev acc, []) in
    let (es, qs) = split [] rest in
    let t = List.map parse_entry es in
    String.concat " " (List.map (fun q -> match String.split_on_char ';' q with
      | [x; ms; g; name] ->
        let x = (match x with "T" -> XType | "I" -> XIface | _ -> XPrimitive) in
        (match resolve t x (ints ms) { tr_global = (g = "1"); tr_name = ints name; tr_attrs = [] } with
         | Bound (id, a) -> Printf.sprintf "B%d:%s" (int_of_nat id) (show_ints a)
         | ErrMissing -> "missing" | ErrMismatch -> "mismatch" | RFuel -> "fuel")
      | _ -> "?") qs)
  | _ -> "?"
