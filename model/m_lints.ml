(* Lint levels (C13).
   lint <cli: a,b | -> F <file allows: a,b | -> ... E <ent: allows(a,b|-):parent(n|-)> ... D <diag: code(|E):file(n|-):scope(n|-)> ...
   -> one level per diagnostic (Error|Warning|Allowed), then "totals w e" *)
open Model
open Conv

let codes s = List.init (String.length s) (fun i -> n_of_int (Char.code s.[i]))
let strs s = if s = "-" then [] else List.map codes (String.split_on_char ',' s)
let optn s = if s = "-" then None else Some (nat_of_int (int_of_string s))

let handle = function
  | "lint" :: cli :: rest ->
    let rec take tag acc = function x :: r when x <> "F" && x <> "E" && x <> "D" -> take tag (x :: acc) r | r -> (List.rev acc, r) in
    let section tag r = (match r with t :: r' when t = tag -> take tag [] r' | _ -> ([], r)) in
    let (fs, r1) = section "F" rest in
    let (es, r2) = section "E" r1 in
    let (ds, _) = section "D" r2 in
    let ents = List.map (fun e -> match String.split_on_char ':' e with [a; p] -> { ent_allows = strs a; ent_parent = optn p } | _ -> failwith "ent") es in
    let c = { c_cli = strs cli; c_file_allows = List.map strs fs; c_ents = ents } in
    let diags = List.map (fun d -> match String.split_on_char ':' d with
      | [code; f; s] -> { d_lint = (if code = "E" then None else Some (codes code)); d_file = optn f; d_scope = optn s } | _ -> failwith "diag") ds in
    let show = function LError -> "Error" | LWarning -> "Warning" | LAllowed -> "Allowed" in
    let (w, e) = totals c diags in
    String.concat " " (List.map (fun d -> show (level_of c d)) diags) ^ Printf.sprintf " | totals %d %d" (int_of_nat w) (int_of_nat e)
  | _ -> "?"
