(* Lint levels (C13).
   lint <cli: a,b | -> F <file allows: a,b | -> ... E <ent: allows(a,b|-):parent(n|-)[:r1.c1.r2.c2:p(0|1):file:under(r1.c1.r2.c2|-)]> ... D <diag: code(|E):file(n|-):scope(n|m|-)[:r1.c1.r2.c2]> ...  (scope m: a scope that names no entity)
   -> one level per diagnostic (Error|Warning|Allowed), then "totals w e".  With locations given, a lint is scoped to the element it
   concerns (Sema/Lints.v concerned) before its level is computed. *)
open Model
open Conv

let codes s = List.init (String.length s) (fun i -> n_of_int (Char.code s.[i]))
let strs s = if s = "-" then [] else List.map codes (String.split_on_char ',' s)
let optn s = if s = "-" then None else Some (nat_of_int (int_of_string s))

let handle = function
  | "lint" :: cli :: rest ->
    let rec take tag acc = function x :: r when x <> "F" && x <> "E" && x <> "D" -> take tag (x :: acc) r | r -> (List.rev acc, r) in
    let section tag r = (match r with t :: r' when t = tag -> take tag [] r' | _ -> ([], r)) in
    let (fs, r1) = section "F" rest in
    let (es, r2) = section "E" r1 in
    let (ds, _) = section "D" r2 in
    let span4 t = (match List.map int_of_string (String.split_on_char '.' t) with
      | [a; b; c; d] -> { ls_lo = (nat_of_int a, nat_of_int b); ls_hi = (nat_of_int c, nat_of_int d) } | _ -> failwith "span") in
    let nowhere = { ls_lo = (nat_of_int 0, nat_of_int 0); ls_hi = (nat_of_int 0, nat_of_int 0) } in
    let ents = List.map (fun e -> match String.split_on_char ':' e with a :: p :: _ -> { ent_allows = strs a; ent_parent = optn p } | _ -> failwith "ent") es in
    let places = List.map (fun e -> match String.split_on_char ':' e with
      | [_; _; sp; pr; fl; un] -> { lp_span = span4 sp; lp_param = (pr = "1"); lp_file = nat_of_int (int_of_string fl); lp_under = (if un = "-" then None else Some (span4 un)) }
      | _ -> { lp_span = nowhere; lp_param = false; lp_file = nat_of_int 0; lp_under = None }) es in
    let c = { c_cli = strs cli; c_file_allows = List.map strs fs; c_ents = ents } in
    let diags = List.map (fun d -> match String.split_on_char ':' d with
      | [code; f; s] -> { d_lint = (if code = "E" then None else Some (codes code)); d_file = optn f; d_scope = optn s }
      | [code; f; "m"; sp] -> locate_unscoped c places { d_lint = (if code = "E" then None else Some (codes code)); d_file = optn f; d_scope = None } (if sp = "-" then None else Some (span4 sp))
      | [code; f; s; sp] -> locate c places { d_lint = (if code = "E" then None else Some (codes code)); d_file = optn f; d_scope = optn s } (if sp = "-" then None else Some (span4 sp))
      | _ -> failwith "diag") ds in
    let show = function LError -> "Error" | LWarning -> "Warning" | LAllowed -> "Allowed" in
    let (w, e) = totals c diags in
    String.concat " " (List.map (fun d -> show (level_of c d)) diags) ^ Printf.sprintf " | totals %d %d" (int_of_nat w) (int_of_nat e)
  | _ -> "?"
