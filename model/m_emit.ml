(* Diagnostic emission (C14/C09).
   emit <json|human> F (<hexname>:<hextext>) ... D (<level>;<hexcode>;<hexmsg>;<span|->;(<notespan|->~<hexmsg>) ...) ...
     span = <hexfile>@r:c-r:c      -> hex of the emitted text, then " | totals w e" *)
open Model
open Conv

let cps h = M_cli.codes_of_utf8 (M_cli.str_of_hex h)
let nat s = nat_of_int (int_of_string s)
let parse_span s = if s = "-" then None else
  match String.split_on_char '@' s with
  | [f; loc] -> (match String.split_on_char '-' loc with
      | [a; b] -> (match String.split_on_char ':' a, String.split_on_char ':' b with
          | [r1; c1], [r2; c2] -> Some { sp_file = cps f; sp_srow = nat r1; sp_scol = nat c1; sp_erow = nat r2; sp_ecol = nat c2 }
          | _ -> failwith "loc")
      | _ -> failwith "loc")
  | _ -> failwith "span"
let handle = function
  | "emit" :: fmt :: rest ->
    let rec take acc = function x :: r when x <> "F" && x <> "D" -> take (x :: acc) r | r -> (List.rev acc, r) in
    let section tag r = (match r with t :: r' when t = tag -> take [] r' | _ -> ([], r)) in
    let (fs, r1) = section "F" rest in
    let (ds, _) = section "D" r1 in
    let files = List.map (fun f -> match String.split_on_char ':' f with [n; t] -> (cps n, cps t) | _ -> failwith "file") fs in
    let diags = List.map (fun d -> match String.split_on_char ';' d with
      | lvl :: code :: msg :: sp :: notes ->
        { e_level = (match lvl with "Error" -> LError | "Warning" -> LWarning | _ -> LAllowed); e_code = cps code; e_msg = cps msg; e_span = parse_span sp;
          e_notes = List.map (fun n -> match String.split_on_char '~' n with [nsp; m] -> { n_msg = cps m; n_span = parse_span nsp } | _ -> failwith "note") (List.filter (fun x -> x <> "") notes) }
      | _ -> failwith "diag") ds in
    let out = if fmt = "json" then emit_json diags else emit_human files diags in
    let (w, e) = get_totals diags in
    M_cli.hex_of_codes (List.concat out) ^ Printf.sprintf " | totals %d %d" (int_of_nat w) (int_of_nat e)
  | _ -> "?"
