(* Doc comments (C16).
   doc <kind> <params: hex,hex|-> <rets: hex,hex|-> L <hexline|->...
     -> ok (overview -|<comp>...) (params (p <hexid> <comp>...)...) (returns (r <hexid|-> <comp>...)...) (see (s <hexscoped>)...) | lints <P<i>|R<i>>...
      | err lex <kind> | err syntax | err eof
     comp: (t <hex>) | (l <hex of the scoped identifier as written>)
   link <entry: k1.k2..;kind;id>... # <query: self;global 0|1;name>...   -> per query: to<id> | missing | notlinkable *)
open Model
open Conv

let codes_of_utf8 (s : string) : n list =
  match utf8_decode (List.init (String.length s) (fun i -> n_of_int (Char.code s.[i]))) with
  | Some l -> l | None -> failwith "invalid utf-8 in case"
let str_of_hex h = if h = "-" then "" else String.init (String.length h / 2) (fun i -> Char.chr (int_of_string ("0x" ^ String.sub h (2 * i) 2)))
let hex_of_str s = if s = "" then "-" else String.concat "" (List.init (String.length s) (fun i -> Printf.sprintf "%02x" (Char.code s.[i])))
let hex_of_codes l = hex_of_str (string_of_codes l)
let scoped_string g ids = (if g then "::" else "") ^ String.concat "::" (List.map string_of_codes ids)
let show_comp = function CText s -> "(t " ^ hex_of_codes s ^ ")" | CLink (g, ids) -> "(l " ^ hex_of_str (scoped_string g ids) ^ ")"
let show_msg m = String.concat " " (List.map show_comp m)
let kind_of = function
  | "struct" -> LkStruct | "field" -> LkField | "interface" -> LkInterface | "operation" -> LkOperation | "enum" -> LkEnum
  | "enumerator" -> LkEnumerator | "custom" -> LkCustom | "alias" -> LkAlias | "module" -> LkModule | "parameter" -> LkParameter
  | "primitive" -> LkPrimitive | k -> failwith ("kind " ^ k)
let names s = if s = "-" then [] else List.map (fun h -> codes_of_utf8 (str_of_hex h)) (String.split_on_char ',' s)
let ints s = if s = "-" || s = "" then [] else List.map (fun x -> nat_of_int (int_of_string x)) (String.split_on_char '.' s)
let show_lexerr = function
  | LMissingTag -> "missingtag" | LUnknownTag t -> "unknowntag:" ^ hex_of_codes t
  | LWrongContext (t, inl) -> "wrongcontext:" ^ hex_of_codes t ^ ":" ^ (if inl then "1" else "0")
  | LUnknownSymbol c -> "unknownsymbol:" ^ hex_of_codes [c] | LUnterminated -> "unterminated"

let handle = function
  | "doc" :: kind :: ps :: rs :: "L" :: lines ->
    let lines = List.map (fun h -> codes_of_utf8 (str_of_hex h)) lines in
    (match parse_comment lines with
     | Ok d ->
       let lints = tag_lints (kind_of kind) (names ps) (names rs) d in
       Printf.sprintf "ok (overview %s) (params %s) (returns %s) (see %s) | lints %s"
         (match d.d_overview with None -> "-" | Some m -> show_msg m)
         (String.concat " " (List.map (fun (i, m) -> "(p " ^ hex_of_codes i ^ " " ^ show_msg m ^ ")") d.d_params))
         (String.concat " " (List.map (fun (i, m) -> "(r " ^ (match i with Some i -> hex_of_codes i | None -> "-") ^ " " ^ show_msg m ^ ")") d.d_returns))
         (String.concat " " (List.map (fun (g, ids) -> "(s " ^ hex_of_str (scoped_string g ids) ^ ")") d.d_see))
         (String.concat " " (List.map (function RParam i -> "P" ^ string_of_int (int_of_nat i) | RReturns i -> "R" ^ string_of_int (int_of_nat i)) lints))
     | Err (PLex e) -> "err lex " ^ show_lexerr e
     | Err PSyntax -> "err syntax" | Err PEof -> "err eof" | Err PFuel -> "err fuel")
  | "link" :: rest ->
    let rec split acc = function "#" :: r -> (List.rev acc, r) | x :: r -> split (x :: acc) r | [] -> (List.rev acc, []) in
    let (es, qs) = split [] rest in
    let t = List.map (fun e -> match String.split_on_char ';' e with
      | [key; kind; id] -> (ints key, (kind_of kind, nat_of_int (int_of_string id))) | _ -> failwith "entry") es in
    String.concat " " (List.map (fun q -> match String.split_on_char ';' q with
      | [self; g; name] -> (match resolve_link t (ints self) (g = "1") (ints name) with LinkTo e -> "to" ^ string_of_int (int_of_nat e) | LinkMissing -> "missing" | LinkNotLinkable _ -> "notlinkable")
      | _ -> "?") qs)
  | _ -> "?"
