(* The driver (C07, C18).
   main <diags: E|L, comma separated or -> <dry 0|1> G (missing | run:<stdin 0|1>:<stderr 0|1>:<status|sig>:<hex stdout|->)* FS (<hexpath>=<I|W|F>)*
   -> runs=<0|1> exit=<0|1> errors=<n> | <per generator: err=<kind|-> files=<hexpath>:<I|W|F>,.. msgs=<n>> ... *)
open Model
open Conv

let handle = function
  | "main" :: ds :: dry :: rest ->
    let rec split acc = function "FS" :: r -> (List.rev acc, r) | x :: r -> split (x :: acc) r | [] -> (List.rev acc, []) in
    let (gs, fsl) = (match rest with "G" :: r -> split [] r | r -> split [] r) in
    let table = List.map (fun x -> match String.split_on_char '=' x with [p; r] -> (bytes_of_hex p, r) | _ -> failwith "fs") fsl in
    let fs (f : genfile) = match List.assoc_opt f.gf_path table with Some "I" -> FsIdentical | Some "F" -> FsFailed | _ -> FsWritten in
    let beh x = match String.split_on_char ':' x with
      | ["missing"] -> BCannotStart
      | ["run"; i; e; st; out] -> BRuns (i = "1", e = "1", (if st = "sig" then None else Some (z_of_string st)), bytes_of_hex out)
      | _ -> failwith "behaviour" in
    let diags = if ds = "-" then [] else List.map (fun k -> { d_lint = (if k = "E" then None else Some [n_of_int 76]); d_file = None; d_scope = None }) (String.split_on_char ',' ds) in
    let c = { rc_diags = diags; rc_ctx = { c_cli = []; c_file_allows = []; c_ents = [] }; rc_dry_run = (dry = "1"); rc_generators = List.map beh gs; rc_fs = fs } in
    let show_err = function
      | None -> "-" | Some GeSpawn -> "spawn" | Some GeBrokenPipe -> "brokenpipe" | Some GeStderr -> "stderr" | Some (GeStatus z) -> "status:" ^ string_of_z z
      | Some GeInterrupted -> "interrupted" | Some (GeDecode e) -> "decode:" ^ M_codec.show_err e in
    let show_fs = function FsIdentical -> "I" | FsWritten -> "W" | FsFailed -> "F" in
    Printf.sprintf "runs=%d exit=%d errors=%d | %s" (if generation_runs c then 1 else 0) (int_of_nat (exit_status c)) (int_of_nat (error_count c))
      (String.concat " ; " (List.map (fun r -> Printf.sprintf "err=%s files=%s msgs=%d" (show_err r.gr_error)
         (String.concat "," (List.map (fun (f, x) -> hex_of_bytes f.gf_path ^ ":" ^ show_fs x) r.gr_files)) (List.length r.gr_messages)) (gen_results c)))
  | _ -> "?"
