(* Rule validation (C04).  val <ndefs> def*  (prefix encoding, see vlib/checks/c04.py) -> sorted error codes or "ok" *)
open Model
open Conv

let nat_of s = nat_of_int (int_of_string s)
let rec parse_n f k r acc = if k = 0 then (List.rev acc, r) else let (x, r') = f r in parse_n f (k - 1) r' (x :: acc)
let rec parse_tyref = function
  | o :: r -> let (t, r') = parse_ty r in (RT ((o = "1"), t), r')
  | [] -> failwith "tyref"
and parse_ty = function
  | "P" :: n :: r -> (RPrim (nat_of n), r)
  | "S" :: n :: r -> (RStruct (nat_of n), r)
  | "E" :: n :: r -> (REnum (nat_of n), r)
  | "C" :: r -> (RCustom, r)
  | "Q" :: r -> let (t, r') = parse_tyref r in (RSeq t, r')
  | "D" :: r -> let (k, r1) = parse_tyref r in let (v, r2) = parse_tyref r1 in (RDict (k, v), r2)
  | "R" :: r -> let (s, r1) = parse_tyref r in let (f, r2) = parse_tyref r1 in (RRes (s, f), r2)
  | _ -> failwith "ty"
let parse_member = function
  | name :: tag :: st :: r -> let (t, r') = parse_tyref r in
    ({ m_name = nat_of name; m_tag = (if tag = "-" then None else Some (z_of_string tag)); m_ty = t; m_stream = (st = "1") }, r')
  | _ -> failwith "member"
let parse_members = function n :: r -> parse_n parse_member (int_of_string n) r [] | [] -> failwith "members"
let parse_def = function
  | "S" :: id :: name :: c :: r -> let (ms, r') = parse_members r in (DS (nat_of id, { s_name = nat_of name; s_compact = (c = "1"); s_fields = ms }), r')
  | "E" :: id :: name :: c :: u :: under :: n :: r ->
    let parse_enr = function
      | nm :: v :: "-" :: r -> ({ en_name = nat_of nm; en_value = z_of_string v; en_fields = None }, r)
      | nm :: v :: "+" :: r -> let (ms, r') = parse_members r in ({ en_name = nat_of nm; en_value = z_of_string v; en_fields = Some ms }, r')
      | _ -> failwith "enr" in
    let (es, r') = parse_n parse_enr (int_of_string n) r [] in
    let under = if under = "-" then None else (match String.split_on_char ':' under with [p; o] -> Some (nat_of p, (o = "1")) | _ -> failwith "under") in
    (DE (nat_of id, { ed_name = nat_of name; ed_compact = (c = "1"); ed_unchecked = (u = "1"); ed_under = under; ed_ens = es }), r')
  | "I" :: id :: name :: nb :: r ->
    let (bases, r1) = parse_n (function b :: r -> (nat_of b, r) | [] -> failwith "base") (int_of_string nb) r [] in
    let parse_op = function
      | nm :: tup :: r -> let (ps, r1) = parse_members r in let (rs, r2) = parse_members r1 in
        ({ o_name = nat_of nm; o_params = ps; o_rets = rs; o_tuple = (tup = "1") }, r2)
      | _ -> failwith "op" in
    (match r1 with n :: r2 -> let (ops, r3) = parse_n parse_op (int_of_string n) r2 [] in (DI (nat_of id, { i_name = nat_of name; i_bases = bases; i_ops = ops }), r3) | [] -> failwith "iface")
  | "C" :: name :: r -> (DC (nat_of name), r)
  | "A" :: name :: r -> let (t, r') = parse_tyref r in (DA (nat_of name, t), r')
  | _ -> failwith "def"

(* attrs <n> (place returns k (hexdirective m hexarg{m}){k}){n} -> the attribute diagnostics of the model, sorted, or "ok" *)
let place_of = function
  | "Module" -> PlModule | "Struct" -> PlStruct | "Field" -> PlField | "Interface" -> PlInterface | "Operation" -> PlOperation | "Parameter" -> PlParameter
  | "Enum" -> PlEnum | "Enumerator" -> PlEnumerator | "CustomType" -> PlCustomType | "TypeAlias" -> PlTypeAlias | "TypeRef" -> PlTypeRef | "SliceFile" -> PlSliceFile
  | x -> failwith ("place " ^ x)
let acode_name = function E023 -> "E023" | E024 -> "E024" | E026 -> "E026" | E027 -> "E027" | E028 -> "E028"
let attrs_handle ts =
  let toks = ref ts in
  let next () = match !toks with t :: r -> toks := r; t | [] -> failwith "attrs: out of tokens" in
  let rec times n f = if n = 0 then [] else let x = f () in x :: times (n - 1) f in
  let many f = let n = int_of_string (next ()) in times n f in
  let attr () = let d = bytes_of_hex (next ()) in let args = many (fun () -> bytes_of_hex (next ())) in { ad_dir = d; ad_args = args } in
  let element () = let p = place_of (next ()) in let r = next () = "1" in let l = many attr in { el_place = p; el_returns = r; el_attrs = l } in
  let es = many element in
  match List.sort compare (List.map acode_name (check_attributes es)) with [] -> "ok" | l -> String.concat " " l

(* scoped NFILES file.. NKEYS key..     (Sema/Scoped.v: the lookup table and the redefinition pass over several files)
   file = ID NMOD(or -1) name.. NDEFS def..;  def = S n K f.. | E n K (m J x..).. | I n K (m NP p.. NR r..).. | O n;  key = LEN name..
   gives: the names reported (sorted) or "ok" | what each key leads to *)
let scoped_handle ts =
  let toks = ref ts in
  let next () = match !toks with x :: r -> toks := r; x | [] -> failwith "scoped: end of input" in
  let int () = int_of_string (next ()) in
  let nat () = nat_of_int (int ()) in
  let rec rep n f = if n <= 0 then [] else let x = f () in x :: rep (n - 1) f in
  let names () = let n = int () in rep n nat in
  let def () = match next () with
    | "S" -> let n = nat () in ScStruct (n, names ())
    | "E" -> let n = nat () in let k = int () in ScEnum (n, rep k (fun () -> let m = nat () in (m, names ())))
    | "I" -> let n = nat () in let k = int () in
      ScIface (n, rep k (fun () -> let m = nat () in let ps = names () in let rs = names () in { sco_name = m; sco_params = ps; sco_rets = rs }))
    | "O" -> ScOther (nat ())
    | _ -> failwith "scoped: definition" in
  let file () =
    let id = nat () in let nm = int () in let m = if nm < 0 then None else Some (rep nm nat) in
    let nd = int () in { sf_id = id; sf_module = m; sf_defs = rep nd def } in
  let nf = int () in
  let fs = rep nf file in
  let nk = int () in
  let keys = rep nk names in
  let dotted l = String.concat "." (List.map (fun n -> string_of_int (int_of_nat n)) l) in
  let report = List.sort compare (List.map int_of_nat (redef_report fs)) in
  (* the sixteen primitive types are names 100..115 *)
  let t = sc_table_with (List.init 16 (fun i -> nat_of_int (100 + i))) fs in
  let look k = match sc_lookup k t with
    | None -> "none"
    | Some (ScModule m) -> "module " ^ dotted m
    | Some (ScEntity (f, p)) -> Printf.sprintf "entity %d %s" (int_of_nat f) (dotted p)
    | Some (ScPrimitive p) -> Printf.sprintf "primitive %d" (int_of_nat p) in
  (if report = [] then "ok" else String.concat " " (List.map string_of_int report)) ^ " | " ^ String.concat " ; " (List.map look keys)

let handle = function
  | "scoped" :: ts -> scoped_handle ts
  | "val" :: n :: r ->
    let (p, _) = parse_n parse_def (int_of_string n) r [] in
    let codes = List.sort compare (List.map int_of_nat (check p)) in
    if codes = [] then "ok" else String.concat " " (List.map (Printf.sprintf "E%03d") codes)
  | "attrs" :: ts -> attrs_handle ts
  | _ -> "?"
