(* The input file set (C17).
   fileset K (<hexpath>=<n|f|d>)* C (<hexpath>=<id>)* L (<hexdir>=<hexchild>,..|!)* U <hexpath>* S <hexarg>* R <hexarg>*
   -> (S|R):<hexpath> ... || <kind>:<hexpath> ... || parses=<0|1> *)
open Model
open Conv

let path h = M_doc.codes_of_utf8 (M_doc.str_of_hex h)
let handle = function
  | "fileset" :: rest ->
    let sections = ref [] and cur = ref "" and acc = ref [] in
    let flush () = if !cur <> "" then sections := (!cur, List.rev !acc) :: !sections in
    List.iter (fun t -> if List.mem t ["K"; "C"; "L"; "U"; "S"; "R"] then (flush (); cur := t; acc := []) else acc := t :: !acc) rest;
    flush ();
    let sec k = try List.assoc k !sections with Not_found -> [] in
    let kv x = match String.split_on_char '=' x with [a; b] -> (a, b) | _ -> failwith "kv" in
    let fs = {
      fs_kind = List.map (fun x -> let (p, k) = kv x in (path p, (match k with "f" -> KFile | "d" -> KDir | _ -> KNone))) (sec "K");
      fs_canon = List.map (fun x -> let (p, i) = kv x in (path p, nat_of_int (int_of_string i))) (sec "C");
      fs_children = List.map (fun x -> let (p, c) = kv x in (path p, (if c = "!" then None else Some (if c = "" then [] else List.map path (String.split_on_char ',' c))))) (sec "L");
      fs_unreadable = List.map path (sec "U") } in
    let r = resolve_files (nat_of_int (List.length (sec "C") + 2)) fs (List.map path (sec "S")) (List.map path (sec "R")) in
    let h p = M_doc.hex_of_codes p in
    let diag = function
      | DNotFound p -> "notfound:" ^ h p | DNotSlice p -> "notslice:" ^ h p | DDirAsSource p -> "dir:" ^ h p | DUnreadableDir p -> "unreadabledir:" ^ h p
      | DCanon p -> "canon:" ^ h p | DUnreadable p -> "unreadable:" ^ h p | DDuplicate p -> "duplicate:" ^ h p in
    Printf.sprintf "%s || %s || parses=%d"
      (String.concat " " (List.map (fun x -> (if x.fp_source then "S:" else "R:") ^ h x.fp_path) r.rs_files))
      (String.concat " " (List.map diag r.rs_diags)) (if parses r then 1 else 0)
  | _ -> "?"
