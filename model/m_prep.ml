(* Preprocessor (C06).  prep <symbols comma-separated or -> <hex text>  ->  rej | acc <line>@<row>:<col> ...
   (every selected source line with the location of its first non-blank character); the specification machine is
   run alongside and must agree. *)
open Model
open Conv

let handle toks = match toks with
  | ["prep"; syms; h] ->
    let text = M_cli.codes_of_utf8 (M_cli.str_of_hex h) in
    let s0 = if syms = "-" then [] else List.map (fun s -> M_cli.codes_of_utf8 s) (String.split_on_char ',' syms) in
    let r = run_text text s0 and r2 = run_text_spec text s0 in
    let lines = Array.of_list (split_lines text) in
    let show = function
      | None -> "rej"
      | Some (_, sel) -> String.concat " " ("acc" :: List.map (fun n ->
          let i = int_of_nat n in let (row, col) = line_start_loc n lines.(i) in
          Printf.sprintf "%d@%d:%d" i (int_of_nat row) (int_of_nat col)) sel) in
    (if (match r, r2 with None, None -> true | Some (_, a), Some (_, b) -> a = b | _ -> false) then "" else "SPECMISMATCH ") ^ show r
  | _ -> "?"
