(* Generator request (C08).  req <hex> -> ok <bytes left> <ids well-founded 0|1> <request as an S-expression> | err <kind> *)
open Model
open Conv

let rec show = function
  | SBool b -> if b then "t" else "f"
  | SStr s -> "s:" ^ hex_of_bytes s
  | SN n -> "n:" ^ string_of_n n
  | SZ z -> "z:" ^ string_of_z z
  | SSeq l -> "(q " ^ String.concat " " (List.map show l) ^ ")"
  | SDict l -> "(d " ^ String.concat " " (List.map (fun (k, v) -> "(" ^ show k ^ " " ^ show v ^ ")") l) ^ ")"
  | SStruct fs -> "(r " ^ String.concat " " (List.map (function Some x -> show x | None -> "-") fs) ^ ")"
  | SVariant (d, fs) -> "(v " ^ string_of_z d ^ " " ^ String.concat " " (List.map (function Some x -> show x | None -> "-") fs) ^ ")"

let handle = function
  | ["req"; h] ->
    (match dec_request (bytes_of_hex h) with
     | DOk (r, rest) -> Printf.sprintf "ok %d %d (req %s %s %s %s)" (List.length rest) (if request_ids_wellfounded r then 1 else 0)
                          (show r.rq_operation) (show r.rq_sources) (show r.rq_references) (show r.rq_arguments)
     | DErr e -> "err " ^ M_codec.show_err e)
  | _ -> "?"
