(* Generator request (C08).  req <hex> -> ok <bytes left> <ids well-founded 0|1> <request as an S-expression> | err <kind> *)
open Model
open Conv

let rec show = function
  | SBool b -> if b then "t" else "f"
  | SStr s -> "s:" ^ hex_of_bytes s
  | SN n -> "n:" ^ string_of_n n
  | SZ z -> "z:" ^ string_of_z z
  | SSeq l -> "(q " ^ String.concat " " (List.map show l) ^ ")"
  | SDict l -> "(d " ^ String.concat " " (List.map (fun (k, v) -> "(" ^ show k ^ " " ^ show v ^ ")") l) ^ ")"
  | SStruct fs -> "(r " ^ String.concat " " (List.map (function Some x -> show x | None -> "-") fs) ^ ")"
  | SVariant (d, fs) -> "(v " ^ string_of_z d ^ " " ^ String.concat " " (List.map (function Some x -> show x | None -> "-") fs) ^ ")"

(* ---- the converter model: conv <prefix-coded file> -> the SliceFile value it produces.  {x} = a count followed by that many x.
   file   = hexpath hexmodule ATTRS(module) ATTRS(file) {DEF}
   ATTRS  = {hexdirective {hexarg}}
   DOC    = - | doc MSG {hexlink} {hexname MSG} {(hexname|-) MSG}        (overview, see, params, returns)
   MSG    = {(t hextext) | (l hexid)}
   TREF   = TARGET opt ATTRS ;  TARGET = n hexid | p hexname | q TREF | d TREF TREF | r TREF TREF
   FIELD  = hexname ATTRS DOC TAG TREF ;  PARAM = hexname ATTRS TAG stream TREF ;  TAG = - | int
   DEF    = struct hexname ATTRS DOC compact {FIELD} | iface hexname ATTRS DOC {hexid} {OP}
          | enum hexname ATTRS DOC compact unchecked (-|hexunder) {ENUMERATOR} | custom hexname ATTRS DOC | alias hexname ATTRS DOC TREF
   OP     = hexname ATTRS DOC idempotent {PARAM} {PARAM} ;  ENUMERATOR = hexname ATTRS DOC value {FIELD} ---- *)
let toks : string list ref = ref []
let next () = match !toks with t :: r -> toks := r; t | [] -> failwith "conv: out of tokens"
let str () = bytes_of_hex (next ())
let int () = int_of_string (next ())
let bool_ () = next () = "1"
let rec times n f = if n = 0 then [] else let x = f () in x :: times (n - 1) f
let many f = let n = int () in times n f
let attr () = let d = str () in let args = many str in { ca_dir = d; ca_args = args }
let attrs () = many attr
let msg () = many (fun () -> match next () with "t" -> MText (str ()) | "l" -> MLink (str ()) | x -> failwith ("conv: message " ^ x))
let doc () = match next () with
  | "-" -> None
  | "doc" ->
    let ov = msg () in let see = many str in
    let ps = many (fun () -> let n = str () in let m = msg () in (n, m)) in
    let rs = many (fun () -> let n = (match next () with "-" -> None | h -> Some (bytes_of_hex h)) in let m = msg () in (n, m)) in
    Some { cd_overview = ov; cd_see = see; cd_params = ps; cd_returns = rs }
  | x -> failwith ("conv: doc " ^ x)
let tag () = match next () with "-" -> None | v -> Some (z_of_string v)
let rec tref () = let t = target () in let o = bool_ () in let a = attrs () in CRef (t, o, a)
and target () = match next () with
  | "n" -> GNamed (str ()) | "p" -> GPrim (str ())
  | "q" -> GSeq (tref ())
  | "d" -> let k = tref () in let v = tref () in GDict (k, v)
  | "r" -> let s = tref () in let f = tref () in GRes (s, f)
  | x -> failwith ("conv: target " ^ x)
let field () = let n = str () in let a = attrs () in let d = doc () in let t = tag () in let ty = tref () in
  { cf_name = n; cf_attrs = a; cf_doc = d; cf_tag = t; cf_type = ty }
let param () = let n = str () in let a = attrs () in let t = tag () in let s = bool_ () in let ty = tref () in
  { cp_name = n; cp_attrs = a; cp_tag = t; cp_stream = s; cp_type = ty }
let op () = let n = str () in let a = attrs () in let d = doc () in let i = bool_ () in let ps = many param in let rs = many param in
  { co_name = n; co_attrs = a; co_doc = d; co_idem = i; co_params = ps; co_rets = rs }
let enumerator () = let n = str () in let a = attrs () in let d = doc () in let v = z_of_string (next ()) in let fs = many field in
  { ce_name = n; ce_attrs = a; ce_doc = d; ce_value = v; ce_fields = fs }
let def () = match next () with
  | "struct" -> let n = str () in let a = attrs () in let d = doc () in let c = bool_ () in let fs = many field in CStruct (n, a, d, c, fs)
  | "iface" -> let n = str () in let a = attrs () in let d = doc () in let bs = many str in let os = many op in CIface (n, a, d, bs, os)
  | "enum" -> let n = str () in let a = attrs () in let d = doc () in let c = bool_ () in let u = bool_ () in
    let un = (match next () with "-" -> None | h -> Some (bytes_of_hex h)) in let es = many enumerator in CEnum (n, a, d, c, u, un, es)
  | "custom" -> let n = str () in let a = attrs () in let d = doc () in CCustom (n, a, d)
  | "alias" -> let n = str () in let a = attrs () in let d = doc () in let t = tref () in CAlias (n, a, d, t)
  | x -> failwith ("conv: definition " ^ x)
let conv_handle ts =
  toks := ts;
  let p = str () in let m = str () in let ma = attrs () in let fa = attrs () in let ds = many def in
  if !toks <> [] then failwith "conv: tokens left over";
  show (conv_file { cfl_path = p; cfl_module = m; cfl_mattrs = ma; cfl_fattrs = fa; cfl_defs = ds })

let handle = function
  | ["req"; h] ->
    (match dec_request (bytes_of_hex h) with
     | DOk (r, rest) -> Printf.sprintf "ok %d %d (req %s %s %s %s)" (List.length rest) (if request_ids_wellfounded r then 1 else 0)
                          (show r.rq_operation) (show r.rq_sources) (show r.rq_references) (show r.rq_arguments)
     | DErr e -> "err " ^ M_codec.show_err e)
  | "conv" :: ts -> conv_handle ts
  | _ -> "?"
