(* Driver for the codec model (C10, C11). One case per line. *)
open Model
open Conv

let rec parse_ty (s : string) : ty =
  let n = String.length s in
  let inner pre = String.sub s (String.length pre + 1) (n - String.length pre - 2) in
  let starts p = n > String.length p && String.sub s 0 (String.length p + 1) = p ^ "(" in
  if starts "seq" then TSeq (parse_ty (inner "seq"))
  else if starts "dict" || starts "bdict" then begin
    let body = inner (if starts "dict" then "dict" else "bdict") in
    let i = String.index body ',' in
    let k = String.sub body 0 i and v = String.sub body (i + 1) (String.length body - i - 1) in
    match parse_ty k with TP p -> TDict (p, parse_ty v) | _ -> failwith "key type"
  end else TP (match s with
    | "bool" -> PBool | "u8" -> PU (nat_of_int 1) | "u16" -> PU (nat_of_int 2) | "u32" | "f32" -> PU (nat_of_int 4)
    | "u64" | "f64" -> PU (nat_of_int 8) | "i8" -> PI (nat_of_int 1) | "i16" -> PI (nat_of_int 2)
    | "i32" -> PI (nat_of_int 4) | "i64" -> PI (nat_of_int 8) | "varuint" | "size" -> PVarU | "varint" -> PVarI
    | "str" -> PStr | _ -> failwith ("type " ^ s))

(* values as prefix token streams: b 0|1, n <dec>, z <dec>, s <hex>, L <count> v.., D <count> k v .. *)
let parse_pval toks = match toks with
  | "b" :: v :: r -> (KBool (v = "1"), r)
  | "n" :: v :: r -> (KN (n_of_string v), r)
  | "z" :: v :: r -> (KZ (z_of_string v), r)
  | "s" :: v :: r -> (KStr (bytes_of_hex v), r)
  | _ -> failwith "pval"
let rec parse_val toks = match toks with
  | "L" :: c :: r -> let rec go k r acc = if k = 0 then (VSeq (List.rev acc), r) else let (v, r') = parse_val r in go (k - 1) r' (v :: acc) in
                     go (int_of_string c) r []
  | "D" :: c :: r -> let rec go k r acc = if k = 0 then (VDict (List.rev acc), r) else
                       let (kk, r1) = parse_pval r in let (v, r2) = parse_val r1 in go (k - 1) r2 ((kk, v) :: acc) in
                     go (int_of_string c) r []
  | _ -> let (p, r) = parse_pval toks in (VP p, r)
let show_pval = function
  | KBool b -> "b " ^ (if b then "1" else "0") | KN v -> "n " ^ string_of_n v
  | KZ z -> "z " ^ string_of_z z | KStr s -> "s " ^ hex_of_bytes s
let rec show_val = function
  | VP p -> show_pval p
  | VSeq l -> String.concat " " (("L " ^ string_of_int (List.length l)) :: List.map show_val l)
  | VDict l -> String.concat " " (("D " ^ string_of_int (List.length l)) :: List.map (fun (k, v) -> show_pval k ^ " " ^ show_val v) l)
let show_err = function
  | EEob -> "eob" | EIllegalBool -> "illegal" | EOutOfRange -> "range" | EInvalidUtf8 -> "utf8"
  | EDupKey -> "dupkey" | EIllegalValue -> "illegal" | EFuel -> "fuel"

let show_diag d = Printf.sprintf "X %s %s %s" (string_of_n d.gd_level) (hex_of_bytes d.gd_message)
  (match d.gd_source with Some s -> hex_of_bytes s | None -> "none")
let handle (toks : string list) : string =
  match toks with
  | "enc" :: t :: v ->
    let (v, _) = parse_val v in
    (match enc_val (parse_ty t) v with Some b -> "ok " ^ hex_of_bytes b | None -> "refused")
  | ["dec"; t; h] ->
    (match t with
     | "varint32" -> (match dec_varint_in (z_of_string "-2147483648") (z_of_string "2147483647") (bytes_of_hex h) with
                      | DOk (z, r) -> Printf.sprintf "ok z %s | %d" (string_of_z z) (List.length r) | DErr e -> "err " ^ show_err e)
     | "varint@u64" | "varint@usize" | "varint@u8" | "varint@i8" | "varint@u16" | "varint@i16" ->
       let (lo, hi) = (match t with "varint@u64" | "varint@usize" -> ("0", "18446744073709551615") | "varint@u8" -> ("0", "255") | "varint@i8" -> ("-128", "127")
                                  | "varint@u16" -> ("0", "65535") | _ -> ("-32768", "32767")) in
       (match dec_varint_in (z_of_string lo) (z_of_string hi) (bytes_of_hex h) with
        | DOk (z, r) -> Printf.sprintf "ok z %s | %d" (string_of_z z) (List.length r) | DErr e -> "err " ^ show_err e)
     | "varuint@i8" | "varuint@u16" | "varuint@i64" ->
       let hi = (match t with "varuint@i8" -> "127" | "varuint@u16" -> "65535" | _ -> "9223372036854775807") in
       (match dec_varuint_max (n_of_string hi) (bytes_of_hex h) with
        | DOk (v, r) -> Printf.sprintf "ok n %s | %d" (string_of_n v) (List.length r) | DErr e -> "err " ^ show_err e)
     | "varuint32" -> (match dec_varuint_max (n_of_string "4294967295") (bytes_of_hex h) with
                      | DOk (v, r) -> Printf.sprintf "ok n %s | %d" (string_of_n v) (List.length r) | DErr e -> "err " ^ show_err e)
     | "genfile" -> (match dec_generated_file (bytes_of_hex h) with
                      | DOk (f, r) -> Printf.sprintf "ok G %s %s | %d" (hex_of_bytes f.gf_path) (hex_of_bytes f.gf_contents) (List.length r) | DErr e -> "err " ^ show_err e)
     | "glevel" -> (match dec_level (bytes_of_hex h) with
                      | DOk (v, r) -> Printf.sprintf "ok n %s | %d" (string_of_n v) (List.length r) | DErr e -> "err " ^ show_err e)
     | "gdiag" -> (match dec_diagnostic (bytes_of_hex h) with
                      | DOk (d, r) -> Printf.sprintf "ok %s | %d" (show_diag d) (List.length r) | DErr e -> "err " ^ show_err e)
     | "reply" -> (match dec_reply (bytes_of_hex h) with
                      | DOk ((fs, ds), r) -> Printf.sprintf "ok %s ; %s | %d"
                            (String.concat " " (List.map (fun f -> Printf.sprintf "G %s %s" (hex_of_bytes f.gf_path) (hex_of_bytes f.gf_contents)) fs))
                            (String.concat " " (List.map show_diag ds)) (List.length r)
                      | DErr e -> "err " ^ show_err e)
     | "skiptags" -> (match skip_tagged_fields (bytes_of_hex h) with
                      | DOk (_, r) -> Printf.sprintf "ok u | %d" (List.length r) | DErr e -> "err " ^ show_err e)
     | _ -> (match dec_val (parse_ty t) (bytes_of_hex h) with
             | DOk (v, r) -> Printf.sprintf "ok %s | %d" (show_val v) (List.length r)
             | DErr e -> "err " ^ show_err e))
  | _ -> "?"
