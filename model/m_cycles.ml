(* Cycles (C05).
   cyc <def> / <def> ...   def = S|E  fields, groups separated by '|', field = f <label> <type>,
       type = N k | P | C | Q t | D k v | R s f            -> reports "root:chain:fieldlabels ; ..." or "none"
   graph <adj> / <adj> ... adj = comma list of node indices or '-'    -> cyclic | acyclic *)
open Model
open Conv

let rec parse_ty toks = match toks with
  | "N" :: k :: r -> (XNode (nat_of_int (int_of_string k)), r)
  | "P" :: r -> (XPrim, r) | "C" :: r -> (XCustom, r)
  | "Q" :: r -> let (t, r') = parse_ty r in (XSeq t, r')
  | "D" :: r -> let (k, r1) = parse_ty r in let (v, r2) = parse_ty r1 in (XDict (k, v), r2)
  | "R" :: r -> let (s, r1) = parse_ty r in let (f, r2) = parse_ty r1 in (XRes (s, f), r2)
  | _ -> failwith "type"
let split_on sep toks =
  let rec go cur acc = function
    | [] -> List.rev (List.rev cur :: acc)
    | t :: r when t = sep -> go [] (List.rev cur :: acc) r
    | t :: r -> go (t :: cur) acc r in
  go [] [] toks
let rec parse_fields toks = match toks with
  | [] -> []
  | "f" :: l :: r -> let (t, r') = parse_ty r in (nat_of_int (int_of_string l), t) :: parse_fields r'
  | _ -> failwith "field"
let parse_def toks = match toks with
  | k :: r -> { is_enum = (k = "E"); groups = List.map parse_fields (split_on "|" r) }
  | [] -> failwith "def"

let handle toks = match toks with
  | "cyc" :: rest ->
    let p = List.map parse_def (split_on "/" rest) in
    let reps = detect_prog p in
    if reps = [] then "none" else
    String.concat " ; " (List.map (fun (root, chain) ->
      Printf.sprintf "%d:%s:%s" (int_of_nat root) (String.concat "," (List.map (fun n -> string_of_int (int_of_nat n)) chain))
        (String.concat "," (List.map (function Some l -> string_of_int (int_of_nat l) | None -> "?") (chain_fields p root chain)))) reps)
  | "graph" :: rest ->
    let g = List.map (fun adj -> match adj with ["-"] | [] -> [] | [s] -> List.map (fun x -> nat_of_int (int_of_string x)) (String.split_on_char ',' s) | _ -> failwith "adj") (split_on "/" rest) in
    if gcyclic g then "cyclic" else "acyclic"
  | _ -> "?"
