(* Buffer histories (C12). Line: slice <hex initial buffer> <ops> | vec <hex initial> <ops> | src <hex buffer> <rops>
   ops: wb <hex1> / w <hex> / rs <k> / wr <r> <hex>, separated by ';'.  rops: p1 r1 pk <k> rk <k>.
   Output: one observation per op, separated by ' ; ': <out> <pos> <contents> <reservations>.
   For slice/vec the specification log is run alongside and must agree (checked here as well). *)
open Model
open Conv

let split_ops toks =
  let rec go cur acc = function
    | [] -> List.rev (if cur = [] then acc else List.rev cur :: acc)
    | ";" :: r -> go [] (if cur = [] then acc else List.rev cur :: acc) r
    | t :: r -> go (t :: cur) acc r in
  go [] [] toks
let parse_op = function
  | ["wb"; h] -> WByte (List.hd (bytes_of_hex h))
  | ["w"; h] -> WBytes (bytes_of_hex h)
  | ["rs"; k] -> Reserve (nat_of_int (int_of_string k))
  | ["wr"; r; h] -> WRes (nat_of_int (int_of_string r), bytes_of_hex h)
  | _ -> failwith "op"
let show_out = function Done -> "ok" | Eob -> "eob" | BadRes -> "badres"
let show_res l = if l = [] then "-" else String.concat "," (List.map (fun (s, e) -> Printf.sprintf "%d..%d" (int_of_nat s) (int_of_nat e)) l)

let handle toks = match toks with
  | "slice" :: h :: ops ->
    let ops = List.map parse_op (split_ops ops) in
    let b = bytes_of_hex h in
    let t = ref (init b) and a = ref (ainit b) and obs = ref [] and agree = ref true in
    List.iter (fun o ->
      let (t', x) = bstep !t o in let (a', y) = astep !a o in
      t := t'; a := a';
      if x <> y || t'.buf <> render (a'.segs) @ a'.tail || t'.res <> ranges O (a'.segs) then agree := false;
      obs := Printf.sprintf "%s %d %s %s" (show_out x) (int_of_nat (t'.pos)) (hex_of_bytes (t'.buf)) (show_res (t'.res)) :: !obs) ops;
    (if !agree then "" else "SPECMISMATCH ") ^ String.concat " ; " (List.rev !obs)
  | "vec" :: h :: ops ->
    let ops = List.map parse_op (split_ops ops) in
    let b = bytes_of_hex h in
    let t = ref (vinit b) and a = ref [Seg b] and obs = ref [] and agree = ref true in
    List.iter (fun o ->
      let (t', x) = vstep !t o in let (a', y) = vastep !a o in
      t := t'; a := a';
      if x <> y || t'.vbytes <> render a' || t'.vres <> ranges O a' then agree := false;
      obs := Printf.sprintf "%s %d %s %s" (show_out x) (List.length (t'.vbytes)) (hex_of_bytes (t'.vbytes)) (show_res (t'.vres)) :: !obs) ops;
    (if !agree then "" else "SPECMISMATCH ") ^ String.concat " ; " (List.rev !obs)
  | "src" :: h :: rops ->
    let s = ref { ibuf = bytes_of_hex h; ipos = O } and obs = ref [] in
    List.iter (fun o ->
      let ro = match o with ["p1"] -> Peek1 | ["r1"] -> Read1 | ["pk"; k] -> PeekK (nat_of_int (int_of_string k))
                          | ["rk"; k] -> ReadK (nat_of_int (int_of_string k)) | _ -> failwith "rop" in
      let (s', x) = rstep !s ro in s := s';
      obs := Printf.sprintf "%s %d" (match x with Bytes b -> "ok " ^ hex_of_bytes b | REob -> "eob") (int_of_nat (s'.ipos)) :: !obs) (split_ops rops);
    String.concat " ; " (List.rev !obs)
  | _ -> "?"
