(* model_main <component>: reads one case per line on stdin, prints one result per line. *)
let () =
  let comp = if Array.length Sys.argv > 1 then Sys.argv.(1) else "" in
  let handler : string list -> string = match comp with
    | "codec" -> M_codec.handle
    | "buffer" -> M_buffer.handle
    | "cli" -> M_cli.handle
    | "prep" -> M_prep.handle
    | "cycles" -> M_cycles.handle
    | "resolve" -> M_resolve.handle
    | "visit" -> M_visit.handle
    | "validate" -> M_validate.handle
    | "lints" -> M_lints.handle
    | "emit" -> M_emit.handle
    | "request" -> M_request.handle
    | "doc" -> M_doc.handle
    | "syntax" -> M_syntax.handle
    | "main" -> M_main.handle
    | "fileset" -> M_files.handle
    | _ -> prerr_endline ("unknown component " ^ comp); exit 2 in
  let out = Buffer.create 65536 in
  (try while true do
    let line = input_line stdin in
    let toks = List.filter (fun s -> s <> "") (String.split_on_char ' ' line) in
    let res = try handler toks with e -> "modelerror " ^ Printexc.to_string e in
    Buffer.add_string out res; Buffer.add_char out '\n';
    if Buffer.length out > 60000 then (print_string (Buffer.contents out); Buffer.clear out)
  done with End_of_file -> ());
  print_string (Buffer.contents out)
