#!/usr/bin/env python3
"""Writes MANIFEST.json from the table below (kept in one place so it stays valid)."""
import json, os
V = os.path.dirname(os.path.dirname(os.path.abspath(__file__)))
CHECKS = {
 "C10": dict(text="Coq theorems (Props/C10.v): fixed-width, var-int, string, sequence, dictionary round-trips with exact consumption, shortest width, low-bit length code, 62-bit refusal, and typed_roundtrip for every value of every supported type by induction on the type; the width arms/masks/shifts/limits the model is built from are regenerated from the Rust sources on every run; the model is tied to Encoder/Decoder by differential execution (all 8/16-bit values, var-int edges, strings, nested collections).",
             note="Trusted: Coq kernel, extraction (ExtrOcamlBasic), regen.py, harness; floats are transported as bit patterns (IEEE semantics not modelled); HashMap order is an oracle.",
             tech="Coq proof (induction on types, lia) + regenerated tables + differential correspondence", ref="DESIGN.md §7 C10"),
 "C12": dict(text="Coq theorems (Props/C12.v), by induction over arbitrary operation histories: the fixed-slice and growable targets refine an append-only log of segments with holes (same result per op; buffer = rendered log ++ untouched tail; cursor = log length; reservations = unwritten hole ranges), failed ops are no-ops, the slice never grows or moves past its end, a write into a reservation is confined to it and shrinks it from the front, reservations are disjoint and below the cursor, vec reservations are zeroed; reads stay within the source, peeks do not consume. Tied to the Rust buffers by lock-step histories (bounded-exhaustive + random) with guard bytes.",
             note="Trusted: Coq kernel, extraction, harness. Allocation success is an oracle. Memory safety of unsafe blocks is outside the model (guard bytes only).",
             tech="Coq refinement proof by induction over histories + lock-step differential correspondence", ref="DESIGN.md §7 C12"),
 "C19": dict(text="Coq theorems (Props/C19.v) about the character state machine of plugin_parser: parse(render path args) = (trim path, trimmed pairs) for every path and argument list whose components do not end in a backslash (induction over components and arguments), optional '=' for empty values, one trailing comma ignored, empty path / empty key / second '=' rejected with the matching usage error, empty string rejected. Tied to SliceOptions::try_parse_from by all 3906 strings of length <= 5 over {a, space, ',', '=', backslash} and random Unicode specifications written by the extracted renderer.",
             note="Trusted: Coq kernel, extraction, harness; clap is exercised, not modelled; Rust's char::is_whitespace is transcribed as the White_Space set.",
             tech="Coq proof (induction over the written specification) + exhaustive short-string correspondence", ref="DESIGN.md §7 C19"),
 "C06": dict(text="Coq theorems (Props/C06.v): the implementation's tree construction and evaluation (Conditional::evaluate / process_nodes) equals, for every line sequence and symbol set, a line-by-line stack machine in which #define/#undef act only in selected regions from that line on (selected lines, final symbols and accept/reject verdict all equal); unbalanced or malformed directives are rejected; the location of a surviving line's first token computed over the original text is (line, indentation+1) regardless of removed lines; per-file symbol sets. The character-level lexer/parser of directives is part of the executable model. Tied to the real preprocessor+parser by bounded-exhaustive line sequences x symbol subsets, grammar-enumerated expressions x valuations, random files and multi-file sets.",
             note="Trusted: Coq kernel, extraction, harness. LALRPOP recovery modelled at accept/reject level. Expression precedence (equal, left-assoc) is the code's; it is pinned by the expression sweep.",
             tech="Coq refinement proof (tree evaluation = stack machine) + bounded-exhaustive differential correspondence", ref="DESIGN.md §7 C06"),
 "C11": dict(text="Coq theorems (Props/C11.v) for every byte string and every decodable type nested to any depth (induction on the type): decoding is total, a success consumed a non-empty prefix and nothing else, only values of the type are accepted (0/1 bools, valid UTF-8, unique dictionary keys, in-range var-ints), loop iterations are bounded by the input length and reservations by the bytes that remain; same for skip_tagged_fields and the generator-reply decoder. Tied to the real Decoder by exhaustive short inputs for all types, truncations/corruptions of valid encodings and random inputs; every error is rendered; the largest allocation request is observed with a counting allocator.",
             note="Trusted: Coq kernel, extraction, harness (incl. its counting allocator). Memory safety of unsafe blocks is outside the model. Wall-clock/RSS not measured.",
             tech="Coq proof (induction on types; totality, prefix, strictness, bounds) + exhaustive short-input correspondence", ref="DESIGN.md §7 C11"),
 "C05": dict(text="Coq theorems (Props/C05.v) about the transcription of CycleDetector (root comparison, stack skip, vertex-set de-duplication) over an arbitrary successor function: every reported chain is a real path of containment links back to the named type with a witnessing field per link; every type on a containment cycle is named by some report; acyclic programs get no report; the detector's descent order equals the declarative 'mentions under any nest of Sequence/Dictionary key,value/Result' relation; for alias-mention and inheritance graphs a loop is found iff a node reaches itself; the alias seen-list walk terminates. Tied to the real compiler by exhaustive small containment graphs with every wrapper form, all alias and inheritance graphs over <= 3 nodes (sampled/all over 4), random graphs up to 10 nodes, in isolated workers.",
             note="Trusted: Coq kernel, extraction, harness, the Python generator of Slice text from graphs. Stack depth/wall-clock are runtime; the model gives depth bounds only.",
             tech="Coq soundness+completeness proof of the cycle detector + bounded-exhaustive graph correspondence", ref="DESIGN.md §7 C05"),
 "C03": dict(text="Coq theorems (Props/C03.v): the lookup walk equals 'first hit over scope, enclosing scopes, then global' (global only for a leading '::'); a reference designating a non-alias binds exactly that entity iff its kind fits the position; aliases are transparent (final non-alias target, attributes of every link in chain order) for every repeat-free chain; a reference designating nothing or a wrong kind is an error, never a binding; resolution terminates; unique keys make lookups independent of insertion order and every entity retrievable by its scoped name. Tied to the real patcher by bounded-exhaustive module/name/spelling arrangements, alias chains with attributes and random multi-file programs, comparing every reference's bound definition, attributes and error code.",
             note="Trusted: Coq kernel, extraction, harness AST dump, the generator's table construction order. E019 reports are not compared (only per-reference outcome and E017/E033).",
             tech="Coq proof (lookup = outward scope search; alias transparency by induction on chains) + arrangement-exhaustive correspondence", ref="DESIGN.md §7 C03"),
 "C20": dict(text="Coq theorems (Props/C20.v): the event list of the visit_with functions equals the pre-order of the file's tree (file, module, definitions in source order, containers before contents, each type right after its owner followed by its nested element/key/value/success/failure types to any depth); filtering the entities gives exactly the declared entities once each in source order; unpatched references are not descended. Tied to the real Visitor by a recording visitor on generated multi-file programs, the model walking the AST as the public accessors present it.",
             note="Trusted: Coq kernel, extraction, harness (AST dump + recording visitor). Interpretation recorded: nested references of an alias of an anonymous type are presented from every user.",
             tech="Coq proof (visit = pre-order of the tree, nested induction) + recording-visitor correspondence", ref="DESIGN.md §7 C20"),
 "C04": dict(text="Coq model of the parse-time checks, the redefinition pass and every validator of slicec/src/validators (tags, compact types, enums and their bounds regenerated from primitive.rs, dictionary keys through compact structs, stream placement, inherited operations, aliases of optionals) with its gating, and a declarative rule catalogue; theorems relate each rule's check to its declarative statement. Tied to the real compiler by bounded-exhaustive small-scope families and generated programs with injected violations at boundary values, comparing the set of error codes.",
             note="Trusted: Coq kernel, extraction, harness, the generator's resolution of named references. Attribute rules and literal syntax are not in the Coq rule model yet.",
             tech="Coq proof (per-rule check <-> declarative rule) + regenerated bounds + injected-violation correspondence", ref="DESIGN.md §7 C04"),
}
NOT_APPLICABLE = {}
def main():
    props = [json.loads(l)["id"] for l in open(os.path.join(V, "properties.jsonl"))]
    m = {"version": 1, "setup_cmd": "bin/vsetup",
         "hooks": {"guard": "slicec_verif", "enable": "RUSTFLAGS=--cfg slicec_verif (no hook commits so far; the flag is reserved)",
                   "baseline_off_cmd": "cd /repo && cargo test --workspace --no-fail-fast --offline", "source_commits": [], "add_only": True},
         "engines": [
            {"name": "coq-proofs", "path": "coq/", "serves_properties": sorted(CHECKS), "kind_free_text": "Coq 8.16.1 library SliceV, full .vo build, Print Assumptions per theorem, coqchk in the thorough tier"},
            {"name": "model-run", "path": "model/", "serves_properties": sorted(CHECKS), "kind_free_text": "model extracted with ExtrOcamlBasic + OCaml line driver"},
            {"name": "impl-harness", "path": "harness/", "serves_properties": sorted(CHECKS), "kind_free_text": "Rust binary over the public API of /repo's crates; real slicec binary; fake generators"},
            {"name": "translator", "path": "tools/regen.py", "serves_properties": sorted(CHECKS), "kind_free_text": "regenerates coq/Gen/*.v from declarative parts of the Rust sources on every run"}],
         "checks": [], "not_applicable": []}
    for pid in props:
        if pid in CHECKS:
            c = CHECKS[pid]
            m["checks"].append({"property_id": pid, "quick_cmd": "bin/vcheck %s --tier quick" % pid,
                "thorough_cmd": "bin/vcheck %s --tier thorough" % pid, "evidence_file": "evidence/%s.json" % pid,
                "replay_cmd_template": "bin/vcheck %s --replay {path}" % pid, "engine": "coq-proofs",
                "level_claimed": {"category": "proof", "text": c["text"], "design_ref": c["ref"]},
                "level_note": c["note"], "technique": c["tech"]})
        else:
            m["not_applicable"].append({"property_id": pid, "reason": NOT_APPLICABLE.get(pid, "not yet claimed in this round: model and correspondence stream under construction (see DESIGN.md §9)")})
    m["notes"] = "See DESIGN.md. known_findings.json lists genuine defects recorded or fixed."
    json.dump(m, open(os.path.join(V, "MANIFEST.json"), "w"), indent=1)
if __name__ == "__main__":
    main()
