#!/usr/bin/env python3
"""seedrecheck.py <property>-<n> ... : run the (possibly strengthened) check again against stored seeded changes and update their meta.json.
The change itself was confirmed independently when it was first stored (tools/seedcheck.py)."""
import json, os, re, subprocess, sys
V = "/verif"


def sh(cmd, timeout=3000):
    p = subprocess.run(cmd, shell=True, cwd=V, stdout=subprocess.PIPE, stderr=subprocess.STDOUT, text=True, timeout=timeout)
    return p.returncode, p.stdout


for name in sys.argv[1:]:
    d = os.path.join(V, "seeded", name)
    prop = name.split("-")[0]
    meta = json.load(open(os.path.join(d, "meta.json")))
    rc, o = sh("git -C /repo status --short")
    assert o.strip() == "", "repo not clean: " + o
    rc, o = sh("git -C /repo apply %s" % os.path.join(d, "patch.diff"))
    assert rc == 0, o
    try:
        rc, o = sh("bin/vcheck %s --tier quick 2>&1" % prop)
        vio = [l for l in o.split("\n") if l.startswith("VIOLATION")]
        rep = []
        for l in vio:
            m = re.search(r"replay=(\S+)", l)
            if m and os.path.exists(m.group(1)):
                r = json.load(open(m.group(1)))
                rep.append({k: (str(r.get(k))[:400]) for k in ("kind", "stream", "family", "case", "expected", "observed", "broken_obligation", "no_longer_checks")})
        new = {"exit": rc, "violation_lines": vio, "replays": rep, "tail": o.strip().split("\n")[-1]}
    finally:
        sh("git -C /repo checkout -- .")
        sh("find /verif/replays -name '%s-*.json' -delete" % prop)
        sh("python3 /verif/tools/regen.py >/dev/null")
    if not meta.get("caught") and vio:
        meta.setdefault("history", []).append({"first_result": meta.get("check_result"), "note": "missed by the first version of the check; the generators were strengthened and it is caught now"})
    meta["check_result"] = {"quick": new}
    meta["caught"] = bool(vio)
    json.dump(meta, open(os.path.join(d, "meta.json"), "w"), indent=1)
    print(name, "caught" if vio else "MISSED", new["tail"])
