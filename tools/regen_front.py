"""Fragment extractors for the front end (loaded by regen.py)."""
import re

PRIM_ORDER = ["Bool", "Int8", "UInt8", "Int16", "UInt16", "Int32", "UInt32", "VarInt32", "VarUInt32", "Int64", "UInt64",
              "VarInt62", "VarUInt62", "Float32", "Float64", "String"]


def frag_numeric_bounds(R):
    def f(repo, used):
        src = R.strip_comments(R.read(repo, "slicec/src/grammar/elements/primitive.rs", used))
        body = R.fn_body(src, r"pub fn is_integral\s*\(")
        integral = re.findall(r"Self::(\w+)", body)
        if not integral:
            raise R.Skip("is_integral: no variants")
        nb = R.fn_body(src, r"pub fn numeric_bounds\s*\(")
        consts = {}
        for m in re.finditer(r"const\s+(\w+)\s*:\s*i128\s*=\s*(-?[\d_]+)\s*;", nb):
            consts[m.group(1)] = int(m.group(2).replace("_", ""))

        def val(e):
            e = e.strip()
            m = re.match(r"(\w+)::(MIN|MAX) as i128$", e)
            if m:
                ty, w = m.group(1), m.group(2)
                bits = int(ty[1:])
                if ty[0] == "i":
                    return -(1 << (bits - 1)) if w == "MIN" else (1 << (bits - 1)) - 1
                return 0 if w == "MIN" else (1 << bits) - 1
            if e in consts:
                return consts[e]
            if re.match(r"-?\d+$", e):
                return int(e)
            raise R.Skip("numeric_bounds: cannot evaluate " + e)
        bounds = []
        for m in re.finditer(r"Self::(\w+)\s*=>\s*Some\(\((.*?),\s*([^,]*?)\)\)\s*,", nb):
            bounds.append((m.group(1), val(m.group(2)), val(m.group(3))))
        if not bounds:
            raise R.Skip("numeric_bounds: no arms")
        for n, _, _ in bounds:
            if n not in PRIM_ORDER:
                raise R.Skip("unknown primitive " + n)
        # default enum range when there is no underlying type (validators/enums.rs)
        en = R.strip_comments(R.read(repo, "slicec/src/validators/enums.rs", used))
        m = re.search(r"check_bounds\(enum_def,\s*\((\d+),\s*(\w+)\)", en)
        m2 = re.search(r"const VARINT32_MAX: i128 = (\w+)::MAX as i128", en)
        if not m or not m2:
            raise R.Skip("default enum bounds not found")
        dmin, dmax = int(m.group(1)), (1 << (int(m2.group(1)[1:]) - 1)) - 1
        out = ["From Coq Require Import List NArith ZArith.\nImport ListNotations.\n",
               "(* primitives are numbered in declaration order: " + ", ".join("%d=%s" % (i, n) for i, n in enumerate(PRIM_ORDER)) + " *)",
               "Definition prim_integral : list nat := %s." % R.coq_list("%d%%nat" % PRIM_ORDER.index(n) for n in integral),
               "Definition prim_bounds : list (nat * (Z * Z)) := %s." % R.coq_list("(%d%%nat, ((%d)%%Z, (%d)%%Z))" % (PRIM_ORDER.index(n), lo, hi) for n, lo, hi in bounds),
               "Definition enum_default_bounds : Z * Z := ((%d)%%Z, (%d)%%Z)." % (dmin, dmax)]
        # tag bounds (parsers/slice/grammar.rs::parse_tag_value)
        g = R.strip_comments(R.read(repo, "slicec/src/parsers/slice/grammar.rs", used))
        m = re.search(r"fn parse_tag_value.*?RangeInclusive::new\((\d+),\s*(\w+)::MAX as i128\)", g, flags=re.S)
        if not m:
            m = re.search(r"fn parse_tag_value.*?(\d+)\s*\.\.=\s*(\w+)::MAX as i128", g, flags=re.S)
        if m:
            out.append("Definition tag_bounds : Z * Z := ((%d)%%Z, (%d)%%Z)." % (int(m.group(1)), (1 << (int(m.group(2)[1:]) - 1)) - 1 if m.group(2)[0] == "i" else (1 << int(m.group(2)[1:])) - 1))
        else:
            raise R.Skip("tag bounds not found")
        return "\n".join(out) + "\n", "slicec/src/grammar/elements/primitive.rs, validators/enums.rs, parsers/slice/grammar.rs"
    return f


KW_MAP = {"ModuleKeyword": "KwModule", "StructKeyword": "KwStruct", "InterfaceKeyword": "KwInterface", "EnumKeyword": "KwEnum", "CustomKeyword": "KwCustom",
          "TypeAliasKeyword": "KwTypeAlias", "ResultKeyword": "KwResult", "SequenceKeyword": "KwSequence", "DictionaryKeyword": "KwDictionary",
          "CompactKeyword": "KwCompact", "IdempotentKeyword": "KwIdempotent", "StreamKeyword": "KwStream", "TagKeyword": "KwTag", "UncheckedKeyword": "KwUnchecked"}


def frag_keywords(R):
    def f(repo, used):
        src = R.strip_comments(R.read(repo, "slicec/src/parsers/slice/lexer.rs", used))
        body = R.fn_body(src, r"fn check_if_keyword\s*\(")
        arms = re.findall(r'"(\w+)"\s*=>\s*TokenKind::(\w+)\s*,', body)
        if len(arms) < 10:
            raise R.Skip("check_if_keyword: arms not found")
        items = []
        for text, tk in arms:
            if tk in KW_MAP:
                k = KW_MAP[tk]
            elif tk.endswith("Keyword") and tk[:-7] in PRIM_ORDER:
                k = "(KwPrim P%s)" % tk[:-7]
            else:
                raise R.Skip("unknown token kind " + tk)
            items.append("(%s, %s)" % (R.coq_list("%d%%N" % ord(c) for c in text), k))
        # what the primitives are called (grammar/elements/primitive.rs kind())
        ps = R.strip_comments(R.read(repo, "slicec/src/grammar/elements/primitive.rs", used))
        kb = R.fn_body(ps, r"fn kind\s*\(")
        names = dict(re.findall(r'Self::(\w+)\s*=>\s*"(\w+)"', kb))
        if sorted(names) != sorted(PRIM_ORDER):
            raise R.Skip("primitive kind() arms not found")
        out = ["From Coq Require Import List NArith.\nFrom SliceV Require Import Syntax.Tokens.\nImport ListNotations.\n",
               "(* check_if_keyword: identifier text -> keyword token (outside attributes) *)",
               "Definition keyword_table : list (list N * kw) :=\n  %s." % R.coq_list(items).replace("); (", ");\n   ("),
               "(* Primitive::kind(): the name a primitive goes by *)",
               "Definition prim_name (p : prim) : list N :=\n  match p with\n%s\n  end." % "\n".join("  | P%s => %s" % (n, R.coq_list("%d%%N" % ord(c) for c in names[n])) for n in PRIM_ORDER)]
        return "\n".join(out) + "\n", "slicec/src/parsers/slice/lexer.rs (check_if_keyword), grammar/elements/primitive.rs (kind)"
    return f


PANIC_RE = re.compile(r"\.unwrap\(\)|\.expect\(|\bpanic!\(|\bunreachable!\(|\btodo!\(|\bunimplemented!\(|(?<![_a-z])assert!\(|\bassert_eq!\(|\bassert_ne!\(")


def panic_sites(R, repo, used):
    """every place in non-test code of the two crates where the program can abort on purpose: (file, function, kind, text, hash)"""
    import os
    out = []
    for crate in ("slicec/src", "slice-codec/src"):
        for root, _, files in sorted(os.walk(os.path.join(repo, crate))):
            for fn in sorted(files):
                if not fn.endswith(".rs") or fn == "tests.rs":
                    continue
                rel = os.path.relpath(os.path.join(root, fn), repo)
                src = R.read(repo, rel, used)
                cut = src.find("#[cfg(test)]")
                if cut >= 0:
                    src = src[:cut]
                cur_fn, counts = "<top>", {}
                for line in R.strip_comments(src).split("\n"):
                    m = re.search(r"\bfn\s+(\w+)", line)
                    if m:
                        cur_fn = m.group(1)
                    m2 = re.search(r"macro_rules!\s+(\w+)", line)
                    if m2:
                        cur_fn = "macro " + m2.group(1)
                    for k in PANIC_RE.finditer(line):
                        kind = k.group(0).strip(".(")
                        text = " ".join(line.split())
                        key = "%s|%s|%s|%s" % (rel, cur_fn, kind, text)
                        counts[key] = counts.get(key, 0) + 1
                        h = 0xcbf29ce484222325
                        for b in ("%s|%d" % (key, counts[key])).encode():
                            h = ((h ^ b) * 0x100000001b3) & 0xffffffffffffffff
                        out.append((rel, cur_fn, kind, text, h))
    return out


def frag_panic_sites(R):
    def f(repo, used):
        sites = panic_sites(R, repo, used)
        if len(sites) < 20:
            raise R.Skip("panic sites: too few found, scanner broken?")
        lines = ["From Coq Require Import List NArith.\nImport ListNotations.\n",
                 "(* every unwrap/expect/panic!/unreachable!/todo!/assert! in the non-test code of slicec and slice-codec, identified by a hash of",
                 "   (file, enclosing function, kind, the line's text, occurrence) so that moving code does not change it but editing it does *)",
                 "Definition panic_sites : list N :=\n  [" + ";\n   ".join("%d%%N (* %s :: %s :: %s *)" % (h, rel, fn, text.replace("*)", "* )").replace("(*", "( *")[:110]) for rel, fn, kind, text, h in sites) + "]."]
        return "\n".join(lines) + "\n", "slicec/src/**/*.rs, slice-codec/src/**/*.rs (non-test code)"
    return f


def register_all(R):
    R.FRAGMENTS["NumericBounds"] = frag_numeric_bounds(R)
    R.FRAGMENTS["Keywords"] = frag_keywords(R)
    R.FRAGMENTS["PanicSites"] = frag_panic_sites(R)
