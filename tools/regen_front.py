"""Fragment extractors for the front end (loaded by regen.py)."""
import re

PRIM_ORDER = ["Bool", "Int8", "UInt8", "Int16", "UInt16", "Int32", "UInt32", "VarInt32", "VarUInt32", "Int64", "UInt64",
              "VarInt62", "VarUInt62", "Float32", "Float64", "String"]


def frag_numeric_bounds(R):
    def f(repo, used):
        src = R.strip_comments(R.read(repo, "slicec/src/grammar/elements/primitive.rs", used))
        body = R.fn_body(src, r"pub fn is_integral\s*\(")
        integral = re.findall(r"Self::(\w+)", body)
        if not integral:
            raise R.Skip("is_integral: no variants")
        nb = R.fn_body(src, r"pub fn numeric_bounds\s*\(")
        consts = {}
        for m in re.finditer(r"const\s+(\w+)\s*:\s*i128\s*=\s*(-?[\d_]+)\s*;", nb):
            consts[m.group(1)] = int(m.group(2).replace("_", ""))

        def val(e):
            e = e.strip()
            m = re.match(r"(\w+)::(MIN|MAX) as i128$", e)
            if m:
                ty, w = m.group(1), m.group(2)
                bits = int(ty[1:])
                if ty[0] == "i":
                    return -(1 << (bits - 1)) if w == "MIN" else (1 << (bits - 1)) - 1
                return 0 if w == "MIN" else (1 << bits) - 1
            if e in consts:
                return consts[e]
            if re.match(r"-?\d+$", e):
                return int(e)
            raise R.Skip("numeric_bounds: cannot evaluate " + e)
        bounds = []
        for m in re.finditer(r"Self::(\w+)\s*=>\s*Some\(\((.*?),\s*([^,]*?)\)\)\s*,", nb):
            bounds.append((m.group(1), val(m.group(2)), val(m.group(3))))
        if not bounds:
            raise R.Skip("numeric_bounds: no arms")
        for n, _, _ in bounds:
            if n not in PRIM_ORDER:
                raise R.Skip("unknown primitive " + n)
        # default enum range when there is no underlying type (validators/enums.rs)
        en = R.strip_comments(R.read(repo, "slicec/src/validators/enums.rs", used))
        m = re.search(r"check_bounds\(enum_def,\s*\((\d+),\s*(\w+)\)", en)
        m2 = re.search(r"const VARINT32_MAX: i128 = (\w+)::MAX as i128", en)
        if not m or not m2:
            raise R.Skip("default enum bounds not found")
        dmin, dmax = int(m.group(1)), (1 << (int(m2.group(1)[1:]) - 1)) - 1
        out = ["From Coq Require Import List NArith ZArith.\nImport ListNotations.\n",
               "(* primitives are numbered in declaration order: " + ", ".join("%d=%s" % (i, n) for i, n in enumerate(PRIM_ORDER)) + " *)",
               "Definition prim_integral : list nat := %s." % R.coq_list("%d%%nat" % PRIM_ORDER.index(n) for n in integral),
               "Definition prim_bounds : list (nat * (Z * Z)) := %s." % R.coq_list("(%d%%nat, ((%d)%%Z, (%d)%%Z))" % (PRIM_ORDER.index(n), lo, hi) for n, lo, hi in bounds),
               "Definition enum_default_bounds : Z * Z := ((%d)%%Z, (%d)%%Z)." % (dmin, dmax)]
        # tag bounds (parsers/slice/grammar.rs::parse_tag_value)
        g = R.strip_comments(R.read(repo, "slicec/src/parsers/slice/grammar.rs", used))
        m = re.search(r"fn parse_tag_value.*?RangeInclusive::new\((\d+),\s*(\w+)::MAX as i128\)", g, flags=re.S)
        if not m:
            m = re.search(r"fn parse_tag_value.*?(\d+)\s*\.\.=\s*(\w+)::MAX as i128", g, flags=re.S)
        if m:
            out.append("Definition tag_bounds : Z * Z := ((%d)%%Z, (%d)%%Z)." % (int(m.group(1)), (1 << (int(m.group(2)[1:]) - 1)) - 1 if m.group(2)[0] == "i" else (1 << int(m.group(2)[1:])) - 1))
        else:
            raise R.Skip("tag bounds not found")
        return "\n".join(out) + "\n", "slicec/src/grammar/elements/primitive.rs, validators/enums.rs, parsers/slice/grammar.rs"
    return f


def register_all(R):
    R.FRAGMENTS["NumericBounds"] = frag_numeric_bounds(R)
