"""Fragments for the generator request (C08): the Compiler schema (slice/Compiler/*.slice) resolved to `sty` terms,
and the field order / discriminants of the hand-written Rust encoders (slicec/src/definition_types.rs)."""
import re

PRIM = {"string": "YStr", "bool": "YBool", "uint8": "YU8", "uint64": "YU64", "int32": "YI32", "varint32": "YVarInt32"}


def norm(n):
    return n.replace("\\", "").replace("_", "").lower()


def frag_schema(R):
    def f(repo, used):
        decls, order = {}, []
        for fn in ("DocComment.slice", "SyntaxElements.slice", "CodeGenerator.slice"):
            src = R.strip_comments(R.read(repo, "slice/Compiler/" + fn, used))
            src = re.sub(r"\[[^\]]*\]\s*", "", src)          # attributes
            for m in re.finditer(r"typealias\s+(\w+)\s*=\s*([^\n]+)", src):
                decls[m.group(1)] = ("alias", m.group(2).strip()); order.append(m.group(1))
            for m in re.finditer(r"(?:compact\s+)?struct\s+(\w+)\s*\{(.*?)\}", src, flags=re.S):
                fields = [(a, b.strip()) for a, b in re.findall(r"(\\?\w+)\s*:\s*([^\n,]+)", m.group(2))]
                decls[m.group(1)] = ("struct", fields); order.append(m.group(1))
            for m in re.finditer(r"(unchecked\s+)?enum\s+(\w+)\s*(?::\s*(\w+))?\s*\{(.*?)\}", src, flags=re.S):
                body = m.group(4)
                if m.group(3):
                    names = re.findall(r"(\w+)", body)
                    decls[m.group(2)] = ("enum_u", m.group(3), names)
                else:
                    vs = [(n, [(a, b.strip()) for a, b in re.findall(r"(\\?\w+)\s*:\s*([^,)]+)", args)]) for n, args in re.findall(r"(\w+)\s*\(([^)]*)\)", body)]
                    decls[m.group(2)] = ("enum_f", vs)
                order.append(m.group(2))
        if "SliceFile" not in decls or "Symbol" not in decls:
            raise R.Skip("schema: SliceFile/Symbol not found")
        emitted, out = {}, []

        def ty(t):
            t = t.strip()
            opt = t.endswith("?")
            if opt:
                t = t[:-1].strip()
            m = re.match(r"Sequence<(.*)>$", t)
            if m:
                return "(YSeq %s)" % ty(m.group(1))[0], opt
            m = re.match(r"Dictionary<(.*)>$", t)
            if m:
                inner = m.group(1)
                depth = 0
                for i, ch in enumerate(inner):
                    if ch == "<":
                        depth += 1
                    elif ch == ">":
                        depth -= 1
                    elif ch == "," and depth == 0:
                        return "(YDict %s %s)" % (ty(inner[:i])[0], ty(inner[i + 1:])[0]), opt
            if t in PRIM:
                return PRIM[t], opt
            emit(t)
            return "ty_" + t, opt
        ty_orig = ty

        def ty2(t):
            r = ty_orig(t)
            return r

        def emit(name):
            if name in emitted:
                return
            if name not in decls:
                raise R.Skip("schema: unknown type " + name)
            emitted[name] = True
            d = decls[name]
            if d[0] == "alias":
                out.append("Definition ty_%s : sty := %s." % (name, ty(d[1])[0]))
            elif d[0] == "struct":
                fs = []
                for fname, ft in d[1]:
                    term, opt = ty(ft)
                    fs.append("(%s, %s)" % ("true" if opt else "false", term))
                out.append("Definition ty_%s : sty := YStruct %s." % (name, R.coq_list(fs)))
            elif d[0] == "enum_u":
                if d[1] != "uint8":
                    raise R.Skip("schema: enum over " + d[1])
                out.append("Definition ty_%s : sty := YEnumU8 %d." % (name, len(d[2])))
            else:
                vs = []
                for i, (vn, fields) in enumerate(d[1]):
                    fs = []
                    for fname, ft in fields:
                        term, opt = ty(ft)
                        fs.append("(%s, %s)" % ("true" if opt else "false", term))
                    vs.append("(%d%%Z, %s)" % (i, R.coq_list(fs)))
                out.append("Definition ty_%s : sty := YVariant %s." % (name, R.coq_list(vs)))
        # fix ty(): returns (term, opt); the tuple indexing above was written for it
        for n in order:
            emit(n)
        names = []
        for n in order:
            d = decls[n]
            if d[0] == "struct":
                names.append('("%s", %s)' % (norm(n), R.coq_list('"%s"' % norm(a) for a, _ in d[1])))
        variants = []
        for n in order:
            d = decls[n]
            if d[0] == "enum_f":
                variants.append('("%s", %s)' % (norm(n), R.coq_list('("%s", %d%%Z)' % (norm(v), i) for i, (v, _) in enumerate(d[1]))))
        head = ["From Coq Require Import List ZArith String.", "From SliceV Require Import Request.Schema.", "Import ListNotations.", "Open Scope string_scope.", ""]
        body = out + ["", "(* field names per struct (normalised: lower case, no underscores or backslashes), in schema order *)",
                      "Definition schema_fields : list (string * list string) := %s." % R.coq_list(names),
                      "Definition schema_variants : list (string * list (string * Z)) := %s." % R.coq_list(variants)]
        return "\n".join(head + body) + "\n", "slice/Compiler/*.slice"
    return f


def frag_encoder_desc(R):
    def f(repo, used):
        src = R.strip_comments(R.read(repo, "slicec/src/definition_types.rs", used))
        desc = {}
        for m in re.finditer(r"implement_encode_into_for_struct!\(\s*(\w+)\s*((?:,\s*\w+\s*)*),?\s*\)\s*;", src):
            desc[m.group(1)] = [x.strip() for x in m.group(2).split(",") if x.strip()]
        # hand-written struct encoders: order of the fields mentioned in encode calls (the `.is_some()` line is the bit sequence)
        for m in re.finditer(r"impl EncodeInto for &(\w+)\s*\{", src):
            name = m.group(1)
            body = R.fn_body(src[m.start():], r"fn encode_into[^{]*\{")
            if re.search(r"match self", body):
                continue
            fields = []
            for line in body.split("\n"):
                if "is_some()" in line:
                    continue
                for fm in re.finditer(r"self\.(\w+)", line):
                    if fm.group(1) not in fields and fm.group(1) != "0":
                        fields.append(fm.group(1))
            if fields:
                desc[name] = fields
        if "Attribute" not in desc or "EntityInfo" not in desc or "Field" not in desc:
            raise R.Skip("encoder description incomplete")
        variants = {}
        for m in re.finditer(r"pub enum (\w+)\s*\{(.*?)\n\}", src, flags=re.S):
            vs = re.findall(r"(\w+)\s*\([^)]*\)\s*=\s*(\d+)", m.group(2))
            if vs:
                variants[m.group(1)] = [(v, int(n)) for v, n in vs]
        # the request itself: operation name and the two sequences (main.rs)
        main = R.strip_comments(R.read(repo, "slicec/src/main.rs", used))
        body = R.fn_body(main, r"fn encode_generate_code_request\s*\(")
        calls = re.findall(r"slice_encoder\.encode\(([^)]*)\)", body)
        opname = re.search(r'slice_encoder\.encode\("(\w+)"\)', body)
        if not opname or len(calls) != 3:
            raise R.Skip("request layout not recognised")
        order = [c.strip().lstrip("&") for c in calls[1:]]
        out = ["From Coq Require Import List ZArith String.", "Import ListNotations.", "Open Scope string_scope.", "",
               "Definition encoder_fields : list (string * list string) := %s." % R.coq_list('("%s", %s)' % (norm(k), R.coq_list('"%s"' % norm(x) for x in v)) for k, v in desc.items()),
               "Definition encoder_variants : list (string * list (string * Z)) := %s." % R.coq_list('("%s", %s)' % (norm(k), R.coq_list('("%s", %d%%Z)' % (norm(a), n) for a, n in v)) for k, v in variants.items()),
               'Definition request_operation_name : string := "%s".' % opname.group(1),
               "Definition request_sequences : list string := %s." % R.coq_list('"%s"' % norm(x) for x in order)]
        return "\n".join(out) + "\n", "slicec/src/definition_types.rs, slicec/src/main.rs"
    return f


def register_all(R):
    R.FRAGMENTS["CompilerSchema"] = frag_schema(R)
    R.FRAGMENTS["EncoderDesc"] = frag_encoder_desc(R)
