#!/usr/bin/env python3
"""seedcheck.py <property> <seeded-out/N dir> <worktree>: confirm a seeded change independently, run the check against it,
store everything under /verif/seeded/<property>-<n>/.

 1. worktree: apply patch; full existing suite must pass; demo must fail; unapply; demo must pass.
 2. /repo: apply patch; bin/vcheck <property> (quick); undo.  Records whether and how the check caught it."""
import json, os, re, shutil, subprocess, sys

prop, sdir, wt = sys.argv[1], sys.argv[2].rstrip("/"), sys.argv[3]
V = "/verif"
n = os.path.basename(sdir)
out = os.path.join(V, "seeded", "%s-%s" % (prop, n))
os.makedirs(out, exist_ok=True)
patch = os.path.join(sdir, "patch.diff")
demo = os.path.join(sdir, "demo.rs")
env = dict(os.environ, CARGO_TARGET_DIR=os.path.join(wt, "target"), CARGO_NET_OFFLINE="true")


def sh(cmd, cwd=None, timeout=3000):
    p = subprocess.run(cmd, shell=True, cwd=cwd, env=env, stdout=subprocess.PIPE, stderr=subprocess.STDOUT, text=True, timeout=timeout)
    return p.returncode, p.stdout


touched = re.findall(r"^diff --git a/(\S+)", open(patch).read(), flags=re.M)
crate = "slice-codec" if all(t.startswith("slice-codec/") for t in touched) else "slicec"
runtxt = open(os.path.join(sdir, "run.txt")).read() if os.path.exists(os.path.join(sdir, "run.txt")) else ""
if "slice-codec/tests/seeded_demo.rs" in runtxt:
    crate = "slice-codec"
elif "slicec/tests/seeded_demo.rs" in runtxt:
    crate = "slicec"
demo_dst = os.path.join(wt, crate, "tests", "seeded_demo.rs")
ran = []
sh("git checkout -- . && rm -f %s" % demo_dst, cwd=wt)


def summarize(o):
    res = re.findall(r"^test result: (\w+)\. (\d+) passed; (\d+) failed", o, flags=re.M)
    return {"ok": all(r[0] == "ok" for r in res) and bool(res), "passed": sum(int(r[1]) for r in res), "failed": sum(int(r[2]) for r in res)}


rc, o = sh("git apply %s" % patch, cwd=wt)
assert rc == 0, o
rc, o = sh("cargo test --workspace --offline 2>&1", cwd=wt)
suite = summarize(o)
ran.append({"cmd": "cargo test --workspace --offline (patch applied, no demo)", "result": suite})
demo_sh = os.path.join(sdir, "demo.sh")
if os.path.exists(demo_sh):
    # a shell demonstration (the binary with a capturing generator): exit status decides
    demo = demo_sh
    rc1, o = sh("bash %s 2>&1" % demo_sh, cwd=wt)
    with_patch = {"exit": rc1, "failed": 1 if rc1 not in (0, 2) else 0, "ok": rc1 == 0}
    ran.append({"cmd": "bash demo.sh (patch applied)", "result": with_patch, "tail": o.strip().split("\n")[-3:]})
    sh("git apply -R %s" % patch, cwd=wt)
    rc2, o = sh("bash %s 2>&1" % demo_sh, cwd=wt)
    without = {"exit": rc2, "failed": 0 if rc2 == 0 else 1, "ok": rc2 == 0}
    ran.append({"cmd": "bash demo.sh (patch reverted)", "result": without, "tail": o.strip().split("\n")[-3:]})
    sh("git checkout -- . && rm -rf demo-scratch", cwd=wt)
else:
    shutil.copy(demo, demo_dst)
    rc, o = sh("cargo test -p %s --offline --test seeded_demo 2>&1" % crate, cwd=wt)
    with_patch = summarize(o)
    ran.append({"cmd": "cargo test -p %s --test seeded_demo (patch applied)" % crate, "result": with_patch})
    sh("git apply -R %s" % patch, cwd=wt)
    rc, o = sh("cargo test -p %s --offline --test seeded_demo 2>&1" % crate, cwd=wt)
    without = summarize(o)
    ran.append({"cmd": "cargo test -p %s --test seeded_demo (patch reverted)" % crate, "result": without})
    os.remove(demo_dst)
    sh("git checkout -- .", cwd=wt)
confirmed = suite["ok"] and suite["failed"] == 0 and with_patch["failed"] > 0 and without["ok"] and without["failed"] == 0

# run the check against the change
checks = {}
if confirmed:
    # one change at a time in /repo (several seedchecks may confirm in their worktrees at once): flock(2), as flock(1) takes it
    import fcntl
    lock = open("/tmp/seedcheck.lock", "w")
    fcntl.flock(lock, fcntl.LOCK_EX)
    rc, o = sh("git -C /repo apply %s" % patch)
    assert rc == 0, o
    try:
        for tier in ("quick",):
            rc, o = sh("bin/vcheck %s --tier %s 2>&1" % (prop, tier), cwd=V, timeout=3000)
            vio = [l for l in o.split("\n") if l.startswith("VIOLATION")]
            rep = []
            for l in vio:
                m = re.search(r"replay=(\S+)", l)
                if m and os.path.exists(m.group(1)):
                    r = json.load(open(m.group(1)))
                    rep.append({k: (str(r.get(k))[:400]) for k in ("kind", "stream", "family", "case", "expected", "observed", "broken_obligation", "no_longer_checks")})
            checks[tier] = {"exit": rc, "violation_lines": vio, "replays": rep, "tail": o.strip().split("\n")[-1]}
    finally:
        sh("git -C /repo checkout -- .")
        sh("find /verif/replays -name '%s-*.json' -delete" % prop)
        sh("python3 /verif/tools/regen.py >/dev/null")
        fcntl.flock(lock, fcntl.LOCK_UN)
meta = json.load(open(os.path.join(sdir, "meta.json"))) if os.path.exists(os.path.join(sdir, "meta.json")) else {}
meta.update({"property": prop, "confirmed_independently": confirmed, "confirmation_runs": ran, "check_result": checks,
             "caught": bool(checks.get("quick", {}).get("violation_lines")), "demo_location": ("demo.sh (run in a worktree)" if demo.endswith(".sh") else "%s/tests/seeded_demo.rs" % crate)})
shutil.copy(patch, os.path.join(out, "patch.diff"))
shutil.copy(demo, os.path.join(out, os.path.basename(demo)))
if runtxt:
    open(os.path.join(out, "run.txt"), "w").write(runtxt)
json.dump(meta, open(os.path.join(out, "meta.json"), "w"), indent=1)
print(prop, n, "confirmed" if confirmed else "NOT-CONFIRMED", "caught" if meta["caught"] else "MISSED", checks.get("quick", {}).get("tail", ""))
