"""Translator fragment: the table of built-in attributes (Gen/AttributeRules.v) from slicec/src/grammar/attributes/*.rs and the lint
identifiers of diagnostics/lints.rs.  Tolerant scanners; an unexpected shape raises Skip (the committed fragment is kept)."""
import os, re

PLACES = ["Module", "Struct", "Field", "Interface", "Operation", "Parameter", "Enum", "Enumerator", "CustomType", "TypeAlias", "TypeRef", "SliceFile"]


def frag_attribute_rules(R):
    def f(repo, used):
        d = "slicec/src/grammar/attributes"
        names = sorted(x for x in os.listdir(os.path.join(repo, d)) if x.endswith(".rs") and x != "mod.rs")
        wr = R.strip_comments(R.read(repo, "slicec/src/grammar/wrappers.rs", used))
        m = re.search(r"generate_attributables_wrapper!\(\s*([^)]*)\)", wr)
        if not m or [x.strip() for x in m.group(1).split(",") if x.strip()] != PLACES:
            raise R.Skip("Attributables variants differ from the model's places")
        lints_src = R.strip_comments(R.read(repo, "slicec/src/diagnostics/lints.rs", used))
        im = re.search(r"implement_diagnostic_functions!\(\s*Lint\s*,(.*)\);", lints_src, flags=re.S)
        if not im:
            raise R.Skip("lint list not found")
        lint_ids = ["All"] + re.findall(r"\(\s*(\w+)\s*,", im.group(1))
        mod = R.strip_comments(R.read(repo, "slicec/src/diagnostics/mod.rs", used))
        if '"All"' not in mod or "stringify!($kind)" not in mod:
            raise R.Skip("ALLOWABLE_LINT_IDENTIFIERS is not [All, kinds...]")
        rules = []
        for fn in names:
            src = R.strip_comments(R.read(repo, d + "/" + fn, used))
            mm = re.search(r'implement_attribute_kind_for!\(\s*(\w+)\s*,\s*"([^"]+)"\s*,\s*(true|false)\s*\)', src)
            if not mm:
                raise R.Skip(fn + ": implement_attribute_kind_for! not found")
            directive, repeatable = mm.group(2), mm.group(3) == "true"
            pf = R.fn_body(src, r"fn parse_from\s*\((?s:.*?)\)\s*->\s*Self\s*\{")
            cm = re.search(r"check_argument_count_is_within\(\s*(\d+)\s*\.\.\s*(usize::MAX|\d+)\s*,", pf)
            if not cm:
                raise R.Skip(fn + ": argument count range not found")
            lo, hi = int(cm.group(1)), (None if cm.group(2) == "usize::MAX" else int(cm.group(2)))
            if "ALLOWABLE_LINT_IDENTIFIERS" in pf:
                banned = re.findall(r'arg\s*==\s*"(\w+)"', pf)
                args = [x for x in lint_ids if x not in banned]
            elif "match arg.as_str()" in pf:
                args = re.findall(r'"(\w+)"\s*=>', pf)
                if not args or "InvalidAttributeArgument" not in pf:
                    raise R.Skip(fn + ": argument arms not found")
            elif "InvalidAttributeArgument" in pf:
                raise R.Skip(fn + ": unknown argument validation")
            else:
                args = None
            vo = R.fn_body(src, r"fn validate_on\s*\(&self(?s:.*?)\)\s*\{")
            pl = lambda text: [p for p in re.findall(r"Attributables::(\w+)", text)]
            no_return = False
            if re.search(r"if\s+!\s*matches!\(\s*applied_on", vo):
                where = ("OnlyOn", pl(re.search(r"!\s*matches!\(\s*applied_on\s*,(.*?)\)\s*\{", vo, flags=re.S).group(1)))
            elif re.search(r"if\s+matches!\(\s*applied_on", vo):
                where = ("NotOn", pl(re.search(r"matches!\(\s*applied_on\s*,(.*?)\)\s*\{", vo, flags=re.S).group(1)))
            elif re.search(r"match\s+applied_on\s*\{", vo):
                body = R.fn_body(vo, r"match\s+applied_on\s*")
                bad = []
                for arm in re.finditer(r"((?:Attributables::\w+\(_\)\s*\|?\s*)+)=>\s*\{(.*?)\}", body, flags=re.S):
                    if "report_invalid_attribute" in arm.group(2):
                        bad += pl(arm.group(1))
                if not re.search(r"_\s*=>\s*\{\s*\}", body) or not bad:
                    raise R.Skip(fn + ": match applied_on has an unexpected shape")
                where = ("NotOn", bad)
            elif re.search(r"if\s+let\s+Attributables::(\w+)\(\w+\)\s*=\s*applied_on", vo) and "else" in vo:
                where = ("OnlyOn", [re.search(r"if\s+let\s+Attributables::(\w+)\(", vo).group(1)])
                no_return = bool(re.search(r"!\s*\w+\.return_type\.is_empty\(\)", vo))
                if vo.count("report_invalid_attribute") != (2 if no_return else 1):
                    raise R.Skip(fn + ": if-let validate_on has an unexpected shape")
            else:
                raise R.Skip(fn + ": validate_on has an unknown shape")
            if any(p not in PLACES for p in where[1]):
                raise R.Skip(fn + ": unknown place")
            rules.append((directive, repeatable, lo, hi, args, where, no_return))
        patch = R.strip_comments(R.read(repo, "slicec/src/patchers/mod.rs", used))
        pm = re.search(r'patch_attributes!\(\s*"([^"]*)"\s*,([^)]*)\)', patch)
        if not pm or pm.group(1) != "":
            raise R.Skip("patch_attributes! prefix is not the empty string")
        b = lambda s: R.coq_list("%d%%N" % c for c in s.encode())
        items = []
        for directive, rep, lo, hi, args, where, nr in sorted(rules):
            items.append("mkarule %s %s %d %s %s (%s %s) %s" % (b(directive), "true" if rep else "false", lo, "None" if hi is None else "(Some %d)" % hi,
                                                               "None" if args is None else "(Some %s)" % R.coq_list(b(a) for a in args),
                                                               where[0], R.coq_list("Pl" + p for p in where[1]), "true" if nr else "false"))
        out = ["From Coq Require Import List NArith.\nFrom SliceV Require Import Sema.AttrTypes.\nImport ListNotations.\n",
               "(* one entry per file of grammar/attributes: directive, repeatable, minimum and (exclusive) maximum number of arguments, accepted\n   arguments, where it may be written, whether the operation must return nothing *)",
               "Definition attribute_rules : list arule :=\n  %s." % R.coq_list(items).replace("; mkarule", ";\n   mkarule")]
        return "\n".join(out) + "\n", "slicec/src/grammar/attributes/*.rs, grammar/wrappers.rs, diagnostics/lints.rs, patchers/mod.rs"
    return f


def register_all(R):
    R.FRAGMENTS["AttributeRules"] = frag_attribute_rules(R)
