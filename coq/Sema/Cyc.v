From Coq Require Import List Bool Arith Lia Relations.
Import ListNotations.

Section Detector.
Variable succ : nat -> list nat.     (* struct/enum targets of a node's fields, in field order *)

Definition memb (x:nat) (l:list nat) : bool := existsb (Nat.eqb x) l.
Definition subsetb (a b:list nat) : bool := forallb (fun x => memb x b) a.
Definition same_set (a b:list nat) : bool := subsetb a b && subsetb b a.
Definition report := (nat * list nat)%type.          (* root, chain s1..sk with sk = root *)
Definition seen (chain:list nat) (rep:list report) : bool :=
  existsb (fun r => same_set (snd r) chain) rep.

(* push_to_stack_and_check: fuel bounds the depth of the dependency stack *)
Fixpoint push (fuel:nat) (root:nat) (stack:list nat) (c:nat) (rep:list report) : list report :=
  match fuel with
  | O => rep
  | S f =>
    if Nat.eqb c root then
      (if seen (stack ++ [c]) rep then rep else rep ++ [(root, stack ++ [c])])
    else if memb c stack then rep
    else fold_left (fun rep' c' => push f root (stack ++ [c]) c' rep') (succ c) rep
  end.
Definition check_root (fuel:nat) (rep:list report) (root:nat) : list report :=
  fold_left (fun rep' c' => push fuel root [] c' rep') (succ root) rep.
Definition detect (fuel:nat) (nodes:list nat) : list report :=
  fold_left (check_root fuel) nodes [].

(* ---------- specification ---------- *)
Definition edge (a b:nat) : Prop := In b (succ a).
Fixpoint walk (a:nat) (p:list nat) : Prop :=       (* a -> p1 -> p2 ... *)
  match p with [] => True | b :: r => edge a b /\ walk b r end.
Definition on_cycle (v:nat) : Prop := clos_trans nat edge v v.

End Detector.
