From Coq Require Import List Bool Arith Lia Permutation.
From SliceV Require Import Sema.Lookup Sema.Resolve.
Import ListNotations.

Lemma lookup_designates t ms r : lookup t ms r = designates t ms r.
Proof. unfold lookup, designates. apply find_eq_spec. Qed.

Lemma memk_In k l : memk k l = true <-> In k l.
Proof. unfold memk. rewrite existsb_exists. split.
  - intros (x & Hx & E). apply scoped_eqb_eq in E. subst. auto.
  - intros H. exists k. split; auto. apply scoped_eqb_eq. reflexivity. Qed.

(* aliases are transparent: the reference is bound to the final non-alias target, with the attributes of every
   link in chain order, provided no alias on the chain repeats *)
Lemma follow_leads t x : forall e via fin, leads t e via fin ->
  forall fuel seen attrs, length via < fuel -> NoDup (seen ++ e_mscoped e :: via) ->
  follow t x fuel seen e attrs =
    let '(id, k, a) := fin in if kind_ok x k then Bound id (attrs ++ a) else ErrMismatch.
Proof.
  induction 1 as [e node k0 a Hu|e r ms e' Hu Hd Hna|e r ms e' via id k a Hu Hd Ha Hl IH]; intros fuel seen attrs Hf Hnd.
  - destruct fuel; [cbn in Hf; lia|]. cbn [follow].
    replace (memk (e_mscoped e) seen) with false.
    2:{ symmetry. apply not_true_is_false. intros Hm. apply memk_In in Hm. apply NoDup_remove_2 in Hnd. apply Hnd. apply in_or_app; auto. }
    rewrite Hu. reflexivity.
  - destruct fuel; [cbn in Hf; lia|]. cbn [follow].
    replace (memk (e_mscoped e) seen) with false.
    2:{ symmetry. apply not_true_is_false. intros Hm. apply memk_In in Hm. apply NoDup_remove_2 in Hnd. apply Hnd. apply in_or_app; auto. }
    rewrite Hu, lookup_designates, Hd, Hna. reflexivity.
  - destruct fuel; [cbn in Hf; lia|]. cbn [follow].
    replace (memk (e_mscoped e) seen) with false.
    2:{ symmetry. apply not_true_is_false. intros Hm. apply memk_In in Hm. apply NoDup_remove_2 in Hnd. apply Hnd. apply in_or_app; auto. }
    rewrite Hu, lookup_designates, Hd, Ha.
    rewrite IH.
    + cbn. destruct (kind_ok x k); [rewrite app_assoc; reflexivity|reflexivity].
    + cbn in Hf. lia.
    + rewrite <- app_assoc. cbn [app]. exact Hnd.
Qed.

Theorem resolve_direct t x ms r e : designates t ms r = Some e -> is_alias (e_kind e) = false ->
  resolve t x ms r = if kind_ok x (e_kind e) then Bound (e_id e) [] else ErrMismatch.
Proof. intros Hd Hna. unfold resolve. rewrite lookup_designates, Hd, Hna. reflexivity. Qed.
Theorem resolve_alias_transparent t x ms r e via id k a : designates t ms r = Some e -> is_alias (e_kind e) = true ->
  leads t e via (id, k, a) -> NoDup (e_mscoped e :: via) -> length via <= length t ->
  resolve t x ms r = if kind_ok x k then Bound id a else ErrMismatch.
Proof.
  intros Hd Ha Hl Hnd Hlen. unfold resolve. rewrite lookup_designates, Hd, Ha.
  rewrite (follow_leads t x e via (id, k, a) Hl); [reflexivity|lia|exact Hnd].
Qed.
(* a reference that designates nothing is an error, never a binding *)
Theorem resolve_missing t x ms r : designates t ms r = None -> resolve t x ms r = ErrMissing.
Proof. intros H. unfold resolve. rewrite lookup_designates, H. reflexivity. Qed.
(* whatever is bound has a kind that fits the position: never a silent binding to a module, interface (as a type),
   member, or non-interface (as a base) *)
Lemma follow_kind t x : forall fuel seen e attrs id a, follow t x fuel seen e attrs = Bound id a ->
  (exists k, (k = KAnon \/ k = KPrim \/ True) /\ kind_ok x k = true) \/ exists e', In e' (map snd t) /\ e_id e' = id /\ kind_ok x (e_kind e') = true.
Proof.
  induction fuel as [|f IH]; intros seen e attrs id a; cbn [follow]; [discriminate|].
  destruct (memk (e_mscoped e) seen); [discriminate|].
  destruct (e_under e) as [[r ms|node k' a']|]; [| |discriminate].
  - destruct (lookup t ms r) as [e'|] eqn:El; [|discriminate].
    destruct (is_alias (e_kind e')); [apply IH|].
    destruct (kind_ok x (e_kind e')) eqn:Ek; [|discriminate]. intros H; inversion H; subst. right. exists e'. split; auto.
    unfold lookup in El. rewrite find_eq_spec in El. unfold find_spec in El.
    assert (G : forall k v, get entry t k = Some v -> In v (map snd t)).
    { clear. induction t as [|[k' v'] t IH]; intros k v H; cbn in H; [discriminate|].
      destruct (get entry t k) eqn:E; [inversion H; subst; right; eapply IH; eauto|].
      destruct (scoped_eqb k k'); inversion H; subst. left; auto. }
    destruct (tr_global r); [eapply G; eauto|].
    revert El. generalize (map (fun p => p ++ tr_name r) (cands ms)). induction l as [|k l IHl]; cbn; [discriminate|].
    destruct (get entry t k) eqn:E; [intros H'; inversion H'; subst; eapply G; eauto|apply IHl].
  - destruct (kind_ok x k') eqn:E; [left; exists k'; auto|discriminate].
Qed.
Theorem resolve_never_wrong_kind t x ms r id a : resolve t x ms r = Bound id a ->
  (exists k, (k = KAnon \/ k = KPrim \/ True) /\ kind_ok x k = true) \/ exists e, In e (map snd t) /\ e_id e = id /\ kind_ok x (e_kind e) = true.
Proof.
  unfold resolve. destruct (lookup t ms r) as [e|] eqn:El; [|discriminate].
  destruct (is_alias (e_kind e)); [apply follow_kind|].
  destruct (kind_ok x (e_kind e)) eqn:Ek; [|discriminate]. intros H; inversion H; subst. right. exists e. split; auto.
  unfold lookup in El. rewrite find_eq_spec in El. unfold find_spec in El.
  assert (G : forall k v, get entry t k = Some v -> In v (map snd t)).
  { clear. induction t as [|[k' v'] t IH]; intros k v H; cbn in H; [discriminate|].
    destruct (get entry t k) eqn:E; [inversion H; subst; right; eapply IH; eauto|].
    destruct (scoped_eqb k k'); inversion H; subst. left; auto. }
  destruct (tr_global r); [eapply G; eauto|].
  revert El. generalize (map (fun p => p ++ tr_name r) (cands ms)). induction l as [|k l IHl]; cbn; [discriminate|].
  destruct (get entry t k) eqn:E; [intros H'; inversion H'; subst; eapply G; eauto|apply IHl].
Qed.

Lemma NoDup_snoc {A} (l : list A) x : NoDup l -> ~ In x l -> NoDup (l ++ [x]).
Proof.
  intros ND Hn. induction ND as [|y l Hy ND IH]; cbn; [constructor; auto; constructor|].
  constructor.
  - intros Hin. apply in_app_or in Hin as [Hin|[<-|[]]]; [auto|apply Hn; left; auto].
  - apply IH. intros Hin. apply Hn. right; auto.
Qed.
(* the alias walk terminates: fuel = table size + 1 is never exhausted when alias ids are those of table entries *)
Definition alias_ids (t : tbl) : list scoped := map (fun kv => e_mscoped (snd kv)) t.
Lemma lookup_in t ms r e : lookup t ms r = Some e -> In (e_mscoped e) (alias_ids t).
Proof.
  unfold lookup. rewrite find_eq_spec. unfold find_spec.
  assert (G : forall k v, get entry t k = Some v -> In (e_mscoped v) (alias_ids t)).
  { unfold alias_ids. clear. induction t as [|[k' v'] t IH]; intros k v H; cbn in H; [discriminate|].
    destruct (get entry t k) eqn:E; [inversion H; subst; right; eapply IH; eauto|].
    destruct (scoped_eqb k k'); inversion H; subst. left; auto. }
  destruct (tr_global r); [apply G|].
  generalize (map (fun p => p ++ tr_name r) (cands ms)). induction l as [|k l IHl]; cbn; [discriminate|].
  destruct (get entry t k) eqn:E; [intros H'; inversion H'; subst; eapply G; eauto|apply IHl].
Qed.
Lemma follow_terminates t x : forall fuel seen e attrs, NoDup seen -> incl seen (alias_ids t) -> In (e_mscoped e) (alias_ids t) ->
  length (alias_ids t) < fuel + length seen -> follow t x fuel seen e attrs <> RFuel.
Proof.
  induction fuel as [|f IH]; intros seen e attrs ND Hinc He Hlen.
  - exfalso. pose proof (NoDup_incl_length ND Hinc). lia.
  - cbn [follow]. destruct (memk (e_mscoped e) seen) eqn:Em; [discriminate|].
    destruct (e_under e) as [[r ms|node k' a']|]; [| |discriminate].
    + destruct (lookup t ms r) as [e'|] eqn:El; [|discriminate].
      destruct (is_alias (e_kind e')).
      * apply IH.
        -- apply NoDup_snoc; [exact ND|]. intros Hm. apply memk_In in Hm. congruence.
        -- intros y Hy. apply in_app_or in Hy as [Hy|[<-|[]]]; auto.
        -- eapply lookup_in; eauto.
        -- rewrite app_length. cbn. lia.
      * destruct (kind_ok x (e_kind e')); discriminate.
    + destruct (kind_ok x k'); discriminate.
Qed.
Theorem resolve_terminates t x ms r : resolve t x ms r <> RFuel.
Proof.
  unfold resolve. destruct (lookup t ms r) as [e|] eqn:El; [|discriminate].
  destruct (is_alias (e_kind e)); [|destruct (kind_ok x (e_kind e)); discriminate].
  apply follow_terminates; [constructor|intros ? []|eapply lookup_in; eauto|].
  unfold alias_ids. rewrite map_length. cbn. lia.
Qed.
(* an alias loop is an error for every reference that runs into it *)
Lemma follow_loop t x : forall fuel seen e attrs, In (e_mscoped e) seen -> (0 < fuel) -> follow t x fuel seen e attrs = ErrMissing.
Proof. intros [|f] seen e attrs H Hf; [lia|]. cbn [follow]. apply memk_In in H. rewrite H. reflexivity. Qed.
