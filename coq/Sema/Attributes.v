(* Attribute rules (C04): where the built-in attributes may be written, how many and which arguments they take, which may be
   repeated, and that unknown directives without a scope prefix are rejected -- the model of patchers/mod.rs::patch_attributes,
   the parse_from/validate_on functions of grammar/attributes/*.rs and validators/attribute.rs.  The table of built-in attributes
   (Gen/AttributeRules.v) is regenerated from those sources on every run.  Model only; proofs in AttributesProofs.v. *)
From Coq Require Import List NArith Bool Arith.
From SliceV Require Import Doc.Comment Sema.AttrTypes.
Import ListNotations.
Local Open Scope nat_scope.

Record attribute := mkattribute { ad_dir : list N; ad_args : list (list N) }.
(* an element carrying attributes; for an operation: whether it returns anything *)
Record element := mkelement { el_place : place; el_returns : bool; el_attrs : list attribute }.
Inductive acode := E023 (* InvalidAttribute *) | E024 (* UnknownAttribute *) | E026 (* AttributeIsNotRepeatable *)
                 | E027 (* InvalidAttributeArgument *) | E028 (* IncorrectAttributeArgumentCount *).

Definition place_eqb (a b : place) : bool :=
  match a, b with
  | PlModule, PlModule | PlStruct, PlStruct | PlField, PlField | PlInterface, PlInterface | PlOperation, PlOperation | PlParameter, PlParameter
  | PlEnum, PlEnum | PlEnumerator, PlEnumerator | PlCustomType, PlCustomType | PlTypeAlias, PlTypeAlias | PlTypeRef, PlTypeRef | PlSliceFile, PlSliceFile => true
  | _, _ => false
  end.
Fixpoint find_rule (rs : list arule) (dir : list N) : option arule :=
  match rs with [] => None | r :: rest => if cstr_eqb (ar_dir r) dir then Some r else find_rule rest dir end.
(* the language's built-in attributes, as the property fixes them; Gen/AttributeRules.v (regenerated from the sources on every run) must be
   this table (theorem regenerated_table_is_expected) *)
Definition lint_arguments : list (list N) := (* All Deprecated MalformedDocComment IncorrectDocComment BrokenDocLink *)
  [[65%N; 108%N; 108%N];
   [68%N; 101%N; 112%N; 114%N; 101%N; 99%N; 97%N; 116%N; 101%N; 100%N];
   [77%N; 97%N; 108%N; 102%N; 111%N; 114%N; 109%N; 101%N; 100%N; 68%N; 111%N; 99%N; 67%N; 111%N; 109%N; 109%N; 101%N; 110%N; 116%N];
   [73%N; 110%N; 99%N; 111%N; 114%N; 114%N; 101%N; 99%N; 116%N; 68%N; 111%N; 99%N; 67%N; 111%N; 109%N; 109%N; 101%N; 110%N; 116%N];
   [66%N; 114%N; 111%N; 107%N; 101%N; 110%N; 68%N; 111%N; 99%N; 76%N; 105%N; 110%N; 107%N]].
Definition args_return : list (list N) := [[65%N; 114%N; 103%N; 115%N]; [82%N; 101%N; 116%N; 117%N; 114%N; 110%N]].   (* Args Return *)
Definition d_allow : list N := [97%N; 108%N; 108%N; 111%N; 119%N].
Definition d_compress : list N := [99%N; 111%N; 109%N; 112%N; 114%N; 101%N; 115%N; 115%N].
Definition d_deprecated : list N := [100%N; 101%N; 112%N; 114%N; 101%N; 99%N; 97%N; 116%N; 101%N; 100%N].
Definition d_oneway : list N := [111%N; 110%N; 101%N; 119%N; 97%N; 121%N].
Definition d_slicedFormat : list N := [115%N; 108%N; 105%N; 99%N; 101%N; 100%N; 70%N; 111%N; 114%N; 109%N; 97%N; 116%N].
Definition the_rules : list arule :=
  [mkarule d_allow true 1 None (Some lint_arguments) (NotOn [PlModule; PlTypeRef]) false;
   mkarule d_compress false 1 None (Some args_return) (OnlyOn [PlOperation]) false;
   mkarule d_deprecated false 0 (Some 2) None (NotOn [PlModule; PlTypeRef; PlSliceFile; PlParameter]) false;
   mkarule d_oneway false 0 (Some 1) None (OnlyOn [PlOperation]) true;
   mkarule d_slicedFormat false 1 None (Some args_return) (OnlyOn [PlOperation]) false].
Definition rule_of (a : attribute) : option arule := find_rule the_rules (ad_dir a).
(* directive.split_once("::").map_or("", |(p, _)| p) == "": there is no "::" in it, or it starts with one *)
Fixpoint has_sep (s : list N) : bool := match s with 58%N :: ((58%N :: _) as r) => true | _ :: r => has_sep r | [] => false end.
Definition starts_with_sep (s : list N) : bool := match s with 58%N :: 58%N :: _ => true | _ => false end.
Definition unscoped (dir : list N) : bool := negb (has_sep dir) || starts_with_sep dir.

(* ---------- patching: parse_from of the attribute's kind, or UnknownAttribute ---------- *)
Definition count_ok (r : arule) (n : nat) : bool := (ar_min r <=? n) && match ar_max r with Some m => n <? m | None => true end.
Definition arg_ok (r : arule) (arg : list N) : bool := match ar_args r with Some l => existsb (cstr_eqb arg) l | None => true end.
Definition parse_codes (a : attribute) : list acode :=
  match rule_of a with
  | Some r => (if count_ok r (length (ad_args a)) then [] else [E028]) ++ map (fun _ => E027) (filter (fun x => negb (arg_ok r x)) (ad_args a))
  | None => if unscoped (ad_dir a) then [E024] else []
  end.

(* ---------- validation: repeats, then placement ---------- *)
Definition nonrepeatable (a : attribute) : bool := match rule_of a with Some r => negb (ar_repeatable r) | None => false end.
Fixpoint repeat_codes (seen : list (list N)) (l : list attribute) : list acode :=
  match l with
  | [] => []
  | a :: r => if nonrepeatable a then (if existsb (cstr_eqb (ad_dir a)) seen then E026 :: repeat_codes seen r else repeat_codes (ad_dir a :: seen) r)
              else repeat_codes seen r
  end.
Definition placed_ok (r : arule) (p : place) (returns : bool) : bool :=
  match ar_where r with OnlyOn l => existsb (place_eqb p) l | NotOn l => negb (existsb (place_eqb p) l) end
  && negb (ar_no_return r && returns).
Definition place_codes (e : element) (a : attribute) : list acode :=
  match rule_of a with Some r => if placed_ok r (el_place e) (el_returns e) then [] else [E023] | None => [] end.
Definition validate_codes (e : element) : list acode := repeat_codes [] (el_attrs e) ++ flat_map (place_codes e) (el_attrs e).

(* ---------- a program: patching reports first and stops the compilation; otherwise every element is validated ---------- *)
Definition patch_codes (es : list element) : list acode := flat_map (fun e => flat_map parse_codes (el_attrs e)) es.
Definition check_attributes (es : list element) : list acode :=
  match patch_codes es with [] => flat_map validate_codes es | l => l end.
