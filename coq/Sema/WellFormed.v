(* The rule catalogue of C04 as declarative predicates, and the proof that the checks of Sema/Validate.v are silent
   exactly on the programs that satisfy it. *)
From Coq Require Import List Bool Arith ZArith Lia Sorting Permutation Orders.
From SliceV Require Import Gen.NumericBounds Sema.Validate.
Import ListNotations.

(* ---------- small tools ---------- *)
Lemma app_nil_iff {A} (a b : list A) : a ++ b = [] <-> a = [] /\ b = [].
Proof. split; [apply app_eq_nil|intros [-> ->]; reflexivity]. Qed.
Lemma flat_map_nil_iff {A B} (f : A -> list B) l : flat_map f l = [] <-> forall x, In x l -> f x = [].
Proof.
  induction l as [|a l IH]; cbn; [tauto|]. rewrite app_nil_iff, IH. split.
  - intros [Ha Hl] x [<-|Hx]; auto.
  - intros H. split; [apply H; auto|intros; apply H; auto].
Qed.
Lemma if_nil_iff {A} (b : bool) (l : list A) : l <> [] -> ((if b then l else []) = [] <-> b = false).
Proof. destruct b; split; intros; try congruence; auto. Qed.
Lemma memn_In x l : memn x l = true <-> In x l.
Proof. unfold memn. rewrite existsb_exists. split; [intros (y & Hy & E); apply Nat.eqb_eq in E; subst; auto|intros H; exists x; split; auto; apply Nat.eqb_refl]. Qed.

(* ---------- names unique within their scope ---------- *)
Lemma redefs_nil_iff : forall names seen, NoDup seen -> (redefs seen names = [] <-> NoDup (names ++ seen) ).
Proof.
  induction names as [|n r IH]; intros seen ND; cbn [redefs app]; [tauto|].
  destruct (memn n seen) eqn:E.
  - split; [intros H; destruct (app_eq_nil _ _ H); discriminate|].
    intros H. inversion H as [|? ? Hn _]; subst. exfalso. apply Hn. apply in_or_app. right. apply memn_In. exact E.
  - cbn [app]. rewrite IH.
    + split; intros H.
      * apply NoDup_cons_iff. split.
        -- intros Hin. apply in_app_or in Hin as [Hin|Hin].
           ++ apply (NoDup_remove_2 _ _ _ H). apply in_or_app. auto.
           ++ apply memn_In in Hin. congruence.
        -- eapply NoDup_remove_1. exact H.
      * inversion H as [|? ? Hn Hr]; subst. apply NoDup_Add with (a := n) (l := r ++ seen).
        -- apply Add_app.
        -- split; auto.
    + constructor; auto. intros Hin. apply memn_In in Hin. congruence.
Qed.
Theorem names_unique_iff names : redefs [] names = [] <-> NoDup names.
Proof. rewrite redefs_nil_iff by constructor. rewrite app_nil_r. tauto. Qed.

(* ---------- tags ---------- *)
Lemma adjacent_dups_nil_iff l : StronglySorted (fun a b => (a <= b)%Z) l -> (adjacent_dups l = [] <-> NoDup l).
Proof.
  induction 1 as [|a l Hs IH Hall]; [cbn; split; auto; constructor|].
  destruct l as [|b r]; [cbn; split; auto; intros _; constructor; [tauto|constructor]|].
  cbn [adjacent_dups]. rewrite app_nil_iff, IH. split.
  - intros [Hab Hnd]. constructor; auto.
    destruct (Z.eqb_spec a b) as [->|Hne]; [discriminate|].
    intros [E|Hin]; [congruence|].
    inversion Hall as [|? ? Hab' Hall']; subst. inversion Hs as [|? ? Hs' Hb]; subst.
    rewrite Forall_forall in Hall', Hb. pose proof (Hall' _ Hin). pose proof (Hb _ Hin). lia.
  - intros Hnd. inversion Hnd as [|? ? Hn Hnd']; subst. split; auto.
    destruct (Z.eqb_spec a b) as [->|Hne]; [exfalso; apply Hn; left; reflexivity|reflexivity].
Qed.
Theorem tags_unique_iff tags : adjacent_dups (ZSort.sort tags) = [] <-> NoDup tags.
Proof.
  assert (S: StronglySorted (fun a b => (a <= b)%Z) (ZSort.sort tags)).
  { pose proof (ZSort.StronglySorted_sort tags) as H.
    assert (Tr: Relations_1.Transitive (fun x y => is_true (ZOrder.leb x y))).
    { intros x y z Hxy Hyz. unfold is_true, ZOrder.leb in *. apply Z.leb_le in Hxy, Hyz. apply Z.leb_le. lia. }
    specialize (H Tr). clear Tr. induction H; constructor; auto.
    rewrite Forall_forall in *. intros x Hx. specialize (H0 x Hx). unfold is_true, ZOrder.leb in H0. apply Z.leb_le; auto. }
  rewrite (adjacent_dups_nil_iff _ S). split; intros H.
  - eapply Permutation_NoDup; [apply Permutation_sym, ZSort.Permuted_sort|exact H].
  - eapply Permutation_NoDup; [apply ZSort.Permuted_sort|exact H].
Qed.
(* tags unique and only on optional members *)
Definition members_ok (ms : list member) : Prop :=
  (forall m, In m ms -> is_tagged m = true -> opt_of (m_ty m) = true) /\ NoDup (tags_of ms).
Theorem validate_members_iff ms : validate_members ms = [] <-> members_ok ms.
Proof.
  unfold validate_members, members_ok. rewrite app_nil_iff, tags_unique_iff, flat_map_nil_iff.
  split; intros [H1 H2]; split; auto.
  - intros m Hm Ht. specialize (H1 m Hm). rewrite Ht in H1. destruct (opt_of (m_ty m)); [reflexivity|discriminate].
  - intros m Hm. destruct (is_tagged m) eqn:Et; [|reflexivity]. rewrite (H1 m Hm Et). reflexivity.
Qed.

(* ---------- structs ---------- *)
Definition struct_ok (s : sdef) : Prop :=
  s_compact s = true -> s_fields s <> [] /\ forall m, In m (s_fields s) -> is_tagged m = false.
Theorem validate_struct_iff s : validate_struct s = [] <-> struct_ok s.
Proof.
  unfold validate_struct, struct_ok. rewrite app_nil_iff. destruct (s_compact s); cbn [andb].
  - rewrite flat_map_nil_iff. split.
    + intros [H1 H2] _. split.
      * destruct (s_fields s); [discriminate|discriminate].
      * intros m Hm. specialize (H2 m Hm). destruct (is_tagged m); [discriminate|reflexivity].
    + intros H. destruct (H eq_refl) as [Hne Ht]. split.
      * destruct (s_fields s); [congruence|reflexivity].
      * intros m Hm. rewrite (Ht m Hm). reflexivity.
  - split; [intros _ H; discriminate|auto].
Qed.

(* ---------- enums ---------- *)
Lemma dup_values_nil_iff : forall vs seen, NoDup seen -> (dup_values seen vs = [] <-> NoDup (vs ++ seen)).
Proof.
  induction vs as [|v r IH]; intros seen ND; cbn [dup_values app]; [tauto|].
  destruct (existsb (Z.eqb v) seen) eqn:E.
  - split; [discriminate|]. intros H. inversion H as [|? ? Hn _]; subst. exfalso. apply Hn. apply in_or_app. right.
    apply existsb_exists in E as (y & Hy & Ey). apply Z.eqb_eq in Ey. subst. exact Hy.
  - assert (Hnin : ~ In v seen).
    { intros Hin. assert (existsb (Z.eqb v) seen = true) by (apply existsb_exists; exists v; split; auto; apply Z.eqb_refl). congruence. }
    rewrite IH by (constructor; auto). split; intros H.
    + apply NoDup_cons_iff. split.
      * intros Hin. apply in_app_or in Hin as [Hin|Hin]; [|auto]. apply (NoDup_remove_2 _ _ _ H). apply in_or_app. auto.
      * eapply NoDup_remove_1. exact H.
    + inversion H as [|? ? Hn Hr]; subst. apply NoDup_Add with (a := v) (l := r ++ seen); [apply Add_app|split; auto].
Qed.
Record enum_ok (e : edef) : Prop := {
  eo_bounds : forall b, bounds_of e = Some b -> forall en, In en (ed_ens e) -> in_range b (en_value en) = true;
  eo_integral : forall q o, ed_under e = Some (q, o) -> prim_is_integral q = true /\ o = false;
  eo_unique : NoDup (map en_value (ed_ens e));
  eo_nonempty : ed_unchecked e = false -> ed_ens e <> [];
  eo_compact : ed_compact e = true -> ed_under e = None /\ ed_unchecked e = false /\
               forall en m, In en (ed_ens e) -> In m (en_field_list en) -> is_tagged m = false;
  eo_no_fields : ed_under e <> None -> forall en, In en (ed_ens e) -> en_fields en = None }.
Theorem validate_enum_iff e : validate_enum e = [] <-> enum_ok e.
Proof.
  unfold validate_enum. rewrite !app_nil_iff. split.
  - intros (H1 & H2 & H3 & H4 & H5 & H6 & H7 & H8). constructor.
    + intros b Hb en Hen. rewrite Hb in H1. rewrite flat_map_nil_iff in H1. specialize (H1 en Hen).
      destruct (in_range b (en_value en)); [reflexivity|discriminate].
    + intros q o Hu. rewrite Hu in H2, H4. split; [destruct (prim_is_integral q); [reflexivity|discriminate]|destruct o; [discriminate|reflexivity]].
    + apply dup_values_nil_iff in H3; [rewrite app_nil_r in H3; exact H3|constructor].
    + intros Hu Hn. rewrite Hu, Hn in H5. discriminate.
    + intros Hc. rewrite Hc in H6, H7. apply app_nil_iff in H6 as [H6a H6b]. repeat split.
      * destruct (ed_under e); [discriminate|reflexivity].
      * destruct (ed_unchecked e); [discriminate|reflexivity].
      * intros en m Hen Hm. rewrite flat_map_nil_iff in H7. specialize (H7 en Hen). rewrite flat_map_nil_iff in H7. specialize (H7 m Hm).
        destruct (is_tagged m); [discriminate|reflexivity].
    + intros Hu en Hen. destruct (ed_under e) as [u|]; [|congruence]. rewrite flat_map_nil_iff in H8. specialize (H8 en Hen).
      destruct (en_fields en); [discriminate|reflexivity].
  - intros [B I U N C F]. repeat split.
    + destruct (bounds_of e) as [b|] eqn:Eb; [|reflexivity]. apply flat_map_nil_iff. intros en Hen. rewrite (B b eq_refl en Hen). reflexivity.
    + destruct (ed_under e) as [[q o]|] eqn:Eu; [|reflexivity]. destruct (I q o eq_refl) as [-> _]. reflexivity.
    + apply dup_values_nil_iff; [constructor|rewrite app_nil_r; exact U].
    + destruct (ed_under e) as [[q o]|] eqn:Eu; [|reflexivity]. destruct (I q o eq_refl) as [_ ->]. reflexivity.
    + destruct (ed_unchecked e) eqn:Eu; cbn; [reflexivity|]. specialize (N eq_refl). destruct (ed_ens e); [congruence|reflexivity].
    + destruct (ed_compact e) eqn:Ec; [|reflexivity]. destruct (C eq_refl) as (-> & -> & _). reflexivity.
    + destruct (ed_compact e) eqn:Ec; [|reflexivity]. destruct (C eq_refl) as (_ & _ & Ht).
      apply flat_map_nil_iff. intros en Hen. apply flat_map_nil_iff. intros m Hm. rewrite (Ht en m Hen Hm). reflexivity.
    + destruct (ed_under e) as [u|] eqn:Eu; [|reflexivity]. apply flat_map_nil_iff. intros en Hen.
      rewrite (F ltac:(discriminate) en Hen). reflexivity.
Qed.

(* ---------- stream only on the single last parameter ---------- *)
Definition stream_ok (ms : list member) : Prop := forall m, In m (removelast ms) -> m_stream m = false.
Lemma filter_stream_removelast ms : stream_ok ms -> (length (filter m_stream ms) <= 1)%nat.
Proof.
  induction ms as [|a ms IH]; intros H; cbn; [lia|].
  destruct ms as [|b r]; [cbn; destruct (m_stream a); cbn; lia|].
  assert (Ha : m_stream a = false) by (apply H; cbn; auto). rewrite Ha. apply IH.
  intros m Hm. apply H. cbn. right. exact Hm.
Qed.
Theorem validate_parameters_iff ms : validate_parameters ms = [] <-> stream_ok ms.
Proof.
  unfold validate_parameters, stream_ok. rewrite app_nil_iff, flat_map_nil_iff. split.
  - intros [H _] m Hm. specialize (H m Hm). destruct (m_stream m); [discriminate|reflexivity].
  - intros H. split; [intros m Hm; rewrite (H m Hm); reflexivity|].
    pose proof (filter_stream_removelast ms H) as Hl. destruct (Nat.ltb_spec 1 (length (filter m_stream ms))); [lia|reflexivity].
Qed.

(* ---------- dictionary keys ---------- *)
(* a legal key: non-optional; integral, bool or string; a custom type; an enum with an underlying type;
   or a compact struct all of whose fields are legal keys *)
Inductive legal_key (p : program) : rtyref -> Prop :=
| lk_prim q : prim_is_integral q = true \/ q = 0 \/ q = 15 -> legal_key p (RT false (RPrim q))
| lk_custom : legal_key p (RT false RCustom)
| lk_enum id e u : find_enum p id = Some e -> ed_under e = Some u -> legal_key p (RT false (REnum id))
| lk_struct id s : find_struct p id = Some s -> s_compact s = true ->
    (forall m, In m (s_fields s) -> legal_key p (m_ty m)) -> legal_key p (RT false (RStruct id)).
Theorem key_error_sound p : forall fuel t, key_error p fuel t = None -> legal_key p t.
Proof.
  induction fuel as [|f IH]; intros [opt ty]; cbn [key_error]; [discriminate|].
  destruct opt; [discriminate|]. destruct ty as [q|id|id| |e|k v|s fl]; try discriminate.
  - destruct (prim_is_integral q || Nat.eqb q 0 || Nat.eqb q 15) eqn:E; [|discriminate]. intros _. constructor.
    apply orb_true_iff in E as [E|E].
    + apply orb_true_iff in E as [E|E]; [left; exact E|right; left; apply Nat.eqb_eq; exact E].
    + right; right; apply Nat.eqb_eq; exact E.
  - destruct (find_struct p id) as [s|] eqn:Es; [|discriminate].
    destruct (s_compact s) eqn:Ec; cbn [negb]; [|discriminate].
    destruct (existsb _ (s_fields s)) eqn:Ex; [discriminate|]. intros _. econstructor; eauto.
    intros m Hm. apply IH. destruct (key_error p f (m_ty m)) eqn:Ek; [|reflexivity]. exfalso.
    assert (existsb (fun m0 => match key_error p f (m_ty m0) with Some _ => true | None => false end) (s_fields s) = true).
    { apply existsb_exists. exists m. rewrite Ek. auto. }
    congruence.
  - destruct (find_enum p id) as [e|] eqn:Ee; [|discriminate]. destruct (ed_under e) as [u|] eqn:Eu; [|discriminate]. intros _. econstructor; eauto.
  - intros _. constructor.
Qed.
(* conversely a legal key passes the check whenever the fuel covers the nesting depth of compact key structs *)
Inductive legal_key_depth (p : program) : nat -> rtyref -> Prop :=
| lkd_prim n q : prim_is_integral q = true \/ q = 0 \/ q = 15 -> legal_key_depth p (S n) (RT false (RPrim q))
| lkd_custom n : legal_key_depth p (S n) (RT false RCustom)
| lkd_enum n id e u : find_enum p id = Some e -> ed_under e = Some u -> legal_key_depth p (S n) (RT false (REnum id))
| lkd_struct n id s : find_struct p id = Some s -> s_compact s = true ->
    (forall m, In m (s_fields s) -> legal_key_depth p n (m_ty m)) -> legal_key_depth p (S n) (RT false (RStruct id)).
Theorem key_error_complete p : forall n t, legal_key_depth p n t -> forall fuel, (n <= fuel)%nat -> key_error p fuel t = None.
Proof.
  induction 1 as [n q Hq|n|n id e u He Hu|n id s Hs Hc Hf IH]; intros fuel Hle; (destruct fuel as [|f]; [lia|]); cbn [key_error].
  - replace (prim_is_integral q || Nat.eqb q 0 || Nat.eqb q 15) with true; [reflexivity|].
    symmetry. destruct Hq as [H|[->| ->]].
    + rewrite H. reflexivity.
    + cbn [Nat.eqb]. rewrite orb_true_r. reflexivity.
    + cbn [Nat.eqb]. apply orb_true_r.
  - reflexivity.
  - rewrite He, Hu. reflexivity.
  - rewrite Hs, Hc. cbn [negb].
    replace (existsb _ (s_fields s)) with false; [reflexivity|]. symmetry. apply not_true_is_false. intros Hex.
    apply existsb_exists in Hex as (m & Hm & Hk). rewrite (IH m Hm f ltac:(lia)) in Hk. discriminate.
Qed.
(* every dictionary reachable in a visited type has a key the check accepts *)
Fixpoint dict_keys (t : rtyref) : list rtyref :=
  match t with RT _ ty =>
    match ty with
    | RSeq e => dict_keys e
    | RDict k v => k :: dict_keys k ++ dict_keys v
    | RRes s f => dict_keys s ++ dict_keys f
    | _ => []
    end
  end.
Theorem dict_errors_iff p : forall t, dict_errors p t = [] <-> forall k, In k (dict_keys t) -> key_error p (S (length p)) k = None.
Proof.
  fix IH 1. intros [o ty]. destruct ty as [q|id|id| |e|k v|s f]; cbn [dict_errors dict_keys]; try (split; [intros _ k []|reflexivity]).
  - apply IH.
  - rewrite !app_nil_iff, (IH k), (IH v). split.
    + intros (H1 & H2 & H3) x [<-|Hx]; [destruct (key_error p (S (length p)) k); [discriminate|reflexivity]|].
      apply in_app_or in Hx as [Hx|Hx]; auto.
    + intros H. repeat split.
      * rewrite (H k) by (left; reflexivity). reflexivity.
      * intros x Hx. apply H. right. apply in_or_app. auto.
      * intros x Hx. apply H. right. apply in_or_app. auto.
  - rewrite app_nil_iff, (IH s), (IH f). split.
    + intros [H1 H2] x Hx. apply in_app_or in Hx as [Hx|Hx]; auto.
    + intros H. split; intros x Hx; apply H; apply in_or_app; auto.
Qed.

(* ---------- no redeclaration of an inherited operation ---------- *)
Theorem shadow_errors_iff p i : shadow_errors p i = [] <-> forall o, In o (i_ops i) -> ~ In (o_name o) (inherited_op_names p i).
Proof.
  unfold shadow_errors. rewrite flat_map_nil_iff. split.
  - intros H o Ho Hin. specialize (H o Ho). rewrite flat_map_nil_iff in H. specialize (H _ Hin). rewrite Nat.eqb_refl in H. discriminate.
  - intros H o Ho. apply flat_map_nil_iff. intros n Hn. destruct (Nat.eqb_spec (o_name o) n) as [E|]; [exfalso; apply (H o Ho); rewrite E; exact Hn|reflexivity].
Qed.

(* ---------- the catalogue, per definition, and the composed statement ---------- *)
Definition types_ok (p : program) (ms : list member) : Prop :=
  forall m k, In m ms -> In k (dict_keys (m_ty m)) -> key_error p (S (length p)) k = None.
Lemma members_type_errors_iff p ms : members_type_errors p ms = [] <-> types_ok p ms.
Proof.
  unfold members_type_errors, types_ok. rewrite flat_map_nil_iff. split.
  - intros H m k Hm. apply dict_errors_iff. auto.
  - intros H m Hm. apply dict_errors_iff. intros k. apply H. exact Hm.
Qed.
Definition def_ok (p : program) (d : def) : Prop :=
  match d with
  | DS _ s => struct_ok s /\ members_ok (s_fields s) /\ types_ok p (s_fields s)
  | DE _ e => enum_ok e /\ forall en, In en (ed_ens e) -> members_ok (en_field_list en) /\ types_ok p (en_field_list en)
  | DI _ i => (forall o, In o (i_ops i) -> ~ In (o_name o) (inherited_op_names p i)) /\
              forall o, In o (i_ops i) -> members_ok (o_params o) /\ members_ok (o_rets o) /\ stream_ok (o_params o) /\ stream_ok (o_rets o)
                                         /\ types_ok p (o_params o) /\ types_ok p (o_rets o)
  | DC _ => True
  | DA _ t => opt_of t = false /\ forall k, In k (dict_keys t) -> key_error p (S (length p)) k = None
  end.
Theorem validate_def_iff p d : validate_def p d = [] <-> def_ok p d.
Proof.
  destruct d as [id s|id e|id i|n|n t]; cbn [validate_def def_ok].
  - rewrite !app_nil_iff, validate_struct_iff, validate_members_iff, members_type_errors_iff. tauto.
  - rewrite app_nil_iff, validate_enum_iff, flat_map_nil_iff. split; intros [H1 H2]; split; auto; intros en Hen; specialize (H2 en Hen).
    + rewrite app_nil_iff, validate_members_iff, members_type_errors_iff in H2. exact H2.
    + rewrite app_nil_iff, validate_members_iff, members_type_errors_iff. exact H2.
  - rewrite app_nil_iff, shadow_errors_iff, flat_map_nil_iff. split; intros [H1 H2]; split; auto; intros o Ho; specialize (H2 o Ho).
    + rewrite !app_nil_iff, !validate_members_iff, !validate_parameters_iff, !members_type_errors_iff in H2. tauto.
    + rewrite !app_nil_iff, !validate_members_iff, !validate_parameters_iff, !members_type_errors_iff. tauto.
  - tauto.
  - rewrite app_nil_iff, dict_errors_iff. destruct (opt_of t); split; intros [H1 H2]; try discriminate; split; auto.
Qed.

(* names unique in every scope: definitions, fields, operations, parameters, return members, enumerators, enumerator fields *)
Definition names_ok (p : program) : Prop :=
  NoDup (map def_name p) /\
  forall d, In d p ->
    match d with
    | DS _ s => NoDup (names_of (s_fields s))
    | DI _ i => NoDup (map o_name (i_ops i)) /\ forall o, In o (i_ops i) -> NoDup (names_of (o_params o)) /\ NoDup (names_of (o_rets o))
    | DE _ e => NoDup (map en_name (ed_ens e)) /\ forall en fs, In en (ed_ens e) -> en_fields en = Some fs -> NoDup (names_of fs)
    | _ => True
    end.
Theorem redefinition_errors_iff p : redefinition_errors p = [] <-> names_ok p.
Proof.
  unfold redefinition_errors, names_ok. rewrite app_nil_iff, names_unique_iff, flat_map_nil_iff.
  split; intros [H1 H2]; split; auto; intros d Hd; specialize (H2 d Hd); destruct d as [id s|id e|id i|n|n t]; auto.
  - apply names_unique_iff. exact H2.
  - apply app_nil_iff in H2 as [Ha Hb]. split; [apply names_unique_iff; exact Ha|].
    intros en fs Hen Hfs. rewrite flat_map_nil_iff in Hb. specialize (Hb en Hen). rewrite Hfs in Hb. apply names_unique_iff. exact Hb.
  - apply app_nil_iff in H2 as [Ha Hb]. split; [apply names_unique_iff; exact Ha|].
    intros o Ho. rewrite flat_map_nil_iff in Hb. specialize (Hb o Ho). apply app_nil_iff in Hb as [Hp Hr]. split; apply names_unique_iff; auto.
  - apply names_unique_iff. exact H2.
  - destruct H2 as [Ha Hb]. apply app_nil_iff. split; [apply names_unique_iff; exact Ha|].
    apply flat_map_nil_iff. intros en Hen. destruct (en_fields en) as [fs|] eqn:E; [|reflexivity]. apply names_unique_iff. eapply Hb; eauto.
  - destruct H2 as [Ha Hb]. apply app_nil_iff. split; [apply names_unique_iff; exact Ha|].
    apply flat_map_nil_iff. intros o Ho. destruct (Hb o Ho). apply app_nil_iff. split; apply names_unique_iff; auto.
Qed.

(* tags within 0..2^31-1; return tuples of at least two *)
Definition syntax_ok (p : program) : Prop :=
  (forall d ms m t, In d p -> In ms (all_member_lists d) -> In m ms -> m_tag m = Some t -> in_range tag_bounds t = true) /\
  (forall id i o, In (DI id i) p -> In o (i_ops i) -> o_tuple o = true -> (2 <= length (o_rets o))%nat).
Theorem parse_errors_iff p : parse_errors p = [] <-> syntax_ok p.
Proof.
  unfold parse_errors, syntax_ok. rewrite app_nil_iff, !flat_map_nil_iff. split.
  - intros [H1 H2]. split.
    + intros d ms m t Hd Hms Hm Ht. specialize (H1 d Hd). rewrite flat_map_nil_iff in H1. specialize (H1 ms Hms).
      unfold tag_range_errors in H1. rewrite flat_map_nil_iff in H1. specialize (H1 m Hm). rewrite Ht in H1.
      destruct (in_range tag_bounds t); [reflexivity|discriminate].
    + intros id i o Hd Ho Ht. specialize (H2 _ Hd). cbn beta iota in H2. rewrite flat_map_nil_iff in H2. specialize (H2 o Ho). rewrite Ht in H2. cbn [andb] in H2.
      destruct (Nat.ltb (length (o_rets o)) 2) eqn:E; [discriminate H2|apply Nat.ltb_ge in E; lia].
  - intros [H1 H2]. split.
    + intros d Hd. apply flat_map_nil_iff. intros ms Hms. unfold tag_range_errors. apply flat_map_nil_iff. intros m Hm.
      destruct (m_tag m) as [t|] eqn:Et; [|reflexivity]. rewrite (H1 d ms m t Hd Hms Hm Et). reflexivity.
    + intros d Hd. destruct d as [id s|id e|id i|n|n t]; auto. apply flat_map_nil_iff. intros o Ho.
      destruct (o_tuple o) eqn:Et; [|reflexivity]. cbn [andb]. specialize (H2 id i o Hd Ho Et).
      destruct (Nat.ltb (length (o_rets o)) 2) eqn:E; [apply Nat.ltb_lt in E; lia|reflexivity].
Qed.

Definition well_formed (p : program) : Prop := syntax_ok p /\ names_ok p /\ forall d, In d p -> def_ok p d.
(* a program is accepted (no error) exactly when it satisfies every rule of the catalogue *)
Theorem accept_iff_well_formed p : check p = [] <-> well_formed p.
Proof.
  unfold check, well_formed. rewrite <- parse_errors_iff, <- redefinition_errors_iff.
  destruct (parse_errors p) as [|c1 l1] eqn:E1.
  - destruct (redefinition_errors p) as [|c2 l2] eqn:E2.
    + unfold validator_errors. rewrite flat_map_nil_iff. split.
      * intros H. repeat split; auto. intros d Hd. apply validate_def_iff. auto.
      * intros (_ & _ & H) d Hd. apply validate_def_iff. auto.
    + split; [intros H; discriminate H|]. intros (_ & H & _). discriminate H.
  - split; [intros H; discriminate H|]. intros (H & _). discriminate H.
Qed.
