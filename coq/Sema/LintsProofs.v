From Coq Require Import List Bool Arith NArith Lia.
From SliceV Require Import Prep.PrepCore Sema.Lints.
Import ListNotations.

Lemma sym_eqb_eq a b : sym_eqb a b = true <-> a = b.
Proof.
  revert b; induction a as [|x a IH]; destruct b as [|y b]; cbn; split; intros H; try discriminate; auto.
  - apply andb_true_iff in H as [H1 H2]. apply N.eqb_eq in H1. apply IH in H2. congruence.
  - inversion H; subst. rewrite N.eqb_refl. cbn. apply IH. reflexivity.
Qed.
Lemma allowed_by_iff ids code : allowed_by ids code = true <-> exists a, In a ids /\ names code a.
Proof.
  unfold allowed_by, names, str_eqb. rewrite existsb_exists. split; intros (a & Ha & H); exists a; split; auto.
  - apply orb_true_iff in H as [H|H]; apply sym_eqb_eq in H; auto.
  - destruct H as [->| ->]; apply orb_true_iff; [left|right]; apply sym_eqb_eq; reflexivity.
Qed.
Lemma allowed_by_cli_iff ids code : allowed_by_cli ids code = true <-> exists a, In a ids /\ (str_eqb_ci a s_All = true \/ str_eqb_ci a code = true).
Proof. unfold allowed_by_cli. rewrite existsb_exists. split; intros (a & Ha & H); exists a; split; auto; [apply orb_true_iff in H|apply orb_true_iff]; exact H. Qed.

(* all_allows collects exactly the allow arguments of the element and of the definitions enclosing it *)
Lemma all_allows_iff es : wf_ents es -> forall fuel id a, id < fuel ->
  (In a (all_allows fuel es id) <-> exists anc e, encloses es anc id /\ nth_error es anc = Some e /\ In a (ent_allows e)).
Proof.
  intros WF. induction fuel as [|f IH]; intros id a Hlt; [lia|]. cbn [all_allows].
  destruct (nth_error es id) as [e|] eqn:En.
  - rewrite in_app_iff. split.
    + intros [H|H]; [exists id, e; split; [constructor|auto]|].
      destruct (ent_parent e) as [p|] eqn:Ep; [|contradiction].
      assert (p < id) by (eapply WF; eauto).
      apply IH in H as (anc & e' & Henc & Hn & Hin); [|lia]. exists anc, e'. split; [econstructor; eauto|auto].
    + intros (anc & e' & Henc & Hn & Hin). inversion Henc as [|? e0 p ? Hn0 Hp Henc']; subst.
      * rewrite En in Hn. inversion Hn; subst. auto.
      * rewrite En in Hn0. inversion Hn0; subst e0. rewrite Hp. right.
        assert (p < id) by (eapply WF; eauto). apply IH; [lia|]. eauto.
  - split; [contradiction|]. intros (anc & e' & Henc & Hn & Hin). inversion Henc as [|? e0 p ? Hn0 Hp Henc']; subst; congruence.
Qed.

(* a lint is silenced exactly when it is named (or All is given) on the command line, by the file's allow attribute, or by an
   allow attribute on the element concerned or a definition enclosing it; otherwise it is a warning *)
Theorem level_iff c d code : wf_ents (c_ents c) -> d_lint d = Some code ->
  (forall s, d_scope d = Some s -> s < length (c_ents c)) ->
  (level_of c d = LAllowed <-> silenced c d code) /\ (level_of c d = LWarning <-> ~ silenced c d code).
Proof.
  intros WF Hl Hs. unfold level_of. rewrite Hl.
  assert (E : (allowed_by_cli (c_cli c) code
       || match d_file d with Some f => allowed_by (nth f (c_file_allows c) []) code | None => false end
       || match d_scope d with Some s => allowed_by (all_allows (S (length (c_ents c))) (c_ents c) s) code | None => false end) = true <-> silenced c d code).
  { rewrite !orb_true_iff. unfold silenced. rewrite allowed_by_cli_iff. split.
    - intros [[H|H]|H]; [left; exact H| |].
      + right; left. destruct (d_file d) as [f|]; [|discriminate]. apply allowed_by_iff in H as (a & Ha & Hn). exists f, a. auto.
      + right; right. destruct (d_scope d) as [s|] eqn:Es; [|discriminate]. apply allowed_by_iff in H as (a & Ha & Hn).
        apply all_allows_iff in Ha as (anc & e & Henc & Hne & Hin); [|exact WF|specialize (Hs s eq_refl); lia].
        exists s, anc, e, a. auto.
    - intros [H|[(f & a & Hf & Ha & Hn)|(s & anc & e & a & Hsc & Henc & Hne & Hin & Hn)]]; [left; left; exact H| |].
      + left; right. rewrite Hf. apply allowed_by_iff. eauto.
      + right. rewrite Hsc. apply allowed_by_iff. exists a. split; auto.
        apply all_allows_iff; [exact WF|specialize (Hs s Hsc); lia|eauto]. }
  destruct (_ || _ || _) eqn:B.
  - split.
    + split; [intros _; apply E; reflexivity|reflexivity].
    + split; [discriminate|intros Hn; exfalso; apply Hn; apply E; reflexivity].
  - split.
    + split; [discriminate|intros Hs'; apply E in Hs'; discriminate].
    + split; [intros _ Hs'; apply E in Hs'; discriminate|reflexivity].
Qed.
(* errors are untouched by any suppression *)
Theorem errors_never_silenced c d : d_lint d = None -> level_of c d = LError.
Proof. intros H. unfold level_of. rewrite H. reflexivity. Qed.
Theorem lints_never_errors c d code : d_lint d = Some code -> level_of c d <> LError.
Proof. intros H. unfold level_of. rewrite H. destruct (_ || _ || _); discriminate. Qed.
(* hence neither the number of errors nor the exit status depends on suppressions *)
Theorem error_total_independent c c' ds : snd (totals c ds) = snd (totals c' ds).
Proof.
  unfold totals. cbn [snd]. induction ds as [|d ds IH]; [reflexivity|]. cbn [filter].
  destruct (d_lint d) as [code|] eqn:E.
  - pose proof (lints_never_errors c d code E). pose proof (lints_never_errors c' d code E).
    destruct (level_of c d), (level_of c' d); try congruence; exact IH.
  - rewrite !errors_never_silenced by exact E. cbn [length]. f_equal. exact IH.
Qed.

(* non-interference: changing the allow attributes of an element that neither is the element concerned nor encloses it,
   or of another file, changes nothing about this diagnostic *)
Definition set_allows (es : list ent) (id : nat) (a : list str) : list ent :=
  map (fun ie => if Nat.eqb (fst ie) id then {| ent_allows := a; ent_parent := ent_parent (snd ie) |} else snd ie) (combine (seq 0 (length es)) es).
Lemma nth_set_allows es id a k : nth_error (set_allows es id a) k =
  match nth_error es k with Some e => Some (if Nat.eqb k id then {| ent_allows := a; ent_parent := ent_parent e |} else e) | None => None end.
Proof.
  unfold set_allows. rewrite nth_error_map.
  assert (H : forall (l : list ent) off k, nth_error (combine (seq off (length l)) l) k = match nth_error l k with Some e => Some (off + k, e) | None => None end).
  { clear. induction l as [|x l IH]; intros off k; cbn; [destruct k; reflexivity|].
    destruct k; cbn; [rewrite Nat.add_0_r; reflexivity|]. rewrite IH. destruct (nth_error l k); [f_equal; f_equal; lia|reflexivity]. }
  rewrite (H es 0 k). destruct (nth_error es k); reflexivity.
Qed.
Lemma encloses_set_allows es id a x y : encloses (set_allows es id a) x y <-> encloses es x y.
Proof.
  split; induction 1 as [|i e p a0 Hn Hp _ IH]; try constructor.
  - rewrite nth_set_allows in Hn. destruct (nth_error es i) as [e0|] eqn:E0; [|discriminate]. inversion Hn; subst.
    eapply enc_parent; [exact E0| |exact IH]. destruct (Nat.eqb i id); exact Hp.
  - eapply enc_parent; [rewrite nth_set_allows, Hn; reflexivity| |exact IH]. destruct (Nat.eqb i id); exact Hp.
Qed.
Theorem allow_noninterference c d id a : wf_ents (c_ents c) ->
  (forall s, d_scope d = Some s -> s < length (c_ents c) /\ ~ encloses (c_ents c) id s) ->
  level_of {| c_cli := c_cli c; c_file_allows := c_file_allows c; c_ents := set_allows (c_ents c) id a |} d = level_of c d.
Proof.
  intros WF Hs. unfold level_of. cbn [c_cli c_file_allows c_ents]. destruct (d_lint d) as [code|]; [|reflexivity].
  destruct (d_scope d) as [s|] eqn:Es; [|reflexivity]. destruct (Hs s eq_refl) as [Hlt Hne].
  assert (Hlen : length (set_allows (c_ents c) id a) = length (c_ents c)).
  { unfold set_allows. rewrite map_length, combine_length, seq_length. lia. }
  rewrite Hlen.
  assert (WF' : wf_ents (set_allows (c_ents c) id a)).
  { intros k e p Hn Hp. rewrite nth_set_allows in Hn. destruct (nth_error (c_ents c) k) as [e0|] eqn:E0; [|discriminate]. inversion Hn; subst.
    apply (WF k e0 p E0). destruct (Nat.eqb k id); exact Hp. }
  replace (allowed_by (all_allows (S (length (c_ents c))) (set_allows (c_ents c) id a) s) code)
     with (allowed_by (all_allows (S (length (c_ents c))) (c_ents c) s) code); [reflexivity|].
  symmetry.
  apply eq_true_iff_eq. rewrite !allowed_by_iff. split; intros (x & Hx & Hn); exists x; split; auto.
  - apply all_allows_iff in Hx as (anc & e & Henc & Hne' & Hin); [|exact WF'|lia].
    apply encloses_set_allows in Henc. rewrite nth_set_allows in Hne'.
    destruct (nth_error (c_ents c) anc) as [e0|] eqn:E0; [|discriminate]. inversion Hne'; subst.
    destruct (Nat.eqb_spec anc id) as [->|]; [contradiction|]. apply all_allows_iff; [exact WF|lia|eauto].
  - apply all_allows_iff in Hx as (anc & e & Henc & Hne' & Hin); [|exact WF|lia].
    apply all_allows_iff; [exact WF'|lia|]. exists anc, e. split; [apply encloses_set_allows; exact Henc|]. split; auto.
    rewrite nth_set_allows, Hne'. destruct (Nat.eqb_spec anc id) as [->|]; [contradiction|reflexivity].
Qed.

(* ---------- the element concerned ---------- *)
Lemma find_some_child es ps id s j : find (is_child_at es ps id s) (seq 0 (length es)) = Some j -> parent_of es j = Some id /\ j < length es.
Proof.
  intros H. apply find_some in H as [Hin H]. apply in_seq in Hin. split; [|lia]. unfold is_child_at in H.
  destruct (parent_of es j) as [p|]; [|discriminate]. destruct (span_of_ent ps j); [|discriminate]. apply andb_true_iff in H as [H _]. apply Nat.eqb_eq in H. congruence.
Qed.
Lemma encloses_trans es a b c : encloses es a b -> encloses es b c -> encloses es a c.
Proof. intros Hab Hbc. induction Hbc as [id|id e p b' Hn Hp Hb IH]; [exact Hab|]. eapply enc_parent; eauto. Qed.
(* going inwards stays below the element the lint was scoped to: every definition enclosing that element encloses the one found *)
Lemma descend_below es ps : forall fuel id s, encloses es id (descend fuel es ps id s).
Proof.
  induction fuel as [|f IH]; intros id s; cbn [descend]; [constructor|].
  destruct (find (is_child_at es ps id s) (seq 0 (length es))) as [j|] eqn:E; [|constructor].
  apply find_some_child in E as [Hp Hj]. eapply encloses_trans; [|apply IH]. unfold parent_of in Hp. destruct (nth_error es j) as [e|] eqn:En; [|discriminate].
  eapply enc_parent; [exact En|exact Hp|constructor].
Qed.
Lemma descend_in_range es ps : forall fuel id s, id < length es -> descend fuel es ps id s < length es.
Proof.
  induction fuel as [|f IH]; intros id s H; cbn [descend]; [exact H|].
  destruct (find (is_child_at es ps id s) (seq 0 (length es))) as [j|] eqn:E; [|exact H]. apply IH. apply find_some_child in E. tauto.
Qed.
(* so a suppression that reaches the scoped element still reaches the element concerned: looking closer never un-silences a lint
   (the one exception is by design: a parameter that does not contain the lint gives way to its operation) *)
Theorem closer_look_keeps_suppressions es ps id s code : wf_ents es -> id < length es ->
  allowed_by (all_allows (S (length es)) es id) code = true -> allowed_by (all_allows (S (length es)) es (descend (S (length es)) es ps id s)) code = true.
Proof.
  intros WF Hid H. apply allowed_by_iff in H as (a & Ha & Hn). apply allowed_by_iff. exists a. split; [|exact Hn].
  apply all_allows_iff in Ha as (anc & e & Henc & Hne & Hin); [|exact WF|lia].
  apply all_allows_iff; [exact WF|pose proof (descend_in_range es ps (S (length es)) id s Hid); lia|].
  exists anc, e. split; [|split; assumption]. eapply encloses_trans; [exact Henc|apply descend_below].
Qed.
(* the element concerned is the scoped element, or lies below it, or below the operation of a parameter that does not contain the lint *)
Theorem concerned_is_below es ps scope s :
  encloses es scope (concerned es ps scope s) \/
  (exists pl p, nth_error ps scope = Some pl /\ lp_param pl = true /\ within s (lp_span pl) = false /\ parent_of es scope = Some p /\ encloses es p (concerned es ps scope s)).
Proof.
  unfold concerned. destruct (nth_error ps scope) as [pl|] eqn:Ep; [|left; apply descend_below].
  destruct (parent_of es scope) as [p|] eqn:Epar; [|left; apply descend_below].
  destruct (lp_param pl && negb (within s (lp_span pl))) eqn:E; [|left; apply descend_below].
  apply andb_true_iff in E as [E1 E2]. apply negb_true_iff in E2. right. exists pl, p. repeat split; try assumption. apply descend_below.
Qed.
(* the two defects this rule repairs, as instances: op([allow(Deprecated)] p: Old) -> (p: bool, q: bool) -- the table answers
   "M::I::op::p" with the return member (entity 3); the lint lies in the parameter (entity 2), whose allow must count ... *)
Example twin_parameter :
  let es := [{| ent_allows := []; ent_parent := None |}; {| ent_allows := []; ent_parent := Some 0 |};
             {| ent_allows := [[68]%N]; ent_parent := Some 1 |}; {| ent_allows := []; ent_parent := Some 1 |}; {| ent_allows := []; ent_parent := Some 1 |}] in
  let sp a b c d := {| ls_lo := (a, b); ls_hi := (c, d) |} in
  let ps := [{| lp_span := sp 3 1 5 2; lp_param := false; lp_file := 0; lp_under := None |}; {| lp_span := sp 4 5 4 60; lp_param := false; lp_file := 0; lp_under := None |};
             {| lp_span := sp 4 31 4 37; lp_param := true; lp_file := 0; lp_under := None |}; {| lp_span := sp 4 43 4 50; lp_param := true; lp_file := 0; lp_under := None |}; {| lp_span := sp 4 52 4 59; lp_param := true; lp_file := 0; lp_under := None |}] in
  concerned es ps 3 (sp 4 34 4 37) = 2 /\ concerned es ps 3 (sp 4 46 4 50) = 3 /\ concerned es ps 1 (sp 4 34 4 37) = 2.
Proof. vm_compute. repeat split. Qed.

(* ... and it is innermost: no member of the element found contains the lint.  Parents come before their children (wf_ents), so
   going inwards takes fewer steps than there are entities and the fuel given by `concerned` is enough. *)
Lemma descend_innermost es ps s : wf_ents es -> forall fuel id, id < length es -> length es - id < fuel ->
  find (is_child_at es ps (descend fuel es ps id s) s) (seq 0 (length es)) = None.
Proof.
  intros WF. induction fuel as [|f IH]; intros id Hid Hf; [lia|]. cbn [descend].
  destruct (find (is_child_at es ps id s) (seq 0 (length es))) as [j|] eqn:E; [|exact E].
  pose proof (find_some_child _ _ _ _ _ E) as [Hp Hj]. apply IH; [exact Hj|].
  unfold parent_of in Hp. destruct (nth_error es j) as [e|] eqn:En; [|discriminate]. pose proof (WF j e id En Hp). lia.
Qed.
Theorem concerned_is_innermost es ps scope s : wf_ents es -> scope < length es ->
  find (is_child_at es ps (concerned es ps scope s) s) (seq 0 (length es)) = None.
Proof.
  intros WF Hs. unfold concerned.
  assert (K : forall start, start < length es -> find (is_child_at es ps (descend (S (length es)) es ps start s) s) (seq 0 (length es)) = None)
    by (intros start H; apply descend_innermost; [exact WF|exact H|lia]).
  destruct (nth_error ps scope) as [pl|]; [|apply K; exact Hs]. destruct (parent_of es scope) as [p|] eqn:Ep; [|apply K; exact Hs].
  destruct (lp_param pl && negb (within s (lp_span pl))); [|apply K; exact Hs].
  apply K. unfold parent_of in Ep. destruct (nth_error es scope) as [e|] eqn:En; [|discriminate]. pose proof (WF scope e p En Ep). lia.
Qed.
