From Coq Require Import List Bool Arith Lia Relations.
From SliceV Require Import Sema.Cyc Sema.CycProofs Sema.CyclesProg.
Import ListNotations.

Lemma targets_mentions t n : In n (targets t) <-> mentions t n.
Proof.
  induction t; cbn [targets]; split; intros H.
  1,3: contradiction.
  1,2: inversion H.
  - destruct H as [<-|[]]. constructor.
  - inversion H; subst. left; auto.
  - constructor. apply IHt; auto.
  - inversion H; subst. apply IHt; auto.
  - apply in_app_or in H as [H|H]; [apply m_key; apply IHt1|apply m_val; apply IHt2]; auto.
  - apply in_or_app. inversion H; subst; [left; apply IHt1|right; apply IHt2]; auto.
  - apply in_app_or in H as [H|H]; [apply m_ok; apply IHt1|apply m_err; apply IHt2]; auto.
  - apply in_or_app. inversion H; subst; [left; apply IHt1|right; apply IHt2]; auto.
Qed.
Lemma edge_contains p a b : edge (succ_of p) a b <-> contains p a b.
Proof.
  unfold edge, succ_of, contains. destruct (nth_error p a) as [d|]; split.
  - intros H. apply in_flat_map in H as (f & Hf & Hin). exists d, f. rewrite <- targets_mentions. auto.
  - intros (d' & f & E & Hf & Hm). inversion E; subst. apply in_flat_map. exists f. rewrite targets_mentions. auto.
  - contradiction.
  - intros (d & f & E & _). discriminate.
Qed.
Lemma clos_iff (R1 R2 : nat -> nat -> Prop) : (forall a b, R1 a b <-> R2 a b) -> forall a b, clos_trans nat R1 a b -> clos_trans nat R2 a b.
Proof. intros H a b C. induction C; [apply t_step, H; auto|eapply t_trans; eauto]. Qed.
Lemma on_cycle_iff p v : on_cycle (succ_of p) v <-> on_containment_cycle p v.
Proof. unfold on_cycle, on_containment_cycle. split; apply clos_iff; intros; [|symmetry]; apply edge_contains. Qed.

Lemma walk_clos succ a q : walk succ a q -> q <> [] -> clos_trans nat (edge succ) a (last q a).
Proof.
  revert a. induction q as [|b q IH]; intros a W NE; [congruence|]. destruct W as [E W].
  destruct q as [|c q']; [cbn; apply t_step; auto|].
  eapply t_trans; [apply t_step; exact E|].
  change (last (b :: c :: q') a) with (last (c :: q') a). rewrite (last_indep (c :: q') a b) by discriminate.
  apply IH; [exact W|discriminate].
Qed.

(* every reported chain is a real path of containment links from the named type back to itself *)
Theorem detect_prog_sound p : Forall (fun r => walk (succ_of p) (fst r) (snd r) /\ last (snd r) (fst r) = fst r /\ snd r <> []
                                               /\ on_containment_cycle p (fst r)) (detect_prog p).
Proof.
  unfold detect_prog. pose proof (detect_sound (succ_of p) (S (length p)) (seq 0 (length p))) as H.
  eapply Forall_impl; [|exact H]. intros r (W & L & NE). repeat split; auto.
  apply on_cycle_iff. unfold on_cycle. rewrite <- L at 2. apply walk_clos; auto.
Qed.
(* every link of a reported chain is witnessed by a field of the previous type *)
Lemma chain_fields_some p a q : walk (succ_of p) a q -> Forall (fun o => o <> None) (chain_fields p a q).
Proof.
  revert a. induction q as [|b q IH]; intros a W; cbn; constructor; [|apply IH; apply W].
  destruct W as [E _]. unfold edge, succ_of in E. unfold link_field.
  destruct (nth_error p a) as [d|]; [|contradiction]. apply in_flat_map in E as (f & Hf & Hin).
  destruct (find _ (fields_of d)) eqn:Ef; [discriminate|]. exfalso.
  eapply find_none in Ef; [|exact Hf]. cbn in Ef.
  assert (existsb (Nat.eqb b) (targets (snd f)) = true) by (apply existsb_exists; exists b; split; auto; apply Nat.eqb_refl).
  congruence.
Qed.

Lemma univ_closed_prog p : well_scoped p -> forall a b, edge (succ_of p) a b -> In b (seq 0 (length p)).
Proof.
  intros WS a b E. apply edge_contains in E as (d & f & Hn & Hf & Hm).
  apply in_seq. split; [lia|]. cbn.
  unfold well_scoped in WS. rewrite Forall_forall in WS. apply nth_error_In in Hn. specialize (WS d Hn).
  rewrite Forall_forall in WS. specialize (WS f Hf). clear -WS Hm.
  induction Hm; cbn in WS; try tauto.
Qed.
(* every type lying on a containment cycle is named by a reported cycle *)
Theorem detect_prog_complete p v : well_scoped p -> v < length p -> on_containment_cycle p v ->
  exists r, In r (detect_prog p) /\ In v (snd r).
Proof.
  intros WS Hv Hc. unfold detect_prog.
  apply (detect_complete (succ_of p) (seq 0 (length p)) (univ_closed_prog p WS)).
  - rewrite seq_length. lia.
  - apply in_seq. lia.
  - apply on_cycle_iff. exact Hc.
Qed.
(* acyclic definitions are never diagnosed *)
Theorem detect_prog_none p : (forall v, ~ on_containment_cycle p v) -> detect_prog p = [].
Proof.
  intros H. pose proof (detect_prog_sound p) as S. destruct (detect_prog p) as [|r l]; [reflexivity|].
  inversion S as [|? ? (_ & _ & _ & C) _]; subst. exfalso. eapply H; eauto.
Qed.

(* ---------- alias chains ---------- *)
Section Alias.
  Variable next : nat -> option nat.
  Variable univ : list nat.
  Hypothesis next_closed : forall a b, next a = Some b -> In b univ.

  Lemma existsb_eqb_In a l : existsb (Nat.eqb a) l = true <-> In a l.
  Proof. rewrite existsb_exists. split; [intros (x & Hx & E); apply Nat.eqb_eq in E; subst; auto|intros H; exists a; split; auto; apply Nat.eqb_refl]. Qed.

  (* the seen-list makes the walk terminate: fuel = number of aliases + 2 is never exhausted *)

  Lemma resolve_terminates : forall fuel seen a, NoDup seen -> incl seen univ -> In a univ ->
    length univ < fuel + length seen -> resolve_alias next fuel seen a <> AFuel.
  Proof.
    induction fuel as [|f IH]; intros seen a ND Hinc Ha Hlen.
    - exfalso. pose proof (NoDup_incl_length ND Hinc). lia.
    - cbn [resolve_alias]. destruct (existsb (Nat.eqb a) seen) eqn:E; [discriminate|].
      destruct (next a) as [b|] eqn:Eb; [|discriminate].
      apply IH.
      + constructor; auto. intros Hin. apply existsb_eqb_In in Hin. congruence.
      + intros x [<-|Hx]; auto.
      + eapply next_closed; eauto.
      + cbn [length]. lia.
  Qed.
  (* a loop is reported as a cycle, never followed forever; a chain ending in a real type resolves to it *)
  Lemma resolve_ok_final : forall fuel seen a z, resolve_alias next fuel seen a = AOk z -> next z = None.
  Proof.
    induction fuel as [|f IH]; intros seen a z; cbn [resolve_alias]; [discriminate|].
    destruct (existsb (Nat.eqb a) seen); [discriminate|].
    destruct (next a) as [b|] eqn:E; [apply IH|intros H; inversion H; subst; exact E].
  Qed.
End Alias.

(* ---------- plain graphs ---------- *)
Lemma gsucc_closed g : gwell_scoped g -> forall a b, edge (gsucc g) a b -> In b (seq 0 (length g)).
Proof.
  intros WS a b E. unfold edge, gsucc in E. apply in_seq. split; [lia|]. cbn.
  destruct (Nat.lt_ge_cases a (length g)) as [Ha|Ha].
  - unfold gwell_scoped in WS. rewrite Forall_forall in WS.
    assert (In (nth a g []) g) by (apply nth_In; auto). specialize (WS _ H). rewrite Forall_forall in WS. auto.
  - rewrite nth_overflow in E by auto. contradiction.
Qed.
(* a loop is reported exactly when some node reaches itself *)
Theorem gcyclic_iff g : gwell_scoped g -> (gcyclic g = true <-> exists v, v < length g /\ on_cycle (gsucc g) v).
Proof.
  intros WS. unfold gcyclic. split.
  - pose proof (detect_sound (gsucc g) (S (length g)) (seq 0 (length g))) as S. fold (gdetect g) in S.
    destruct (gdetect g) as [|r l] eqn:E; [discriminate|]. intros _.
    inversion S as [|? ? (W & L & NE) _]; subst.
    assert (C : on_cycle (gsucc g) (fst r)) by (unfold on_cycle; rewrite <- L at 2; apply walk_clos; auto).
    exists (fst r). split; auto.
    (* the root of a report is a node that was checked *)
    assert (Hroot : forall fuel nodes rep0 r0, In r0 (fold_left (check_root (gsucc g) fuel) nodes rep0) -> In r0 rep0 \/ In (fst r0) nodes).
    { clear. intros fuel nodes. induction nodes as [|x ns IH]; intros rep0 r0 H; cbn in H; [auto|].
      apply IH in H as [H|H]; [|right; right; auto].
      assert (G : forall l st rep1, In r0 (fold_left (fun rep' c' => push (gsucc g) fuel x st c' rep') l rep1) -> In r0 rep1 \/ fst r0 = x).
      { clear. intros l. induction l as [|c l IHl]; intros st rep1 H; cbn in H; [auto|].
        apply IHl in H as [H|H]; auto.
        assert (P : forall f st' c' rep2, In r0 (push (gsucc g) f x st' c' rep2) -> In r0 rep2 \/ fst r0 = x).
        { clear. induction f as [|f IHf]; intros st' c' rep2 H; cbn in H; [auto|].
          destruct (Nat.eqb c' x).
          - destruct (seen _ _); auto. apply in_app_or in H as [H|[<-|[]]]; auto.
          - destruct (memb c' st'); auto.
            revert rep2 H. induction (gsucc g c') as [|y ys IHy]; intros rep2 H; cbn in H; auto.
            apply IHy in H as [H|H]; [apply IHf in H; exact H|auto]. }
        eapply P; eauto. }
      unfold check_root in H. apply G in H as [H|H]; auto. right; left; auto. }
    assert (In r (gdetect g)) by (rewrite E; left; auto).
    unfold gdetect, detect in H. apply Hroot in H as [[]|H]. apply in_seq in H. lia.
  - intros (v & Hv & C).
    destruct (detect_complete (gsucc g) (seq 0 (length g)) (gsucc_closed g WS) (S (length g)) (seq 0 (length g)) v) as (r & Hr & _).
    + rewrite seq_length. lia.
    + apply in_seq. lia.
    + exact C.
    + fold (gdetect g) in Hr. destruct (gdetect g); [contradiction|reflexivity].
Qed.
