From Coq Require Import List Bool Arith Lia.
From SliceV Require Import Sema.Visitor.
Import ListNotations.

Lemma flat_map_map {A B C} (f : A -> B) (g : B -> list C) l : flat_map g (map f l) = flat_map (fun x => g (f x)) l.
Proof. induction l; cbn; congruence. Qed.
Lemma flat_map_ext' {A B} (f g : A -> list B) l : (forall x, In x l -> f x = g x) -> flat_map f l = flat_map g l.
Proof.
  induction l as [|a l IH]; cbn; intros H; auto.
  rewrite (H a) by (left; auto). rewrite IH; auto.
Qed.

(* nested induction over type references *)
Lemma tref_ind' (P : tref -> Prop) : (forall l ns, Forall P ns -> P (TR l ns)) -> forall t, P t.
Proof.
  intros H. fix IH 1. intros [l ns]. apply H. induction ns as [|n ns IHns]; constructor; [apply IH|exact IHns].
Qed.
Lemma visit_tref_preorder t : visit_tref t = preorder (tree_of_tref t).
Proof.
  induction t as [l ns IH] using tref_ind'. cbn [visit_tref tree_of_tref preorder]. f_equal.
  rewrite flat_map_map. apply flat_map_ext'. intros x Hx. rewrite Forall_forall in IH. auto.
Qed.
Lemma visit_field_preorder f : visit_field f = preorder (tree_of_field f).
Proof. unfold visit_field, tree_of_field. cbn. rewrite app_nil_r, visit_tref_preorder. reflexivity. Qed.
Lemma visit_param_preorder f : visit_param f = preorder (tree_of_param f).
Proof. unfold visit_param, tree_of_param. cbn. rewrite app_nil_r, visit_tref_preorder. reflexivity. Qed.

Theorem visit_def_preorder d : visit_def d = preorder (tree_of_def d).
Proof.
  destruct d as [id fs|id ops|id es|id|id t]; cbn [visit_def tree_of_def preorder]; f_equal.
  - rewrite flat_map_map. apply flat_map_ext'. intros; apply visit_field_preorder.
  - rewrite flat_map_map. apply flat_map_ext'. intros o _. unfold visit_op. cbn [preorder]. f_equal.
    rewrite flat_map_app, !flat_map_map. f_equal; apply flat_map_ext'; intros; apply visit_param_preorder.
  - rewrite flat_map_map. apply flat_map_ext'. intros e _. unfold visit_enumerator. cbn [preorder]. f_equal.
    rewrite flat_map_map. apply flat_map_ext'. intros; apply visit_field_preorder.
  - cbn. rewrite app_nil_r. apply visit_tref_preorder.
Qed.
(* the walk presents the file, its module, then every definition in source order with containers before contents and
   each type right after its owner followed by everything nested in it: it is the pre-order of the file's tree *)
Theorem visit_eq_spec f : visit_file f = preorder (tree_of_file f).
Proof.
  unfold visit_file, tree_of_file. cbn [preorder]. f_equal. rewrite flat_map_app. f_equal.
  - destruct (vfile_module f); reflexivity.
  - rewrite flat_map_map. apply flat_map_ext'. intros; apply visit_def_preorder.
Qed.

(* every declared entity is presented exactly once, in source order, and nothing else is presented as an entity *)
Lemma filter_tref t : filter is_entity (visit_tref t) = [].
Proof.
  induction t as [l ns IH] using tref_ind'. cbn. induction IH as [|n ns Hn _ IHns]; cbn; auto.
  rewrite filter_app, Hn, IHns. reflexivity.
Qed.
Lemma filter_flat_map {A} (f : A -> list event) l : filter is_entity (flat_map f l) = flat_map (fun x => filter is_entity (f x)) l.
Proof. induction l; cbn; auto. rewrite filter_app. congruence. Qed.
Lemma filter_fields fs : filter is_entity (flat_map visit_field fs) = map declared_field fs.
Proof. induction fs as [|f fs IH]; cbn; auto. rewrite filter_app, filter_tref, IH. reflexivity. Qed.
Lemma filter_params ps : filter is_entity (flat_map visit_param ps) = map (fun p => EParam (vf_id p)) ps.
Proof. induction ps as [|f fs IH]; cbn; auto. rewrite filter_app, filter_tref, IH. reflexivity. Qed.
Theorem entities_exactly_once f : filter is_entity (visit_file f) = declared f.
Proof.
  unfold visit_file, declared. cbn [filter is_entity]. rewrite filter_app. f_equal.
  - destruct (vfile_module f); reflexivity.
  - rewrite filter_flat_map. apply flat_map_ext'. intros d _.
    destruct d as [id fs|id ops|id es|id|id t]; cbn [visit_def declared_def filter is_entity]; f_equal.
    + apply filter_fields.
    + rewrite filter_flat_map. apply flat_map_ext'. intros o _. unfold visit_op. cbn [filter is_entity]. f_equal.
      rewrite filter_app, !filter_params. reflexivity.
    + rewrite filter_flat_map. apply flat_map_ext'. intros e _. unfold visit_enumerator. cbn [filter is_entity]. f_equal.
      apply filter_fields.
    + apply filter_tref.
Qed.
Corollary entities_nodup f : NoDup (declared f) -> NoDup (filter is_entity (visit_file f)).
Proof. rewrite entities_exactly_once. auto. Qed.
(* an unpatched reference is presented but not descended into *)
Theorem unpatched_not_descended l : visit_tref (TR l []) = [ETypeRef l].
Proof. reflexivity. Qed.
