From Coq Require Import List Bool Arith Lia.
From SliceV Require Import Sema.Visitor.
Import ListNotations.

Lemma flat_map_map {A B C} (f : A -> B) (g : B -> list C) l : flat_map g (map f l) = flat_map (fun x => g (f x)) l.
Proof. induction l; cbn; congruence. Qed.
Lemma flat_map_ext' {A B} (f g : A -> list B) l : (forall x, In x l -> f x = g x) -> flat_map f l = flat_map g l.
Proof.
  induction l as [|a l IH]; cbn; intros H; auto.
  rewrite (H a) by (left; auto). rewrite IH; auto.
Qed.

(* nested induction over type references *)
Lemma tref_ind' (P : tref -> Prop) : (forall l ns, Forall P ns -> P (TR l ns)) -> forall t, P t.
Proof.
  intros H. fix IH 1. intros [l ns]. apply H. induction ns as [|n ns IHns]; constructor; [apply IH|exact IHns].
Qed.
Lemma visit_tref_preorder t : visit_tref t = preorder (tree_of_tref t).
Proof.
  induction t as [l ns IH] using tref_ind'. cbn [visit_tref tree_of_tref preorder]. f_equal.
  rewrite flat_map_map. apply flat_map_ext'. intros x Hx. rewrite Forall_forall in IH. auto.
Qed.
Lemma visit_field_preorder f : visit_field f = preorder (tree_of_field f).
Proof. unfold visit_field, tree_of_field. cbn. rewrite app_nil_r, visit_tref_preorder. reflexivity. Qed.
Lemma visit_param_preorder f : visit_param f = preorder (tree_of_param f).
Proof. unfold visit_param, tree_of_param. cbn. rewrite app_nil_r, visit_tref_preorder. reflexivity. Qed.

Theorem visit_def_preorder d : visit_def d = preorder (tree_of_def d).
Proof.
  destruct d as [id fs|id ops|id es|id|id t]; cbn [visit_def tree_of_def preorder]; f_equal.
  - rewrite flat_map_map. apply flat_map_ext'. intros; apply visit_field_preorder.
  - rewrite flat_map_map. apply flat_map_ext'. intros o _. unfold visit_op. cbn [preorder]. f_equal.
    rewrite flat_map_app, !flat_map_map. f_equal; apply flat_map_ext'; intros; apply visit_param_preorder.
  - rewrite flat_map_map. apply flat_map_ext'. intros e _. unfold visit_enumerator. cbn [preorder]. f_equal.
    rewrite flat_map_map. apply flat_map_ext'. intros; apply visit_field_preorder.
  - cbn. rewrite app_nil_r. apply visit_tref_preorder.
Qed.
(* the walk presents the file, its module, then every definition in source order with containers before contents and
   each type right after its owner followed by everything nested in it: it is the pre-order of the file's tree *)
Theorem visit_eq_spec f : visit_file f = preorder (tree_of_file f).
Proof.
  unfold visit_file, tree_of_file. cbn [preorder]. f_equal. rewrite flat_map_app. f_equal.
  - destruct (vfile_module f); reflexivity.
  - rewrite flat_map_map. apply flat_map_ext'. intros; apply visit_def_preorder.
Qed.

(* every declared entity is presented exactly once, in source order, and nothing else is presented as an entity *)
Lemma filter_tref t : filter is_entity (visit_tref t) = [].
Proof.
  induction t as [l ns IH] using tref_ind'. cbn. induction IH as [|n ns Hn _ IHns]; cbn; auto.
  rewrite filter_app, Hn, IHns. reflexivity.
Qed.
Lemma filter_flat_map {A} (f : A -> list event) l : filter is_entity (flat_map f l) = flat_map (fun x => filter is_entity (f x)) l.
Proof. induction l; cbn; auto. rewrite filter_app. congruence. Qed.
Lemma filter_fields fs : filter is_entity (flat_map visit_field fs) = map declared_field fs.
Proof. induction fs as [|f fs IH]; cbn; auto. rewrite filter_app, filter_tref, IH. reflexivity. Qed.
Lemma filter_params ps : filter is_entity (flat_map visit_param ps) = map (fun p => EParam (vf_id p)) ps.
Proof. induction ps as [|f fs IH]; cbn; auto. rewrite filter_app, filter_tref, IH. reflexivity. Qed.
Theorem entities_exactly_once f : filter is_entity (visit_file f) = declared f.
Proof.
  unfold visit_file, declared. cbn [filter is_entity]. rewrite filter_app. f_equal.
  - destruct (vfile_module f); reflexivity.
  - rewrite filter_flat_map. apply flat_map_ext'. intros d _.
    destruct d as [id fs|id ops|id es|id|id t]; cbn [visit_def declared_def filter is_entity]; f_equal.
    + apply filter_fields.
    + rewrite filter_flat_map. apply flat_map_ext'. intros o _. unfold visit_op. cbn [filter is_entity]. f_equal.
      rewrite filter_app, !filter_params. reflexivity.
    + rewrite filter_flat_map. apply flat_map_ext'. intros e _. unfold visit_enumerator. cbn [filter is_entity]. f_equal.
      apply filter_fields.
    + apply filter_tref.
Qed.
Corollary entities_nodup f : NoDup (declared f) -> NoDup (filter is_entity (visit_file f)).
Proof. rewrite entities_exactly_once. auto. Qed.
(* an unpatched reference is presented but not descended into *)
Theorem unpatched_not_descended l : visit_tref (TR l []) = [ETypeRef l].
Proof. reflexivity. Qed.

(* ---------- each type is presented right after its owner, whole, nested types included ---------- *)
(* every (owner, type) pair a file declares: fields of structs and enumerators, parameters and return members, aliases *)
Definition owned_field (f : vfield) : event * tref := (EField (vf_id f), vf_ty f).
Definition owned_param (f : vfield) : event * tref := (EParam (vf_id f), vf_ty f).
Definition owned_def (d : vdef) : list (event * tref) :=
  match d with
  | VStruct _ fs => map owned_field fs
  | VIface _ ops => flat_map (fun o => map owned_param (vo_params o) ++ map owned_param (vo_rets o)) ops
  | VEnum _ es => flat_map (fun e => map owned_field (snd e)) es
  | VCustom _ => []
  | VAlias id t => [(EAlias id, t)]
  end.
Definition owned (f : vfile) : list (event * tref) := flat_map owned_def (vfile_defs f).
(* the walk `l` holds the owner `o` immediately followed by the complete walk of its type `t` *)
Definition contains_block (l : list event) (o : event) (t : tref) : Prop := exists pre post, l = pre ++ o :: visit_tref t ++ post.

Lemma block_here o t : contains_block (o :: visit_tref t) o t.
Proof. exists [], []. cbn. rewrite app_nil_r. reflexivity. Qed.
Lemma block_cons e l o t : contains_block l o t -> contains_block (e :: l) o t.
Proof. intros [pre [post E]]. exists (e :: pre), post. rewrite E. reflexivity. Qed.
Lemma block_app_l a l o t : contains_block l o t -> contains_block (a ++ l) o t.
Proof. intros [pre [post E]]. exists (a ++ pre), post. rewrite E, <- app_assoc. reflexivity. Qed.
Lemma block_app_r b l o t : contains_block l o t -> contains_block (l ++ b) o t.
Proof.
  intros [pre [post E]]. exists pre, (post ++ b). rewrite E, <- app_assoc. cbn [app]. rewrite <- app_assoc. reflexivity.
Qed.
Lemma block_in_flat_map {A} (g : A -> list event) l x o t : In x l -> contains_block (g x) o t -> contains_block (flat_map g l) o t.
Proof.
  intros Hin Hb. apply in_split in Hin as [l1 [l2 E]]. subst l. rewrite flat_map_app. cbn [flat_map].
  apply block_app_l, block_app_r, Hb.
Qed.
Lemma block_fields fs o t : In (o, t) (map owned_field fs) -> contains_block (flat_map visit_field fs) o t.
Proof.
  intros Hin. apply in_map_iff in Hin as [f [E Hf]]. apply block_in_flat_map with (x := f); auto.
  inversion E; subst. apply block_here.
Qed.
Lemma block_params ps o t : In (o, t) (map owned_param ps) -> contains_block (flat_map visit_param ps) o t.
Proof.
  intros Hin. apply in_map_iff in Hin as [f [E Hf]]. apply block_in_flat_map with (x := f); auto.
  inversion E; subst. apply block_here.
Qed.
Theorem type_right_after_owner f o t : In (o, t) (owned f) -> contains_block (visit_file f) o t.
Proof.
  unfold owned, visit_file. intros Hin. apply in_flat_map in Hin as [d [Hd Hin]].
  apply block_cons, block_app_l, block_in_flat_map with (x := d); auto.
  destruct d as [id fs|id ops|id es|id|id ty]; cbn [owned_def visit_def] in *.
  - apply block_cons, block_fields, Hin.
  - apply in_flat_map in Hin as [op [Hop Hin]]. apply block_cons, block_in_flat_map with (x := op); auto.
    unfold visit_op. apply block_cons. apply in_app_or in Hin as [Hin|Hin].
    + apply block_app_r, block_params, Hin.
    + apply block_app_l, block_params, Hin.
  - apply in_flat_map in Hin as [e [He Hin]]. apply block_cons, block_in_flat_map with (x := e); auto.
    unfold visit_enumerator. apply block_cons, block_fields, Hin.
  - destruct Hin.
  - destruct Hin as [E|[]]. inversion E; subst. apply block_here.
Qed.
(* a type's own walk: itself first, then each nested type's complete walk, in order (to any depth, by recursion) *)
Theorem nested_types_follow l ns : visit_tref (TR l ns) = ETypeRef l :: flat_map visit_tref ns.
Proof. reflexivity. Qed.
(* the type references presented are exactly those of the owned types, in source order: none skipped, none extra *)
Definition is_tref (e : event) : bool := match e with ETypeRef _ => true | _ => false end.
Lemma tref_only t : filter is_tref (visit_tref t) = visit_tref t.
Proof.
  induction t as [l ns IH] using tref_ind'. cbn. f_equal. induction IH as [|n ns Hn _ IHns]; cbn; auto.
  rewrite filter_app, Hn, IHns. reflexivity.
Qed.
Lemma tfilter_flat_map {A} (f : A -> list event) l : filter is_tref (flat_map f l) = flat_map (fun x => filter is_tref (f x)) l.
Proof. induction l; cbn; auto. rewrite filter_app. congruence. Qed.
Lemma tfilter_fields fs : filter is_tref (flat_map visit_field fs) = flat_map (fun p => visit_tref (snd p)) (map owned_field fs).
Proof. induction fs as [|f fs IH]; cbn; auto. rewrite filter_app, tref_only, IH. reflexivity. Qed.
Lemma tfilter_params ps : filter is_tref (flat_map visit_param ps) = flat_map (fun p => visit_tref (snd p)) (map owned_param ps).
Proof. induction ps as [|f fs IH]; cbn; auto. rewrite filter_app, tref_only, IH. reflexivity. Qed.
Lemma flat_map_flat_map {A B C} (f : A -> list B) (g : B -> list C) l : flat_map g (flat_map f l) = flat_map (fun x => flat_map g (f x)) l.
Proof. induction l; cbn; auto. rewrite flat_map_app. congruence. Qed.
Theorem types_exactly_once f : filter is_tref (visit_file f) = flat_map (fun p => visit_tref (snd p)) (owned f).
Proof.
  unfold visit_file, owned. cbn [filter is_tref]. rewrite filter_app.
  replace (filter is_tref match vfile_module f with Some m => [EModule m] | None => [] end) with (@nil event)
    by (destruct (vfile_module f); reflexivity).
  cbn [app]. rewrite tfilter_flat_map, flat_map_flat_map. apply flat_map_ext'. intros d _.
  destruct d as [id fs|id ops|id es|id|id ty]; cbn [visit_def owned_def filter is_tref flat_map].
  - apply tfilter_fields.
  - rewrite tfilter_flat_map, flat_map_flat_map. apply flat_map_ext'. intros op _. unfold visit_op. cbn [filter is_tref].
    rewrite filter_app, !tfilter_params, flat_map_app. reflexivity.
  - rewrite tfilter_flat_map, flat_map_flat_map. apply flat_map_ext'. intros e _. unfold visit_enumerator. cbn [filter is_tref].
    apply tfilter_fields.
  - reflexivity.
  - rewrite app_nil_r. apply tref_only.
Qed.
