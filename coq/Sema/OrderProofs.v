(* Order independence (C15): the verdict of the rule catalogue does not depend on the order in which the definitions (hence
   the files) are presented, as long as definitions have distinct identities. *)
From Coq Require Import List Bool Arith ZArith Lia Permutation.
From SliceV Require Import Gen.NumericBounds Sema.Validate Sema.WellFormed.
Import ListNotations.

Definition struct_ids (p : program) : list nat := flat_map (fun d => match d with DS i _ => [i] | _ => [] end) p.
Definition enum_ids (p : program) : list nat := flat_map (fun d => match d with DE i _ => [i] | _ => [] end) p.
Definition iface_ids (p : program) : list nat := flat_map (fun d => match d with DI i _ => [i] | _ => [] end) p.
Definition distinct_ids (p : program) : Prop := NoDup (struct_ids p) /\ NoDup (enum_ids p) /\ NoDup (iface_ids p).

Lemma find_struct_In p : NoDup (struct_ids p) -> forall id s, find_struct p id = Some s <-> In (DS id s) p.
Proof.
  induction p as [|d p IH]; intros ND id s; cbn [find_struct]; [split; [discriminate|intros []]|].
  destruct d as [i s0|i e|i x|n|n t]; cbn [struct_ids flat_map app] in ND; fold (struct_ids p) in ND.
  - inversion ND as [|? ? Hn ND']; subst. destruct (Nat.eqb_spec i id) as [->|Hne].
    + split; [intros H; inversion H; left; reflexivity|]. intros [E|Hin]; [inversion E; reflexivity|].
      exfalso. apply Hn. unfold struct_ids. apply in_flat_map. exists (DS id s). split; [exact Hin|left; reflexivity].
    + rewrite IH by exact ND'. split; [right; assumption|intros [E|Hin]; [inversion E; congruence|exact Hin]].
  - rewrite IH by exact ND. split; [right; assumption|intros [E|Hin]; [discriminate|exact Hin]].
  - rewrite IH by exact ND. split; [right; assumption|intros [E|Hin]; [discriminate|exact Hin]].
  - rewrite IH by exact ND. split; [right; assumption|intros [E|Hin]; [discriminate|exact Hin]].
  - rewrite IH by exact ND. split; [right; assumption|intros [E|Hin]; [discriminate|exact Hin]].
Qed.
Lemma find_enum_In p : NoDup (enum_ids p) -> forall id s, find_enum p id = Some s <-> In (DE id s) p.
Proof.
  induction p as [|d p IH]; intros ND id s; cbn [find_enum]; [split; [discriminate|intros []]|].
  destruct d as [i s0|i e|i x|n|n t]; cbn [enum_ids flat_map app] in ND; fold (enum_ids p) in ND.
  - rewrite IH by exact ND. split; [right; assumption|intros [E|Hin]; [discriminate|exact Hin]].
  - inversion ND as [|? ? Hn ND']; subst. destruct (Nat.eqb_spec i id) as [->|Hne].
    + split; [intros H; inversion H; left; reflexivity|]. intros [E|Hin]; [inversion E; reflexivity|].
      exfalso. apply Hn. unfold enum_ids. apply in_flat_map. exists (DE id s). split; [exact Hin|left; reflexivity].
    + rewrite IH by exact ND'. split; [right; assumption|intros [E|Hin]; [inversion E; congruence|exact Hin]].
  - rewrite IH by exact ND. split; [right; assumption|intros [E|Hin]; [discriminate|exact Hin]].
  - rewrite IH by exact ND. split; [right; assumption|intros [E|Hin]; [discriminate|exact Hin]].
  - rewrite IH by exact ND. split; [right; assumption|intros [E|Hin]; [discriminate|exact Hin]].
Qed.
Lemma find_iface_In p : NoDup (iface_ids p) -> forall id s, find_iface p id = Some s <-> In (DI id s) p.
Proof.
  induction p as [|d p IH]; intros ND id s; cbn [find_iface]; [split; [discriminate|intros []]|].
  destruct d as [i s0|i e|i x|n|n t]; cbn [iface_ids flat_map app] in ND; fold (iface_ids p) in ND.
  - rewrite IH by exact ND. split; [right; assumption|intros [E|Hin]; [discriminate|exact Hin]].
  - rewrite IH by exact ND. split; [right; assumption|intros [E|Hin]; [discriminate|exact Hin]].
  - inversion ND as [|? ? Hn ND']; subst. destruct (Nat.eqb_spec i id) as [->|Hne].
    + split; [intros H; inversion H; left; reflexivity|]. intros [E|Hin]; [inversion E; reflexivity|].
      exfalso. apply Hn. unfold iface_ids. apply in_flat_map. exists (DI id s). split; [exact Hin|left; reflexivity].
    + rewrite IH by exact ND'. split; [right; assumption|intros [E|Hin]; [inversion E; congruence|exact Hin]].
  - rewrite IH by exact ND. split; [right; assumption|intros [E|Hin]; [discriminate|exact Hin]].
  - rewrite IH by exact ND. split; [right; assumption|intros [E|Hin]; [discriminate|exact Hin]].
Qed.
Lemma option_ext {A} (a b : option A) : (forall x, a = Some x <-> b = Some x) -> a = b.
Proof. intros H. destruct a as [x|]; [symmetry; apply H; reflexivity|]. destruct b as [y|]; [apply H; reflexivity|reflexivity]. Qed.

Lemma existsb_ext_ {A} (f g : A -> bool) l : (forall x, f x = g x) -> existsb f l = existsb g l.
Proof. intros H. induction l as [|x l IH]; cbn; [reflexivity|]. rewrite H, IH. reflexivity. Qed.
Lemma flat_map_ext_ {A B} (f g : A -> list B) l : (forall x, f x = g x) -> flat_map f l = flat_map g l.
Proof. intros H. induction l as [|x l IH]; cbn; [reflexivity|]. rewrite H, IH. reflexivity. Qed.

Section Perm.
  Variables p p' : program.
  Hypothesis HP : Permutation p p'.
  Hypothesis HD : distinct_ids p.
  Lemma ids_perm : distinct_ids p'.
  Proof.
    destruct HD as (A & B & C). unfold distinct_ids, struct_ids, enum_ids, iface_ids in *.
    repeat split; [eapply Permutation_NoDup; [|exact A]|eapply Permutation_NoDup; [|exact B]|eapply Permutation_NoDup; [|exact C]]; apply Permutation_flat_map; exact HP.
  Qed.
  Lemma fs_eq id : find_struct p id = find_struct p' id.
  Proof.
    apply option_ext. intros s. rewrite (find_struct_In p (proj1 HD)), (find_struct_In p' (proj1 ids_perm)).
    split; intros H; [eapply Permutation_in; [exact HP|exact H]|eapply Permutation_in; [apply Permutation_sym; exact HP|exact H]].
  Qed.
  Lemma fe_eq id : find_enum p id = find_enum p' id.
  Proof.
    apply option_ext. intros s. rewrite (find_enum_In p (proj1 (proj2 HD))), (find_enum_In p' (proj1 (proj2 ids_perm))).
    split; intros H; [eapply Permutation_in; [exact HP|exact H]|eapply Permutation_in; [apply Permutation_sym; exact HP|exact H]].
  Qed.
  Lemma fi_eq id : find_iface p id = find_iface p' id.
  Proof.
    apply option_ext. intros s. rewrite (find_iface_In p (proj2 (proj2 HD))), (find_iface_In p' (proj2 (proj2 ids_perm))).
    split; intros H; [eapply Permutation_in; [exact HP|exact H]|eapply Permutation_in; [apply Permutation_sym; exact HP|exact H]].
  Qed.
  Lemma len_eq : length p = length p'.
  Proof. apply Permutation_length. exact HP. Qed.
  Lemma key_error_eq : forall fuel t, key_error p fuel t = key_error p' fuel t.
  Proof.
    induction fuel as [|f IH]; intros [o ty]; cbn [key_error]; [reflexivity|]. destruct o; [reflexivity|].
    destruct ty as [q|id|id| |e|k v|s f0]; try reflexivity.
    - rewrite <- fs_eq. destruct (find_struct p id) as [s|]; [|reflexivity]. destruct (negb (s_compact s)); [reflexivity|].
      replace (existsb (fun m => match key_error p' f (m_ty m) with Some _ => true | None => false end) (s_fields s))
        with (existsb (fun m => match key_error p f (m_ty m) with Some _ => true | None => false end) (s_fields s)); [reflexivity|].
      apply existsb_ext_. intros m. rewrite IH. reflexivity.
    - rewrite <- fe_eq. reflexivity.
  Qed.
  Lemma all_bases_eq : forall fuel ids, all_bases p fuel ids = all_bases p' fuel ids.
  Proof.
    induction fuel as [|f IH]; intros ids; cbn [all_bases]; [reflexivity|]. apply flat_map_ext_. intros id. rewrite <- fi_eq.
    destruct (find_iface p id); [rewrite IH; reflexivity|reflexivity].
  Qed.
  Lemma inherited_eq i : inherited_op_names p i = inherited_op_names p' i.
  Proof.
    unfold inherited_op_names. rewrite <- len_eq, <- all_bases_eq. apply flat_map_ext_. intros id. rewrite <- fi_eq. reflexivity.
  Qed.
  Lemma types_ok_eq ms : types_ok p ms <-> types_ok p' ms.
  Proof. unfold types_ok. rewrite <- len_eq. split; intros H m k Hm Hk; [rewrite <- key_error_eq|rewrite key_error_eq]; eapply H; eauto. Qed.
  Lemma def_ok_eq d : def_ok p d <-> def_ok p' d.
  Proof.
    destruct d as [id s|id e|id i|n|n t]; cbn [def_ok].
    - rewrite types_ok_eq. tauto.
    - split; intros [H1 H2]; split; auto; intros en Hen; destruct (H2 en Hen) as [A B]; split; auto; apply types_ok_eq; exact B.
    - rewrite <- inherited_eq. split; intros [H1 H2]; split; auto; intros o Ho; destruct (H2 o Ho) as (A & B & C & D & E & F); (split; [exact A|split; [exact B|split; [exact C|split; [exact D|split; apply types_ok_eq; assumption]]]]).
    - tauto.
    - rewrite <- len_eq. split; intros [H1 H2]; split; auto; intros k Hk; [rewrite <- key_error_eq|rewrite key_error_eq]; auto.
  Qed.
  Lemma in_perm d : In d p <-> In d p'.
  Proof. split; intros H; [eapply Permutation_in; [exact HP|exact H]|eapply Permutation_in; [apply Permutation_sym; exact HP|exact H]]. Qed.
  Lemma syntax_ok_eq : syntax_ok p <-> syntax_ok p'.
  Proof.
    unfold syntax_ok. split; intros [H1 H2]; split.
    - intros d ms m t Hd. apply in_perm in Hd. eauto.
    - intros id i o Hd. apply in_perm in Hd. eauto.
    - intros d ms m t Hd. apply in_perm in Hd. eauto.
    - intros id i o Hd. apply in_perm in Hd. eauto.
  Qed.
  Lemma names_ok_eq : names_ok p <-> names_ok p'.
  Proof.
    unfold names_ok. split; intros [H1 H2]; split.
    - eapply Permutation_NoDup; [apply Permutation_map; exact HP|exact H1].
    - intros d Hd. apply H2. apply in_perm. exact Hd.
    - eapply Permutation_NoDup; [apply Permutation_map; apply Permutation_sym; exact HP|exact H1].
    - intros d Hd. apply H2. apply in_perm. exact Hd.
  Qed.
  (* the verdict does not depend on the order of the definitions *)
  Theorem acceptance_order_independent : check p = [] <-> check p' = [].
  Proof.
    rewrite !accept_iff_well_formed. unfold well_formed. split; intros (A & B & C).
    - split; [apply syntax_ok_eq; exact A|split; [apply names_ok_eq; exact B|]]. intros d Hd. apply def_ok_eq. apply C. apply in_perm. exact Hd.
    - split; [apply syntax_ok_eq; exact A|split; [apply names_ok_eq; exact B|]]. intros d Hd. apply def_ok_eq. apply C. apply in_perm. exact Hd.
  Qed.
End Perm.
