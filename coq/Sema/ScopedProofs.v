(* Proofs about the lookup table over several files (Sema/Scoped.v): the redefinition pass is silent exactly when scoped
   identifiers are unique in the sense below; that is the same for every order of the files; and then every sc_lookup gives
   the same answer for every order of the files. *)
From Coq Require Import List Bool Arith Lia Permutation.
From SliceV Require Import Sema.Scoped.
Import ListNotations.

(* ---------- dups ---------- *)
Section DupsFacts.
  Context {A : Type} (eq_dec : forall a b : A, {a = b} + {a <> b}).
  Lemma dups_nil_iff : forall l seen, NoDup seen -> (dups eq_dec seen l = [] <-> NoDup (l ++ seen)).
  Proof.
    induction l as [|x r IH]; intros seen ND; cbn [dups app]; [tauto|].
    destruct (in_dec eq_dec x seen) as [Hin|Hnin].
    - split; [discriminate|]. intros H. inversion H as [|? ? Hx _]; subst. exfalso. apply Hx. apply in_or_app. right. exact Hin.
    - rewrite IH by (constructor; assumption). split; intros H.
      + apply NoDup_cons_iff. split.
        * intros Hi. apply in_app_or in Hi as [Hi|Hi]; [|contradiction]. apply (NoDup_remove_2 _ _ _ H). apply in_or_app. left. exact Hi.
        * eapply NoDup_remove_1. exact H.
      + inversion H as [|? ? Hx Hr]; subst. apply NoDup_Add with (a := x) (l := r ++ seen); [apply Add_app|]. split; assumption.
  Qed.
  Lemma dups_nil l : dups eq_dec [] l = [] <-> NoDup l.
  Proof. rewrite dups_nil_iff by constructor. rewrite app_nil_r. tauto. Qed.
End DupsFacts.

Lemma map_nil_iff {A B} (f : A -> B) l : map f l = [] <-> l = [].
Proof. destruct l; cbn; split; congruence. Qed.
Lemma app_nil_iff {A} (a b : list A) : a ++ b = [] <-> a = [] /\ b = [].
Proof. split; [apply app_eq_nil|intros [-> ->]; reflexivity]. Qed.
Lemma flat_map_nil_iff {A B} (f : A -> list B) l : flat_map f l = [] <-> Forall (fun x => f x = []) l.
Proof.
  induction l as [|a r IH]; cbn [flat_map]; [split; [constructor|reflexivity]|].
  rewrite app_nil_iff, IH. split; [intros [H1 H2]; constructor; assumption|intros H; inversion H; subst; split; assumption].
Qed.
Lemma filter_nil_iff {A} (p : A -> bool) l : filter p l = [] <-> forall x, In x l -> p x = false.
Proof.
  induction l as [|a r IH]; cbn [filter]; [split; [intros _ x []|reflexivity]|].
  destruct (p a) eqn:E.
  - split; [discriminate|]. intros H. specialize (H a (or_introl eq_refl)). congruence.
  - rewrite IH. split; [intros H x [<-|Hx]; [exact E|apply H; exact Hx]|intros H x Hx; apply H; right; exact Hx].
Qed.

(* ---------- what the silent redefinition pass means ---------- *)
Definition contents_ok (d : scdef) : Prop :=
  match d with
  | ScStruct _ fs => NoDup fs
  | ScEnum _ ens => NoDup (map fst ens) /\ Forall (fun e => NoDup (snd e)) ens
  | ScIface _ ops => NoDup (map sco_name ops) /\ Forall (fun o => NoDup (sco_params o) /\ NoDup (sco_rets o)) ops
  | ScOther _ => True
  end.
Definition names_ok (fs : list sfile) : Prop :=
  (forall k, In k (all_entity_keys fs) -> ~ In k (all_module_keys fs)) /\ NoDup (all_def_keys fs) /\ Forall contents_ok (all_defs fs).

Lemma content_dups_iff d : content_dups d = [] <-> contents_ok d.
Proof.
  destruct d as [n fs|n ens|n ops|n]; cbn [content_dups contents_ok].
  - apply dups_nil.
  - rewrite app_nil_iff, dups_nil, flat_map_nil_iff. apply and_iff_compat_l. split; intros H; (eapply Forall_impl; [|exact H]); intros e; apply dups_nil.
  - rewrite app_nil_iff, dups_nil, flat_map_nil_iff. apply and_iff_compat_l.
    split; intros H; (eapply Forall_impl; [|exact H]); intros o; cbv beta; rewrite app_nil_iff, !dups_nil; tauto.
  - tauto.
Qed.
Theorem redef_report_silent_iff fs : redef_report fs = [] <-> names_ok fs.
Proof.
  unfold redef_report, names_ok. rewrite !app_nil_iff, !map_nil_iff, filter_nil_iff, dups_nil, flat_map_nil_iff.
  assert (X : (forall x, In x (all_entity_keys fs) -> (if in_dec skey_eq_dec x (all_module_keys fs) then true else false) = false) <->
              (forall k, In k (all_entity_keys fs) -> ~ In k (all_module_keys fs))).
  { split; intros H k Hk.
    - specialize (H k Hk). destruct (in_dec skey_eq_dec k (all_module_keys fs)); [discriminate|assumption].
    - destruct (in_dec skey_eq_dec k (all_module_keys fs)) as [Hin|]; [exfalso; exact (H k Hk Hin)|reflexivity]. }
  assert (Y : Forall (fun x => content_dups x = []) (all_defs fs) <-> Forall contents_ok (all_defs fs)).
  { split; intros H; (eapply Forall_impl; [|exact H]); intros d; apply content_dups_iff. }
  rewrite X, Y. tauto.
Qed.

(* ---------- the same for every order of the files ---------- *)
Theorem names_ok_perm fs fs' : Permutation fs fs' -> names_ok fs -> names_ok fs'.
Proof.
  intros HP (A & B & C). unfold names_ok, all_entity_keys, all_module_keys, all_def_keys, all_defs in *. repeat split.
  - intros k Hk Hm. apply (A k).
    + eapply Permutation_in; [|exact Hk]. apply Permutation_flat_map. symmetry. exact HP.
    + eapply Permutation_in; [|exact Hm]. apply Permutation_flat_map. symmetry. exact HP.
  - eapply Permutation_NoDup; [|exact B]. apply Permutation_flat_map. exact HP.
  - eapply Permutation_Forall; [|exact C]. apply Permutation_flat_map. exact HP.
Qed.
Theorem redef_verdict_order_independent fs fs' : Permutation fs fs' -> (redef_report fs = [] <-> redef_report fs' = []).
Proof. intros HP. rewrite !redef_report_silent_iff. split; apply names_ok_perm; [exact HP|symmetry; exact HP]. Qed.

(* ---------- the shape of keys ---------- *)
Lemma entity_key_shape mp d k : In k (entity_keys_of_def mp d) ->
  k = mp ++ [scdef_name d] \/
  exists m subs, In (m, subs) (members d) /\ (k = mp ++ [scdef_name d; m] \/ exists x, In x subs /\ k = mp ++ [scdef_name d; m; x]).
Proof.
  unfold entity_keys_of_def, sub_keys, member_keys, def_key. intros H. apply in_app_or in H as [H|H]; [|apply in_app_or in H as [H|H]].
  - apply in_flat_map in H as ([m subs] & Hm & Hx). apply in_map_iff in Hx as (x & <- & Hx). right. exists m, subs. split; [exact Hm|]. right. exists x. split; [exact Hx|reflexivity].
  - apply in_map_iff in H as ([m subs] & <- & Hm). right. exists m, subs. split; [exact Hm|]. left. reflexivity.
  - destruct H as [<-|[]]. left. reflexivity.
Qed.
Lemma def_key_in mp d : In (mp ++ [scdef_name d]) (entity_keys_of_def mp d).
Proof. unfold entity_keys_of_def. apply in_or_app. right. apply in_or_app. right. left. reflexivity. Qed.
Lemma member_key_in mp d m subs : In (m, subs) (members d) -> In (mp ++ [scdef_name d; m]) (entity_keys_of_def mp d).
Proof.
  intros H. unfold entity_keys_of_def. apply in_or_app. right. apply in_or_app. left. unfold member_keys.
  apply in_map_iff. exists (m, subs). split; [reflexivity|exact H].
Qed.

Lemma in_entity_keys f k : In k (entity_keys f) -> exists mp d, sf_module f = Some mp /\ In d (sf_defs f) /\ In k (entity_keys_of_def mp d).
Proof.
  unfold entity_keys. destruct (sf_module f) as [mp|]; [|intros []]. intros H. apply in_flat_map in H as (d & Hd & Hk). exists mp, d. repeat split; assumption.
Qed.
Lemma entity_keys_intro f mp d k : sf_module f = Some mp -> In d (sf_defs f) -> In k (entity_keys_of_def mp d) -> In k (entity_keys f).
Proof. intros Hm Hd Hk. unfold entity_keys. rewrite Hm. apply in_flat_map. exists d. split; assumption. Qed.
Lemma def_keys_intro f mp d : sf_module f = Some mp -> In d (sf_defs f) -> In (mp ++ [scdef_name d]) (def_keys f).
Proof. intros Hm Hd. unfold def_keys. rewrite Hm. apply in_map_iff. exists d. split; [reflexivity|exact Hd]. Qed.

(* two entities with one skey: either one of them lies (with its definition or member) on a module's identifier, or their
   definitions have the same scoped identifier *)
Lemma same_key_entities mp1 d1 mp2 d2 k : In k (entity_keys_of_def mp1 d1) -> In k (entity_keys_of_def mp2 d2) ->
  mp1 ++ [scdef_name d1] = mp2 ++ [scdef_name d2] \/ In mp2 (entity_keys_of_def mp1 d1) \/ In mp1 (entity_keys_of_def mp2 d2).
Proof.
  assert (K : forall mpa da mpb db s1 s2, In (mpa ++ scdef_name da :: s1) (entity_keys_of_def mpa da) ->
            (s1 = [] \/ exists m subs, In (m, subs) (members da) /\ (s1 = [m] \/ exists x, In x subs /\ s1 = [m; x])) ->
            forall l, mpb = mpa ++ l -> scdef_name da :: s1 = l ++ scdef_name db :: s2 ->
            mpa ++ [scdef_name da] = mpb ++ [scdef_name db] \/ In mpb (entity_keys_of_def mpa da)).
  { intros mpa da mpb db s1 s2 _ Sh l -> E. destruct l as [|a l'].
    - cbn [app] in E. inversion E. left. rewrite app_nil_r. congruence.
    - right. cbn [app] in E. inversion E as [[Ea Es]]. subst a.
      destruct Sh as [->|(m & subs & Hm & [->|(x & Hx & ->)])].
      + destruct l'; discriminate.
      + destruct l' as [|b l'']; [apply def_key_in|]. cbn [app] in Es. inversion Es. destruct l''; discriminate.
      + destruct l' as [|b l'']; [apply def_key_in|]. cbn [app] in Es. inversion Es as [[Eb Er]]. subst b.
        destruct l'' as [|c l3]; [eapply member_key_in; exact Hm|]. cbn [app] in Er. inversion Er. destruct l3; discriminate. }
  intros H1 H2.
  assert (S1 := entity_key_shape _ _ _ H1). assert (S2 := entity_key_shape _ _ _ H2).
  assert (N1 : exists s1, k = mp1 ++ scdef_name d1 :: s1 /\ (s1 = [] \/ exists m subs, In (m, subs) (members d1) /\ (s1 = [m] \/ exists x, In x subs /\ s1 = [m; x]))).
  { destruct S1 as [->|(m & subs & Hm & [->|(x & Hx & ->)])].
    - exists []. split; [reflexivity|left; reflexivity].
    - exists [m]. split; [reflexivity|]. right. exists m, subs. split; [exact Hm|left; reflexivity].
    - exists [m; x]. split; [reflexivity|]. right. exists m, subs. split; [exact Hm|]. right. exists x. split; [exact Hx|reflexivity]. }
  assert (N2 : exists s2, k = mp2 ++ scdef_name d2 :: s2 /\ (s2 = [] \/ exists m subs, In (m, subs) (members d2) /\ (s2 = [m] \/ exists x, In x subs /\ s2 = [m; x]))).
  { destruct S2 as [->|(m & subs & Hm & [->|(x & Hx & ->)])].
    - exists []. split; [reflexivity|left; reflexivity].
    - exists [m]. split; [reflexivity|]. right. exists m, subs. split; [exact Hm|left; reflexivity].
    - exists [m; x]. split; [reflexivity|]. right. exists m, subs. split; [exact Hm|]. right. exists x. split; [exact Hx|reflexivity]. }
  destruct N1 as (s1 & E1 & Sh1). destruct N2 as (s2 & E2 & Sh2).
  assert (E : mp1 ++ scdef_name d1 :: s1 = mp2 ++ scdef_name d2 :: s2) by congruence.
  apply app_eq_app in E. destruct E as (l & [[Ea Eb]|[Ea Eb]]).
  - (* mp1 = mp2 ++ l *)
    rewrite E2 in H2. destruct (K mp2 d2 mp1 d1 s2 s1 H2 Sh2 l Ea Eb) as [X|X]; [left; symmetry; exact X|right; right; exact X].
  - rewrite E1 in H1. destruct (K mp1 d1 mp2 d2 s1 s2 H1 Sh1 l Ea Eb) as [X|X]; [left; exact X|right; left; exact X].
Qed.

(* keys and paths go together one to one *)
Lemma flat_map_length_eq {A B C} (f : A -> list B) (g : A -> list C) l : (forall a, In a l -> length (f a) = length (g a)) -> length (flat_map f l) = length (flat_map g l).
Proof.
  induction l as [|a r IH]; intros H; [reflexivity|]. cbn [flat_map]. rewrite !app_length, (H a (or_introl eq_refl)), IH; [reflexivity|].
  intros b Hb. apply H. right. exact Hb.
Qed.
Lemma flat_map_indexed_length {A B} (g : nat -> A -> list B) (h : A -> nat) : forall (l : list A) (i : nat), (forall j a, length (g j a) = h a) ->
  length (flat_map (fun ia => g (fst ia) (snd ia)) (combine (seq i (length l)) l)) = length (flat_map (fun a => repeat tt (h a)) l).
Proof.
  induction l as [|a r IH]; intros i H; [reflexivity|]. cbn [length seq combine flat_map fst snd]. rewrite !app_length, H, repeat_length, (IH (S i) H). reflexivity.
Qed.
Lemma paths_match_keys_def mp di d : length (entity_paths_of_def di d) = length (entity_keys_of_def mp d).
Proof.
  unfold entity_paths_of_def, entity_keys_of_def, sub_keys, member_keys, indexed. rewrite !app_length, !map_length, seq_length. f_equal.
  rewrite (flat_map_indexed_length (fun mi ms => map (fun xi => [di; mi; xi]) (seq 0 (length (snd ms)))) (fun ms => length (snd ms))) by (intros; rewrite map_length, seq_length; reflexivity).
  apply flat_map_length_eq. intros ms _. rewrite repeat_length, map_length. reflexivity.
Qed.
Lemma paths_match_keys f mp : sf_module f = Some mp -> length (entity_paths f) = length (entity_keys f).
Proof.
  intros Hm. unfold entity_paths, entity_keys, indexed. rewrite Hm.
  rewrite (flat_map_indexed_length (fun di d => entity_paths_of_def di d) (fun d => length (entity_keys_of_def mp d))) by (intros; apply paths_match_keys_def).
  apply flat_map_length_eq. intros d _. apply repeat_length.
Qed.
(* so no entry is lost when keys and paths are put together: every entity skey of a file is entered *)
Lemma every_entity_entered f k : In k (entity_keys f) -> exists p, In (k, ScEntity (sf_id f) p) (file_entries f).
Proof.
  intros Hk. unfold file_entries. destruct (sf_module f) as [mp|] eqn:Em; [|unfold entity_keys in Hk; rewrite Em in Hk; destruct Hk].
  pose proof (paths_match_keys f mp Em) as L. apply In_nth with (d := []) in Hk. destruct Hk as (n & Hn & Hnth).
  exists (nth n (entity_paths f) []). apply in_or_app. left.
  rewrite <- Hnth. replace (nth n (entity_keys f) [], ScEntity (sf_id f) (nth n (entity_paths f) [])) with (nth n (combine (entity_keys f) (map (ScEntity (sf_id f)) (entity_paths f))) ([], ScEntity (sf_id f) [])).
  - apply nth_In. rewrite combine_length, map_length, L. lia.
  - rewrite combine_nth by (rewrite map_length; symmetry; exact L). f_equal. apply map_nth.
Qed.

(* ---------- entries of files ---------- *)
Lemma in_combine_fst {A B} (l : list A) (l' : list B) a b : In (a, b) (combine l l') -> In a l.
Proof. apply in_combine_l. Qed.
Lemma file_entry_kinds f k v : In (k, v) (file_entries f) -> (v = ScModule k /\ sf_module f = Some k) \/ In k (entity_keys f).
Proof.
  unfold file_entries. destruct (sf_module f) as [mp|] eqn:Em; [|intros []]. intros H. apply in_app_or in H as [H|[H|[]]].
  - right. eapply in_combine_l. exact H.
  - left. inversion H; subst. split; reflexivity.
Qed.
Lemma nodup_flat_map_same {A B} (g : A -> list B) : forall l a b x, NoDup (flat_map g l) -> In a l -> In b l -> In x (g a) -> In x (g b) -> a = b.
Proof.
  induction l as [|c r IH]; intros a b x ND Ha Hb Hxa Hxb; [destruct Ha|]. cbn [flat_map] in ND.
  assert (Dis : forall y z, In y (g c) -> In z r -> In y (g z) -> False).
  { intros y z Hy Hz Hyz. clear IH. induction (g c) as [|u gc IHg]; [destruct Hy|]. cbn [app] in ND. inversion ND as [|? ? Hu Hr]; subst.
    destruct Hy as [<-|Hy]; [|apply IHg; assumption]. apply Hu. apply in_or_app. right. apply in_flat_map. exists z. split; assumption. }
  assert (NDr : NoDup (flat_map g r)). { clear -ND. induction (g c) as [|u gc IHg]; [exact ND|]. inversion ND; subst. apply IHg. assumption. }
  destruct Ha as [<-|Ha], Hb as [<-|Hb].
  - reflexivity.
  - exfalso. exact (Dis x b Hxa Hb Hxb).
  - exfalso. exact (Dis x a Hxb Ha Hxa).
  - exact (IH a b x NDr Ha Hb Hxa Hxb).
Qed.

(* with unique names, two entries with one skey are the module of that sname twice, or lie in one file *)
Lemma same_key_entries fs f1 f2 k v w : names_ok fs -> In f1 fs -> In f2 fs -> In (k, v) (file_entries f1) -> In (k, w) (file_entries f2) ->
  (v = ScModule k /\ w = ScModule k) \/ f1 = f2.
Proof.
  intros (A & B & _) H1 H2 E1 E2.
  assert (Mod : forall f, In f fs -> forall mp, sf_module f = Some mp -> In mp (all_module_keys fs)).
  { intros f Hf mp Hm. unfold all_module_keys. apply in_flat_map. exists f. split; [exact Hf|]. unfold module_keys. rewrite Hm. left. reflexivity. }
  assert (Ent : forall f, In f fs -> forall k0, In k0 (entity_keys f) -> In k0 (all_entity_keys fs)).
  { intros f Hf k0 Hk. unfold all_entity_keys. apply in_flat_map. exists f. split; assumption. }
  apply file_entry_kinds in E1. apply file_entry_kinds in E2.
  destruct E1 as [[-> M1]|K1], E2 as [[-> M2]|K2].
  - left. split; reflexivity.
  - exfalso. exact (A k (Ent f2 H2 k K2) (Mod f1 H1 k M1)).
  - exfalso. exact (A k (Ent f1 H1 k K1) (Mod f2 H2 k M2)).
  - right. apply in_entity_keys in K1 as (mp1 & d1 & M1 & D1 & K1). apply in_entity_keys in K2 as (mp2 & d2 & M2 & D2 & K2).
    destruct (same_key_entities mp1 d1 mp2 d2 k K1 K2) as [Eq|[X|X]].
    + apply (nodup_flat_map_same def_keys fs f1 f2 (mp1 ++ [scdef_name d1]) B H1 H2); [apply def_keys_intro; assumption|rewrite Eq; apply def_keys_intro; assumption].
    + exfalso. apply (A mp2); [apply (Ent f1 H1); eapply entity_keys_intro; eassumption|exact (Mod f2 H2 mp2 M2)].
    + exfalso. apply (A mp1); [apply (Ent f2 H2); eapply entity_keys_intro; eassumption|exact (Mod f1 H1 mp1 M1)].
Qed.

(* ---------- lookups ---------- *)
Lemma lookup_app k a b : sc_lookup k (a ++ b) = match sc_lookup k b with Some w => Some w | None => sc_lookup k a end.
Proof.
  induction a as [|[k' v] r IH]; cbn [app sc_lookup]; [destruct (sc_lookup k b); reflexivity|]. rewrite IH. destruct (sc_lookup k b); reflexivity.
Qed.
Lemma lookup_in k t v : sc_lookup k t = Some v -> In (k, v) t.
Proof.
  induction t as [|[k' w] r IH]; cbn [sc_lookup]; [discriminate|]. destruct (sc_lookup k r) as [u|].
  - intros E. inversion E; subst. right. apply IH. reflexivity.
  - destruct (skey_eq_dec k' k) as [->|]; [|discriminate]. intros E. inversion E; subst. left. reflexivity.
Qed.
Fixpoint last_some {A} (l : list (option A)) : option A :=
  match l with [] => None | o :: r => match last_some r with Some w => Some w | None => o end end.
Lemma lookup_table k fs : sc_lookup k (sc_table fs) = last_some (map (fun f => sc_lookup k (file_entries f)) fs).
Proof.
  induction fs as [|f r IH]; [reflexivity|]. cbn [sc_table flat_map map last_some]. rewrite lookup_app. fold (sc_table r). rewrite IH. reflexivity.
Qed.
Lemma last_some_spec {A} (l : list (option A)) : match last_some l with Some v => In (Some v) l | None => forall v, ~ In (Some v) l end.
Proof.
  induction l as [|o r IH]; cbn [last_some]; [intros v []|]. destruct (last_some r) as [w|].
  - right. exact IH.
  - destruct o as [v|]; [left; reflexivity|]. intros v [E|H]; [discriminate|exact (IH v H)].
Qed.
Lemma last_some_perm {A} (l l' : list (option A)) : (forall v w, In (Some v) l -> In (Some w) l -> v = w) -> Permutation l l' -> last_some l = last_some l'.
Proof.
  intros Ag HP. pose proof (last_some_spec l) as S. pose proof (last_some_spec l') as S'.
  destruct (last_some l) as [v|], (last_some l') as [v'|].
  - f_equal. apply Ag; [exact S|]. eapply Permutation_in; [symmetry; exact HP|exact S'].
  - exfalso. apply (S' v). eapply Permutation_in; [exact HP|exact S].
  - exfalso. apply (S v'). eapply Permutation_in; [symmetry; exact HP|exact S'].
  - reflexivity.
Qed.

(* Whatever is looked up -- a type, a link target, a scoped sname tried from an enclosing scope -- the answer is the same for
   every order in which the files were given, once the redefinition pass is silent. *)
Theorem lookup_order_independent fs fs' k : redef_report fs = [] -> Permutation fs fs' -> sc_lookup k (sc_table fs) = sc_lookup k (sc_table fs').
Proof.
  intros Hok HP. apply redef_report_silent_iff in Hok. rewrite !lookup_table. apply last_some_perm; [|apply Permutation_map; exact HP].
  intros v w Hv Hw. apply in_map_iff in Hv as (f1 & E1 & H1). apply in_map_iff in Hw as (f2 & E2 & H2).
  destruct (same_key_entries fs f1 f2 k v w Hok H1 H2 (lookup_in _ _ _ E1) (lookup_in _ _ _ E2)) as [[-> ->]|<-]; [reflexivity|congruence].
Qed.

(* ---------- the premise is needed, and met ---------- *)
(* "module A::I::op" next to an operation op of interface I in module A (A = 1, I = 2, op = 3): reported ... *)
Definition f_iface : sfile := {| sf_id := 0; sf_module := Some [1]; sf_defs := [ScIface 2 [{| sco_name := 3; sco_params := [4]; sco_rets := [] |}]; ScStruct 5 [6]] |}.
Definition f_module : sfile := {| sf_id := 1; sf_module := Some [1; 2; 3]; sf_defs := [ScOther 7] |}.
Example member_module_collision_reported : redef_report [f_iface; f_module] = [3] /\ redef_report [f_module; f_iface] = [3].
Proof. split; vm_compute; reflexivity. Qed.
(* ... and rightly so: the lookup of A::I::op would depend on the order of the files *)
Example member_module_collision_order_dependent :
  sc_lookup [1; 2; 3] (sc_table [f_iface; f_module]) = Some (ScModule [1; 2; 3]) /\ sc_lookup [1; 2; 3] (sc_table [f_module; f_iface]) = Some (ScEntity 0 [0; 0]).
Proof. split; vm_compute; reflexivity. Qed.
(* a program the pass accepts, with a module re-opened in two files, nested modules and a parameter and return member of one sname *)
Definition f_a : sfile := {| sf_id := 0; sf_module := Some [1]; sf_defs := [ScIface 2 [{| sco_name := 3; sco_params := [4; 5]; sco_rets := [4] |}]; ScEnum 6 [(7, [8]); (9, [])]] |}.
Definition f_b : sfile := {| sf_id := 1; sf_module := Some [1]; sf_defs := [ScStruct 10 [3; 4]] |}.
Definition f_c : sfile := {| sf_id := 2; sf_module := Some [1; 11]; sf_defs := [ScOther 2; ScStruct 6 [7]] |}.
Example accepted_program : redef_report [f_a; f_b; f_c] = [] /\ sc_lookup [1] (sc_table [f_c; f_a; f_b]) = Some (ScModule [1]) /\
  sc_lookup [1; 2; 3; 4] (sc_table [f_a; f_b; f_c]) = Some (ScEntity 0 [0; 0; 2]) /\ sc_lookup [1; 2; 3; 4] (sc_table [f_c; f_b; f_a]) = Some (ScEntity 0 [0; 0; 2]).
Proof. repeat split; vm_compute; reflexivity. Qed.

(* ---------- every entity is found under its own scoped identifier ---------- *)
(* what the redefinition pass does not ask for: a parameter and a return member of one operation may share a name (they share an
   AST scope; Ast::find_node documents that these "may not be unique"); where they do not, every key names one entity *)
Definition ops_ok (d : scdef) : Prop :=
  match d with ScIface _ ops => Forall (fun o => NoDup (sco_params o ++ sco_rets o)) ops | _ => True end.

Lemma NoDup_app_intro {A} (a b : list A) : NoDup a -> NoDup b -> (forall x, In x a -> In x b -> False) -> NoDup (a ++ b).
Proof.
  induction a as [|x r IH]; intros Ha Hb Hd; [exact Hb|]. cbn [app]. inversion Ha as [|? ? Hx Hr]; subst. constructor.
  - intros Hi. apply in_app_or in Hi as [Hi|Hi]; [exact (Hx Hi)|exact (Hd x (or_introl eq_refl) Hi)].
  - apply IH; [exact Hr|exact Hb|]. intros y Hy. apply Hd. right. exact Hy.
Qed.
Lemma NoDup_map_inj {A B} (f : A -> B) l : (forall x y, In x l -> In y l -> f x = f y -> x = y) -> NoDup l -> NoDup (map f l).
Proof.
  induction l as [|a r IH]; intros Hinj ND; [constructor|]. inversion ND as [|? ? Ha Hr]; subst. cbn [map]. constructor.
  - intros Hi. apply in_map_iff in Hi as (y & Ey & Hy). apply Ha. rewrite (Hinj a y (or_introl eq_refl) (or_intror Hy) (eq_sym Ey)). exact Hy.
  - apply IH; [|exact Hr]. intros x y Hx Hy. apply Hinj; right; assumption.
Qed.
Lemma members_fst_nodup d : contents_ok d -> NoDup (map fst (members d)).
Proof.
  destruct d as [n fs|n ens|n ops|n]; cbn [contents_ok members]; intros H.
  - rewrite map_map. cbn [fst]. rewrite map_id. exact H.
  - exact (proj1 H).
  - rewrite map_map. cbn [fst]. exact (proj1 H).
  - constructor.
Qed.
Lemma members_snd_nodup d m subs : contents_ok d -> ops_ok d -> In (m, subs) (members d) -> NoDup subs.
Proof.
  destruct d as [n fs|n ens|n ops|n]; cbn [contents_ok ops_ok members]; intros H O Hin.
  - apply in_map_iff in Hin as (f & E & _). inversion E; subst. constructor.
  - destruct H as [_ H]. rewrite Forall_forall in H. exact (H (m, subs) Hin).
  - apply in_map_iff in Hin as (o & E & Ho). inversion E; subst. rewrite Forall_forall in O. exact (O o Ho).
  - destruct Hin.
Qed.
Lemma app_inj_tail_list {A} (mp a b : list A) : mp ++ a = mp ++ b -> a = b.
Proof. apply app_inv_head. Qed.

Lemma entity_keys_of_def_nodup mp d : contents_ok d -> ops_ok d -> NoDup (entity_keys_of_def mp d).
Proof.
  intros C O. unfold entity_keys_of_def. pose proof (members_fst_nodup d C) as NF.
  assert (Len3 : forall k, In k (sub_keys mp d) -> length k = length mp + 3).
  { intros k H. unfold sub_keys in H. apply in_flat_map in H as (ms & _ & H). apply in_map_iff in H as (x & <- & _). rewrite app_length. reflexivity. }
  assert (Len2 : forall k, In k (member_keys mp d) -> length k = length mp + 2).
  { intros k H. unfold member_keys in H. apply in_map_iff in H as (ms & <- & _). rewrite app_length. reflexivity. }
  apply NoDup_app_intro; [|apply NoDup_app_intro|].
  - (* sub keys *)
    unfold sub_keys. revert NF. assert (S : forall m subs, In (m, subs) (members d) -> NoDup subs) by (intros m subs; apply members_snd_nodup; assumption).
    revert S. generalize (members d). intros l. induction l as [|[m subs] r IH]; intros S NF; [constructor|]. cbn [flat_map map fst snd] in *.
    inversion NF as [|? ? Hm Hr]; subst. apply NoDup_app_intro.
    + apply NoDup_map_inj; [|apply (S m subs); left; reflexivity]. intros x y _ _ E. apply app_inv_head in E. inversion E. reflexivity.
    + apply IH; [intros m' s' H; apply (S m' s'); right; exact H|exact Hr].
    + intros k H1 H2. apply in_map_iff in H1 as (x & <- & _). apply in_flat_map in H2 as ([m' s'] & Hin & H2). apply in_map_iff in H2 as (y & E & _).
      apply app_inv_head in E. inversion E; subst. apply Hm. apply in_map_iff. exists (m, s'). split; [reflexivity|exact Hin].
  - unfold member_keys. apply NoDup_map_inj.
    + intros [m1 s1] [m2 s2] H1 H2 E. apply app_inv_head in E. inversion E; subst.
      (* same name: the same member, as names are unique *)
      clear -NF H1 H2. revert NF H1 H2. generalize (members d). intros l. induction l as [|[m s] r IH]; intros NF H1 H2; [destruct H1|]. cbn [map fst] in NF. inversion NF as [|? ? Hm Hr]; subst.
      destruct H1 as [E1|H1], H2 as [E2|H2].
      * congruence.
      * inversion E1; subst. exfalso. apply Hm. apply in_map_iff. exists (m2, s2). split; [reflexivity|exact H2].
      * inversion E2; subst. exfalso. apply Hm. apply in_map_iff. exists (m2, s1). split; [reflexivity|exact H1].
      * exact (IH Hr H1 H2).
    + clear -NF. revert NF. generalize (members d). intros l. induction l as [|[m s] r IH]; intros NF; [constructor|]. cbn [map fst] in NF. inversion NF as [|? ? Hm Hr]; subst. constructor.
      * intros Hi. apply Hm. apply in_map_iff. exists (m, s). split; [reflexivity|exact Hi].
      * exact (IH Hr).
  - constructor; [intros []|constructor].
  - intros k H1 [<-|[]]. apply Len2 in H1. unfold def_key in H1. rewrite app_length in H1. cbn [length] in H1. lia.
  - intros k H1 H2. apply Len3 in H1. apply in_app_or in H2 as [H2|[<-|[]]].
    + apply Len2 in H2. lia.
    + unfold def_key in H1. rewrite app_length in H1. cbn [length] in H1. lia.
Qed.

Lemma mp_not_own_entity mp d : ~ In mp (entity_keys_of_def mp d).
Proof.
  intros H. apply entity_key_shape in H. destruct H as [H|(m & subs & _ & [H|(x & _ & H)])];
    apply (f_equal (@length _)) in H; rewrite app_length in H; cbn [length] in H; lia.
Qed.
Lemma entity_keys_nodup f : NoDup (def_keys f) -> Forall contents_ok (match sf_module f with Some _ => sf_defs f | None => [] end) ->
  Forall ops_ok (match sf_module f with Some _ => sf_defs f | None => [] end) -> NoDup (entity_keys f).
Proof.
  unfold entity_keys, def_keys. destruct (sf_module f) as [mp|]; [|constructor]. generalize (sf_defs f). intros l.
  induction l as [|d r IH]; intros ND C O; [constructor|]. cbn [flat_map map] in *. inversion ND as [|? ? Hd Hr]; subst. inversion C; subst. inversion O; subst.
  apply NoDup_app_intro.
  - apply entity_keys_of_def_nodup; assumption.
  - apply IH; assumption.
  - intros k K1 K2. apply in_flat_map in K2 as (d' & Hd' & K2). destruct (same_key_entities mp d mp d' k K1 K2) as [E|[X|X]].
    + apply Hd. unfold def_key. rewrite E. apply in_map_iff. exists d'. split; [reflexivity|exact Hd'].
    + exact (mp_not_own_entity mp d X).
    + exact (mp_not_own_entity mp d' X).
Qed.

Lemma combine_fun {A B} (l : list A) (l' : list B) a b b' : NoDup l -> In (a, b) (combine l l') -> In (a, b') (combine l l') -> b = b'.
Proof.
  revert l'. induction l as [|x r IH]; intros l' ND H1 H2; [destruct H1|]. destruct l' as [|y r']; [destruct H1|]. cbn [combine] in *. inversion ND as [|? ? Hx Hr]; subst.
  destruct H1 as [E1|H1], H2 as [E2|H2].
  - congruence.
  - inversion E1; subst. exfalso. apply Hx. eapply in_combine_l. exact H2.
  - inversion E2; subst. exfalso. apply Hx. eapply in_combine_l. exact H1.
  - exact (IH r' Hr H1 H2).
Qed.
Lemma lookup_unique k t v : In (k, v) t -> (forall w, In (k, w) t -> w = v) -> sc_lookup k t = Some v.
Proof.
  induction t as [|[k' u] r IH]; intros Hin Hu; [destruct Hin|]. cbn [sc_lookup].
  destruct (sc_lookup k r) as [w|] eqn:E.
  - apply lookup_in in E. f_equal. apply Hu. right. exact E.
  - destruct Hin as [Heq|Hin].
    + inversion Heq; subst. destruct (skey_eq_dec k k); [reflexivity|congruence].
    + assert (X : None = Some v) by (apply (IH Hin); intros w Hw; apply Hu; right; exact Hw). discriminate X.
Qed.
Lemma nodup_flat_map_part {A B} (g : A -> list B) l a : NoDup (flat_map g l) -> In a l -> NoDup (g a).
Proof.
  induction l as [|c r IH]; intros ND Ha; [destruct Ha|]. cbn [flat_map] in ND. destruct Ha as [<-|Ha].
  - clear IH. induction (g c) as [|u gc IHg]; [constructor|]. cbn [app] in ND. inversion ND as [|? ? Hu Hr]; subst. constructor; [|exact (IHg Hr)].
    intros Hi. apply Hu. apply in_or_app. left. exact Hi.
  - apply IH; [|exact Ha]. clear -ND. induction (g c) as [|u gc IHg]; [exact ND|]. inversion ND; subst. apply IHg. assumption.
Qed.

(* After a silent redefinition pass every definition, field, enumerator, operation -- every entity entered in the table -- is what
   its own scoped identifier leads to, whatever the order of the files (parameters and return members too, where an operation does
   not use one name for both). *)
Theorem entity_found_by_its_scoped_identifier fs k f p :
  redef_report fs = [] -> Forall ops_ok (all_defs fs) -> In f fs -> In (k, ScEntity (sf_id f) p) (file_entries f) ->
  sc_lookup k (sc_table fs) = Some (ScEntity (sf_id f) p).
Proof.
  intros Hok Hops Hf Hin. apply redef_report_silent_iff in Hok. pose proof Hok as (A & B & C).
  apply lookup_unique.
  - unfold sc_table. apply in_flat_map. exists f. split; assumption.
  - intros w Hw. unfold sc_table in Hw. apply in_flat_map in Hw as (f2 & Hf2 & Hw).
    destruct (same_key_entries fs f f2 k _ w Hok Hf Hf2 Hin Hw) as [[E _]|<-]; [discriminate|].
    (* the same file: its entity keys are distinct and none is its module's *)
    unfold file_entries in Hin, Hw. destruct (sf_module f) as [mp|] eqn:Em; [|destruct Hin].
    assert (NDf : NoDup (entity_keys f)).
    { apply entity_keys_nodup.
      - apply (nodup_flat_map_part def_keys fs f B Hf).
      - rewrite Em. unfold all_defs in C. rewrite Forall_forall in C. apply Forall_forall. intros d Hd. apply C. apply in_flat_map. exists f. rewrite Em. split; assumption.
      - rewrite Em. unfold all_defs in Hops. rewrite Forall_forall in Hops. apply Forall_forall. intros d Hd. apply Hops. apply in_flat_map. exists f. rewrite Em. split; assumption. }
    apply in_app_or in Hin as [Hin|[Hin|[]]]; [|inversion Hin].
    apply in_app_or in Hw as [Hw|[Hw|[]]].
    + symmetry. exact (combine_fun _ _ _ _ _ NDf Hin Hw).
    + inversion Hw; subst. exfalso. apply (A k).
      * unfold all_entity_keys. apply in_flat_map. exists f. split; [exact Hf|]. eapply in_combine_l. exact Hin.
      * unfold all_module_keys. apply in_flat_map. exists f. split; [exact Hf|]. unfold module_keys. rewrite Em. left. reflexivity.
Qed.
Corollary entities_retrievable fs f k : redef_report fs = [] -> Forall ops_ok (all_defs fs) -> In f fs -> In k (entity_keys f) ->
  exists p, sc_lookup k (sc_table fs) = Some (ScEntity (sf_id f) p).
Proof.
  intros Hok Hops Hf Hk. destruct (every_entity_entered f k Hk) as [p Hp]. exists p. apply entity_found_by_its_scoped_identifier; assumption.
Qed.

(* ---------- with the primitive types in the table ---------- *)
(* what the files enter comes after the primitives' entries, so it wins over them; the order of the files does not matter here either,
   and a key that no file uses still leads to the primitive of that name *)
Theorem lookup_with_primitives_order_independent prims fs fs' k :
  redef_report fs = [] -> Permutation fs fs' -> sc_lookup k (sc_table_with prims fs) = sc_lookup k (sc_table_with prims fs').
Proof. intros Hok HP. unfold sc_table_with. rewrite !lookup_app. rewrite (lookup_order_independent fs fs' k Hok HP). reflexivity. Qed.
Theorem primitive_found_unless_redeclared prims fs p : NoDup prims -> In p prims -> sc_lookup [p] (sc_table fs) = None ->
  sc_lookup [p] (sc_table_with prims fs) = Some (ScPrimitive p).
Proof.
  intros ND Hin Hnone. unfold sc_table_with. rewrite lookup_app, Hnone. apply lookup_unique.
  - apply in_map_iff. exists p. split; [reflexivity|exact Hin].
  - intros w Hw. apply in_map_iff in Hw as (q & E & _). inversion E; subst. reflexivity.
Qed.
(* `module \int32` takes the place of the primitive int32 in the table, in every order of the files (name 100 stands for int32) *)
Example module_named_like_a_primitive :
  let m := {| sf_id := 0; sf_module := Some [100]; sf_defs := [] |} in
  let u := {| sf_id := 1; sf_module := Some [1]; sf_defs := [ScStruct 2 [3]] |} in
  redef_report [m; u] = [] /\ sc_lookup [100] (sc_table_with [100; 101] [m; u]) = Some (ScModule [100]) /\
  sc_lookup [100] (sc_table_with [100; 101] [u; m]) = Some (ScModule [100]) /\ sc_lookup [101] (sc_table_with [100; 101] [u; m]) = Some (ScPrimitive 101).
Proof. repeat split; vm_compute; reflexivity. Qed.
