(* The AST's lookup table and the redefinition pass over several files (ast/mod.rs add_named_element, parsers/mod.rs
   parse_file, parsers/slice/grammar.rs construct_*, validators/identifiers.rs check_for_redefinitions), at the level of
   scoped identifiers (C15, C04, C03).  A scoped identifier is the list of its segments ("A::I::op" = [A; I; op]; identifiers
   contain no "::", so the join is injective).  Entries are made in the order the parser moves elements into the AST:
   per definition the members of its members (parameters, then return members; the fields of enumerators), then its
   members, then the definition; the file's module after all its definitions.  A later entry replaces an earlier one with
   the same skey (HashMap::insert).  The sixteen primitive types are entered first under their keywords (sc_table_with); a top-level
   module named like one (`module \int32`) replaces that entry whatever the order of the files (the parser no longer reads it: fix 21e7062).
   Model only. *)
From Coq Require Import List Bool Arith.
Import ListNotations.

Definition sname := nat.
Definition skey := list sname.
Record scop := { sco_name : sname; sco_params : list sname; sco_rets : list sname }.
Inductive scdef :=
| ScStruct (n : sname) (fields : list sname)
| ScEnum (n : sname) (ens : list (sname * list sname))      (* enumerators with their fields *)
| ScIface (n : sname) (ops : list scop)
| ScOther (n : sname).                                      (* custom types and type aliases *)
Record sfile := { sf_id : nat; sf_module : option skey; sf_defs : list scdef }.

Definition scdef_name (d : scdef) : sname := match d with ScStruct n _ | ScEnum n _ | ScIface n _ | ScOther n => n end.
(* members with what they contain, in order *)
Definition members (d : scdef) : list (sname * list sname) :=
  match d with
  | ScStruct _ fs => map (fun f => (f, [])) fs
  | ScEnum _ ens => ens
  | ScIface _ ops => map (fun o => (sco_name o, sco_params o ++ sco_rets o)) ops
  | ScOther _ => []
  end.

(* what a skey leads to: a module of that sname, or the entity of a file at a path: [definition], [definition; member] or
   [definition; member; k] (k counts parameters, then return members; or an enumerator's fields) *)
Inductive scent := ScModule (k : skey) | ScEntity (file : nat) (path : list nat) | ScPrimitive (p : sname).

Definition def_key (mp : skey) (d : scdef) : skey := mp ++ [scdef_name d].
Definition member_keys (mp : skey) (d : scdef) : list skey := map (fun ms => mp ++ [scdef_name d; fst ms]) (members d).
Definition sub_keys (mp : skey) (d : scdef) : list skey :=
  flat_map (fun ms => map (fun x => mp ++ [scdef_name d; fst ms; x]) (snd ms)) (members d).
(* the keys of one definition in the order of insertion *)
Definition entity_keys_of_def (mp : skey) (d : scdef) : list skey := sub_keys mp d ++ member_keys mp d ++ [def_key mp d].
Definition entity_keys (f : sfile) : list skey :=
  match sf_module f with Some mp => flat_map (entity_keys_of_def mp) (sf_defs f) | None => [] end.
Definition def_keys (f : sfile) : list skey :=
  match sf_module f with Some mp => map (def_key mp) (sf_defs f) | None => [] end.
Definition module_keys (f : sfile) : list skey := match sf_module f with Some mp => [mp] | None => [] end.

(* the paths in the same order *)
Definition indexed {A} (l : list A) : list (nat * A) := combine (seq 0 (length l)) l.
Definition entity_paths_of_def (di : nat) (d : scdef) : list (list nat) :=
  flat_map (fun ims => map (fun xi => [di; fst ims; xi]) (seq 0 (length (snd (snd ims))))) (indexed (members d)) ++
  map (fun mi => [di; mi]) (seq 0 (length (members d))) ++ [[di]].
Definition entity_paths (f : sfile) : list (list nat) := flat_map (fun idd => entity_paths_of_def (fst idd) (snd idd)) (indexed (sf_defs f)).
Definition file_entries (f : sfile) : list (skey * scent) :=
  match sf_module f with
  | Some mp => combine (entity_keys f) (map (ScEntity (sf_id f)) (entity_paths f)) ++ [(mp, ScModule mp)]
  | None => []
  end.
Definition sc_table (fs : list sfile) : list (skey * scent) := flat_map file_entries fs.

(* Ast::create enters the primitive types first, each under its keyword; everything the files declare comes after them *)
Definition sc_table_with (prims : list sname) (fs : list sfile) : list (skey * scent) := map (fun p => ([p], ScPrimitive p)) prims ++ sc_table fs.
Definition skey_eq_dec : forall a b : skey, {a = b} + {a <> b} := list_eq_dec Nat.eq_dec.
(* HashMap::get after the inserts in order: the last entry with the skey *)
Fixpoint sc_lookup (k : skey) (t : list (skey * scent)) : option scent :=
  match t with
  | [] => None
  | (k', v) :: r => match sc_lookup k r with Some w => Some w | None => if skey_eq_dec k' k then Some v else None end
  end.

(* ---------- check_for_redefinitions ---------- *)
Section Dups.
  Context {A : Type} (eq_dec : forall a b : A, {a = b} + {a <> b}).
  (* check_if_redefined along a list: every element already seen is reported *)
  Fixpoint dups (seen l : list A) : list A :=
    match l with [] => [] | x :: r => if in_dec eq_dec x seen then x :: dups seen r else dups (x :: seen) r end.
End Dups.
Definition last_name (k : skey) : sname := last k 0.
Definition content_dups (d : scdef) : list sname :=
  match d with
  | ScStruct _ fs => dups Nat.eq_dec [] fs
  | ScEnum _ ens => dups Nat.eq_dec [] (map fst ens) ++ flat_map (fun e => dups Nat.eq_dec [] (snd e)) ens
  | ScIface _ ops => dups Nat.eq_dec [] (map sco_name ops) ++ flat_map (fun o => dups Nat.eq_dec [] (sco_params o) ++ dups Nat.eq_dec [] (sco_rets o)) ops
  | ScOther _ => []
  end.
Definition all_entity_keys (fs : list sfile) : list skey := flat_map entity_keys fs.
Definition all_def_keys (fs : list sfile) : list skey := flat_map def_keys fs.
Definition all_module_keys (fs : list sfile) : list skey := flat_map module_keys fs.
Definition all_defs (fs : list sfile) : list scdef := flat_map (fun f => match sf_module f with Some _ => sf_defs f | None => [] end) fs.
(* the identifiers named by the E010 reports (in no particular order): entities that share their scoped identifier with a
   module, definitions whose scoped identifier was seen before, and repeats within each container *)
Definition redef_report (fs : list sfile) : list sname :=
  map last_name (filter (fun k => if in_dec skey_eq_dec k (all_module_keys fs) then true else false) (all_entity_keys fs)) ++
  map last_name (dups skey_eq_dec [] (all_def_keys fs)) ++
  flat_map content_dups (all_defs fs).
