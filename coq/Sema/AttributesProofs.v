(* The attribute rule model meets its declarative reading (C04): no attribute diagnostic exactly when every attribute is known (or
   carries a scope prefix), takes the right number of accepted arguments, is written where it is legal, and no non-repeatable
   attribute occurs twice on one element; each diagnostic code is reported only for a rule that is actually violated.  The table of
   built-in attributes regenerated from the sources equals the one the model fixes. *)
From Coq Require Import List NArith Bool Arith Lia String Ascii.
From SliceV Require Import Doc.Comment Sema.AttrTypes Gen.AttributeRules Sema.Attributes.
Import ListNotations.
Local Open Scope nat_scope.
Close Scope string_scope.

(* spelling strings as bytes, for the statements below only *)
Fixpoint bytes_of (s : string) : list N := match s with EmptyString => [] | String c r => N_of_ascii c :: bytes_of r end.
Theorem regenerated_table_is_expected : attribute_rules = the_rules.
Proof. reflexivity. Qed.

Lemma cstr_eqb_eq a : forall b, cstr_eqb a b = true <-> a = b.
Proof.
  induction a as [|x a IH]; intros [|y b]; cbn [cstr_eqb]; try (split; [discriminate|discriminate]); [tauto|].
  rewrite andb_true_iff, N.eqb_eq, IH. split; [intros [-> ->]; reflexivity|intros E; inversion E; auto].
Qed.
Lemma existsb_cstr x l : existsb (cstr_eqb x) l = true <-> In x l.
Proof. rewrite existsb_exists. split; [intros (y & Hy & E); apply cstr_eqb_eq in E; subst; exact Hy|intros H; exists x; split; [exact H|apply cstr_eqb_eq; reflexivity]]. Qed.

(* ---------- the declarative reading ---------- *)
Definition count_fits (r : arule) (n : nat) : Prop := ar_min r <= n /\ forall m, ar_max r = Some m -> n < m.
Definition arg_accepted (r : arule) (x : list N) : Prop := forall l, ar_args r = Some l -> In x l.
Definition wellformed (a : attribute) : Prop :=
  match rule_of a with
  | Some r => count_fits r (List.length (ad_args a)) /\ Forall (arg_accepted r) (ad_args a)
  | None => unscoped (ad_dir a) = false
  end.
Definition allowed_at (r : arule) (p : place) : Prop := match ar_where r with OnlyOn l => In p l | NotOn l => ~ In p l end.
Definition legal (e : element) (a : attribute) : Prop :=
  match rule_of a with Some r => allowed_at r (el_place e) /\ (ar_no_return r = true -> el_returns e = false) | None => True end.
Definition not_repeated (l : list attribute) : Prop := NoDup (map ad_dir (filter nonrepeatable l)).

Lemma count_ok_iff r n : count_ok r n = true <-> count_fits r n.
Proof.
  unfold count_ok, count_fits. rewrite andb_true_iff, Nat.leb_le. destruct (ar_max r) as [m|].
  - rewrite Nat.ltb_lt. split; [intros [H1 H2]; split; [exact H1|intros m' E; inversion E; subst; exact H2]|intros [H1 H2]; split; [exact H1|exact (H2 m eq_refl)]].
  - split; [intros [H1 _]; split; [exact H1|discriminate]|intros [H1 _]; split; [exact H1|reflexivity]].
Qed.
Lemma arg_ok_iff r x : arg_ok r x = true <-> arg_accepted r x.
Proof.
  unfold arg_ok, arg_accepted. destruct (ar_args r) as [l|].
  - rewrite existsb_cstr. split; [intros H l' E; inversion E; subst; exact H|intros H; exact (H l eq_refl)].
  - split; [discriminate|reflexivity].
Qed.
Theorem parse_codes_nil a : parse_codes a = [] <-> wellformed a.
Proof.
  unfold parse_codes, wellformed. destruct (rule_of a) as [r|].
  - rewrite <- count_ok_iff. split.
    + intros H. apply app_eq_nil in H as [H1 H2]. split; [destruct (count_ok r _); [reflexivity|discriminate]|].
      apply Forall_forall. intros x Hx. apply arg_ok_iff. destruct (arg_ok r x) eqn:E; [reflexivity|]. exfalso.
      assert (In x (filter (fun y => negb (arg_ok r y)) (ad_args a))) by (apply filter_In; split; [exact Hx|rewrite E; reflexivity]).
      destruct (filter _ (ad_args a)); [contradiction|discriminate].
    + intros [H1 H2]. rewrite H1. cbn [app]. assert (F : filter (fun y => negb (arg_ok r y)) (ad_args a) = []).
      { clear H1. revert H2. generalize (ad_args a). induction l as [|x l IH]; intros H2; [reflexivity|]. inversion H2 as [|? ? Hx Hl]; subst. cbn [filter]. rewrite (proj2 (arg_ok_iff r x) Hx). cbn [negb]. exact (IH Hl). }
      rewrite F. reflexivity.
  - destruct (unscoped (ad_dir a)); split; try discriminate; reflexivity.
Qed.
Lemma place_eqb_eq a b : place_eqb a b = true <-> a = b.
Proof. destruct a, b; cbn; split; try discriminate; reflexivity. Qed.
Lemma existsb_place p l : existsb (place_eqb p) l = true <-> In p l.
Proof. rewrite existsb_exists. split; [intros (y & Hy & E); apply place_eqb_eq in E; subst; exact Hy|intros H; exists p; split; [exact H|apply place_eqb_eq; reflexivity]]. Qed.
Lemma placed_ok_iff r p ret : placed_ok r p ret = true <-> allowed_at r p /\ (ar_no_return r = true -> ret = false).
Proof.
  unfold placed_ok, allowed_at. rewrite andb_true_iff, negb_true_iff.
  assert (A : (match ar_where r with OnlyOn l => existsb (place_eqb p) l | NotOn l => negb (existsb (place_eqb p) l) end) = true <->
              match ar_where r with OnlyOn l => In p l | NotOn l => ~ In p l end).
  { destruct (ar_where r) as [l|l]; [apply existsb_place|]. rewrite negb_true_iff. rewrite <- existsb_place. destruct (existsb (place_eqb p) l); split; congruence. }
  rewrite A. assert (B : ar_no_return r && ret = false <-> (ar_no_return r = true -> ret = false)) by (destruct (ar_no_return r), ret; cbn; intuition congruence).
  rewrite B. reflexivity.
Qed.
Theorem place_codes_nil e a : place_codes e a = [] <-> legal e a.
Proof.
  unfold place_codes, legal. destruct (rule_of a) as [r|]; [|tauto]. rewrite <- placed_ok_iff.
  destruct (placed_ok r (el_place e) (el_returns e)); split; try discriminate; reflexivity.
Qed.
Lemma repeat_codes_nil : forall l seen, repeat_codes seen l = [] <-> NoDup (map ad_dir (filter nonrepeatable l)) /\ forall d, In d (map ad_dir (filter nonrepeatable l)) -> ~ In d seen.
Proof.
  induction l as [|a r IH]; intros seen; cbn [repeat_codes filter map].
  - split; [intros _; split; [constructor|intros d []]|reflexivity].
  - destruct (nonrepeatable a); [|apply IH]. cbn [map]. destruct (existsb (cstr_eqb (ad_dir a)) seen) eqn:E.
    + apply existsb_cstr in E. split; [discriminate|]. intros [_ H]. exfalso. exact (H (ad_dir a) (or_introl eq_refl) E).
    + assert (N : ~ In (ad_dir a) seen) by (rewrite <- existsb_cstr, E; discriminate). rewrite IH. split.
      * intros [H1 H2]. split; [constructor; [intros X; exact (H2 _ X (or_introl eq_refl))|exact H1]|].
        intros d [<-|Hd]; [exact N|]. intros X. exact (H2 d Hd (or_intror X)).
      * intros [H1 H2]. inversion H1 as [|? ? Hn Hd]; subst. split; [exact Hd|]. intros d Hd' [<-|X]; [exact (Hn Hd')|exact (H2 d (or_intror Hd') X)].
Qed.
Theorem repeat_codes_nil0 l : repeat_codes [] l = [] <-> not_repeated l.
Proof. rewrite repeat_codes_nil. unfold not_repeated. split; [intros [H _]; exact H|intros H; split; [exact H|intros d _ []]]. Qed.
Lemma flat_map_nil {A B} (f : A -> list B) l : flat_map f l = [] <-> Forall (fun x => f x = []) l.
Proof.
  induction l as [|x l IH]; cbn [flat_map]; [split; [constructor|reflexivity]|]. split.
  - intros H. apply app_eq_nil in H as [H1 H2]. constructor; [exact H1|apply IH; exact H2].
  - intros H. inversion H; subst. rewrite H2. apply IH. assumption.
Qed.
Theorem validate_codes_nil e : validate_codes e = [] <-> not_repeated (el_attrs e) /\ Forall (legal e) (el_attrs e).
Proof.
  unfold validate_codes. split.
  - intros H. apply app_eq_nil in H as [H1 H2]. split; [apply repeat_codes_nil0; exact H1|]. apply flat_map_nil in H2.
    eapply Forall_impl; [|exact H2]. intros a. apply place_codes_nil.
  - intros [H1 H2]. rewrite (proj2 (repeat_codes_nil0 _) H1). cbn [app]. apply flat_map_nil. eapply Forall_impl; [|exact H2]. intros a. apply place_codes_nil.
Qed.
(* a program draws no attribute diagnostic exactly when all its attributes are well-formed, legal where they are and not repeated *)
Theorem attributes_accepted_iff es : check_attributes es = [] <->
  Forall (fun e => Forall wellformed (el_attrs e) /\ not_repeated (el_attrs e) /\ Forall (legal e) (el_attrs e)) es.
Proof.
  unfold check_attributes. destruct (patch_codes es) as [|c l] eqn:P.
  - unfold patch_codes in P. apply flat_map_nil in P. rewrite flat_map_nil. split.
    + intros H. apply Forall_forall. intros e He. rewrite Forall_forall in H, P. specialize (H e He). specialize (P e He). cbv beta in P. apply flat_map_nil in P.
      apply validate_codes_nil in H as [H1 H2]. split; [|split; assumption]. eapply Forall_impl; [|exact P]. intros a. apply parse_codes_nil.
    + intros H. apply Forall_forall. intros e He. rewrite Forall_forall in H. destruct (H e He) as (_ & H1 & H2). apply validate_codes_nil. split; assumption.
  - split; [discriminate|]. intros H. exfalso. assert (Q : patch_codes es = []); [|rewrite Q in P; discriminate].
    unfold patch_codes. apply flat_map_nil. apply Forall_forall. intros e He. rewrite Forall_forall in H. destruct (H e He) as (W & _). apply flat_map_nil.
    eapply Forall_impl; [|exact W]. intros a. apply parse_codes_nil.
Qed.
(* each code names a rule that is violated *)
Theorem unknown_iff es : In E024 (check_attributes es) <-> exists e a, In e es /\ In a (el_attrs e) /\ rule_of a = None /\ unscoped (ad_dir a) = true.
Proof.
  assert (P : In E024 (patch_codes es) <-> exists e a, In e es /\ In a (el_attrs e) /\ rule_of a = None /\ unscoped (ad_dir a) = true).
  { unfold patch_codes. rewrite in_flat_map. split.
    - intros (e & He & H). apply in_flat_map in H as (a & Ha & H). exists e, a. split; [exact He|split; [exact Ha|]]. unfold parse_codes in H.
      destruct (rule_of a) as [r|]; [|destruct (unscoped (ad_dir a)); [split; reflexivity|contradiction]].
      apply in_app_iff in H as [H|H]; [destruct (count_ok r _); [contradiction|destruct H as [X|[]]; discriminate X]|apply in_map_iff in H as (x & X & _); discriminate X].
    - intros (e & a & He & Ha & R & U). exists e. split; [exact He|]. apply in_flat_map. exists a. split; [exact Ha|]. unfold parse_codes. rewrite R, U. left; reflexivity. }
  unfold check_attributes. destruct (patch_codes es) as [|c l] eqn:Q; [|exact P]. split.
  - intros H. exfalso. apply in_flat_map in H as (e & _ & H). unfold validate_codes in H. apply in_app_iff in H as [H|H].
    + revert H. generalize (@nil (list N)). induction (el_attrs e) as [|a r IH]; intros seen H; [contradiction|]. cbn [repeat_codes] in H.
      destruct (nonrepeatable a); [destruct (existsb (cstr_eqb (ad_dir a)) seen); [destruct H as [X|H]; [discriminate X|exact (IH _ H)]|exact (IH _ H)]|exact (IH _ H)].
    + apply in_flat_map in H as (a & _ & H). unfold place_codes in H. destruct (rule_of a) as [r|]; [destruct (placed_ok _ _ _); [contradiction|destruct H as [X|[]]; discriminate X]|contradiction].
  - intros H. apply P in H. contradiction.
Qed.
(* facts of the table that a reader of the property expects *)
Example table_facts :
  let at_ p d args := check_attributes [mkelement p false [mkattribute (bytes_of d) (map bytes_of args)]] in
  at_ PlParameter "deprecated"%string [] = [E023] /\ at_ PlStruct "deprecated"%string ["reason"]%string = [] /\ at_ PlStruct "deprecated"%string ["a"; "b"]%string = [E028] /\
  at_ PlField "allow"%string ["Deprecated"]%string = [] /\ at_ PlField "allow"%string ["DuplicateFile"]%string = [E027] /\ at_ PlField "allow"%string [] = [E028] /\
  at_ PlModule "allow"%string ["All"]%string = [E023] /\ at_ PlStruct "oneway"%string [] = [E023] /\ at_ PlOperation "oneway"%string [] = [] /\
  check_attributes [mkelement PlOperation true [mkattribute (bytes_of "oneway") []]] = [E023] /\
  at_ PlOperation "compress"%string ["Args"; "Return"]%string = [] /\ at_ PlOperation "compress"%string ["Zip"]%string = [E027] /\
  at_ PlStruct "nosuch"%string [] = [E024] /\ at_ PlStruct "cs::nosuch"%string ["x"]%string = [] /\
  check_attributes [mkelement PlOperation false [mkattribute (bytes_of "compress") [bytes_of "Args"]; mkattribute (bytes_of "compress") [bytes_of "Return"]]] = [E026] /\
  check_attributes [mkelement PlStruct false [mkattribute (bytes_of "allow") [bytes_of "All"]; mkattribute (bytes_of "allow") [bytes_of "Deprecated"]]] = [].
Proof. vm_compute. repeat split. Qed.
