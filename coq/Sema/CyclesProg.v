(* Containment graphs of Slice programs (C05): struct/enum definitions whose fields mention other definitions
   under any nest of optional, Sequence, Dictionary key/value and Result success/failure (aliases expanded).
   `detect_prog` is validators/cycle_detection.rs on that graph; model only. *)
From Coq Require Import List Bool Arith Lia Relations.
From SliceV Require Import Sema.Cyc.
Import ListNotations.

Inductive tyx := XPrim | XCustom | XNode (n : nat) | XSeq (t : tyx) | XDict (k v : tyx) | XRes (s f : tyx).
(* check_field_type_for_cycles: the struct/enum types reached from one field type, in visiting order *)
Fixpoint targets (t : tyx) : list nat :=
  match t with
  | XNode n => [n]
  | XSeq e => targets e
  | XDict k v => targets k ++ targets v
  | XRes s f => targets s ++ targets f
  | XPrim | XCustom => []
  end.
(* a definition: a struct has one group of fields, an enum one group per enumerator; each field = (label, type) *)
Record tdef := { is_enum : bool; groups : list (list (nat * tyx)) }.
Definition program := list tdef.
Definition fields_of (d : tdef) : list (nat * tyx) := concat (groups d).
Definition succ_of (p : program) (n : nat) : list nat :=
  match nth_error p n with Some d => flat_map (fun f => targets (snd f)) (fields_of d) | None => [] end.
Definition detect_prog (p : program) : list report := detect (succ_of p) (S (length p)) (seq 0 (length p)).

(* the field (label) responsible for each link of a reported chain: first field of `from` whose type reaches `to` *)
Definition link_field (p : program) (from to : nat) : option nat :=
  match nth_error p from with
  | Some d => option_map fst (find (fun f => existsb (Nat.eqb to) (targets (snd f))) (fields_of d))
  | None => None
  end.
Fixpoint chain_fields (p : program) (from : nat) (chain : list nat) : list (option nat) :=
  match chain with [] => [] | c :: r => link_field p from c :: chain_fields p c r end.

(* ---------- specification ---------- *)
Inductive mentions : tyx -> nat -> Prop :=
| m_node n : mentions (XNode n) n
| m_seq e n : mentions e n -> mentions (XSeq e) n
| m_key k v n : mentions k n -> mentions (XDict k v) n
| m_val k v n : mentions v n -> mentions (XDict k v) n
| m_ok s f n : mentions s n -> mentions (XRes s f) n
| m_err s f n : mentions f n -> mentions (XRes s f) n.
(* a contains b: some field of a (of the struct, or of an enumerator of the enum) mentions b *)
Definition contains (p : program) (a b : nat) : Prop :=
  exists d f, nth_error p a = Some d /\ In f (fields_of d) /\ mentions (snd f) b.
Definition on_containment_cycle (p : program) (v : nat) : Prop := clos_trans nat (contains p) v v.
Fixpoint well_scoped_ty (n : nat) (t : tyx) : Prop :=
  match t with
  | XNode k => k < n
  | XSeq e => well_scoped_ty n e
  | XDict k v => well_scoped_ty n k /\ well_scoped_ty n v
  | XRes s f => well_scoped_ty n s /\ well_scoped_ty n f
  | _ => True
  end.
Definition well_scoped (p : program) : Prop :=
  Forall (fun d => Forall (fun f => well_scoped_ty (length p) (snd f)) (fields_of d)) p.

(* ---------- alias chains (patchers/type_ref_patcher.rs::resolve_type_alias, the alias-to-alias part) ---------- *)
(* next a = Some b: alias a is defined as alias b; None: a is defined as a non-alias type *)
Inductive ares := AOk (final : nat) | ACycle | AFuel.
Fixpoint resolve_alias (next : nat -> option nat) (fuel : nat) (seen : list nat) (a : nat) : ares :=
  match fuel with
  | O => AFuel
  | S f => if existsb (Nat.eqb a) seen then ACycle else
           match next a with None => AOk a | Some b => resolve_alias next f (a :: seen) b end
  end.

(* ---------- plain directed graphs: alias-mention graphs and inheritance graphs ---------- *)
(* node i's successors are nth i g []: for aliases, the aliases mentioned anywhere in alias i's definition (directly or
   inside Sequence/Dictionary/Result); for interfaces, the bases of interface i *)
Definition gsucc (g : list (list nat)) (n : nat) : list nat := nth n g [].
Definition gdetect (g : list (list nat)) : list report := detect (gsucc g) (S (length g)) (seq 0 (length g)).
Definition gcyclic (g : list (list nat)) : bool := match gdetect g with [] => false | _ => true end.
Definition gwell_scoped (g : list (list nat)) : Prop := Forall (Forall (fun k => k < length g)) g.
