From SliceV Require Import Sema.Cyc.
From Coq Require Import List Bool Arith Lia Relations.
Import ListNotations.

Section Proofs.
Variable succ : nat -> list nat.
Notation push := (push succ).
Notation check_root := (check_root succ).
Notation detect := (detect succ).
Notation edge := (edge succ).
Notation walk := (walk succ).
Notation on_cycle := (on_cycle succ).

Lemma memb_In x l : memb x l = true <-> In x l.
Proof. unfold memb. rewrite existsb_exists. split.
  - intros (y & Hy & E). apply Nat.eqb_eq in E; subst; auto.
  - intros H; exists x; split; auto. apply Nat.eqb_refl. Qed.
Lemma subsetb_incl a b : subsetb a b = true <-> incl a b.
Proof. unfold subsetb. rewrite forallb_forall. split; intros H x Hx; [apply memb_In|apply memb_In]; auto. Qed.
Lemma same_set_spec a b : same_set a b = true <-> (incl a b /\ incl b a).
Proof. unfold same_set. rewrite andb_true_iff, !subsetb_incl. tauto. Qed.
Lemma same_set_refl a : same_set a a = true.
Proof. apply same_set_spec; split; apply incl_refl. Qed.

Definition covers (S:list nat) (rep:list report) : Prop :=
  exists r, In r rep /\ same_set (snd r) S = true.
Lemma seen_covers ch rep : seen ch rep = true <-> covers ch rep.
Proof. unfold seen, covers. rewrite existsb_exists. tauto. Qed.

(* ---- monotonicity ---- *)
Lemma push_incl : forall fuel root stack c rep, incl rep (push fuel root stack c rep).
Proof.
  induction fuel as [|f IH]; intros; cbn; [apply incl_refl|].
  destruct (Nat.eqb c root).
  - destruct (seen _ _); [apply incl_refl|apply incl_appl, incl_refl].
  - destruct (memb c stack); [apply incl_refl|].
    generalize rep. induction (succ c) as [|x l IHl]; intros rep0; cbn; [apply incl_refl|].
    eapply incl_tran; [apply IH|apply IHl].
Qed.
Lemma fold_push_incl f root stack l rep :
  incl rep (fold_left (fun rep' c' => push f root stack c' rep') l rep).
Proof. revert rep; induction l as [|x l IH]; intros rep; cbn; [apply incl_refl|].
  eapply incl_tran; [apply push_incl|apply IH]. Qed.
Lemma covers_incl S a b : incl a b -> covers S a -> covers S b.
Proof. intros H (r & Hr & E). exists r; auto. Qed.

(* ---- soundness: every reported chain is a real path root -> ... -> root ---- *)
Definition good (r:report) : Prop := walk (fst r) (snd r) /\ last (snd r) (fst r) = fst r /\ snd r <> [].
Lemma last_indep (p:list nat) d d' : p <> [] -> last p d = last p d'.
Proof. induction p as [|x p IH]; [congruence|]. intros _. destruct p; cbn; auto. apply IH; discriminate. Qed.
Lemma walk_app a p q : walk a (p ++ q) <-> walk a p /\ walk (last p a) q.
Proof. revert a; induction p as [|x p IH]; intros a; cbn [app Sema.Cyc.walk]; [cbn; tauto|].
  rewrite IH. destruct p as [|y p']; [cbn; tauto|].
  replace (last (x :: y :: p') a) with (last (y :: p') x); [tauto|].
  change (last (x :: y :: p') a) with (last (y :: p') a). apply last_indep; discriminate. Qed.
Lemma push_sound : forall fuel root stack c rep,
  walk root stack -> edge (last stack root) c -> Forall good rep ->
  Forall good (push fuel root stack c rep).
Proof.
  induction fuel as [|f IH]; intros root stack c rep Hw He Hg; cbn; auto.
  destruct (Nat.eqb c root) eqn:E.
  - apply Nat.eqb_eq in E; subst c. destruct (seen _ _); auto.
    apply Forall_app; split; auto. constructor; [|constructor].
    unfold good; cbn. split; [apply walk_app; split; auto; cbn; auto|].
    split; [rewrite last_last; reflexivity|destruct stack; discriminate].
  - destruct (memb c stack); auto.
    assert (Hw': walk root (stack ++ [c])) by (apply walk_app; split; cbn; auto).
    assert (Hl: last (stack ++ [c]) root = c) by apply last_last.
    assert (Hs: forall x, In x (succ c) -> edge (last (stack ++ [c]) root) x) by (intros; rewrite Hl; auto).
    revert Hs Hg. generalize rep. induction (succ c) as [|x l IHl]; intros rep0 Hs Hg; cbn; auto.
    apply IHl; [intros; apply Hs; right; auto|]. apply IH; auto. apply Hs; left; auto.
Qed.
Theorem detect_sound fuel nodes : Forall good (detect fuel nodes).
Proof.
  unfold detect. assert (G: Forall good []) by constructor. revert G. generalize (@nil report).
  induction nodes as [|r ns IH]; intros rep G; cbn; auto. apply IH.
  unfold check_root. assert (Hs: forall x, In x (succ r) -> edge r x) by auto.
  revert Hs G. generalize rep. induction (succ r) as [|x l IHl]; intros rep0 Hs G; cbn; auto.
  apply IHl; [intros; apply Hs; right; auto|]. apply push_sound; cbn; auto. apply Hs; left; auto.
Qed.

(* ---- completeness ---- *)
Lemma push_complete : forall q fuel root stack c rep,
  walk c q -> last q c = root -> NoDup (c :: q) -> ~ In root (removelast (c :: q)) ->
  (forall x, In x (c :: q) -> ~ In x stack) -> length (c :: q) <= fuel ->
  covers (stack ++ c :: q) (push fuel root stack c rep).
Proof.
  induction q as [|b q IH]; intros fuel root stack c rep Hw Hl Hnd Hnr Hdis Hf.
  - cbn in Hl; subst c. destruct fuel; [cbn in Hf; lia|]. cbn. rewrite Nat.eqb_refl.
    destruct (seen (stack ++ [root]) rep) eqn:E; [apply seen_covers; auto|].
    exists (root, stack ++ [root]); split; [apply in_or_app; right; left; auto|apply same_set_refl].
  - destruct fuel; [cbn in Hf; lia|]. cbn [Sema.Cyc.push].
    assert (c <> root) by (intros ->; apply Hnr; cbn; auto).
    rewrite (proj2 (Nat.eqb_neq _ _) H).
    destruct (memb c stack) eqn:M; [apply memb_In in M; exfalso; eapply Hdis; [left; reflexivity|exact M]|].
    destruct Hw as [He Hw]. apply in_split in He as (l1 & l2 & ->).
    rewrite fold_left_app. cbn [fold_left].
    eapply covers_incl; [apply fold_push_incl|].
    replace (stack ++ c :: b :: q) with ((stack ++ [c]) ++ b :: q) by (rewrite <- app_assoc; reflexivity).
    assert (A1: last q b = root).
    { destruct q as [|y r]; [exact Hl|]. rewrite (last_indep (y :: r) b c) by discriminate. exact Hl. }
    assert (A2: NoDup (b :: q)) by (inversion Hnd; auto).
    assert (A3: ~ In root (removelast (b :: q))).
    { intros Hin. apply Hnr. change (removelast (c :: b :: q)) with (c :: removelast (b :: q)). right; exact Hin. }
    assert (A4: forall x, In x (b :: q) -> ~ In x (stack ++ [c])).
    { intros x Hx Hin. apply in_app_or in Hin as [Hin|[<-|[]]].
      - eapply Hdis; [right; exact Hx|exact Hin].
      - inversion Hnd; auto. }
    assert (A5: length (b :: q) <= fuel) by (cbn in *; lia).
    apply IH; assumption.
Qed.

(* loop erasure: a walk contains a simple walk with the same end *)
Lemma walk_suffix a p x q : walk a (p ++ x :: q) -> walk x q.
Proof. intros H. apply walk_app in H as [_ H]. cbn in H. destruct p; cbn in H; tauto. Qed.
Lemma last_suffix (p:list nat) x q d : last (p ++ x :: q) d = last (x :: q) d.
Proof. induction p as [|y p IH]; auto. cbn [app]. rewrite <- IH. destruct (p ++ x :: q) eqn:E; auto.
  destruct p; discriminate. Qed.
Lemma simple_walk : forall n q a, length q <= n -> walk a q -> q <> [] ->
  exists q', walk a q' /\ q' <> [] /\ last q' a = last q a /\ NoDup q' /\ incl q' q.
Proof.
  induction n as [|n IH]; intros q a Hn Hw Hne; [destruct q; [congruence|cbn in Hn; lia]|].
  destruct q as [|x r]; [congruence|]. destruct Hw as [He Hw].
  destruct (in_dec Nat.eq_dec x r) as [Hin|Hnin].
  - apply in_split in Hin as (r1 & r2 & ->).
    destruct (IH (x :: r2) a) as (q' & W & NE & L & ND & I).
    + cbn in *. rewrite app_length in Hn. cbn in Hn. lia.
    + split; auto. eapply walk_suffix; eauto.
    + discriminate.
    + exists q'. repeat split; auto.
      * rewrite L. change (x :: r1 ++ x :: r2) with ((x :: r1) ++ x :: r2). rewrite last_suffix. reflexivity.
      * intros y Hy. apply I in Hy as [<-|Hy]; [left; auto|right; apply in_or_app; right; right; auto].
  - destruct r as [|y r'].
    + exists [x]. repeat split; cbn; auto; try discriminate. constructor; [tauto|constructor]. apply incl_refl.
    + destruct (IH (y :: r') x) as (q' & W & NE & L & ND & I); [cbn in *; lia|auto|discriminate|].
      exists (x :: q'). split; [cbn; auto|]. split; [discriminate|]. split; [|split].
      * destruct q' as [|z q'']; [congruence|].
        change (last (x :: z :: q'') a) with (last (z :: q'') a).
        change (last (x :: y :: r') a) with (last (y :: r') a).
        rewrite (last_indep (z :: q'') a x), (last_indep (y :: r') a x) by discriminate. exact L.
      * constructor; auto.
      * intros z [<-|Hz]; [left; auto|right; apply I; auto].
Qed.
Lemma last_app_ne (p q:list nat) d : q <> [] -> last (p ++ q) d = last q d.
Proof. intros H. induction p as [|x p IH]; auto. cbn [app]. 
  destruct (p ++ q) eqn:E; [destruct p; [cbn in E; congruence|discriminate]|].
  change (last (x :: n :: l) d) with (last (n :: l) d). exact IH. Qed.
Lemma clos_walk a b : clos_trans nat edge a b -> exists q, walk a q /\ q <> [] /\ last q a = b.
Proof.
  induction 1 as [a b E|a m b _ (q1 & W1 & N1 & L1) _ (q2 & W2 & N2 & L2)].
  - exists [b]; cbn; repeat split; auto; discriminate.
  - exists (q1 ++ q2). split; [|split].
    + apply walk_app; split; auto. rewrite L1; auto.
    + destruct q1; [congruence|discriminate].
    + rewrite last_app_ne by auto. rewrite (last_indep q2 a m) by auto. exact L2.
Qed.

Lemma last_In (p:list nat) d : p <> [] -> In (last p d) p.
Proof. induction p as [|x p IH]; [congruence|]. intros _. destruct p as [|y p']; [left; auto|].
  right. change (last (x :: y :: p') d) with (last (y :: p') d). apply IH; discriminate. Qed.
Lemma last_notin_removelast (p:list nat) d : NoDup p -> p <> [] -> ~ In (last p d) (removelast p).
Proof.
  induction p as [|x p IH]; [congruence|]. intros ND _. destruct p as [|y p']; [cbn; auto|].
  change (removelast (x :: y :: p')) with (x :: removelast (y :: p')).
  change (last (x :: y :: p') d) with (last (y :: p') d).
  inversion ND as [|? ? Hn ND']; subst. intros [E|Hin].
  - apply Hn. rewrite E. apply last_In; discriminate.
  - revert Hin. apply IH; [auto|discriminate].
Qed.

Variable univ : list nat.
Hypothesis univ_closed : forall a b, edge a b -> In b univ.
Lemma walk_incl_univ a p : walk a p -> incl p univ.
Proof. revert a; induction p as [|x p IH]; intros a W y Hy; [contradiction|].
  destruct W as [E W]. destruct Hy as [<-|Hy]; [eapply univ_closed; eauto|eapply IH; eauto]. Qed.

Lemma check_root_complete fuel v rep :
  length univ <= fuel -> on_cycle v -> exists r, In r (check_root fuel rep v) /\ In v (snd r).
Proof.
  intros Hf Hc. apply clos_walk in Hc as (q & W & NE & L).
  destruct (simple_walk (length q) q v (le_n _) W NE) as (q' & W' & NE' & L' & ND & I).
  rewrite L in L'. destruct q' as [|c q'']; [congruence|].
  assert (Wfull: walk v (c :: q'')) by exact W'. destruct W' as [He W'].
  unfold check_root. apply in_split in He as (l1 & l2 & E). rewrite E, fold_left_app. cbn [fold_left].
  assert (C: covers ([] ++ c :: q'') (push fuel v [] c (fold_left (fun rep' c' => push fuel v [] c' rep') l1 rep))).
  { apply push_complete; auto.
    - destruct q'' as [|y r]; [exact L'|]. rewrite (last_indep (y :: r) c v) by discriminate. exact L'.
    - rewrite <- L' at 1. apply last_notin_removelast; [auto|discriminate].
    - etransitivity; [apply NoDup_incl_length; [exact ND|eapply walk_incl_univ; exact Wfull]|exact Hf]. }
  cbn [app] in C. pose proof (covers_incl _ _ _ (fold_push_incl fuel v [] l2 _) C) as C'.
  destruct C' as (r & Hr & S). exists r; split; [exact Hr|].
  apply same_set_spec in S as [_ S]. apply S.
  rewrite <- L' at 1. apply last_In; discriminate.
Qed.

Lemma check_root_incl fuel rep v : incl rep (check_root fuel rep v).
Proof. apply fold_push_incl. Qed.
Theorem detect_complete fuel nodes v :
  length univ <= fuel -> In v nodes -> on_cycle v -> exists r, In r (detect fuel nodes) /\ In v (snd r).
Proof.
  intros Hf Hin Hc. unfold detect. generalize (@nil report).
  induction nodes as [|x ns IH]; intros rep; [contradiction|]. cbn [fold_left].
  destruct Hin as [->|Hin]; [|apply IH; auto].
  destruct (check_root_complete fuel v rep Hf Hc) as (r & Hr & Hv).
  exists r; split; auto.
  revert Hr. generalize (check_root fuel rep v). clear. induction ns as [|y ns IH]; intros rep Hr; cbn; auto.
  apply IH. apply check_root_incl; auto.
Qed.
End Proofs.
Print Assumptions detect_complete.
Print Assumptions detect_sound.
