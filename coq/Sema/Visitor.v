(* Visitor traversal (C20): slicec/src/visitor.rs `visit_with` functions as an event list, and the declarative
   pre-order they are specified by.  Model only. *)
From Coq Require Import List Bool Arith.
Import ListNotations.

(* a type reference as the visitor sees it: its own identity, then the element / key,value / success,failure
   references of the type it is bound to (none for named, primitive and unpatched references) *)
Inductive tref := TR (label : nat) (nested : list tref).
Record vfield := { vf_id : nat; vf_ty : tref }.
Record vop := { vo_id : nat; vo_params : list vfield; vo_rets : list vfield }.
Inductive vdef :=
| VStruct (id : nat) (fields : list vfield)
| VIface (id : nat) (ops : list vop)
| VEnum (id : nat) (enumerators : list (nat * list vfield))
| VCustom (id : nat)
| VAlias (id : nat) (ty : tref).
Record vfile := { vfile_module : option nat; vfile_defs : list vdef }.

Inductive event :=
| EFile | EModule (id : nat) | EStruct (id : nat) | EField (id : nat) | EIface (id : nat) | EOp (id : nat) | EParam (id : nat)
| EEnum (id : nat) | EEnumerator (id : nat) | ECustom (id : nat) | EAlias (id : nat) | ETypeRef (label : nat).

(* ---------- the implementation: one function per visit_with ---------- *)
Fixpoint visit_tref (t : tref) : list event :=
  match t with TR l ns => ETypeRef l :: flat_map visit_tref ns end.
Definition visit_field (f : vfield) : list event := EField (vf_id f) :: visit_tref (vf_ty f).
Definition visit_param (f : vfield) : list event := EParam (vf_id f) :: visit_tref (vf_ty f).
Definition visit_op (o : vop) : list event :=
  EOp (vo_id o) :: flat_map visit_param (vo_params o) ++ flat_map visit_param (vo_rets o).
Definition visit_enumerator (e : nat * list vfield) : list event := EEnumerator (fst e) :: flat_map visit_field (snd e).
Definition visit_def (d : vdef) : list event :=
  match d with
  | VStruct id fs => EStruct id :: flat_map visit_field fs
  | VIface id ops => EIface id :: flat_map visit_op ops
  | VEnum id es => EEnum id :: flat_map visit_enumerator es
  | VCustom id => [ECustom id]
  | VAlias id t => EAlias id :: visit_tref t
  end.
Definition visit_file (f : vfile) : list event :=
  EFile :: (match vfile_module f with Some m => [EModule m] | None => [] end) ++ flat_map visit_def (vfile_defs f).

(* ---------- the specification: the file as a tree, presented in pre-order ---------- *)
Inductive tree := Node (e : event) (children : list tree).
Fixpoint preorder (t : tree) : list event := match t with Node e cs => e :: flat_map preorder cs end.
Fixpoint tree_of_tref (t : tref) : tree := match t with TR l ns => Node (ETypeRef l) (map tree_of_tref ns) end.
Definition tree_of_field (f : vfield) : tree := Node (EField (vf_id f)) [tree_of_tref (vf_ty f)].
Definition tree_of_param (f : vfield) : tree := Node (EParam (vf_id f)) [tree_of_tref (vf_ty f)].
Definition tree_of_def (d : vdef) : tree :=
  match d with
  | VStruct id fs => Node (EStruct id) (map tree_of_field fs)
  | VIface id ops => Node (EIface id) (map (fun o => Node (EOp (vo_id o)) (map tree_of_param (vo_params o) ++ map tree_of_param (vo_rets o))) ops)
  | VEnum id es => Node (EEnum id) (map (fun e => Node (EEnumerator (fst e)) (map tree_of_field (snd e))) es)
  | VCustom id => Node (ECustom id) []
  | VAlias id t => Node (EAlias id) [tree_of_tref t]
  end.
Definition tree_of_file (f : vfile) : tree :=
  Node EFile ((match vfile_module f with Some m => [Node (EModule m) []] | None => [] end) ++ map tree_of_def (vfile_defs f)).

(* the declared entities of a file, in source order *)
Definition is_entity (e : event) : bool := match e with ETypeRef _ | EFile => false | _ => true end.
Definition declared_field (f : vfield) := EField (vf_id f).
Definition declared_def (d : vdef) : list event :=
  match d with
  | VStruct id fs => EStruct id :: map declared_field fs
  | VIface id ops => EIface id :: flat_map (fun o => EOp (vo_id o) :: map (fun p => EParam (vf_id p)) (vo_params o) ++ map (fun p => EParam (vf_id p)) (vo_rets o)) ops
  | VEnum id es => EEnum id :: flat_map (fun e => EEnumerator (fst e) :: map declared_field (snd e)) es
  | VCustom id => [ECustom id]
  | VAlias id _ => [EAlias id]
  end.
Definition declared (f : vfile) : list event :=
  (match vfile_module f with Some m => [EModule m] | None => [] end) ++ flat_map declared_def (vfile_defs f).
