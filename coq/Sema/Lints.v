(* Lint suppression (C13): Diagnostics::into_updated (diagnostics/diagnostic.rs) and Attributable::all_attributes.  Model only. *)
From Coq Require Import List Bool Arith NArith.
From SliceV Require Import Prep.PrepCore.
Import ListNotations.

Definition str := list N.
Definition str_eqb := sym_eqb.
(* ASCII case-insensitive comparison (what clap's `ignore_case` accepts) *)
Definition lower (c : N) : N := if ((65 <=? c) && (c <=? 90))%N then (c + 32)%N else c.
Definition str_eqb_ci (a b : str) : bool := str_eqb (map lower a) (map lower b).
Definition s_All : str := [65; 108; 108]%N.

(* an element that can carry attributes: the arguments of its allow attributes, and its parent (member -> container) *)
Record ent := { ent_allows : list str; ent_parent : option nat }.
(* all_attributes: own attributes, then the parent's, recursively *)
Fixpoint all_allows (fuel : nat) (es : list ent) (id : nat) : list str :=
  match fuel with O => [] | S f =>
    match nth_error es id with
    | None => []
    | Some e => ent_allows e ++ match ent_parent e with Some p => all_allows f es p | None => [] end
    end
  end.
Record diag := { d_lint : option str;        (* None: an error; Some code: a lint with that code *)
                 d_file : option nat;         (* the file its span lies in *)
                 d_scope : option nat }.      (* the entity its scope string designates, if any *)
Inductive level := LError | LWarning | LAllowed.
Record ctx := { c_cli : list str; c_file_allows : list (list str); c_ents : list ent }.

(* is_lint_allowed_by: an identifier equal to "All" or to the lint's code.  Command-line values are the strings
   clap accepted (case-insensitively), so they are compared case-insensitively; attribute arguments are exact. *)
Definition allowed_by_cli (ids : list str) (code : str) : bool := existsb (fun i => str_eqb_ci i s_All || str_eqb_ci i code) ids.
Definition allowed_by (ids : list str) (code : str) : bool := existsb (fun i => str_eqb i s_All || str_eqb i code) ids.
Definition level_of (c : ctx) (d : diag) : level :=
  match d_lint d with
  | None => LError
  | Some code =>
    if allowed_by_cli (c_cli c) code
       || match d_file d with Some f => allowed_by (nth f (c_file_allows c) []) code | None => false end
       || match d_scope d with Some s => allowed_by (all_allows (S (length (c_ents c))) (c_ents c) s) code | None => false end
    then LAllowed else LWarning
  end.
Definition totals (c : ctx) (ds : list diag) : nat * nat :=
  (length (filter (fun d => match level_of c d with LWarning => true | _ => false end) ds),
   length (filter (fun d => match level_of c d with LError => true | _ => false end) ds)).

(* ---------- specification ---------- *)
(* the element concerned and the definitions enclosing it *)
Inductive encloses (es : list ent) : nat -> nat -> Prop :=
| enc_self id : encloses es id id
| enc_parent id e p a : nth_error es id = Some e -> ent_parent e = Some p -> encloses es a p -> encloses es a id.
Definition names (code arg : str) : Prop := arg = s_All \/ arg = code.
Definition silenced (c : ctx) (d : diag) (code : str) : Prop :=
  (exists a, In a (c_cli c) /\ (str_eqb_ci a s_All = true \/ str_eqb_ci a code = true)) \/
  (exists f a, d_file d = Some f /\ In a (nth f (c_file_allows c) []) /\ names code a) \/
  (exists s anc e a, d_scope d = Some s /\ encloses (c_ents c) anc s /\ nth_error (c_ents c) anc = Some e /\ In a (ent_allows e) /\ names code a).
(* parents come before their children, so the parent chain is finite *)
Definition wf_ents (es : list ent) : Prop := forall id e p, nth_error es id = Some e -> ent_parent e = Some p -> p < id.

(* ---------- which element a lint concerns ---------- *)
(* A lint carries the scoped identifier of an entity and a location.  The entity named is not always the one closest to the
   lint: a parameter and a return member of one operation can share a scoped identifier (one of them answers to it), and a type
   nested in a sequence, dictionary or result is reported in the scope of the container of its member.  into_updated goes from
   the entity named to the innermost member that contains the location (innermost_entity_at, fix in diagnostics/diagnostic.rs). *)
Definition lpos : Type := nat * nat.                         (* row, column *)
Record lspan := { ls_lo : lpos; ls_hi : lpos }.
(* where an entity is written (file, extent); parameters and return members are marked; for a type alias, the extent of its underlying type *)
Record lplace := { lp_span : lspan; lp_param : bool; lp_file : nat; lp_under : option lspan }.
Definition pos_leb (a b : lpos) : bool := (fst a <? fst b)%nat || ((fst a =? fst b)%nat && (snd a <=? snd b)%nat).
Definition within (inner outer : lspan) : bool := pos_leb (ls_lo outer) (ls_lo inner) && pos_leb (ls_hi inner) (ls_hi outer).
Definition parent_of (es : list ent) (j : nat) : option nat := match nth_error es j with Some e => ent_parent e | None => None end.
Definition span_of_ent (ps : list lplace) (j : nat) : option lspan := option_map lp_span (nth_error ps j).
Definition is_child_at (es : list ent) (ps : list lplace) (id : nat) (s : lspan) (j : nat) : bool :=
  match parent_of es j, span_of_ent ps j with
  | Some p, Some sp => (p =? id)%nat && within s sp
  | _, _ => false
  end.
(* the first member (in the order of the AST: parameters before return members) that contains the location, and so on inwards *)
Fixpoint descend (fuel : nat) (es : list ent) (ps : list lplace) (id : nat) (s : lspan) : nat :=
  match fuel with
  | O => id
  | S f => match find (is_child_at es ps id s) (seq 0 (length es)) with
           | Some j => descend f es ps j s
           | None => id
           end
  end.
Definition concerned (es : list ent) (ps : list lplace) (scope : nat) (s : lspan) : nat :=
  let start :=
    match nth_error ps scope, parent_of es scope with
    | Some pl, Some p => if lp_param pl && negb (within s (lp_span pl)) then p else scope    (* the other one of that name may be meant *)
    | _, _ => scope
    end in
  descend (S (length es)) es ps start s.
(* a diagnostic with its location: the level is that of the diagnostic scoped to the element concerned *)
Definition locate (c : ctx) (ps : list lplace) (d : diag) (s : option lspan) : diag :=
  match d_scope d, s with
  | Some sc, Some sp => {| d_lint := d_lint d; d_file := d_file d; d_scope := Some (concerned (c_ents c) ps sc sp) |}
  | _, _ => d
  end.
(* a lint whose scope names no entity: the types within a type alias are scoped to the alias's module; the alias is the one of the
   lint's file whose underlying type contains the lint *)
Definition alias_at (ps : list lplace) (f : nat) (s : lspan) (j : nat) : bool :=
  match nth_error ps j with
  | Some pl => (lp_file pl =? f)%nat && match lp_under pl with Some u => within s u | None => false end
  | None => false
  end.
Definition locate_unscoped (c : ctx) (ps : list lplace) (d : diag) (s : option lspan) : diag :=
  match d_file d, s with
  | Some f, Some sp =>
    match find (alias_at ps f sp) (seq 0 (length ps)) with
    | Some j => {| d_lint := d_lint d; d_file := d_file d; d_scope := Some (descend (S (length (c_ents c))) (c_ents c) ps j sp) |}
    | None => d
    end
  | _, _ => d
  end.
