(* Type-reference resolution (C03): patchers/type_ref_patcher.rs::resolve_definition / resolve_type_alias over the
   lookup table of ast/mod.rs.  Identifiers are interned as nat; keys are segment lists.  Model only. *)
From Coq Require Import List Bool Arith.
From SliceV Require Import Sema.Lookup.
Import ListNotations.

Inductive ekind := KStruct | KEnum | KCustom | KPrim | KAnon | KAlias | KIface | KModule | KField | KOp | KParam | KEnumerator.
Record tref := { tr_global : bool; tr_name : scoped; tr_attrs : list nat }.
(* what an alias is defined as: a named reference (looked up from the alias's own module scope) or an
   anonymous (KAnon) or primitive (KPrim) type that was bound at parse time (node id) *)
Inductive under := UNamed (r : tref) (mscope : scoped) | UAnon (node : nat) (k : ekind) (attrs : list nat).
Record entry := { e_kind : ekind; e_id : nat; e_mscoped : scoped; e_under : option under }.
Inductive expect := XType | XIface | XPrimitive.
Definition kind_ok (x : expect) (k : ekind) : bool :=
  match x, k with
  | XType, (KStruct | KEnum | KCustom | KPrim | KAnon) => true
  | XIface, KIface => true
  | XPrimitive, KPrim => true
  | _, _ => false
  end.
Definition is_alias (k : ekind) : bool := match k with KAlias => true | _ => false end.
Inductive rres := Bound (id : nat) (attrs : list nat) | ErrMissing | ErrMismatch | RFuel.
Definition memk (k : scoped) (l : list scoped) : bool := existsb (scoped_eqb k) l.
Definition tbl := table entry.
Definition lookup (t : tbl) (ms : scoped) (r : tref) : option entry := find entry t ms (tr_global r) (tr_name r).

(* resolve_type_alias: `seen` = type_alias_chain, `attrs` = attributes collected so far *)
Fixpoint follow (t : tbl) (x : expect) (fuel : nat) (seen : list scoped) (e : entry) (attrs : list nat) : rres :=
  match fuel with
  | O => RFuel
  | S f =>
    if memk (e_mscoped e) seen then ErrMissing else
    match e_under e with
    | None => ErrMissing
    | Some (UAnon node k a) => if kind_ok x k then Bound node (attrs ++ a) else ErrMismatch
    | Some (UNamed r ms) =>
      let attrs' := attrs ++ tr_attrs r in
      match lookup t ms r with
      | None => ErrMissing
      | Some e' =>
        if is_alias (e_kind e') then follow t x f (seen ++ [e_mscoped e]) e' attrs'
        else if kind_ok x (e_kind e') then Bound (e_id e') attrs' else ErrMismatch
      end
    end
  end.
(* resolve_definition for a reference written in a file whose module scope is ms *)
Definition resolve (t : tbl) (x : expect) (ms : scoped) (r : tref) : rres :=
  match lookup t ms r with
  | None => ErrMissing
  | Some e =>
    if is_alias (e_kind e) then follow t x (S (length t)) [] e []
    else if kind_ok x (e_kind e) then Bound (e_id e) [] else ErrMismatch
  end.

(* ---------- declarative reading ---------- *)
Definition designates (t : tbl) (ms : scoped) (r : tref) : option entry := find_spec entry t ms (tr_global r) (tr_name r).
(* alias e leads, through the aliases `via` (their module-scoped ids, in order), to a final binding with the
   attributes written on each link's type, in chain order *)
Inductive leads (t : tbl) : entry -> list scoped -> nat * ekind * list nat -> Prop :=
| leads_anon e node k a : e_under e = Some (UAnon node k a) -> leads t e [] (node, k, a)
| leads_named e r ms e' : e_under e = Some (UNamed r ms) -> designates t ms r = Some e' -> is_alias (e_kind e') = false ->
    leads t e [] (e_id e', e_kind e', tr_attrs r)
| leads_step e r ms e' via id k a : e_under e = Some (UNamed r ms) -> designates t ms r = Some e' -> is_alias (e_kind e') = true ->
    leads t e' via (id, k, a) -> leads t e (e_mscoped e' :: via) (id, k, tr_attrs r ++ a).
