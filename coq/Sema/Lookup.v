From Coq Require Import List Bool Arith Lia Permutation.
Import ListNotations.

Definition ident := nat.
Definition scoped := list ident.
Definition scoped_eqb (a b:scoped) : bool := if list_eq_dec Nat.eq_dec a b then true else false.

Section Table.
Variable V : Type.
(* Ast::lookup_table: insertion order, later insertions win *)
Definition table := list (scoped * V).
Definition insert (t:table) (k:scoped) (v:V) : table := t ++ [(k, v)].
Fixpoint get (t:table) (k:scoped) : option V :=
  match t with
  | [] => None
  | (k', v) :: r => match get r k with Some x => Some x | None => if scoped_eqb k k' then Some v else None end
  end.

(* find_node_with_scope for a relative identifier: scope::id, then drop the last scope segment, ..., then id *)
Fixpoint walk (fuel:nat) (t:table) (scope:scoped) (id:scoped) : option V :=
  match get t (scope ++ id) with
  | Some v => Some v
  | None => match fuel, scope with
            | S f, _ :: _ => walk f t (removelast scope) id
            | _, _ => None
            end
  end.
Definition find (t:table) (scope:scoped) (global:bool) (id:scoped) : option V :=
  if global then get t id else walk (length scope) t scope id.

(* specification: first hit over the prefixes of the scope, longest first, then the global scope *)
Definition cands (s:scoped) : list scoped := map (fun n => firstn n s) (rev (seq 0 (S (length s)))).
Fixpoint first_hit (t:table) (ks:list scoped) : option V :=
  match ks with [] => None | k :: r => match get t k with Some v => Some v | None => first_hit t r end end.
Definition find_spec (t:table) (scope:scoped) (global:bool) (id:scoped) : option V :=
  if global then get t id else first_hit t (map (fun p => p ++ id) (cands scope)).
End Table.

Lemma removelast_firstn_len {A} (l:list A) : removelast l = firstn (length l - 1) l.
Proof. induction l as [|x l IH]; [reflexivity|]. destruct l as [|y l']; [reflexivity|].
  change (removelast (x :: y :: l')) with (x :: removelast (y :: l')). rewrite IH. cbn [length].
  replace (S (S (length l')) - 1) with (S (length l')) by lia. replace (S (length l') - 1) with (length l') by lia. reflexivity. Qed.

Lemma walk_spec V (t:table V) id : forall n scope, length scope <= n ->
  walk V n t scope id = first_hit V t (map (fun p => p ++ id) (cands scope)).
Proof.
  induction n as [|n IH]; intros scope Hn.
  - destruct scope; [|cbn in Hn; lia]. cbn. destruct (get V t id); reflexivity.
  - unfold cands. rewrite seq_S, rev_app_distr. cbn [rev app map first_hit Nat.add].
    rewrite firstn_all. cbn [walk]. destruct (get V t (scope ++ id)) eqn:E; [reflexivity|].
    destruct scope as [|x r].
    + cbn. reflexivity.
    + rewrite IH.
      2:{ rewrite removelast_firstn_len, firstn_length. cbn [length] in *. lia. }
      unfold cands. f_equal. f_equal.
      assert (L: length (removelast (x :: r)) = length r).
      { rewrite removelast_firstn_len, firstn_length. cbn [length]. lia. }
      rewrite L. cbn [length]. rewrite seq_S, rev_app_distr. cbn [rev app map Nat.add].
      rewrite removelast_firstn_len. cbn [length]. replace (S (length r) - 1) with (length r) by lia.
      rewrite firstn_all2 by (rewrite firstn_length; cbn [length]; lia).
      f_equal. apply map_ext_in. intros k Hk. apply in_rev, in_seq in Hk.
      rewrite firstn_firstn. f_equal. lia.
Qed.
Theorem find_eq_spec V (t:table V) scope global id : find V t scope global id = find_spec V t scope global id.
Proof. unfold find, find_spec. destruct global; [reflexivity|]. apply walk_spec. lia. Qed.


(* with unique keys the table's insertion order is irrelevant (C15) *)
Lemma scoped_eqb_eq a b : scoped_eqb a b = true <-> a = b.
Proof. unfold scoped_eqb. destruct (list_eq_dec Nat.eq_dec a b); split; congruence. Qed.
Lemma get_In V (t:table V) k v : NoDup (map fst t) -> In (k, v) t -> get V t k = Some v.
Proof.
  induction t as [|[k' v'] r IH]; intros ND Hin; [contradiction|]. cbn [map fst] in ND. inversion ND as [|? ? Hn ND']; subst.
  cbn [get]. destruct Hin as [E|Hin].
  - inversion E; subst. destruct (get V r k) eqn:G.
    + exfalso. apply Hn. assert (Some_in: forall (r:table V) x, get V r k = Some x -> In k (map fst r)).
      { clear. induction r as [|[k2 v2] r IH]; intros x G; [discriminate|]. cbn in *.
        destruct (get V r k) eqn:G2; [right; eapply IH; reflexivity|]. destruct (scoped_eqb k k2) eqn:E; [|discriminate].
        apply scoped_eqb_eq in E; subst. left; reflexivity. }
      eapply Some_in; exact G.
    + replace (scoped_eqb k k) with true by (symmetry; apply scoped_eqb_eq; reflexivity). reflexivity.
  - rewrite IH by auto. reflexivity.
Qed.
Lemma get_None V (t:table V) k : ~ In k (map fst t) -> get V t k = None.
Proof. induction t as [|[k' v'] r IH]; intros H; [reflexivity|]. cbn in *. rewrite IH by tauto.
  destruct (scoped_eqb k k') eqn:E; [|reflexivity]. apply scoped_eqb_eq in E; subst. tauto. Qed.
Theorem get_perm V (t t':table V) k : NoDup (map fst t) -> Permutation t t' -> get V t k = get V t' k.
Proof.
  intros ND P. assert (ND': NoDup (map fst t')) by (eapply Permutation_NoDup; [apply Permutation_map; exact P|exact ND]).
  destruct (in_dec (list_eq_dec Nat.eq_dec) k (map fst t)) as [Hin|Hn].
  - apply in_map_iff in Hin as ([k0 v] & E & Hin); cbn in E; subst k0.
    rewrite (get_In V t k v ND Hin). symmetry. apply get_In; auto. eapply Permutation_in; eauto.
  - rewrite get_None by auto. symmetry. apply get_None. intros H. apply Hn.
    eapply Permutation_in; [apply Permutation_sym, Permutation_map; exact P|exact H].
Qed.

