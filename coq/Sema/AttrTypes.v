(* Types shared by the regenerated attribute table (Gen/AttributeRules.v) and the attribute rule model (Sema/Attributes.v). *)
From Coq Require Import List NArith Bool.
Import ListNotations.

(* what an attribute can be written on: the variants of grammar/wrappers.rs::Attributables *)
Inductive place := PlModule | PlStruct | PlField | PlInterface | PlOperation | PlParameter | PlEnum | PlEnumerator | PlCustomType | PlTypeAlias
                 | PlTypeRef | PlSliceFile.
Inductive placement := OnlyOn (l : list place) | NotOn (l : list place).
(* one built-in attribute: its directive, whether it may be repeated on one element, how many arguments it takes (min <= n, and n < max
   when there is a max), which arguments it accepts (None: any), where it may be written, and whether the operation it is written on must
   be one that returns nothing *)
Record arule := mkarule { ar_dir : list N; ar_repeatable : bool; ar_min : nat; ar_max : option nat; ar_args : option (list (list N));
                          ar_where : placement; ar_no_return : bool }.
