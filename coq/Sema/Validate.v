(* Language-rule validation (C04): parse-time checks (tag range, return tuples), the redefinition pass and the
   ValidatorVisitor of slicec/src/validators/*.rs, on resolved programs (type references already bound, aliases
   expanded, no containment or inheritance cycle).  Each check emits the number of its error code (12 = E012).
   Model only; the declarative rule catalogue is Sema/WellFormed.v. *)
From Coq Require Import List Bool Arith ZArith Sorting Orders.
From SliceV Require Import Gen.NumericBounds.
Import ListNotations.

Inductive rty := RPrim (p : nat) | RStruct (id : nat) | REnum (id : nat) | RCustom
               | RSeq (e : rtyref) | RDict (k v : rtyref) | RRes (s f : rtyref)
with rtyref := RT (opt : bool) (t : rty).
Record member := { m_name : nat; m_tag : option Z; m_ty : rtyref; m_stream : bool }.
Record sdef := { s_name : nat; s_compact : bool; s_fields : list member }.
Record enr := { en_name : nat; en_value : Z; en_fields : option (list member) }.
Record edef := { ed_name : nat; ed_compact : bool; ed_unchecked : bool; ed_under : option (nat * bool); ed_ens : list enr }.
(* o_tuple: the return type was written as a parenthesised list *)
Record odef := { o_name : nat; o_params : list member; o_rets : list member; o_tuple : bool }.
Record idef := { i_name : nat; i_bases : list nat; i_ops : list odef }.
Inductive def := DS (id : nat) (s : sdef) | DE (id : nat) (e : edef) | DI (id : nat) (i : idef) | DC (name : nat) | DA (name : nat) (t : rtyref).
Definition program := list def.
Definition code := nat.

Fixpoint find_struct (p : program) (id : nat) : option sdef :=
  match p with [] => None | DS i s :: r => if Nat.eqb i id then Some s else find_struct r id | _ :: r => find_struct r id end.
Fixpoint find_enum (p : program) (id : nat) : option edef :=
  match p with [] => None | DE i e :: r => if Nat.eqb i id then Some e else find_enum r id | _ :: r => find_enum r id end.
Fixpoint find_iface (p : program) (id : nat) : option idef :=
  match p with [] => None | DI i x :: r => if Nat.eqb i id then Some x else find_iface r id | _ :: r => find_iface r id end.

Definition opt_of (t : rtyref) : bool := match t with RT o _ => o end.
Definition is_tagged (m : member) : bool := match m_tag m with Some _ => true | None => false end.
Definition memn (x : nat) (l : list nat) : bool := existsb (Nat.eqb x) l.

(* ---------- phase 1: what the parser itself checks ---------- *)
Definition in_range (b : Z * Z) (v : Z) : bool := (fst b <=? v)%Z && (v <=? snd b)%Z.
Definition tag_range_errors (ms : list member) : list code :=
  flat_map (fun m => match m_tag m with Some t => if in_range tag_bounds t then [] else [21] | None => [] end) ms.
Definition all_member_lists (d : def) : list (list member) :=
  match d with
  | DS _ s => [s_fields s]
  | DE _ e => flat_map (fun en => match en_fields en with Some fs => [fs] | None => [] end) (ed_ens e)
  | DI _ i => flat_map (fun o => [o_params o; o_rets o]) (i_ops i)
  | _ => []
  end.
Definition parse_errors (p : program) : list code :=
  flat_map (fun d => flat_map tag_range_errors (all_member_lists d)) p ++
  flat_map (fun d => match d with
                     | DI _ i => flat_map (fun o => if o_tuple o && Nat.ltb (length (o_rets o)) 2 then [14] else []) (i_ops i)
                     | _ => [] end) p.

(* ---------- phase 2: redefinitions (one E010 for every later definition of a name already seen in its scope) ---------- *)
Fixpoint redefs (seen : list nat) (names : list nat) : list code :=
  match names with [] => [] | n :: r => (if memn n seen then [10] else []) ++ redefs (if memn n seen then seen else n :: seen) r end.
Definition def_name (d : def) : nat :=
  match d with DS _ s => s_name s | DE _ e => ed_name e | DI _ i => i_name i | DC n => n | DA n _ => n end.
Definition names_of (ms : list member) : list nat := map m_name ms.
Definition redefinition_errors (p : program) : list code :=
  redefs [] (map def_name p) ++
  flat_map (fun d => match d with
    | DS _ s => redefs [] (names_of (s_fields s))
    | DI _ i => redefs [] (map o_name (i_ops i)) ++ flat_map (fun o => redefs [] (names_of (o_params o)) ++ redefs [] (names_of (o_rets o))) (i_ops i)
    | DE _ e => redefs [] (map en_name (ed_ens e)) ++
                flat_map (fun en => match en_fields en with Some fs => redefs [] (names_of fs) | None => [] end) (ed_ens e)
    | _ => [] end) p.

(* ---------- phase 3: the validators ---------- *)
(* members.rs: tags_have_optional_types, tags_are_unique (stable sort by tag, then neighbours) *)
Module ZOrder <: TotalLeBool.
  Definition t := Z.
  Definition leb := Z.leb.
  Theorem leb_total : forall a b, leb a b = true \/ leb b a = true.
  Proof. intros a b. unfold leb. destruct (Z.leb_spec a b); [left; reflexivity|right; apply Z.leb_le; apply Z.lt_le_incl; assumption]. Qed.
End ZOrder.
Module ZSort := Sort ZOrder.
Fixpoint adjacent_dups (l : list Z) : list code :=
  match l with a :: ((b :: _) as r) => (if Z.eqb a b then [12] else []) ++ adjacent_dups r | _ => [] end.
Definition tags_of (ms : list member) : list Z := flat_map (fun m => match m_tag m with Some t => [t] | None => [] end) ms.
Definition validate_members (ms : list member) : list code :=
  flat_map (fun m => if is_tagged m && negb (opt_of (m_ty m)) then [16] else []) ms ++ adjacent_dups (ZSort.sort (tags_of ms)).

(* dictionary.rs: check_dictionary_key_type; fuel bounds the descent through compact key structs *)
Definition prim_is_integral (p : nat) : bool := memn p prim_integral.
Fixpoint key_error (p : program) (fuel : nat) (t : rtyref) : option code :=
  match fuel with O => Some 5 | S f =>
  match t with RT opt ty =>
    if opt then Some 3 else
    match ty with
    | RStruct id =>
      match find_struct p id with
      | None => Some 5
      | Some s => if negb (s_compact s) then Some 4
                  else if existsb (fun m => match key_error p f (m_ty m) with Some _ => true | None => false end) (s_fields s) then Some 6 else None
      end
    | REnum id => match find_enum p id with Some e => (match ed_under e with None => Some 5 | Some _ => None end) | None => Some 5 end
    | RCustom => None
    | RRes _ _ | RSeq _ | RDict _ _ => Some 5
    | RPrim q => if prim_is_integral q || Nat.eqb q 0 || Nat.eqb q 15 then None else Some 5
    end
  end end.
(* visit_type_ref: every dictionary reachable in a visited type has its key checked *)
Fixpoint dict_errors (p : program) (t : rtyref) : list code :=
  match t with RT _ ty =>
    match ty with
    | RSeq e => dict_errors p e
    | RDict k v => (match key_error p (S (length p)) k with Some c => [c] | None => [] end) ++ dict_errors p k ++ dict_errors p v
    | RRes s f => dict_errors p s ++ dict_errors p f
    | _ => []
    end
  end.
Definition members_type_errors (p : program) (ms : list member) : list code := flat_map (fun m => dict_errors p (m_ty m)) ms.

(* structs.rs *)
Definition validate_struct (s : sdef) : list code :=
  (if s_compact s && Nat.eqb (length (s_fields s)) 0 then [18] else []) ++
  (if s_compact s then flat_map (fun m => if is_tagged m then [15] else []) (s_fields s) else []).

(* enums.rs *)
Definition bounds_of (e : edef) : option (Z * Z) :=
  match ed_under e with
  | Some (q, _) => match find (fun x => Nat.eqb (fst x) q) prim_bounds with Some (_, b) => Some b | None => None end
  | None => Some enum_default_bounds
  end.
Fixpoint dup_values (seen : list Z) (vs : list Z) : list code :=
  match vs with [] => [] | v :: r => if existsb (Z.eqb v) seen then 22 :: dup_values seen r else dup_values (v :: seen) r end.
Definition en_field_list (en : enr) : list member := match en_fields en with Some fs => fs | None => [] end.
Definition validate_enum (e : edef) : list code :=
  (match bounds_of e with Some b => flat_map (fun en => if in_range b (en_value en) then [] else [20]) (ed_ens e) | None => [] end) ++
  (match ed_under e with Some (q, _) => if prim_is_integral q then [] else [9] | None => [] end) ++
  dup_values [] (map en_value (ed_ens e)) ++
  (match ed_under e with Some (_, true) => [7] | _ => [] end) ++
  (if negb (ed_unchecked e) && Nat.eqb (length (ed_ens e)) 0 then [8] else []) ++
  (if ed_compact e then (match ed_under e with Some _ => [36] | None => [] end) ++ (if ed_unchecked e then [36] else []) else []) ++
  (if ed_compact e then flat_map (fun en => flat_map (fun m => if is_tagged m then [15] else []) (en_field_list en)) (ed_ens e) else []) ++
  (match ed_under e with Some _ => flat_map (fun en => match en_fields en with Some _ => [35] | None => [] end) (ed_ens e) | None => [] end).

(* parameters.rs *)
Definition validate_parameters (ms : list member) : list code :=
  flat_map (fun m => if m_stream m then [13] else []) (removelast ms) ++
  (let st := filter m_stream ms in if Nat.ltb 1 (length st) then map (fun _ => 29) (removelast st) else []).

(* identifiers.rs: an operation may not have the name of an inherited one *)
Fixpoint all_bases (p : program) (fuel : nat) (ids : list nat) : list nat :=
  match fuel with O => [] | S f =>
    flat_map (fun id => id :: match find_iface p id with Some i => all_bases p f (i_bases i) | None => [] end) ids
  end.
Definition inherited_op_names (p : program) (i : idef) : list nat :=
  flat_map (fun id => match find_iface p id with Some b => map o_name (i_ops b) | None => [] end) (nodup Nat.eq_dec (all_bases p (S (length p)) (i_bases i))).
Definition shadow_errors (p : program) (i : idef) : list code :=
  flat_map (fun o => flat_map (fun n => if Nat.eqb (o_name o) n then [11] else []) (inherited_op_names p i)) (i_ops i).

Definition validate_def (p : program) (d : def) : list code :=
  match d with
  | DS _ s => validate_struct s ++ validate_members (s_fields s) ++ members_type_errors p (s_fields s)
  | DE _ e => validate_enum e ++ flat_map (fun en => validate_members (en_field_list en) ++ members_type_errors p (en_field_list en)) (ed_ens e)
  | DI _ i => shadow_errors p i ++
              flat_map (fun o => validate_members (o_params o) ++ validate_members (o_rets o) ++
                                 validate_parameters (o_params o) ++ validate_parameters (o_rets o) ++
                                 members_type_errors p (o_params o) ++ members_type_errors p (o_rets o)) (i_ops i)
  | DC _ => []
  | DA _ t => (if opt_of t then [34] else []) ++ dict_errors p t
  end.
Definition validator_errors (p : program) : list code := flat_map (validate_def p) p.

(* the whole pipeline after type patching and cycle detection, with its gating *)
Definition check (p : program) : list code :=
  match parse_errors p with
  | (_ :: _) as e => e
  | [] => match redefinition_errors p with
          | (_ :: _) as e => e
          | [] => validator_errors p
          end
  end.
