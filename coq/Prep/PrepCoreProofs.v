From SliceV Require Import Prep.PrepCore.
From Coq Require Import List Bool Arith Lia.
Import ListNotations.

Definition stopped (ls:list line) : Prop :=
  match ls with [] => True | LElif _ :: _ | LElse :: _ | LEndif :: _ => True | _ => False end.
Definition not_elif (ls:list line) : Prop := match ls with LElif _ :: _ => False | _ => True end.

Lemma steps_app m a b : steps m (a ++ b) = match steps m a with Some m' => steps m' b | None => None end.
Proof. revert m; induction a as [|x a IH]; intros m; cbn; auto. destruct (step m x); auto. Qed.

Fixpoint any_true (es:list (cond * list node)) (st:state) : bool :=
  match es with [] => false | (c,_) :: r => c (fst st) || any_true r st end.
Fixpoint sel_only (es:list (cond * list node)) (st:state) : state :=
  match es with [] => st | (c,b) :: r => if c (fst st) then proc_list b st else sel_only r st end.
Lemma sel_elifs_split es els st :
  sel_elifs es els st = if any_true es st then sel_only es st
                        else match els with Some b => proc_list b st | None => st end.
Proof. induction es as [|[c b] r IH]; cbn; auto. destruct (c (fst st)); cbn; auto. Qed.

Lemma sel_only_none es st : any_true es st = false -> sel_only es st = st.
Proof. induction es as [|[c b] r IH]; cbn; auto. destruct (c (fst st)); cbn; [discriminate|auto]. Qed.

Definition PN (fuel:nat) : Prop := forall ls ns rest, parse_nodes fuel ls = Some (ns, rest) ->
  exists pre, ls = pre ++ rest /\ stopped rest /\
    forall fs st, steps (fs, st) pre = Some (fs, if cur fs then proc_list ns st else st).
Definition PE (fuel:nat) : Prop := forall ls es rest, parse_elifs fuel ls = Some (es, rest) ->
  exists pre, ls = pre ++ rest /\ (stopped ls -> stopped rest /\ not_elif rest) /\
    forall f fs st, selse f = false ->
      exists f', steps (f :: fs, st) pre = Some (f' :: fs,
                     if parent f && negb (taken f) then sel_only es st else st)
        /\ parent f' = parent f /\ selse f' = false
        /\ taken f' = taken f || (parent f && negb (taken f) && any_true es st).

Lemma consn_some n r ns rest : consn n r = Some (ns, rest) ->
  exists ns', r = Some (ns', rest) /\ ns = n :: ns'.
Proof. destruct r as [[a b]|]; cbn; intros H; inversion H; subst; eauto. Qed.

Lemma PN_PE : forall fuel, PN fuel /\ PE fuel.
Proof.
  induction fuel as [|f [IHN IHE]]; [split; intros ? ? ? H; discriminate H|].
  split.
  - (* nodes *)
    intros ls ns rest H. cbn [parse_nodes] in H.
    destruct ls as [|l r].
    { inversion H; subst. exists []. repeat split; auto. intros; cbn. destruct (cur fs); auto. }
    destruct l.
    + apply consn_some in H as (ns' & H & ->). apply IHN in H as (pre & -> & St & Hs).
      exists (LSrc n :: pre). repeat split; auto. intros fs st. cbn [steps step]. rewrite Hs.
      destruct (cur fs); reflexivity.
    + apply consn_some in H as (ns' & H & ->). apply IHN in H as (pre & -> & St & Hs).
      exists (LDef s :: pre). repeat split; auto. intros fs st. cbn [steps step]. rewrite Hs.
      destruct (cur fs); reflexivity.
    + apply consn_some in H as (ns' & H & ->). apply IHN in H as (pre & -> & St & Hs).
      exists (LUndef s :: pre). repeat split; auto. intros fs st. cbn [steps step]. rewrite Hs.
      destruct (cur fs); reflexivity.
    + (* LIf *)
      destruct (parse_nodes f r) as [[ifb r1]|] eqn:E1; [|discriminate].
      destruct (parse_elifs f r1) as [[es r2]|] eqn:E2; [|discriminate].
      apply IHN in E1 as (pre1 & -> & St1 & Hs1).
      apply IHE in E2 as (pre2 & -> & St2 & Hs2).
      destruct (St2 St1) as [St2' NE2].
      destruct r2 as [|l2 r3]; [discriminate|].
      destruct l2; try discriminate.
      * (* else *)
        destruct (parse_nodes f r3) as [[eb r4']|] eqn:E3; [|discriminate].
        destruct r4' as [|l4 r4]; [discriminate|]. destruct l4; try discriminate.
        apply consn_some in H as (ns' & H & ->).
        apply IHN in E3 as (pre3 & -> & St3 & Hs3).
        apply IHN in H as (pre4 & -> & St4 & Hs4).
        exists (LIf c :: pre1 ++ pre2 ++ LElse :: pre3 ++ LEndif :: pre4).
        split; [cbn; repeat (rewrite <- app_assoc; cbn); reflexivity|]. split; [exact St4|].
        intros fs st. cbn [steps step].
        rewrite steps_app, Hs1. cbn [cur active].
        set (fr := {| parent := cur fs; active := cur fs && c (fst st); taken := cur fs && c (fst st); selse := false |}).
        destruct (Hs2 fr fs (if cur fs && c (fst st) then proc_list ifb st else st) eq_refl)
          as (f' & Hst & Hp & Hse & Ht).
        rewrite steps_app, Hst. cbn [steps step]. rewrite Hse.
        rewrite steps_app, Hs3. cbn [cur active steps step]. rewrite Hs4.
        f_equal. f_equal.
        cbn [proc_list]. rewrite proc_node_cond, sel_elifs_split.
        rewrite Hp, Ht. subst fr. cbn [parent taken].
        destruct (cur fs); cbn [andb negb orb]; [|reflexivity].
        destruct (c (fst st)) eqn:Ec; cbn [andb negb orb]; [reflexivity|].
        destruct (any_true es st) eqn:Ea; cbn [andb negb orb]; [reflexivity|].
        rewrite (sel_only_none _ _ Ea). reflexivity.
      * (* endif *)
        apply consn_some in H as (ns' & H & ->).
        apply IHN in H as (pre4 & -> & St4 & Hs4).
        exists (LIf c :: pre1 ++ pre2 ++ LEndif :: pre4).
        split; [cbn; repeat (rewrite <- app_assoc; cbn); reflexivity|]. split; [exact St4|].
        intros fs st. cbn [steps step].
        rewrite steps_app, Hs1. cbn [cur active].
        set (fr := {| parent := cur fs; active := cur fs && c (fst st); taken := cur fs && c (fst st); selse := false |}).
        destruct (Hs2 fr fs (if cur fs && c (fst st) then proc_list ifb st else st) eq_refl)
          as (f' & Hst & Hp & Hse & Ht).
        rewrite steps_app, Hst. cbn [steps step]. rewrite Hs4.
        f_equal. f_equal.
        cbn [proc_list]. rewrite proc_node_cond, sel_elifs_split.
        subst fr. cbn [parent taken].
        destruct (cur fs); cbn [andb negb orb]; [|reflexivity].
        destruct (c (fst st)) eqn:Ec; cbn [andb negb orb]; [reflexivity|].
        destruct (any_true es st) eqn:Ea; cbn [andb negb orb]; [reflexivity|].
        rewrite (sel_only_none _ _ Ea). reflexivity.
    + inversion H; subst. exists []. repeat split; cbn; auto. intros; destruct (cur fs); auto.
    + inversion H; subst. exists []. repeat split; cbn; auto. intros; destruct (cur fs); auto.
    + inversion H; subst. exists []. repeat split; cbn; auto. intros; destruct (cur fs); auto.
    + discriminate.
  - (* elifs *)
    intros ls es rest H. cbn [parse_elifs] in H.
    assert (Base: forall ls', parse_elifs (S f) ls' = Some ([], ls') -> True) by auto.
    destruct ls as [|l r].
    { inversion H; subst. exists []. split; auto. split; [auto|].
      intros fr fs st Hse. exists fr. cbn. rewrite Hse || idtac.
      repeat split; auto. - destruct (parent fr && negb (taken fr)); reflexivity.
      - rewrite andb_false_r, orb_false_r; reflexivity. }
    destruct l; try (inversion H; subst; exists []; split; [reflexivity|]; split; [cbn; tauto|];
      intros fr fs st Hse; exists fr; cbn; repeat split; auto;
      [destruct (parent fr && negb (taken fr)); reflexivity | rewrite andb_false_r, orb_false_r; reflexivity]).
    destruct (parse_nodes f r) as [[b r1]|] eqn:E1; [|discriminate].
    destruct (parse_elifs f r1) as [[es' r2]|] eqn:E2; [|discriminate].
    inversion H; subst; clear H.
    apply IHN in E1 as (pre1 & -> & St1 & Hs1).
    apply IHE in E2 as (pre2 & -> & St2 & Hs2).
    exists (LElif c :: pre1 ++ pre2). split; [cbn; rewrite <- app_assoc; reflexivity|].
    split; [intros _; apply St2; exact St1|].
    intros fr fs st Hse.
    set (v := parent fr && negb (taken fr) && c (fst st)).
    set (fr1 := {| parent := parent fr; active := v; taken := taken fr || v; selse := false |}).
    destruct (Hs2 fr1 fs (if v then proc_list b st else st) eq_refl) as (f' & Hst & Hp & Hse' & Ht).
    exists f'.
    assert (Hstep: steps (fr :: fs, st) (LElif c :: pre1 ++ pre2) =
                   Some (f' :: fs, if parent fr1 && negb (taken fr1)
                                   then sel_only es' (if v then proc_list b st else st)
                                   else if v then proc_list b st else st)).
    { cbn [steps step]. rewrite Hse. fold v. fold fr1.
      rewrite steps_app, Hs1. cbn [cur]. replace (active fr1) with v by reflexivity.
      rewrite Hst. reflexivity. }
    rewrite Hstep. subst fr1. cbn [parent taken] in *.
    split; [|split; [exact Hp|split; [exact Hse'|]]].
    + f_equal. f_equal. cbn [sel_only any_true]. subst v.
      destruct (parent fr); cbn [andb negb orb]; [|reflexivity].
      destruct (taken fr); cbn [andb negb orb]; [reflexivity|].
      destruct (c (fst st)); cbn [andb negb orb]; reflexivity.
    + rewrite Ht. cbn [any_true]. subst v.
      destruct (parent fr); cbn [andb negb orb]; [|rewrite !orb_false_r; reflexivity].
      destruct (taken fr); cbn [andb negb orb]; [reflexivity|].
      destruct (c (fst st)); cbn [andb negb orb]; reflexivity.
Qed.

(* ---------- rejection direction ---------- *)
Definition bad (r:option mach) (n:nat) : Prop :=
  match r with None => True | Some (fs', _) => length fs' > n end.
Lemma bad_mono r n m : m <= n -> bad r n -> bad r m.
Proof. destruct r as [[fs' st]|]; cbn; auto. lia. Qed.


Lemma stopped_head_step_empty : forall l r st, stopped (l :: r) -> step ([], st) l = None.
Proof. intros [] r st H; cbn in *; tauto || reflexivity. Qed.

Definition QN (fuel:nat) : Prop := forall ls, length ls < fuel -> parse_nodes fuel ls = None ->
  forall fs st, bad (steps (fs, st) ls) (length fs).
Definition QE (fuel:nat) : Prop := forall ls, length ls < fuel -> parse_elifs fuel ls = None ->
  forall f fs st, selse f = false -> bad (steps (f :: fs, st) ls) (length fs).

Lemma consn_none n r : consn n r = None -> r = None.
Proof. destruct r as [[a b]|]; cbn; auto; discriminate. Qed.

Lemma QN_QE : forall fuel, QN fuel /\ QE fuel.
Proof.
  induction fuel as [|f [IHN IHE]]; [split; intros ls Hl; inversion Hl|].
  destruct (PN_PE f) as [PNf PEf].
  split.
  - intros ls Hl H fs st. cbn [parse_nodes] in H.
    destruct ls as [|l r]; [discriminate|]. cbn [length] in Hl.
    destruct l; try discriminate.
    + apply consn_none in H. cbn [steps step]. apply IHN; [lia|exact H].
    + apply consn_none in H. cbn [steps step]. apply IHN; [lia|exact H].
    + apply consn_none in H. cbn [steps step]. apply IHN; [lia|exact H].
    + (* LIf *)
      cbn [steps step].
      set (fr := {| parent := cur fs; active := cur fs && c (fst st); taken := cur fs && c (fst st); selse := false |}).
      destruct (parse_nodes f r) as [[ifb r1]|] eqn:E1.
      2:{ eapply bad_mono; [|apply IHN; [lia|exact E1]]. cbn; lia. }
      destruct (PNf _ _ _ E1) as (pre1 & -> & St1 & Hs1).
      rewrite steps_app, Hs1. rewrite app_length in Hl.
      destruct (parse_elifs f r1) as [[es r2]|] eqn:E2.
      2:{ apply IHE; [lia|exact E2|reflexivity]. }
      destruct (PEf _ _ _ E2) as (pre2 & -> & St2 & Hs2).
      destruct (St2 St1) as [St2' NE2].
      destruct (Hs2 fr fs (if cur (fr :: fs) then proc_list ifb st else st) eq_refl) as (f' & Hst & Hp & Hse & Ht).
      rewrite steps_app, Hst. rewrite app_length in Hl.
      destruct r2 as [|l2 r3]; [cbn; lia|].
      destruct l2; cbn in St2', NE2; try tauto.
      * (* else *)
        cbn [steps step]. rewrite Hse. cbn [length] in Hl.
        set (fe := {| parent := parent f'; active := parent f' && negb (taken f'); taken := true; selse := true |}).
        destruct (parse_nodes f r3) as [[eb r4']|] eqn:E3.
        2:{ eapply bad_mono; [|apply IHN; [lia|exact E3]]. cbn; lia. }
        destruct (PNf _ _ _ E3) as (pre3 & -> & St3 & Hs3).
        rewrite steps_app, Hs3. rewrite app_length in Hl.
        destruct r4' as [|l4 r4]; [cbn; lia|].
        destruct l4; cbn in St3; try tauto.
        all: try (subst fe; cbn; exact I).
        cbn [steps step]. apply consn_none in H. cbn [length] in Hl. apply IHN; [lia|exact H].
      * (* endif *)
        cbn [steps step]. apply consn_none in H. cbn [length] in Hl. apply IHN; [lia|exact H].
    + cbn. exact I.
  - intros ls Hl H fr fs st Hse. cbn [parse_elifs] in H.
    destruct ls as [|l r]; [discriminate|]. cbn [length] in Hl.
    destruct l; try discriminate.
    cbn [steps step]. rewrite Hse.
    set (v := parent fr && negb (taken fr) && c (fst st)).
    set (fr1 := {| parent := parent fr; active := v; taken := taken fr || v; selse := false |}).
    destruct (parse_nodes f r) as [[b r1]|] eqn:E1.
    2:{ eapply bad_mono; [|apply IHN; [lia|exact E1]]. cbn; lia. }
    destruct (PNf _ _ _ E1) as (pre1 & -> & St1 & Hs1).
    rewrite steps_app, Hs1. rewrite app_length in Hl.
    destruct (parse_elifs f r1) as [[es r2]|] eqn:E2; [discriminate|].
    apply IHE; [lia|exact E2|reflexivity].
Qed.

Lemma bad0_none (r:option mach) : bad r 0 ->
  match r with Some ([], st) => Some st | _ => None end = None.
Proof. destruct r as [[[|f fs] st]|]; cbn; auto. intros H; exfalso; inversion H. Qed.

Theorem prep_refines : forall ls S0, run_impl ls S0 = run_spec ls S0.
Proof.
  intros ls S0. unfold run_impl, run_spec.
  destruct (parse_nodes (S (length ls)) ls) as [[ns rest]|] eqn:E.
  - destruct (PN_PE (S (length ls))) as [P _]. destruct (P _ _ _ E) as (pre & -> & St & Hs).
    rewrite steps_app, Hs. cbn [cur].
    destruct rest as [|l r]; [reflexivity|].
    cbn [steps]. rewrite (stopped_head_step_empty _ _ _ St). reflexivity.
  - destruct (QN_QE (S (length ls))) as [Q _].
    symmetry. apply bad0_none.
    exact (Q ls (Nat.lt_succ_diag_r _) E [] (S0, [])).
Qed.
Print Assumptions prep_refines.
