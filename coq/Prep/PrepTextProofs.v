From Coq Require Import List Bool Arith NArith Lia.
From SliceV Require Import Cli.PluginSpec Prep.PrepCore Prep.PrepCoreProofs Prep.PrepText.
Import ListNotations.
Open Scope nat_scope.

(* the tree evaluation of the implementation equals the line-by-line stack machine, on text *)
Theorem text_refines text S0 : run_text text S0 = run_text_spec text S0.
Proof. unfold run_text, run_text_spec. apply prep_refines. Qed.

(* unbalanced conditionals are rejected: an accepted file has as many #endif as #if, and no prefix closes more than it opened *)
Definition is_if (l : line) : bool := match l with LIf _ => true | _ => false end.
Definition is_endif (l : line) : bool := match l with LEndif => true | _ => false end.
Definition count (f : line -> bool) (ls : list line) : nat := length (filter f ls).
Lemma steps_depth ls : forall fs st fs' st', steps (fs, st) ls = Some (fs', st') ->
  length fs' + count is_endif ls = length fs + count is_if ls.
Proof.
  unfold count. induction ls as [|l ls IH]; intros fs st fs' st' H; cbn [steps] in H.
  - inversion H; subst. cbn. lia.
  - destruct (step (fs, st) l) as [[fs1 st1]|] eqn:E; [|discriminate].
    apply IH in H. cbn [filter].
    destruct l; cbn [step] in E; cbn [is_if is_endif].
    1-3: inversion E; subst; exact H.
    + inversion E; subst. cbn [length] in *. lia.
    + destruct fs as [|f r]; [discriminate|]. destruct (selse f); [discriminate|]. inversion E; subst. cbn [length] in *. lia.
    + destruct fs as [|f r]; [discriminate|]. destruct (selse f); [discriminate|]. inversion E; subst. cbn [length] in *. lia.
    + destruct fs as [|f r]; [discriminate|]. inversion E; subst. cbn [length] in *. lia.
    + discriminate.
Qed.
Theorem unbalanced_rejected ls S0 st : run_spec ls S0 = Some st -> count is_endif ls = count is_if ls.
Proof.
  unfold run_spec. destruct (steps ([], (S0, [])) ls) as [[fs st']|] eqn:E; [|discriminate].
  destruct fs; [|discriminate]. intros _. apply steps_depth in E. cbn in E. lia.
Qed.
Theorem bad_directive_rejected ls S0 : In LBad ls -> run_spec ls S0 = None.
Proof.
  intros Hin. unfold run_spec.
  assert (H : forall m, steps m ls = None).
  { induction ls as [|l ls IH]; [contradiction|]. intros m. cbn [steps].
    destruct Hin as [->|Hin]; [destruct m; reflexivity|].
    destruct (step m l); [apply IH; auto|reflexivity]. }
  rewrite H. reflexivity.
Qed.

(* nothing shifts: the location of the first non-blank character of line n, counted over the ORIGINAL text,
   is (n+1, indentation+1), whatever happens to the other lines *)
Definition no_nl (l : list N) : Prop := Forall (fun c => N.eqb c nl = false) l.
Lemma fold_advance_no_nl l r c : no_nl l -> fold_left advance l (r, c) = (r, c + length l).
Proof.
  intros H. revert c. induction H as [|x l Hx _ IH]; intros c; cbn [fold_left length].
  - f_equal. lia.
  - unfold advance at 2. rewrite Hx. cbn [fst snd]. rewrite IH. f_equal. lia.
Qed.
Lemma loc_after_join pre r : Forall no_nl pre -> fold_left advance (join_lines pre) (r, 1) = (r + length pre, 1).
Proof.
  intros H. revert r. induction H as [|l pre Hl _ IH]; intros r; cbn [join_lines flat_map length].
  - cbn. f_equal. lia.
  - fold (join_lines pre). rewrite <- app_assoc, fold_left_app, fold_advance_no_nl by exact Hl.
    cbn [app fold_left]. unfold advance at 2. rewrite N.eqb_refl. cbn [fst]. rewrite IH. f_equal. lia.
Qed.
Lemma skip_ws_suffix l : exists p, l = p ++ skip_ws l /\ length p = indent_of l.
Proof.
  unfold indent_of. induction l as [|c l IH]; [exists []; auto|]. cbn [skip_ws].
  destruct (is_inline_ws c); [|exists []; cbn; split; auto; lia].
  destruct IH as (p & Hp & Hl). exists (c :: p). cbn [app length]. split; [congruence|].
  assert (length (skip_ws l) <= length l).
  { clear. induction l as [|x l IH]; cbn; auto. destruct (is_inline_ws x); cbn; lia. }
  lia.
Qed.
Theorem line_location_preserved pre l post : Forall no_nl pre -> no_nl l ->
  exists p, l = p ++ skip_ws l /\
    loc_after (join_lines pre ++ p) = line_start_loc (length pre) l /\
    (* and the same holds in the whole file *)
    firstn (length (join_lines pre ++ p)) (join_lines (pre ++ l :: post)) = join_lines pre ++ p.
Proof.
  intros Hpre Hl. destruct (skip_ws_suffix l) as (p & Hp & Hlen). exists p. split; [exact Hp|]. split.
  - unfold loc_after, line_start_loc. rewrite fold_left_app, loc_after_join by exact Hpre.
    assert (Hnp : no_nl p). { rewrite Hp in Hl. apply Forall_app in Hl. tauto. }
    rewrite fold_advance_no_nl by exact Hnp. rewrite Hlen. f_equal; lia.
  - assert (E : join_lines (pre ++ l :: post) = (join_lines pre ++ p) ++ (skip_ws l ++ [nl]) ++ join_lines post).
    { unfold join_lines. rewrite flat_map_app. cbn [flat_map]. rewrite Hp at 1. rewrite <- !app_assoc. reflexivity. }
    rewrite E. rewrite firstn_app, Nat.sub_diag, firstn_all. cbn. apply app_nil_r.
Qed.

(* symbols never leak between files: every file is preprocessed from the command-line set *)
Definition run_files (texts : list (list N)) (S0 : symset) : list (option state) := map (fun t => run_text t S0) texts.
Theorem symbols_do_not_leak texts1 texts2 t S0 :
  nth_error (run_files (texts1 ++ t :: texts2) S0) (length texts1) = Some (run_text t S0).
Proof. unfold run_files. rewrite map_app. cbn [map]. rewrite nth_error_app2, map_length, Nat.sub_diag by (rewrite map_length; lia). reflexivity. Qed.

(* ---------- a line is selected only if every enclosing region is selected ---------- *)
(* invariant of the line-by-line machine: each frame remembers whether its surroundings were selected when it was opened,
   and a branch is active only inside selected surroundings and only once per conditional *)
Fixpoint wf_frames (fs : list frame) : Prop :=
  match fs with
  | [] => True
  | f :: r => parent f = cur r /\ (active f = true -> parent f = true /\ taken f = true) /\ wf_frames r
  end.
Lemma step_wf fs st l fs' st' : wf_frames fs -> step (fs, st) l = Some (fs', st') -> wf_frames fs'.
Proof.
  intros W E. destruct l; cbn [step] in E.
  1-3: inversion E; subst; exact W.
  - inversion E; subst. cbn [wf_frames parent active taken]. split; [reflexivity|split; [|exact W]].
    intros H. apply andb_true_iff in H as [H1 H2]. rewrite H1. cbn [andb]. auto.
  - destruct fs as [|f r]; [discriminate|]. destruct (selse f); [discriminate|]. inversion E; subst.
    destruct W as (Wp & Wa & Wr). cbn [wf_frames parent active taken]. split; [exact Wp|split; [|exact Wr]].
    intros H. rewrite H. apply andb_true_iff in H as [H _]. apply andb_true_iff in H as [H _]. rewrite orb_true_r. auto.
  - destruct fs as [|f r]; [discriminate|]. destruct (selse f); [discriminate|]. inversion E; subst.
    destruct W as (Wp & Wa & Wr). cbn [wf_frames parent active taken]. split; [exact Wp|split; [|exact Wr]].
    intros H. apply andb_true_iff in H as [H _]. auto.
  - destruct fs as [|f r]; [discriminate|]. inversion E; subst. destruct W as (_ & _ & Wr). exact Wr.
  - discriminate.
Qed.
Lemma steps_wf : forall ls fs st fs' st', wf_frames fs -> steps (fs, st) ls = Some (fs', st') -> wf_frames fs'.
Proof.
  induction ls as [|l ls IH]; intros fs st fs' st' W E; cbn [steps] in E.
  - inversion E; subst; exact W.
  - destruct (step (fs, st) l) as [[fs1 st1]|] eqn:S1; [|discriminate]. eapply IH; [|exact E]. eapply step_wf; eauto.
Qed.
Lemma wf_cur_all_active fs : wf_frames fs -> cur fs = true -> Forall (fun f => active f = true) fs.
Proof.
  induction fs as [|f r IH]; intros W C; [constructor|]. destruct W as (Wp & Wa & Wr). cbn [cur] in C.
  constructor; [exact C|]. apply IH; [exact Wr|]. destruct (Wa C) as [P _]. rewrite <- Wp. exact P.
Qed.
(* at every point of every file: if the current line is selected, every region around it is selected; hence a #define,
   an #undef or a source line nested (to any depth) inside an unselected region has no effect *)
Theorem selected_means_all_enclosing_selected ls S0 fs st :
  steps ([], (S0, [])) ls = Some (fs, st) -> cur fs = true -> Forall (fun f => active f = true) fs.
Proof. intros E C. apply wf_cur_all_active; [|exact C]. eapply steps_wf; [|exact E]. exact I. Qed.
Theorem inside_unselected_nothing_happens ls S0 fs st l :
  steps ([], (S0, [])) ls = Some (fs, st) -> Exists (fun f => active f = false) fs ->
  match l with LSrc _ | LDef _ | LUndef _ => step (fs, st) l = Some (fs, st) | _ => True end.
Proof.
  intros E X. assert (C : cur fs = false).
  { destruct (cur fs) eqn:C; [|reflexivity]. pose proof (selected_means_all_enclosing_selected _ _ _ _ E C) as F.
    apply Exists_exists in X as (f & Hin & Hf). rewrite Forall_forall in F. rewrite (F f Hin) in Hf. discriminate. }
  destruct l; auto; cbn [step]; rewrite C; reflexivity.
Qed.
(* a branch is entered at most once per conditional: once a branch was taken, no later #elif or #else of it is active *)
Theorem taken_blocks_later_branches f r st l fs' st' : taken f = true -> step (f :: r, st) l = Some (fs', st') ->
  match l with LElif _ | LElse => cur fs' = false | _ => True end.
Proof.
  intros T E. destruct l; auto; cbn [step] in E; destruct (selse f); try discriminate; inversion E; subst; cbn [cur active];
    rewrite T; cbn; rewrite ?andb_false_r; reflexivity.
Qed.
