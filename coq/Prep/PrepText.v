(* Character-level front of the preprocessor model (C06): lines, directive lexing and parsing,
   condition expressions, and the complete `run_text`.  Model only.
   Mirrors parsers/preprocessor/lexer.rs (modes Unknown/SourceBlock/PreprocessorDirective),
   grammar.lalrpop and grammar.rs at accept/reject level: any lexical or syntax error in a
   directive rejects the file (LALRPOP's recovery only changes how many E002 are listed). *)
From Coq Require Import List Bool Arith NArith.
From SliceV Require Import Cli.PluginSpec Prep.PrepCore.
Import ListNotations.
Open Scope N_scope.

Definition nl := 10.
Definition hash := 35.
Definition is_inline_ws (c : N) : bool := is_ws c && negb (c =? nl).
Definition is_alpha (c : N) : bool := ((65 <=? c) && (c <=? 90)) || ((97 <=? c) && (c <=? 122)).
Definition is_digit (c : N) : bool := (48 <=? c) && (c <=? 57).
Definition is_ident_char (c : N) : bool := is_alpha c || is_digit c || (c =? 95).

(* split on '\n' *)
Fixpoint split_lines_aux (s : list N) (cur : list N) : list (list N) :=
  match s with
  | [] => [rev cur]
  | c :: r => if c =? nl then rev cur :: split_lines_aux r [] else split_lines_aux r (c :: cur)
  end.
Definition split_lines (s : list N) : list (list N) := split_lines_aux s [].

Fixpoint skip_ws (s : list N) : list N :=
  match s with c :: r => if is_inline_ws c then skip_ws r else s | [] => [] end.
Fixpoint take_ident (s : list N) : list N * list N :=
  match s with
  | c :: r => if is_ident_char c then let '(a, b) := take_ident r in (c :: a, b) else ([], s)
  | [] => ([], [])
  end.

Inductive ptok := TId (s : sym) | TNot | TAnd | TOr | TLp | TRp.
Inductive keyword := KDefine | KUndef | KIf | KElif | KElse | KEndif.

Definition str (l : list N) := l.
Definition keyword_of (id : list N) : option keyword :=
  if sym_eqb id [100;101;102;105;110;101] then Some KDefine        (* define *)
  else if sym_eqb id [117;110;100;101;102] then Some KUndef       (* undef *)
  else if sym_eqb id [105;102] then Some KIf                      (* if *)
  else if sym_eqb id [101;108;105;102] then Some KElif            (* elif *)
  else if sym_eqb id [101;108;115;101] then Some KElse            (* else *)
  else if sym_eqb id [101;110;100;105;102] then Some KEndif       (* endif *)
  else None.

(* tokens of a directive after its keyword; None = lexical error *)
Fixpoint lex_dir (fuel : nat) (s : list N) : option (list ptok) :=
  match fuel with O => None | S f =>
  match skip_ws s with
  | [] => Some []
  | c :: r =>
    if c =? 40 then option_map (cons TLp) (lex_dir f r)
    else if c =? 41 then option_map (cons TRp) (lex_dir f r)
    else if c =? 33 then option_map (cons TNot) (lex_dir f r)
    else if c =? 38 then match r with d :: r' => if d =? 38 then option_map (cons TAnd) (lex_dir f r') else None | [] => None end
    else if c =? 124 then match r with d :: r' => if d =? 124 then option_map (cons TOr) (lex_dir f r') else None | [] => None end
    else if c =? 47 then match r with d :: _ => if d =? 47 then Some [] else None | [] => None end   (* // comment *)
    else if is_alpha c then let '(id, r') := take_ident (c :: r) in option_map (cons (TId id)) (lex_dir f r')
    else None      (* '#', digits, '_', any other symbol *)
  end end.

(* condition expressions: the tree the grammar builds, and its evaluation *)
Inductive expr := ETerm (t : term) | ENot (t : term) | EAnd (e : expr) (t : term) | EOr (e : expr) (t : term)
with term := TSym (s : sym) | TPar (e : expr).
Fixpoint eval (e : expr) (S : symset) : bool :=
  match e with
  | ETerm t => eval_term t S | ENot t => negb (eval_term t S)
  | EAnd e t => eval e S && eval_term t S | EOr e t => eval e S || eval_term t S
  end
with eval_term (t : term) (S : symset) : bool :=
  match t with TSym s => smem s S | TPar e => eval e S end.

(* Expression := Term | '!' Term | Expression '&&' Term | Expression '||' Term ; Term := id | '(' Expression ')' *)
Fixpoint parse_expr (fuel : nat) (ts : list ptok) : option (expr * list ptok) :=
  match fuel with O => None | S f =>
  let first := match ts with
               | TNot :: r => match parse_term f r with Some (t, r') => Some (ENot t, r') | None => None end
               | _ => match parse_term f ts with Some (t, r') => Some (ETerm t, r') | None => None end
               end in
  match first with Some (e, r) => parse_ops f e r | None => None end
  end
with parse_term (fuel : nat) (ts : list ptok) : option (term * list ptok) :=
  match fuel with O => None | S f =>
  match ts with
  | TId s :: r => Some (TSym s, r)
  | TLp :: r => match parse_expr f r with Some (e, TRp :: r') => Some (TPar e, r') | _ => None end
  | _ => None
  end end
with parse_ops (fuel : nat) (e : expr) (ts : list ptok) : option (expr * list ptok) :=
  match fuel with O => None | S f =>
  match ts with
  | TAnd :: r => match parse_term f r with Some (t, r') => parse_ops f (EAnd e t) r' | None => None end
  | TOr :: r => match parse_term f r with Some (t, r') => parse_ops f (EOr e t) r' | None => None end
  | _ => Some (e, ts)
  end end.

(* one text line -> one `line` of the core model; n is the line's index *)
Definition classify (n : nat) (l : list N) : line :=
  match skip_ws l with
  | c :: r =>
    if c =? hash then
      let '(id, r1) := take_ident (skip_ws r) in
      match keyword_of id with
      | None => LBad
      | Some k =>
        match lex_dir (S (length r1)) r1 with
        | None => LBad
        | Some ts =>
          match k, ts with
          | KDefine, [TId s] => LDef s
          | KUndef, [TId s] => LUndef s
          | KIf, _ => match parse_expr (S (S (length ts)) * 3) ts with Some (e, []) => LIf (eval e) | _ => LBad end
          | KElif, _ => match parse_expr (S (S (length ts)) * 3) ts with Some (e, []) => LElif (eval e) | _ => LBad end
          | KElse, [] => LElse
          | KEndif, [] => LEndif
          | _, _ => LBad
          end
        end
      end
    else LSrc n
  | [] => LSrc n     (* blank line: source text with nothing in it *)
  end.
Fixpoint classify_all (n : nat) (ls : list (list N)) : list line :=
  match ls with [] => [] | l :: r => classify n l :: classify_all (S n) r end.

(* the whole preprocessor on a file's text: Some (symbols afterwards, indices of the selected lines) or None = rejected *)
Definition run_text (text : list N) (S0 : symset) : option state := run_impl (classify_all 0 (split_lines text)) S0.
Definition run_text_spec (text : list N) (S0 : symset) : option state := run_spec (classify_all 0 (split_lines text)) S0.

(* locations: rows and columns count characters from 1; '\n' starts a new row *)
Definition advance (loc : nat * nat) (c : N) : nat * nat :=
  if c =? nl then (S (fst loc), 1%nat) else (fst loc, S (snd loc)).
Definition loc_after (s : list N) : nat * nat := fold_left advance s (1%nat, 1%nat).
(* where the first non-blank character of line n sits: what a token at the start of that line reports *)
Definition indent_of (l : list N) : nat := length l - length (skip_ws l).
Definition line_start_loc (n : nat) (l : list N) : nat * nat := (S n, S (indent_of l)).
Definition join_lines (ls : list (list N)) : list N := flat_map (fun l => l ++ [nl]) ls.
