From Coq Require Import List Bool Arith Lia NArith.
Import ListNotations.

Definition sym := list N.
Fixpoint sym_eqb (a b : sym) : bool :=
  match a, b with [] , [] => true | x :: a', y :: b' => N.eqb x y && sym_eqb a' b' | _, _ => false end.
Definition smem (s : sym) (S : list sym) : bool := existsb (sym_eqb s) S.
Definition symset := list sym.
Definition cond := symset -> bool.
Definition sadd (s:sym) (S:symset) : symset := s :: S.
Definition sdel (s:sym) (S:symset) : symset := filter (fun x => negb (sym_eqb s x)) S.

Inductive line :=
| LSrc (n:nat) | LDef (s:sym) | LUndef (s:sym)
| LIf (c:cond) | LElif (c:cond) | LElse | LEndif | LBad.

Inductive node :=
| NSrc (n:nat) | NDef (s:sym) | NUndef (s:sym)
| NCond (c:cond) (ifb:list node) (elifs:list (cond * list node)) (els:option (list node)).

Definition state := (symset * list nat)%type.

(* ---------- implementation model: parse to a tree, then evaluate ---------- *)
Definition consn (n:node) (r:option (list node * list line)) :=
  match r with Some (ns, rest) => Some (n :: ns, rest) | None => None end.

Fixpoint parse_nodes (fuel:nat) (ls:list line) {struct fuel} : option (list node * list line) :=
  match fuel with O => None | S f =>
  match ls with
  | [] => Some ([], [])
  | LSrc n :: r => consn (NSrc n) (parse_nodes f r)
  | LDef s :: r => consn (NDef s) (parse_nodes f r)
  | LUndef s :: r => consn (NUndef s) (parse_nodes f r)
  | LIf c :: r =>
      match parse_nodes f r with
      | Some (ifb, r1) =>
        match parse_elifs f r1 with
        | Some (es, r2) =>
          match r2 with
          | LElse :: r3 =>
              match parse_nodes f r3 with
              | Some (eb, LEndif :: r4) => consn (NCond c ifb es (Some eb)) (parse_nodes f r4)
              | _ => None
              end
          | LEndif :: r3 => consn (NCond c ifb es None) (parse_nodes f r3)
          | _ => None
          end
        | None => None
        end
      | None => None
      end
  | LElif _ :: _ | LElse :: _ | LEndif :: _ => Some ([], ls)
  | LBad :: _ => None
  end end
with parse_elifs (fuel:nat) (ls:list line) {struct fuel} : option (list (cond * list node) * list line) :=
  match fuel with O => None | S f =>
  match ls with
  | LElif c :: r =>
      match parse_nodes f r with
      | Some (b, r1) =>
          match parse_elifs f r1 with
          | Some (es, r2) => Some ((c, b) :: es, r2)
          | None => None
          end
      | None => None
      end
  | _ => Some ([], ls)
  end end.

Fixpoint proc_node (n:node) (st:state) {struct n} : state :=
  let proc_list := (fix pl (l:list node) (st:state) {struct l} : state :=
      match l with [] => st | x :: r => pl r (proc_node x st) end) in
  match n with
  | NSrc k => (fst st, snd st ++ [k])
  | NDef s => (sadd s (fst st), snd st)
  | NUndef s => (sdel s (fst st), snd st)
  | NCond c ifb es els =>
      if c (fst st) then proc_list ifb st
      else (fix sel (es:list (cond * list node)) : state :=
              match es with
              | [] => match els with Some b => proc_list b st | None => st end
              | (c', b) :: r => if c' (fst st) then proc_list b st else sel r
              end) es
  end.
Fixpoint proc_list (l:list node) (st:state) : state :=
  match l with [] => st | x :: r => proc_list r (proc_node x st) end.
Fixpoint sel_elifs (es:list (cond * list node)) (els:option (list node)) (st:state) : state :=
  match es with
  | [] => match els with Some b => proc_list b st | None => st end
  | (c', b) :: r => if c' (fst st) then proc_list b st else sel_elifs r els st
  end.
Lemma proc_node_cond c ifb es els st :
  proc_node (NCond c ifb es els) st = if c (fst st) then proc_list ifb st else sel_elifs es els st.
Proof.
  assert (PL: forall l st', (fix pl (l:list node) (st:state) {struct l} : state :=
      match l with [] => st | x :: r => pl r (proc_node x st) end) l st' = proc_list l st').
  { induction l; intros; cbn; auto. }
  cbn [proc_node]. destruct (c (fst st)); [apply PL|].
  induction es as [|[c' b] r IH]; cbn [sel_elifs].
  - destruct els; [apply PL|reflexivity].
  - destruct (c' (fst st)); [apply PL|exact IH].
Qed.

Definition run_impl (ls:list line) (S0:symset) : option state :=
  match parse_nodes (S (length ls)) ls with
  | Some (ns, []) => Some (proc_list ns (S0, []))
  | _ => None
  end.

(* ---------- specification: a line-by-line stack machine ---------- *)
Record frame := { parent : bool; active : bool; taken : bool; selse : bool }.
Definition cur (fs:list frame) : bool := match fs with [] => true | f :: _ => active f end.
Definition mach := (list frame * state)%type.

Definition step (m:mach) (l:line) : option mach :=
  let '(fs, st) := m in
  match l with
  | LSrc n => Some (fs, if cur fs then (fst st, snd st ++ [n]) else st)
  | LDef s => Some (fs, if cur fs then (sadd s (fst st), snd st) else st)
  | LUndef s => Some (fs, if cur fs then (sdel s (fst st), snd st) else st)
  | LIf c => let a := cur fs in let v := a && c (fst st) in
             Some ({| parent := a; active := v; taken := v; selse := false |} :: fs, st)
  | LElif c => match fs with
               | f :: r => if selse f then None else
                   let v := parent f && negb (taken f) && c (fst st) in
                   Some ({| parent := parent f; active := v; taken := taken f || v; selse := false |} :: r, st)
               | [] => None end
  | LElse => match fs with
             | f :: r => if selse f then None else
                 let v := parent f && negb (taken f) in
                 Some ({| parent := parent f; active := v; taken := true; selse := true |} :: r, st)
             | [] => None end
  | LEndif => match fs with _ :: r => Some (r, st) | [] => None end
  | LBad => None
  end.
Fixpoint steps (m:mach) (ls:list line) : option mach :=
  match ls with [] => Some m | l :: r => match step m l with Some m' => steps m' r | None => None end end.
Definition run_spec (ls:list line) (S0:symset) : option state :=
  match steps ([], (S0, [])) ls with Some ([], st) => Some st | _ => None end.
