(* Executable model of `plugin_parser` (slicec/src/slice_options.rs) and of the way a generator
   specification is written (C19).  Characters are Unicode scalar values (N).  Model only. *)
From Coq Require Import List Bool NArith.
Import ListNotations.
Open Scope N_scope.

Definition comma := 44. Definition eqc := 61. Definition bs := 92.
Definition is_sep (c : N) : bool := (c =? comma) || (c =? eqc).

(* char::is_whitespace: the Unicode White_Space property *)
Definition is_ws (c : N) : bool :=
  ((9 <=? c) && (c <=? 13)) || (c =? 32) || (c =? 133) || (c =? 160) || (c =? 5760) ||
  ((8192 <=? c) && (c <=? 8202)) || (c =? 8232) || (c =? 8233) || (c =? 8239) || (c =? 8287) || (c =? 12288).
Fixpoint trim_start (s : list N) : list N :=
  match s with [] => [] | c :: r => if is_ws c then trim_start r else s end.
Definition trim (s : list N) : list N := rev (trim_start (rev (trim_start s))).

Inductive mode := MPath | MKey | MVal.
(* raw (untrimmed) state: path, finished arguments, and the argument under construction *)
Record acc := { a_path : list N; a_done : list (list N * list N); a_key : list N; a_val : list N; a_mode : mode }.
Definition push_char (a : acc) (c : N) : acc :=
  match a_mode a with
  | MPath => {| a_path := a_path a ++ [c]; a_done := a_done a; a_key := a_key a; a_val := a_val a; a_mode := MPath |}
  | MKey  => {| a_path := a_path a; a_done := a_done a; a_key := a_key a ++ [c]; a_val := a_val a; a_mode := MKey |}
  | MVal  => {| a_path := a_path a; a_done := a_done a; a_key := a_key a; a_val := a_val a ++ [c]; a_mode := MVal |}
  end.
Definition flush (a : acc) : list (list N * list N) :=
  match a_mode a with MPath => a_done a | _ => a_done a ++ [(a_key a, a_val a)] end.
Definition new_arg (a : acc) : acc :=
  {| a_path := a_path a; a_done := flush a; a_key := []; a_val := []; a_mode := MKey |}.

(* the character loop: backslash look-ahead, trailing-comma rule, '=' by state *)
Fixpoint go (s : list N) (a : acc) : option acc :=
  match s with
  | [] => Some a
  | c :: r =>
    if c =? bs then
      match r with
      | d :: r' => if is_sep d then go r' (push_char a d) else go r (push_char a c)
      | [] => go r (push_char a c)
      end
    else if c =? comma then
      match r with [] => go r a | _ => go r (new_arg a) end
    else if c =? eqc then
      match a_mode a with
      | MPath => go r (push_char a c)
      | MKey => go r {| a_path := a_path a; a_done := a_done a; a_key := a_key a; a_val := a_val a; a_mode := MVal |}
      | MVal => None
      end
    else go r (push_char a c)
  end.
Definition ps_init : acc := {| a_path := []; a_done := []; a_key := []; a_val := []; a_mode := MPath |}.
Definition parse_raw (s : list N) : option (list N * list (list N * list N)) :=
  match go s ps_init with Some a => Some (a_path a, flush a) | None => None end.

Inductive perr := EDoubleEq | EMissingPath | EMissingKey.
Inductive pres := POk (path : list N) (args : list (list N * list N)) | PErr (e : perr).
Definition is_nil {A} (l : list A) : bool := match l with [] => true | _ => false end.
Definition trim2 (kv : list N * list N) := (trim (fst kv), trim (snd kv)).
(* plugin_parser as a whole (the pinned tree additionally asserted `!s.is_empty()`; see known_findings.json) *)
Definition parse (s : list N) : pres :=
  match parse_raw s with
  | None => PErr EDoubleEq
  | Some (p, l) =>
    let p' := trim p in let l' := map trim2 l in
    if is_nil p' then PErr EMissingPath
    else if existsb (fun kv => is_nil (fst kv)) l' then PErr EMissingKey
    else POk p' l'
  end.

(* how a specification is written: ',' and '=' inside a component are escaped with a backslash;
   an argument whose value is empty may omit its '=' *)
Definition esc (c : list N) : list N := flat_map (fun x => if is_sep x then [bs; x] else [x]) c.
Definition render_arg (okv : bool * (list N * list N)) : list N :=
  let '(omit, (k, v)) := okv in comma :: esc k ++ (if omit then [] else eqc :: esc v).
Definition render_opt (p : list N) (l : list (bool * (list N * list N))) : list N := esc p ++ flat_map render_arg l.
Definition ps_render (p : list N) (l : list (list N * list N)) : list N := render_opt p (map (fun kv => (false, kv)) l).
Definition no_trailing_bs (c : list N) : Prop := last c 0 <> bs.
