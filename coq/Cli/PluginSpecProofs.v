From Coq Require Import List Bool NArith Lia.
From SliceV Require Import Cli.PluginSpec.
Import ListNotations.
Open Scope N_scope.

Definition ok (c rest : list N) : Prop :=
  match rest with d :: _ => is_sep d = true -> no_trailing_bs c | [] => True end.

Lemma head_esc_not_sep c rest : c <> [] -> match esc c ++ rest with d :: _ => is_sep d = false | [] => True end.
Proof. destruct c as [|x c]; [congruence|]. intros _. cbn. destruct (is_sep x) eqn:E; cbn; auto. Qed.

Lemma go_esc : forall c rest a, ok c rest -> go (esc c ++ rest) a = go rest (fold_left push_char c a).
Proof.
  induction c as [|x c IH]; intros rest a Hok; [reflexivity|].
  assert (Hok': ok c rest).
  { unfold ok in *. destruct rest as [|d r]; auto. intros Hd. specialize (Hok Hd).
    unfold no_trailing_bs in *. destruct c as [|y c']; [cbn; discriminate|]. exact Hok. }
  cbn [esc flat_map]. fold (esc c). cbn [fold_left].
  destruct (is_sep x) eqn:Ex.
  - cbn [app go]. rewrite N.eqb_refl. rewrite Ex. apply IH; auto.
  - cbn [app go].
    destruct (N.eqb_spec x bs) as [Eb|Eb].
    + subst x.
      destruct c as [|y c'].
      * cbn [esc flat_map app]. destruct rest as [|d r]; [reflexivity|].
        destruct (is_sep d) eqn:Ed.
        -- exfalso. unfold ok, no_trailing_bs in Hok. apply (Hok Ed). reflexivity.
        -- cbn [fold_left]. reflexivity.
      * pose proof (head_esc_not_sep (y :: c') rest ltac:(discriminate)) as Hh.
        destruct (esc (y :: c') ++ rest) as [|d r] eqn:Er.
        -- exfalso. cbn in Er. destruct (is_sep y); discriminate Er.
        -- rewrite Hh. rewrite <- Er. apply IH; auto.
    + unfold is_sep in Ex. apply orb_false_iff in Ex as [Ec Ee]. rewrite Ec, Ee. apply IH; auto.
Qed.

Lemma push_path c a : a_mode a = MPath ->
  fold_left push_char c a = {| a_path := a_path a ++ c; a_done := a_done a; a_key := a_key a; a_val := a_val a; a_mode := MPath |}.
Proof. revert a; induction c as [|x c IH]; intros a Hm; cbn.
  - destruct a; cbn in *; subst; rewrite app_nil_r; reflexivity.
  - rewrite IH; unfold push_char; rewrite Hm; cbn; auto. rewrite <- app_assoc. reflexivity. Qed.
Lemma push_key c a : a_mode a = MKey ->
  fold_left push_char c a = {| a_path := a_path a; a_done := a_done a; a_key := a_key a ++ c; a_val := a_val a; a_mode := MKey |}.
Proof. revert a; induction c as [|x c IH]; intros a Hm; cbn.
  - destruct a; cbn in *; subst; rewrite app_nil_r; reflexivity.
  - rewrite IH; unfold push_char; rewrite Hm; cbn; auto. rewrite <- app_assoc. reflexivity. Qed.
Lemma push_val c a : a_mode a = MVal ->
  fold_left push_char c a = {| a_path := a_path a; a_done := a_done a; a_key := a_key a; a_val := a_val a ++ c; a_mode := MVal |}.
Proof. revert a; induction c as [|x c IH]; intros a Hm; cbn.
  - destruct a; cbn in *; subst; rewrite app_nil_r; reflexivity.
  - rewrite IH; unfold push_char; rewrite Hm; cbn; auto. rewrite <- app_assoc. reflexivity. Qed.

(* a written argument: components do not end in a backslash; '=' may be omitted only for an empty value
   of a non-empty key *)
Definition wf_arg (okv : bool * (list N * list N)) : Prop :=
  let '(omit, (k, v)) := okv in no_trailing_bs k /\ no_trailing_bs v /\ (omit = true -> v = [] /\ k <> []).

Definition tl_ok (tl : list N) : Prop := tl = [] \/ tl = [comma].
Lemma go_tl tl a : tl_ok tl -> go tl a = Some a.
Proof. intros [->| ->]; reflexivity. Qed.

Lemma go_args : forall l tl a, Forall wf_arg l -> tl_ok tl ->
  exists a', go (flat_map render_arg l ++ tl) a = Some a' /\ a_path a' = a_path a /\
             flush a' = flush a ++ map snd l /\ (l = [] -> a' = a).
Proof.
  induction l as [|[omit [k v]] l IH]; intros tl a Hwf Htl.
  - exists a; cbn. rewrite go_tl by auto. rewrite app_nil_r; auto.
  - inversion Hwf as [|? ? Hw Hl]; subst. cbn in Hw. destruct Hw as (Hk & Hv & Hom).
    cbn [flat_map render_arg fst snd app]. rewrite <- !app_assoc. cbn [app go].
    change (comma =? bs) with false. rewrite N.eqb_refl.
    (* something follows the comma, so a new argument starts *)
    assert (Hne: esc k ++ ((if omit then [] else eqc :: esc v) ++ flat_map render_arg l ++ tl) <> []).
    { destruct omit.
      - destruct (Hom eq_refl) as [_ Hk0]. destruct k; [congruence|]. cbn. destruct (is_sep n); discriminate.
      - destruct (esc k); discriminate. }
    destruct (esc k ++ _) as [|z zs] eqn:Ez; [congruence|]. rewrite <- Ez. clear Ez Hne z zs.
    assert (Hnext : forall rest', ok k ((flat_map render_arg l ++ tl) ++ rest') ).
    { intros rest'. unfold ok. destruct l as [|[o' [k' v']] l']; cbn.
      - destruct Htl as [->| ->]; cbn; auto. destruct rest'; auto.
      - intros _; exact Hk. }
    destruct omit.
    + destruct (Hom eq_refl) as [-> Hk0]. cbn [app].
      specialize (Hnext []). rewrite app_nil_r in Hnext.
      rewrite go_esc by exact Hnext.
      rewrite push_key by reflexivity. cbn [a_path a_done a_key a_val a_mode new_arg app].
      destruct (IH tl {| a_path := a_path a; a_done := flush a; a_key := k; a_val := []; a_mode := MKey |} Hl Htl)
        as (a' & Hgo & Hp & Hf & _).
      exists a'. split; [exact Hgo|]. split; [exact Hp|]. split; [|discriminate].
      rewrite Hf. cbn [flush a_mode a_done a_key a_val map snd]. rewrite <- app_assoc. reflexivity.
    + rewrite go_esc by (unfold ok; cbn; intros _; exact Hk).
      rewrite push_key by reflexivity. cbn [a_path a_done a_key a_val a_mode new_arg app go].
      change (eqc =? bs) with false. change (eqc =? comma) with false. rewrite N.eqb_refl.
      cbn [a_mode a_path a_done a_key a_val].
      rewrite go_esc.
      2:{ unfold ok. destruct l as [|[o' [k' v']] l']; cbn.
          - destruct Htl as [->| ->]; cbn; auto.
          - intros _; exact Hv. }
      rewrite push_val by reflexivity. cbn [a_path a_done a_key a_val a_mode app].
      destruct (IH tl {| a_path := a_path a; a_done := flush a; a_key := k; a_val := v; a_mode := MVal |} Hl Htl)
        as (a' & Hgo & Hp & Hf & _).
      exists a'. split; [exact Hgo|]. split; [exact Hp|]. split; [|discriminate].
      rewrite Hf. cbn [flush a_mode a_done a_key a_val map snd]. rewrite <- app_assoc. reflexivity.
Qed.

(* the raw round trip, with optional '=' and an optional single trailing comma *)
Theorem raw_roundtrip_opt p l tl : no_trailing_bs p -> Forall wf_arg l -> tl_ok tl ->
  parse_raw (render_opt p l ++ tl) = Some (p, map snd l).
Proof.
  intros Hp Hl Htl. unfold parse_raw, render_opt. rewrite <- app_assoc.
  rewrite go_esc.
  2:{ unfold ok. destruct l as [|[o' [k' v']] l']; cbn.
      - destruct Htl as [->| ->]; cbn; auto.
      - intros _; exact Hp. }
  rewrite push_path by reflexivity. cbn [ps_init a_path a_done a_key a_val app].
  destruct (go_args l tl {| a_path := p; a_done := []; a_key := []; a_val := []; a_mode := MPath |} Hl Htl)
    as (a' & Hgo & Hpa & Hf & _).
  rewrite Hgo, Hpa, Hf. reflexivity.
Qed.

Definition wf_kv (kv : list N * list N) : Prop := no_trailing_bs (fst kv) /\ no_trailing_bs (snd kv).
Lemma wf_plain l : Forall wf_kv l -> Forall wf_arg (map (fun kv => (false, kv)) l).
Proof.
  induction 1 as [|[k v] l [H1 H2] _ IH]; cbn [map]; constructor; auto.
  cbn in *. split; [exact H1|]. split; [exact H2|]. intros; discriminate.
Qed.
Lemma map_snd_plain (l : list (list N * list N)) : map snd (map (fun kv => (false, kv)) l) = l.
Proof. induction l; cbn; congruence. Qed.

Theorem raw_roundtrip p l : no_trailing_bs p -> Forall wf_kv l -> parse_raw (ps_render p l) = Some (p, l).
Proof.
  intros Hp Hl. unfold ps_render. rewrite <- (app_nil_r (render_opt _ _)).
  rewrite raw_roundtrip_opt; [|auto|apply wf_plain; auto|left; auto]. rewrite map_snd_plain. reflexivity.
Qed.

Lemma is_nil_false {A} (l : list A) : l <> [] -> is_nil l = false.
Proof. destruct l; [congruence|reflexivity]. Qed.
Lemma keys_ok l : Forall (fun kv => trim (fst kv) <> []) l -> existsb (fun kv => is_nil (fst kv)) (map trim2 l) = false.
Proof. induction 1 as [|kv l H _ IH]; cbn; auto. rewrite is_nil_false by exact H. exact IH. Qed.

(* C19: what was written is what is parsed, trimmed, in order *)
Theorem spec_roundtrip p l : no_trailing_bs p -> Forall wf_kv l ->
  trim p <> [] -> Forall (fun kv => trim (fst kv) <> []) l ->
  parse (ps_render p l) = POk (trim p) (map trim2 l).
Proof.
  intros Hp Hl Hpne Hk. unfold parse. rewrite raw_roundtrip by auto.
  rewrite is_nil_false by auto. rewrite keys_ok by auto. reflexivity.
Qed.
Theorem spec_roundtrip_opt p l tl : no_trailing_bs p -> Forall wf_arg l -> tl_ok tl ->
  trim p <> [] -> Forall (fun kv => trim (fst kv) <> []) (map snd l) ->
  parse (render_opt p l ++ tl) = POk (trim p) (map trim2 (map snd l)).
Proof.
  intros Hp Hl Htl Hpne Hk. unfold parse. rewrite raw_roundtrip_opt by auto.
  rewrite is_nil_false by auto. rewrite keys_ok by auto. reflexivity.
Qed.

Theorem rejects_empty_path p l : no_trailing_bs p -> Forall wf_kv l -> trim p = [] ->
  parse (ps_render p l) = PErr EMissingPath.
Proof. intros Hp Hl He. unfold parse. rewrite raw_roundtrip by auto. rewrite He. reflexivity. Qed.
Theorem rejects_empty_key p l : no_trailing_bs p -> Forall wf_kv l -> trim p <> [] ->
  Exists (fun kv => trim (fst kv) = []) l -> parse (ps_render p l) = PErr EMissingKey.
Proof.
  intros Hp Hl Hpne He. unfold parse. rewrite raw_roundtrip by auto. rewrite is_nil_false by auto.
  replace (existsb _ _) with true; [reflexivity|]. symmetry. apply existsb_exists.
  apply Exists_exists in He as (kv & Hin & Hkv). exists (trim2 kv). split; [apply in_map; auto|].
  cbn. rewrite Hkv. reflexivity.
Qed.
(* a second unescaped '=' inside one argument is refused, whatever follows *)
Theorem rejects_second_equals p l k v rest : no_trailing_bs p -> Forall wf_kv l -> no_trailing_bs k -> no_trailing_bs v ->
  parse (ps_render p l ++ comma :: esc k ++ eqc :: esc v ++ eqc :: rest) = PErr EDoubleEq.
Proof.
  intros Hp Hl Hk Hv. unfold parse, parse_raw, ps_render, render_opt. rewrite <- app_assoc.
  rewrite go_esc.
  2:{ unfold ok. destruct l as [|[k' v'] l']; cbn; intros _; exact Hp. }
  rewrite push_path by reflexivity. cbn [ps_init a_path a_done a_key a_val app].
  (* run over the well-formed arguments, then the offending one *)
  assert (G : forall (l : list (list N * list N)) a, Forall wf_kv l ->
     go (flat_map render_arg (map (fun kv => (false, kv)) l) ++ comma :: esc k ++ eqc :: esc v ++ eqc :: rest) a = None).
  { clear l Hl. induction l as [|[k' v'] l IH]; intros a Hl.
    - cbn [map flat_map app go]. change (comma =? bs) with false. rewrite N.eqb_refl.
      destruct (esc k ++ eqc :: esc v ++ eqc :: rest) as [|z zs] eqn:Ez; [destruct (esc k); discriminate|]. rewrite <- Ez. clear Ez z zs.
      rewrite go_esc by (unfold ok; cbn; intros _; exact Hk).
      rewrite push_key by reflexivity. cbn [a_path a_done a_key a_val a_mode new_arg app go].
      change (eqc =? bs) with false. change (eqc =? comma) with false. rewrite N.eqb_refl. cbn [a_mode].
      rewrite go_esc by (unfold ok; cbn; intros _; exact Hv).
      rewrite push_val by reflexivity. cbn [go]. change (eqc =? bs) with false. change (eqc =? comma) with false.
      rewrite N.eqb_refl. reflexivity.
    - inversion Hl as [|? ? [Hk' Hv'] Hl']; subst. cbn in Hk', Hv'.
      cbn [map flat_map render_arg app]. rewrite <- !app_assoc. cbn [app go].
      change (comma =? bs) with false. rewrite N.eqb_refl.
      destruct (esc k' ++ _) as [|z zs] eqn:Ez; [destruct (esc k'); discriminate|]. rewrite <- Ez. clear Ez z zs.
      rewrite go_esc by (unfold ok; cbn; intros _; exact Hk').
      rewrite push_key by reflexivity. cbn [a_path a_done a_key a_val a_mode new_arg app go].
      change (eqc =? bs) with false. change (eqc =? comma) with false. rewrite N.eqb_refl. cbn [a_mode a_path a_done a_key a_val].
      rewrite go_esc.
      2:{ unfold ok. destruct l as [|[k2 v2] l2]; cbn; intros _; exact Hv'. }
      apply IH. exact Hl'. }
  rewrite G by exact Hl. reflexivity.
Qed.
Theorem empty_string_rejected : parse [] = PErr EMissingPath.
Proof. reflexivity. Qed.

(* acceptance is sound for EVERY input string, not only for rendered ones: whatever was typed after --generator, an accepted
   specification has a non-empty path and no argument with an empty key (so "rejected rather than accepted" has no gap) *)
Theorem accepted_is_wellformed s p l : parse s = POk p l -> p <> [] /\ Forall (fun kv => fst kv <> []) l.
Proof.
  unfold parse. destruct (parse_raw s) as [[p0 l0]|]; [|discriminate]. cbv zeta.
  destruct (is_nil (trim p0)) eqn:Ep; [discriminate|].
  destruct (existsb (fun kv => is_nil (fst kv)) (map trim2 l0)) eqn:Ee; [discriminate|].
  intros H. inversion H; subst. split.
  - intros X. rewrite X in Ep. discriminate.
  - apply Forall_forall. intros kv Hin X.
    assert (existsb (fun kv => is_nil (fst kv)) (map trim2 l0) = true) by (apply existsb_exists; exists kv; split; [assumption|rewrite X; reflexivity]).
    congruence.
Qed.
(* and a second unescaped '=' is the only way to get EDoubleEq: the error classes are decided by the raw scan alone *)
Theorem double_eq_iff_scan_fails s : parse s = PErr EDoubleEq <-> parse_raw s = None.
Proof.
  unfold parse. destruct (parse_raw s) as [[p0 l0]|]; [|tauto]. cbv zeta. split; [|discriminate].
  destruct (is_nil (trim p0)); [discriminate|]. destruct (existsb _ _); discriminate.
Qed.
