(* Literal values (C02): string arguments and integer literals read back as what was written. *)
From Coq Require Import List Bool NArith ZArith Arith Lia.
From SliceV Require Import Cli.PluginSpec Doc.Comment Syntax.Tokens Syntax.Lexer Syntax.Parser.
Import ListNotations.
Local Open Scope N_scope.

(* ------------------------------------------------------------------------------------------------ string arguments *)
(* writing a string argument: a backslash in front of every backslash and double quote (and, optionally, of any other character) *)
Definition must_escape (c : N) : bool := (c =? 92) || (c =? 34).
Fixpoint escape (choice : list bool) (s : list N) : list N :=
  match s with
  | [] => []
  | c :: r => let '(b, ch) := match choice with b :: ch => (b, ch) | [] => (false, []) end in
              if must_escape c || b then 92 :: c :: escape ch r else c :: escape ch r
  end.
Lemma unescape_pair c t : unescape false (92 :: c :: t) = c :: unescape false t.
Proof. cbn [unescape]. change (92 =? 92) with true. cbn [andb negb]. rewrite andb_false_r. reflexivity. Qed.
Lemma unescape_plain c t : (c =? 92) = false -> unescape false (c :: t) = c :: unescape false t.
Proof. intros H. cbn [unescape]. rewrite H. reflexivity. Qed.
Theorem unescape_escape choice s : unescape false (escape choice s) = s.
Proof.
  revert choice. induction s as [|c r IH]; intros choice; [reflexivity|]. cbn [escape].
  destruct choice as [|b ch]; destruct (must_escape c || _) eqn:E.
  - rewrite unescape_pair, IH. reflexivity.
  - rewrite orb_false_r in E. unfold must_escape in E. apply orb_false_iff in E as [E1 _]. rewrite unescape_plain, IH by exact E1. reflexivity.
  - rewrite unescape_pair, IH. reflexivity.
  - apply orb_false_iff in E as [E _]. unfold must_escape in E. apply orb_false_iff in E as [E1 _]. rewrite unescape_plain, IH by exact E1. reflexivity.
Qed.
(* the lexer finds the end of the literal: the written text up to the closing quote, whatever follows *)
Lemma scan_string_escape choice s : forallb (fun c => negb (c =? 10)) s = true -> forall acc rest,
  scan_string false (escape choice s ++ 34 :: rest) acc = inl (rev acc ++ escape choice s, rest).
Proof.
  revert choice. induction s as [|c r IH]; intros choice Hs acc rest.
  - cbn [escape app scan_string]. cbn. rewrite app_nil_r. reflexivity.
  - cbn [forallb] in Hs. apply andb_true_iff in Hs as [Hc Hr]. apply negb_true_iff in Hc.
    cbn [escape]. destruct choice as [|b ch]; destruct (must_escape c || _) eqn:E; cbn [app scan_string].
    + cbn. rewrite Hc. rewrite IH by exact Hr. cbn [rev]. rewrite <- !app_assoc. reflexivity.
    + rewrite orb_false_r in E. unfold must_escape in E. apply orb_false_iff in E as [E1 E2]. rewrite Hc, E2, E1. rewrite IH by exact Hr. cbn [rev]. rewrite <- app_assoc. reflexivity.
    + cbn. rewrite Hc. rewrite IH by exact Hr. cbn [rev]. rewrite <- !app_assoc. reflexivity.
    + apply orb_false_iff in E as [E _]. unfold must_escape in E. apply orb_false_iff in E as [E1 E2]. rewrite Hc, E2, E1. rewrite IH by exact Hr. cbn [rev]. rewrite <- app_assoc. reflexivity.
Qed.
Theorem string_argument_roundtrip choice s rest : forallb (fun c => negb (c =? 10)) s = true ->
  exists raw, scan_string false (escape choice s ++ 34 :: rest) [] = inl (raw, rest) /\ unescape false raw = s.
Proof. intros H. exists (escape choice s). split; [apply (scan_string_escape choice s H [] rest)|apply unescape_escape]. Qed.

(* ------------------------------------------------------------------------------------------------ integer literals *)
Local Open Scope Z_scope.
(* a literal is a list of digit values written most significant first, in upper or lower case, with any number of underscores *)
Definition digit_char (upper : bool) (d : Z) : N :=
  if d <? 10 then Z.to_N (d + 48) else if upper then Z.to_N (d + 55) else Z.to_N (d + 87).
Definition value_of (base : Z) (ds : list Z) : Z := fold_left (fun acc d => acc * base + d) ds 0.
Lemma digit_val_char u d : 0 <= d < 16 -> digit_val (digit_char u d) = Some d.
Proof.
  intros H. assert (C : d = 0 \/ d = 1 \/ d = 2 \/ d = 3 \/ d = 4 \/ d = 5 \/ d = 6 \/ d = 7 \/ d = 8 \/ d = 9 \/ d = 10 \/ d = 11 \/ d = 12 \/ d = 13 \/ d = 14 \/ d = 15) by lia.
  destruct u; repeat (destruct C as [->|C]; [reflexivity|]); subst; reflexivity.
Qed.
Lemma fold_ge base ds : 1 < base -> Forall (fun d => 0 <= d) ds -> forall acc, 0 <= acc -> acc <= fold_left (fun a d => a * base + d) ds acc.
Proof.
  intros Hb. induction 1 as [|d ds Hd _ IH]; intros acc Ha; cbn [fold_left]; [lia|].
  etransitivity; [|apply IH; nia]. nia.
Qed.
Lemma radix_fold_digits base us ds : 1 < base <= 16 -> length us = length ds -> Forall (fun d => 0 <= d < base) ds -> forall acc, 0 <= acc ->
  fold_left (fun a d => a * base + d) ds acc <= I128_MAX ->
  radix_fold base (map (fun p => digit_char (fst p) (snd p)) (combine us ds)) acc = IntOk (fold_left (fun a d => a * base + d) ds acc).
Proof.
  intros Hb. revert ds. induction us as [|u us IH]; intros [|d ds] Hl Hall acc Ha Hmax; cbn [length] in Hl; try discriminate; [reflexivity|].
  inversion Hall as [|? ? Hd Hds]; subst. cbn [combine map radix_fold fst snd fold_left] in *.
  rewrite digit_val_char by lia. replace (d <? base) with true by (symmetry; apply Z.ltb_lt; lia).
  assert (Hle : acc * base + d <= I128_MAX).
  { etransitivity; [|exact Hmax]. apply fold_ge; [lia| |nia]. eapply Forall_impl; [|exact Hds]. cbn. intros; lia. }
  replace (acc * base + d >? I128_MAX) with false by (symmetry; rewrite Z.gtb_ltb; apply Z.ltb_ge; exact Hle).
  apply IH; auto; try lia; nia.
Qed.
(* the value of a written literal is the number its digits denote in the base its prefix announces, wherever underscores are put *)
Definition prefix_of (base : Z) : list N := if base =? 2 then [48; 98]%N else if base =? 16 then [48; 120]%N else [].
Theorem integer_literal_value base us ds s : (base = 2 \/ base = 10 \/ base = 16) -> ds <> [] -> length us = length ds ->
  Forall (fun d => 0 <= d < base) ds -> value_of base ds <= I128_MAX ->
  filter (fun c => negb (c =? 95)%N) s = prefix_of base ++ map (fun p => digit_char (fst p) (snd p)) (combine us ds) ->
  parse_int s = (IntOk (value_of base ds), Z.to_N base).
Proof.
  intros Hb Hne Hl Hall Hmax Hs. unfold parse_int. rewrite Hs. unfold value_of in *.
  destruct us as [|u us]; destruct ds as [|d ds]; try congruence; cbn [length] in Hl; try discriminate.
  destruct Hb as [->|[->| ->]]; cbn [prefix_of Z.eqb app Pos.eqb].
  - cbn [combine map]. rewrite <- (radix_fold_digits 2 (u :: us) (d :: ds)); try (cbn [length]; lia); auto; try reflexivity.
  - (* decimal: the first two characters cannot spell a prefix, since decimal digit characters are below 'b' and 'x' *)
    assert (E : match map (fun p => digit_char (fst p) (snd p)) (combine (u :: us) (d :: ds)) with
                          | 48%N :: 98%N :: _ | 48%N :: 120%N :: _ => False | [] => False | _ => True end).
    { cbn [combine map fst snd]. inversion Hall as [|? ? Hd Hds]; subst.
      assert (Cd : d = 0 \/ d = 1 \/ d = 2 \/ d = 3 \/ d = 4 \/ d = 5 \/ d = 6 \/ d = 7 \/ d = 8 \/ d = 9) by lia.
      destruct us as [|u2 us]; destruct ds as [|d2 ds]; cbn [length] in Hl; try discriminate; cbn [combine map fst snd].
      - repeat (destruct Cd as [->|Cd]; [destruct u; exact I|]); subst; destruct u; exact I.
      - inversion Hds as [|? ? Hd2 _]; subst.
        assert (Cd2 : d2 = 0 \/ d2 = 1 \/ d2 = 2 \/ d2 = 3 \/ d2 = 4 \/ d2 = 5 \/ d2 = 6 \/ d2 = 7 \/ d2 = 8 \/ d2 = 9) by lia.
        repeat (destruct Cd as [->|Cd]; [repeat (destruct Cd2 as [->|Cd2]; [destruct u, u2; exact I|]); subst; destruct u, u2; exact I|]).
        subst. repeat (destruct Cd2 as [->|Cd2]; [destruct u, u2; exact I|]); subst; destruct u, u2; exact I. }
    pose proof (radix_fold_digits 10 (u :: us) (d :: ds) ltac:(lia) Hl Hall 0 ltac:(lia) Hmax) as R.
    destruct (map _ (combine (u :: us) (d :: ds))) as [|c1 [|c2 r]] eqn:M; try contradiction.
    + rewrite <- R. destruct c1 as [|p]; [reflexivity|]. repeat (destruct p as [p|p|]; try reflexivity).
    + rewrite <- R.
      destruct (N.eq_dec c1 48) as [->|N1].
      * destruct (N.eq_dec c2 98) as [->|N2]; [contradiction|]. destruct (N.eq_dec c2 120) as [->|N3]; [contradiction|].
        destruct c2 as [|p2]; [reflexivity|]. repeat (destruct p2 as [p2|p2|]; try reflexivity; try congruence).
      * destruct c1 as [|p1]; [reflexivity|]. repeat (destruct p1 as [p1|p1|]; try reflexivity; try congruence).
  - cbn [combine map]. rewrite <- (radix_fold_digits 16 (u :: us) (d :: ds)); try (cbn [length]; lia); auto; try reflexivity.
Qed.
(* a digit that does not belong to the base, or a value beyond i128, is diagnosed, never silently read as something else *)
Theorem integer_literal_checked s z b : parse_int s = (IntOk z, b) -> 0 <= z <= I128_MAX.
Proof.
  assert (R : forall base s acc z, 0 <= acc <= I128_MAX -> 1 < base -> radix_fold base s acc = IntOk z -> 0 <= z <= I128_MAX).
  { intros base. induction s0 as [|c r IH]; intros acc z0 Ha Hb H; cbn [radix_fold] in H; [inversion H; subst; exact Ha|].
    destruct (digit_val c) as [d|] eqn:D; [|discriminate]. destruct (d <? base) eqn:L; [|discriminate].
    destruct (acc * base + d >? I128_MAX) eqn:G; [destruct (forallb _ r); discriminate|].
    apply IH in H; auto. rewrite Z.gtb_ltb in G. apply Z.ltb_ge in G. split; [|exact G].
    assert (0 <= d). { unfold digit_val in D. repeat (destruct (_ && _) in D); inversion D; lia. } nia. }
  unfold parse_int. intros H. destruct (filter _ s) as [|c1 [|c2 r]] eqn:F.
  - inversion H.
  - assert (radix_fold 10 [c1] 0 = IntOk z) by (destruct c1 as [|p]; [inversion H; reflexivity|]; repeat (destruct p as [p|p|]; try (inversion H; reflexivity))).
    eapply R; eauto; unfold I128_MAX; lia.
  - assert (C : (c1 = 48%N /\ c2 = 98%N /\ radix_fold 2 r 0 = IntOk z /\ r <> []) \/ (c1 = 48%N /\ c2 = 120%N /\ radix_fold 16 r 0 = IntOk z /\ r <> []) \/ radix_fold 10 (c1 :: c2 :: r) 0 = IntOk z).
    { destruct (N.eq_dec c1 48) as [->|N1].
      - destruct (N.eq_dec c2 98) as [->|N2]; [left; destruct r; inversion H; repeat split; auto; discriminate|].
        destruct (N.eq_dec c2 120) as [->|N3]; [right; left; destruct r; inversion H; repeat split; auto; discriminate|].
        right; right. destruct c2 as [|p2]; [inversion H; reflexivity|]. repeat (destruct p2 as [p2|p2|]; try (inversion H; reflexivity); try congruence).
      - right; right. destruct c1 as [|p1]; [inversion H; reflexivity|]. repeat (destruct p1 as [p1|p1|]; try (inversion H; reflexivity); try congruence). }
    destruct C as [(_ & _ & C & _)|[(_ & _ & C & _)|C]]; eapply R; eauto; unfold I128_MAX; lia.
Qed.
