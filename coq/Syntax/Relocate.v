(* The parser never looks at locations (C02): on two token sequences of the same kinds -- whatever their locations -- every
   production returns results that are equal once locations are erased: the same syntax tree, the same diagnostics in the same
   order, the same error (same offending token kind), for every input, well-formed or not.  With LexerProofs.layout_independent:
   what a file means cannot depend on white space, line breaks or comments. *)
From Coq Require Import List Bool NArith ZArith Arith Lia.
From SliceV Require Import Cli.PluginSpec Doc.Comment Syntax.Tokens Syntax.Lexer Syntax.Parser.
Import ListNotations.
Local Open Scope nat_scope.

(* ------------------------------------------------------------------------------------------------ erasing locations *)
Definition Z0 : loc := mkloc 0 0.
Definition E0 : sspan := mksspan Z0 Z0.
Definition kind (p : ptok) : token := snd (fst p).
Definition ekind (e : plexerr) : lexerr := snd (fst e).
Definition er_ident (i : sident) : sident := mksident (si_val i) E0.
Definition er_attr (a : attr) : attr := mkattr (at_dir a) (at_args a) E0.
Fixpoint er_tref (t : stref) : stref := match t with STRef _ o attrs d => STRef E0 o (map er_attr attrs) (er_def d) end
with er_def (d : stdef) : stdef :=
  match d with
  | DPrim p => DPrim p | DSeq e => DSeq (er_tref e) | DDict k v => DDict (er_tref k) (er_tref v) | DRes k v => DRes (er_tref k) (er_tref v)
  | DNamed i => DNamed (er_ident i)
  end.
Definition er_doc (d : doclines) : doclines := map (fun p => (fst p, E0)) d.
Definition er_tag (t : option (Z * sspan)) : option (Z * sspan) := option_map (fun p => (fst p, E0)) t.
Definition er_member (m : smember) : smember :=
  mksmember (er_doc (sm_doc m)) (map er_attr (sm_attrs m)) (er_tag (sm_tag m)) (er_ident (sm_name m)) (sm_stream m) (er_tref (sm_type m)) E0.
Definition er_enumerator (e : enumerator) : enumerator :=
  mkenumerator (er_doc (se_doc e)) (map er_attr (se_attrs e)) (er_ident (se_name e)) (option_map (map er_member) (se_fields e)) (se_value e)
    (option_map (fun _ => E0) (se_explicit e)) E0.
Definition er_operation (o : operation) : operation :=
  mkoperation (er_doc (so_doc o)) (map er_attr (so_attrs o)) (so_idem o) (er_ident (so_name o)) (map er_member (so_params o)) (map er_member (so_rets o)) E0.
Definition er_defn (d : defn) : defn :=
  match d with
  | DStruct doc attrs c n fs _ => DStruct (er_doc doc) (map er_attr attrs) c (er_ident n) (map er_member fs) E0
  | DIface doc attrs n bs os _ => DIface (er_doc doc) (map er_attr attrs) (er_ident n) (map er_tref bs) (map er_operation os) E0
  | DEnum doc attrs c u n un es _ => DEnum (er_doc doc) (map er_attr attrs) c u (er_ident n) (option_map er_tref un) (map er_enumerator es) E0
  | DCustom doc attrs n _ => DCustom (er_doc doc) (map er_attr attrs) (er_ident n) E0
  | DAlias doc attrs n t _ => DAlias (er_doc doc) (map er_attr attrs) (er_ident n) (er_tref t) E0
  end.
Definition er_modul (m : modul) : modul := mkmodul (er_doc (mo_doc m)) (map er_attr (mo_attrs m)) (er_ident (mo_name m)) E0.
Definition er_file (f : file) : file := mkfile (map er_attr (f_attrs f)) (option_map er_modul (f_module f)) (map er_defn (f_defs f)).
Definition er_err (e : perror) : perror :=
  match e with PeToken t => PeToken (Z0, kind t, Z0) | PeEof _ => PeEof Z0 | PeLex x => PeLex (Z0, ekind x, Z0) | PeFuel => PeFuel end.

(* two parser states that differ in locations only *)
Definition ksim (s s' : pstate) : Prop :=
  map kind (ps_toks s) = map kind (ps_toks s') /\ option_map ekind (ps_lexerr s) = option_map ekind (ps_lexerr s') /\
  map fst (ps_diags s) = map fst (ps_diags s').
Definition rsim {A B} (er : A -> B) (r r' : pres A) : Prop :=
  match r, r' with
  | POk_ a s, POk_ a' s' => er a = er a' /\ ksim s s'
  | PErr_ e, PErr_ e' => er_err e = er_err e'
  | _, _ => False
  end.

Lemma rsim_bind {A B A' B'} (era : A -> A') (erb : B -> B') r r' (k k' : A -> pstate -> pres B) :
  rsim era r r' -> (forall a a' s s', era a = era a' -> ksim s s' -> rsim erb (k a s) (k' a' s')) -> rsim erb (pbind r k) (pbind r' k').
Proof.
  destruct r as [a s|e], r' as [a' s'|e']; unfold rsim at 1; cbn [pbind]; intros H0 H; try contradiction.
  - destruct H0 as [Ha Hs]. apply H; assumption.
  - exact H0.
Qed.
Lemma rsim_ok {A B} (er : A -> B) a a' s s' : er a = er a' -> ksim s s' -> rsim er (POk_ a s) (POk_ a' s').
Proof. intros; split; assumption. Qed.

(* what two similar states agree on *)
Lemma ksim_heads s s' : ksim s s' ->
  match ps_toks s, ps_toks s' with
  | [], [] => True
  | (l, t, e) :: r, (l', t', e') :: r' => t = t' /\ map kind r = map kind r'
  | _, _ => False
  end.
Proof.
  intros [H _]. destruct (ps_toks s) as [|[[l t] e] r], (ps_toks s') as [|[[l' t'] e'] r']; cbn in H; try discriminate; [exact I|].
  injection H as H1 H2. split; assumption.
Qed.
Lemma ksim_peek s s' : ksim s s' -> peek s = peek s'.
Proof.
  intros H. apply ksim_heads in H. unfold peek. destruct (ps_toks s) as [|[[l t] e] r], (ps_toks s') as [|[[l' t'] e'] r']; try contradiction; [reflexivity|].
  destruct H as [-> _]. reflexivity.
Qed.
Lemma ksim_is_tok s s' t : ksim s s' -> is_tok s t = is_tok s' t.
Proof. intros H. unfold is_tok. rewrite (ksim_peek _ _ H). reflexivity. Qed.
Lemma ksim_is_kw s s' k : ksim s s' -> is_kw s k = is_kw s' k.
Proof. intros H. unfold is_kw. rewrite (ksim_peek _ _ H). reflexivity. Qed.
Lemma ksim_advance s s' : ksim s s' -> ksim (advance s) (advance s').
Proof.
  intros H. pose proof (ksim_heads _ _ H) as Hh. unfold advance.
  destruct (ps_toks s) as [|[[l t] e] r] eqn:E1, (ps_toks s') as [|[[l' t'] e'] r'] eqn:E2; try contradiction; [exact H|].
  destruct Hh as [_ Hr]. destruct H as (_ & H2 & H3). repeat split; cbn; assumption.
Qed.
Lemma ksim_add_diag s s' d sp sp' : ksim s s' -> ksim (add_diag s d sp) (add_diag s' d sp').
Proof. intros (H1 & H2 & H3). repeat split; cbn; try assumption. rewrite !map_app, H3. reflexivity. Qed.
Lemma fail_sim {A B} (er : A -> B) s s' : ksim s s' -> rsim er (fail_here s) (fail_here s').
Proof.
  intros H. pose proof (ksim_heads _ _ H) as Hh. destruct H as (_ & H2 & _). unfold fail_here.
  destruct (ps_toks s) as [|[[l t] e] r], (ps_toks s') as [|[[l' t'] e'] r']; try contradiction.
  - destruct (ps_lexerr s) as [[[a x] b]|], (ps_lexerr s') as [[[a' x'] b']|]; cbn in H2 |- *; try discriminate; [injection H2 as ->; reflexivity|reflexivity].
  - destruct Hh as [-> _]. reflexivity.
Qed.
Lemma expect_sim t s s' : ksim s s' -> rsim (fun _ : unit => tt) (expect t s) (expect t s').
Proof.
  intros H. unfold expect. rewrite (ksim_is_tok _ _ t H). destruct (is_tok s' t); [apply rsim_ok; [reflexivity|apply ksim_advance; exact H]|apply fail_sim; exact H].
Qed.
Lemma expect_kw_sim k s s' : ksim s s' -> rsim (fun _ : unit => tt) (expect_kw k s) (expect_kw k s').
Proof.
  intros H. unfold expect_kw. rewrite (ksim_is_kw _ _ k H). destruct (is_kw s' k); [apply rsim_ok; [reflexivity|apply ksim_advance; exact H]|apply fail_sim; exact H].
Qed.
Lemma opt_tok_sim t s s' : ksim s s' -> fst (opt_tok t s) = fst (opt_tok t s') /\ ksim (snd (opt_tok t s)) (snd (opt_tok t s')).
Proof. intros H. unfold opt_tok. rewrite (ksim_is_tok _ _ t H). destruct (is_tok s' t); cbn; split; try reflexivity; [apply ksim_advance|]; exact H. Qed.
Lemma opt_kw_sim k s s' : ksim s s' -> fst (opt_kw k s) = fst (opt_kw k s') /\ ksim (snd (opt_kw k s)) (snd (opt_kw k s')).
Proof. intros H. unfold opt_kw. rewrite (ksim_is_kw _ _ k H). destruct (is_kw s' k); cbn; split; try reflexivity; [apply ksim_advance|]; exact H. Qed.

(* ------------------------------------------------------------------------------------------------ productions *)
Definition idN (x : list N) : list N := x.
Ltac heads H := let Hh := fresh "Hh" in pose proof (ksim_heads _ _ H) as Hh;
  match type of Hh with match ps_toks ?s with _ => _ end =>
    match type of Hh with context [ps_toks ?s'] => lazymatch s' with s => fail | _ =>
      let l := fresh "l" in let t := fresh "t" in let e := fresh "e" in let r := fresh "r" in
      let l' := fresh "l'" in let t' := fresh "t'" in let e' := fresh "e'" in let r' := fresh "r'" in
      destruct (ps_toks s) as [|[[l t] e] r], (ps_toks s') as [|[[l' t'] e'] r']; try contradiction;
      [|let Ht := fresh "Ht" in destruct Hh as [Ht _]; subst t'] end end end.

Lemma p_identifier_sim s s' : ksim s s' -> rsim er_ident (p_identifier s) (p_identifier s').
Proof.
  intros H. pose proof (ksim_advance _ _ H) as Ha. pose proof (fail_sim er_ident _ _ H) as Hf. unfold p_identifier.
  heads H; [exact Hf|]. destruct t; try exact Hf. apply rsim_ok; [reflexivity|exact Ha].
Qed.
Lemma p_scoped_tail_sim fuel : forall acc s s', ksim s s' -> rsim idN (p_scoped_tail fuel acc s) (p_scoped_tail fuel acc s').
Proof.
  induction fuel as [|f IH]; intros acc s s' H; cbn [p_scoped_tail]; [reflexivity|].
  rewrite (ksim_is_tok _ _ TkDColon H). destruct (is_tok s' TkDColon); [|apply rsim_ok; [reflexivity|exact H]].
  pose proof (ksim_advance _ _ H) as H1. pose proof (ksim_advance _ _ H1) as H2. pose proof (fail_sim idN _ _ H1) as Hf.
  heads H1; [exact Hf|]. destruct t; try exact Hf. apply IH. exact H2.
Qed.
Lemma p_relative_identifier_sim fuel s s' : ksim s s' -> rsim er_ident (p_relative_identifier fuel s) (p_relative_identifier fuel s').
Proof.
  intros H. pose proof (ksim_advance _ _ H) as Ha. pose proof (fail_sim er_ident _ _ H) as Hf. unfold p_relative_identifier.
  heads H; [exact Hf|]. destruct t; try exact Hf.
  eapply rsim_bind; [apply p_scoped_tail_sim; exact Ha|]. intros a a' s1 s1' E K. unfold idN in E. subst a'. apply rsim_ok; [reflexivity|exact K].
Qed.
Lemma p_global_identifier_sim fuel s s' : ksim s s' -> rsim er_ident (p_global_identifier fuel s) (p_global_identifier fuel s').
Proof.
  intros H. unfold p_global_identifier. rewrite (ksim_is_tok _ _ TkDColon H). destruct (is_tok s' TkDColon); [|apply fail_sim; exact H].
  pose proof (ksim_advance _ _ H) as H1. pose proof (ksim_advance _ _ H1) as H2. pose proof (fail_sim er_ident _ _ H1) as Hf.
  cbv zeta. heads H1; [exact Hf|]. destruct t; try exact Hf.
  eapply rsim_bind; [apply p_scoped_tail_sim; exact H2|]. intros a a' s1 s1' E K. unfold idN in E. subst a'. apply rsim_ok; [reflexivity|exact K].
Qed.
Definition er_int (p : Z * sspan) : Z := fst p.
Lemma p_integer_sim s s' : ksim s s' -> rsim er_int (p_integer s) (p_integer s').
Proof.
  intros H. pose proof (ksim_advance _ _ H) as Ha. pose proof (fail_sim er_int _ _ H) as Hf. unfold p_integer.
  heads H; [exact Hf|]. destruct t; try exact Hf. cbv zeta.
  destruct (parse_int s0) as [[z| |] b]; apply rsim_ok; try reflexivity; try exact Ha; apply ksim_add_diag; exact Ha.
Qed.
Lemma p_signed_integer_sim s s' : ksim s s' -> rsim er_int (p_signed_integer s) (p_signed_integer s').
Proof.
  intros H. unfold p_signed_integer. rewrite (ksim_is_tok _ _ TkMinus H). destruct (is_tok s' TkMinus); [|apply p_integer_sim; exact H].
  cbv zeta. eapply rsim_bind; [apply p_integer_sim; apply ksim_advance; exact H|]. intros a a' s1 s1' E K. unfold er_int in E.
  apply rsim_ok; [unfold er_int; cbn [fst]; rewrite E; reflexivity|exact K].
Qed.
Lemma p_tag_sim s s' : ksim s s' -> rsim er_int (p_tag s) (p_tag s').
Proof.
  intros H. unfold p_tag.
  eapply rsim_bind; [apply expect_kw_sim; exact H|]. intros u1 u1' s1 s1' _ K1.
  eapply rsim_bind; [apply expect_sim; exact K1|]. intros u2 u2' s2 s2' _ K2.
  eapply rsim_bind; [apply p_signed_integer_sim; exact K2|]. intros i i' s3 s3' Ei K3. unfold er_int in Ei.
  eapply rsim_bind; [apply expect_sim; exact K3|]. intros u4 u4' s4 s4' _ K4.
  cbv zeta. rewrite Ei. apply rsim_ok; [reflexivity|]. destruct ((fst i' <? 0) || (fst i' >? 2147483647))%Z; [apply ksim_add_diag|]; exact K4.
Qed.

Definition idA (x : list (list N)) : list (list N) := x.
Lemma p_attr_args_sim fuel : forall s s', ksim s s' -> rsim idA (p_attr_args fuel s) (p_attr_args fuel s').
Proof.
  induction fuel as [|f IH]; intros s s' H; cbn [p_attr_args]; [reflexivity|].
  pose proof (ksim_advance _ _ H) as H1. pose proof (ksim_advance _ _ H1) as H2.
  pose proof (ksim_is_tok _ _ TkComma H1) as Ec. pose proof (ksim_is_tok _ _ TkRParen H2) as Er. pose proof (fail_sim idA _ _ H2) as Hf. pose proof (IH _ _ H2) as B.
  heads H; [apply rsim_ok; [reflexivity|exact H]|].
  destruct t; try (apply rsim_ok; [reflexivity|exact H]); cbv zeta; rewrite Ec; (destruct (is_tok (advance s') TkComma); [|apply rsim_ok; [reflexivity|exact H1]]);
    rewrite Er; (destruct (is_tok (advance (advance s')) TkRParen); [apply rsim_ok; [reflexivity|exact H2]|]);
    (eapply rsim_bind; [exact B|]); intros a a' s3 s3' E K; unfold idA in E; subst a'; (destruct a; [exact Hf|apply rsim_ok; [reflexivity|exact K]]).
Qed.
Lemma p_attribute_sim fuel s s' : ksim s s' -> rsim er_attr (p_attribute fuel s) (p_attribute fuel s').
Proof.
  intros H. unfold p_attribute. cbv zeta.
  eapply rsim_bind; [apply p_relative_identifier_sim; exact H|]. intros d d' s1 s1' Ed K1.
  assert (Ev : si_val d = si_val d') by (apply (f_equal si_val) in Ed; exact Ed).
  rewrite (ksim_is_tok _ _ TkLParen K1). destruct (is_tok s1' TkLParen); [|apply rsim_ok; [unfold er_attr; cbn; rewrite Ev; reflexivity|exact K1]].
  eapply rsim_bind; [apply p_attr_args_sim; apply ksim_advance; exact K1|]. intros a a' s2 s2' Ea K2. unfold idA in Ea. subst a'.
  eapply rsim_bind; [apply expect_sim; exact K2|]. intros u u' s3 s3' _ K3.
  apply rsim_ok; [unfold er_attr; cbn; rewrite Ev; reflexivity|exact K3].
Qed.
Lemma p_local_attribute_sim fuel s s' : ksim s s' -> rsim er_attr (p_local_attribute fuel s) (p_local_attribute fuel s').
Proof.
  intros H. unfold p_local_attribute.
  eapply rsim_bind; [apply expect_sim; exact H|]. intros u u' s1 s1' _ K1.
  eapply rsim_bind; [apply p_attribute_sim; exact K1|]. intros a a' s2 s2' Ea K2.
  eapply rsim_bind; [apply expect_sim; exact K2|]. intros u3 u3' s3 s3' _ K3. apply rsim_ok; assumption.
Qed.
Lemma p_local_attributes_sim fuel : forall s s', ksim s s' -> rsim (map er_attr) (p_local_attributes fuel s) (p_local_attributes fuel s').
Proof.
  induction fuel as [|f IH]; intros s s' H; cbn [p_local_attributes]; [reflexivity|].
  rewrite (ksim_is_tok _ _ TkLBracket H). destruct (is_tok s' TkLBracket); [|apply rsim_ok; [reflexivity|exact H]].
  eapply rsim_bind; [apply p_local_attribute_sim; exact H|]. intros a a' s1 s1' Ea K1.
  eapply rsim_bind; [apply IH; exact K1|]. intros r r' s2 s2' Er K2. apply rsim_ok; [cbn [map]; rewrite Ea, Er; reflexivity|exact K2].
Qed.
Lemma p_file_attributes_sim fuel : forall s s', ksim s s' -> rsim (map er_attr) (p_file_attributes fuel s) (p_file_attributes fuel s').
Proof.
  induction fuel as [|f IH]; intros s s' H; cbn [p_file_attributes]; [reflexivity|].
  rewrite (ksim_is_tok _ _ TkDLBracket H). destruct (is_tok s' TkDLBracket); [|apply rsim_ok; [reflexivity|exact H]].
  eapply rsim_bind; [apply p_attribute_sim; apply ksim_advance; exact H|]. intros a a' s1 s1' Ea K1.
  eapply rsim_bind; [apply expect_sim; exact K1|]. intros u u' s2 s2' _ K2.
  eapply rsim_bind; [apply IH; exact K2|]. intros r r' s3 s3' Er K3. apply rsim_ok; [cbn [map]; rewrite Ea, Er; reflexivity|exact K3].
Qed.
Definition er_prelude (p : doclines * list attr) : doclines * list attr := (er_doc (fst p), map er_attr (snd p)).
Lemma p_prelude_sim fuel : forall s s', ksim s s' -> rsim er_prelude (p_prelude fuel s) (p_prelude fuel s').
Proof.
  induction fuel as [|f IH]; intros s s' H; cbn [p_prelude]; [reflexivity|].
  pose proof (IH _ _ (ksim_advance _ _ H)) as B. pose proof (p_local_attribute_sim f _ _ H) as A.
  heads H; [apply rsim_ok; [reflexivity|exact H]|].
  destruct t; try (apply rsim_ok; [reflexivity|exact H]).
  - eapply rsim_bind; [exact B|]. intros p p' s2 s2' Ep K2. injection Ep as Ep1 Ep2.
    apply rsim_ok; [unfold er_prelude, er_doc; cbn [fst snd map]; fold (er_doc (fst p)); fold (er_doc (fst p')); rewrite Ep1, Ep2; reflexivity|exact K2].
  - eapply rsim_bind; [exact A|]. intros a a' s1 s1' Ea K1. eapply rsim_bind; [apply IH; exact K1|]. intros p p' s2 s2' Ep K2.
    injection Ep as Ep1 Ep2. apply rsim_ok; [unfold er_prelude; cbn [fst snd map]; rewrite Ea, Ep1, Ep2; reflexivity|exact K2].
Qed.

Lemma p_typeref_sim fuel : forall s s', ksim s s' -> rsim er_tref (p_typeref fuel s) (p_typeref fuel s').
Proof.
  induction fuel as [|f IH]; intros s s' H; cbn [p_typeref]; [reflexivity|]. cbv zeta.
  eapply rsim_bind; [apply p_local_attributes_sim; exact H|]. intros attrs attrs' s1 s1' Ea K1.
  eapply (rsim_bind er_def).
  - pose proof (ksim_advance _ _ K1) as Ha. pose proof (fail_sim er_def _ _ K1) as Hf.
    pose proof (p_relative_identifier_sim f _ _ K1) as Hrel. pose proof (p_global_identifier_sim f _ _ K1) as Hglob.
    assert (Two : forall (mk : stref -> stref -> stdef), (forall a a' b b', er_tref a = er_tref a' -> er_tref b = er_tref b' -> er_def (mk a b) = er_def (mk a' b')) ->
              rsim er_def (plet _, a <- expect TkLt (advance s1) ;; plet k, b <- p_typeref f a ;; plet _, c <- expect TkComma b ;; plet v, d <- p_typeref f c ;; plet _, e <- expect TkGt d ;; POk_ (mk k v) e)
                          (plet _, a <- expect TkLt (advance s1') ;; plet k, b <- p_typeref f a ;; plet _, c <- expect TkComma b ;; plet v, d <- p_typeref f c ;; plet _, e <- expect TkGt d ;; POk_ (mk k v) e)).
    { intros mk Hmk.
      eapply rsim_bind; [apply expect_sim; exact Ha|]. intros u u' a a' _ Ka.
      eapply rsim_bind; [apply IH; exact Ka|]. intros k k' b b' Ek Kb.
      eapply rsim_bind; [apply expect_sim; exact Kb|]. intros u2 u2' c c' _ Kc.
      eapply rsim_bind; [apply IH; exact Kc|]. intros v v' d d' Ev Kd.
      eapply rsim_bind; [apply expect_sim; exact Kd|]. intros u3 u3' e e' _ Ke.
      apply rsim_ok; [apply Hmk; assumption|exact Ke]. }
    heads K1; [exact Hf|]. destruct t; try exact Hf.
    + (* identifier *) eapply rsim_bind; [exact Hrel|]. intros i i' a a' Ei Ka. apply rsim_ok; [cbn [er_def]; rewrite Ei; reflexivity|exact Ka].
    + (* keyword *) match goal with kk : kw |- _ => destruct kk end; try exact Hf.
      * apply (Two DRes). intros a a' b b' E1 E2. cbn [er_def]. rewrite E1, E2. reflexivity.
      * eapply rsim_bind; [apply expect_sim; exact Ha|]. intros u u' a a' _ Ka.
        eapply rsim_bind; [apply IH; exact Ka|]. intros k k' b b' Ek Kb.
        eapply rsim_bind; [apply expect_sim; exact Kb|]. intros u3 u3' e0 e0' _ Ke.
        apply rsim_ok; [cbn [er_def]; rewrite Ek; reflexivity|exact Ke].
      * apply (Two DDict). intros a a' b b' E1 E2. cbn [er_def]. rewrite E1, E2. reflexivity.
      * apply rsim_ok; [reflexivity|exact Ha].
    + (* :: *) eapply rsim_bind; [exact Hglob|]. intros i i' a a' Ei Ka. apply rsim_ok; [cbn [er_def]; rewrite Ei; reflexivity|exact Ka].
  - intros d d' s2 s2' Ed K2. destruct (opt_tok_sim TkQuestion _ _ K2) as [Eo Ko].
    destruct (opt_tok TkQuestion s2) as [o s3], (opt_tok TkQuestion s2') as [o' s3']. cbn [fst snd] in Eo, Ko. subst o'.
    apply rsim_ok; [cbn [er_tref]; rewrite Ea, Ed; reflexivity|exact Ko].
Qed.

Lemma er_doc_nil d d' : er_doc d = er_doc d' -> (d = [] <-> d' = []).
Proof. destruct d, d'; cbn; intros H; try discriminate H; split; intros X; try reflexivity; discriminate X. Qed.
Lemma opt_tag_sim s s' : ksim s s' ->
  rsim er_tag (if is_kw s KwTag then plet t, a <- p_tag s ;; POk_ (Some t) a else POk_ None s) (if is_kw s' KwTag then plet t, a <- p_tag s' ;; POk_ (Some t) a else POk_ None s').
Proof.
  intros H. rewrite (ksim_is_kw _ _ KwTag H). destruct (is_kw s' KwTag); [|apply rsim_ok; [reflexivity|exact H]].
  eapply rsim_bind; [apply p_tag_sim; exact H|]. intros t t' a a' Et Ka. unfold er_int in Et. apply rsim_ok; [cbn; rewrite Et; reflexivity|exact Ka].
Qed.
Lemma p_member_sim ip fuel s s' : ksim s s' -> rsim er_member (p_member ip fuel s) (p_member ip fuel s').
Proof.
  intros H. unfold p_member.
  eapply rsim_bind; [apply p_prelude_sim; exact H|]. intros pre pre' s1 s1' Ep K1. injection Ep as Ep1 Ep2. cbv zeta.
  eapply rsim_bind; [apply opt_tag_sim; exact K1|]. intros tag tag' s2 s2' Et K2.
  eapply rsim_bind; [apply p_identifier_sim; exact K2|]. intros name name' s3 s3' En K3.
  eapply rsim_bind; [apply expect_sim; exact K3|]. intros u u' s4 s4' _ K4.
  assert (St : fst (if ip then opt_kw KwStream s4 else (false, s4)) = fst (if ip then opt_kw KwStream s4' else (false, s4')) /\
               ksim (snd (if ip then opt_kw KwStream s4 else (false, s4))) (snd (if ip then opt_kw KwStream s4' else (false, s4')))).
  { destruct ip; [apply opt_kw_sim; exact K4|split; [reflexivity|exact K4]]. }
  destruct (if ip then opt_kw KwStream s4 else (false, s4)) as [stream s5], (if ip then opt_kw KwStream s4' else (false, s4')) as [stream' s5'].
  cbn [fst snd] in St. destruct St as [<- K5].
  eapply rsim_bind; [apply p_typeref_sim; exact K5|]. intros t t' s6 s6' Ety K6.
  apply rsim_ok.
  - unfold er_member. cbn [sm_doc sm_attrs sm_tag sm_name sm_stream sm_type]. rewrite Ep2, Et, En, Ety. destruct ip; [reflexivity|rewrite Ep1; reflexivity].
  - destruct ip; [|exact K6]. pose proof (er_doc_nil _ _ Ep1) as Hn. destruct (fst pre), (fst pre'); try exact K6; try apply ksim_add_diag; try exact K6.
    + destruct Hn as [Hn _]. discriminate (Hn eq_refl).
    + destruct Hn as [_ Hn]. discriminate (Hn eq_refl).
Qed.
Lemma starts_member_sim s s' : ksim s s' -> starts_member s = starts_member s'.
Proof. intros H. unfold starts_member. rewrite (ksim_peek _ _ H). reflexivity. Qed.
Lemma p_members_sim ip fuel : forall s s', ksim s s' -> rsim (map er_member) (p_members ip fuel s) (p_members ip fuel s').
Proof.
  induction fuel as [|f IH]; intros s s' H; cbn [p_members]; [reflexivity|].
  rewrite (starts_member_sim _ _ H). destruct (starts_member s'); [|apply rsim_ok; [reflexivity|exact H]].
  eapply rsim_bind; [apply p_member_sim; exact H|]. intros m m' s1 s1' Em K1.
  destruct (opt_tok_sim TkComma _ _ K1) as [_ K2]. destruct (opt_tok TkComma s1) as [c s2], (opt_tok TkComma s1') as [c' s2']. cbn [snd] in K2.
  eapply rsim_bind; [apply IH; exact K2|]. intros r r' s3 s3' Er K3. apply rsim_ok; [cbn [map]; rewrite Em, Er; reflexivity|exact K3].
Qed.
Lemma p_return_type_sim fuel s s' : ksim s s' -> rsim (map er_member) (p_return_type fuel s) (p_return_type fuel s').
Proof.
  intros H. unfold p_return_type.
  eapply rsim_bind; [apply expect_sim; exact H|]. intros u u' s1 s1' _ K1. cbv zeta.
  rewrite (ksim_is_tok _ _ TkLParen K1). destruct (is_tok s1' TkLParen).
  - eapply rsim_bind; [apply p_members_sim; apply ksim_advance; exact K1|]. intros ps ps' s2 s2' Eps K2.
    eapply rsim_bind; [apply expect_sim; exact K2|]. intros u3 u3' s3 s3' _ K3.
    apply rsim_ok; [exact Eps|]. destruct ps as [|p1 [|p2 ps]], ps' as [|p1' [|p2' ps']]; try discriminate Eps; try exact K3; apply ksim_add_diag; exact K3.
  - eapply rsim_bind; [apply opt_tag_sim; exact K1|]. intros tag tag' s2 s2' Et K2.
    destruct (opt_kw_sim KwStream _ _ K2) as [Es K3]. destruct (opt_kw KwStream s2) as [stream s3], (opt_kw KwStream s2') as [stream' s3']. cbn [fst snd] in Es, K3. subst stream'.
    eapply rsim_bind; [apply p_typeref_sim; exact K3|]. intros t t' s4 s4' Ety K4.
    apply rsim_ok; [|exact K4]. cbn [map]. unfold er_member. cbn [sm_doc sm_attrs sm_tag sm_name sm_stream sm_type]. rewrite Et, Ety. reflexivity.
Qed.
Lemma p_operation_sim fuel s s' : ksim s s' -> rsim er_operation (p_operation fuel s) (p_operation fuel s').
Proof.
  intros H. unfold p_operation.
  eapply rsim_bind; [apply p_prelude_sim; exact H|]. intros pre pre' s1 s1' Ep K1. injection Ep as Ep1 Ep2. cbv zeta.
  destruct (opt_kw_sim KwIdempotent _ _ K1) as [Ei K2]. destruct (opt_kw KwIdempotent s1) as [idem s2], (opt_kw KwIdempotent s1') as [idem' s2']. cbn [fst snd] in Ei, K2. subst idem'.
  eapply rsim_bind; [apply p_identifier_sim; exact K2|]. intros name name' s3 s3' En K3.
  eapply rsim_bind; [apply expect_sim; exact K3|]. intros u u' s4 s4' _ K4.
  eapply rsim_bind; [apply p_members_sim; exact K4|]. intros ps ps' s5 s5' Eps K5.
  eapply rsim_bind; [apply expect_sim; exact K5|]. intros u6 u6' s6 s6' _ K6.
  eapply (rsim_bind (map er_member)).
  - rewrite (ksim_is_tok _ _ TkArrow K6). destruct (is_tok s6' TkArrow); [apply p_return_type_sim; exact K6|apply rsim_ok; [reflexivity|exact K6]].
  - intros rs rs' s7 s7' Ers K7. apply rsim_ok; [|exact K7]. unfold er_operation. cbn [so_doc so_attrs so_idem so_name so_params so_rets]. rewrite Ep1, Ep2, En, Eps, Ers. reflexivity.
Qed.
Lemma starts_operation_sim s s' : ksim s s' -> starts_operation s = starts_operation s'.
Proof. intros H. unfold starts_operation. rewrite (ksim_peek _ _ H). reflexivity. Qed.
Lemma p_operations_sim fuel : forall s s', ksim s s' -> rsim (map er_operation) (p_operations fuel s) (p_operations fuel s').
Proof.
  induction fuel as [|f IH]; intros s s' H; cbn [p_operations]; [reflexivity|].
  rewrite (starts_operation_sim _ _ H). destruct (starts_operation s'); [|apply rsim_ok; [reflexivity|exact H]].
  eapply rsim_bind; [apply p_operation_sim; exact H|]. intros o o' s1 s1' Eo K1.
  eapply rsim_bind; [apply IH; exact K1|]. intros r r' s2 s2' Er K2. apply rsim_ok; [cbn [map]; rewrite Eo, Er; reflexivity|exact K2].
Qed.

Lemma p_enumerator_sim fuel prev s s' : ksim s s' -> rsim er_enumerator (p_enumerator fuel prev s) (p_enumerator fuel prev s').
Proof.
  intros H. unfold p_enumerator.
  eapply rsim_bind; [apply p_prelude_sim; exact H|]. intros pre pre' s1 s1' Ep K1. injection Ep as Ep1 Ep2. cbv zeta.
  eapply rsim_bind; [apply p_identifier_sim; exact K1|]. intros name name' s2 s2' En K2.
  eapply (rsim_bind (option_map (map er_member))).
  { rewrite (ksim_is_tok _ _ TkLParen K2). destruct (is_tok s2' TkLParen); [|apply rsim_ok; [reflexivity|exact K2]].
    eapply rsim_bind; [apply p_members_sim; apply ksim_advance; exact K2|]. intros fs fs' a a' Ef Ka.
    eapply rsim_bind; [apply expect_sim; exact Ka|]. intros u u' b b' _ Kb. apply rsim_ok; [cbn; rewrite Ef; reflexivity|exact Kb]. }
  intros fields fields' s3 s3' Ef K3.
  eapply (rsim_bind (option_map er_int)).
  { rewrite (ksim_is_tok _ _ TkEq K3). destruct (is_tok s3' TkEq); [|apply rsim_ok; [reflexivity|exact K3]].
    eapply rsim_bind; [apply p_signed_integer_sim; apply ksim_advance; exact K3|]. intros i i' a a' Ei Ka. apply rsim_ok; [cbn; rewrite Ei; reflexivity|exact Ka]. }
  intros value value' s4 s4' Ev K4.
  apply rsim_ok; [|exact K4]. unfold er_enumerator. cbn [se_doc se_attrs se_name se_fields se_value se_explicit]. rewrite Ep1, Ep2, En, Ef.
  destruct value as [[z sp]|], value' as [[z' sp']|]; cbn in Ev; try discriminate Ev; [injection Ev as ->|]; reflexivity.
Qed.
Lemma starts_enumerator_sim s s' : ksim s s' -> starts_enumerator s = starts_enumerator s'.
Proof. intros H. unfold starts_enumerator. rewrite (ksim_peek _ _ H). reflexivity. Qed.
Lemma p_enumerators_sim fuel : forall prev s s', ksim s s' -> rsim (map er_enumerator) (p_enumerators fuel prev s) (p_enumerators fuel prev s').
Proof.
  induction fuel as [|f IH]; intros prev s s' H; cbn [p_enumerators]; [reflexivity|].
  rewrite (starts_enumerator_sim _ _ H). destruct (starts_enumerator s'); [|apply rsim_ok; [reflexivity|exact H]].
  eapply rsim_bind; [apply p_enumerator_sim; exact H|]. intros e e' s1 s1' Ee K1.
  destruct (opt_tok_sim TkComma _ _ K1) as [_ K2]. destruct (opt_tok TkComma s1) as [c s2], (opt_tok TkComma s1') as [c' s2']. cbn [snd] in K2.
  assert (Ev : se_value e = se_value e') by (apply (f_equal se_value) in Ee; exact Ee). rewrite Ev.
  eapply rsim_bind; [apply IH; exact K2|]. intros r r' s3 s3' Er K3. apply rsim_ok; [cbn [map]; rewrite Ee, Er; reflexivity|exact K3].
Qed.
Lemma p_bases_sim fuel : forall s s', ksim s s' -> rsim (map er_tref) (p_bases fuel s) (p_bases fuel s').
Proof.
  induction fuel as [|f IH]; intros s s' H; cbn [p_bases]; [reflexivity|].
  eapply rsim_bind; [apply p_typeref_sim; exact H|]. intros t t' s1 s1' Et K1.
  rewrite (ksim_is_tok _ _ TkComma K1). destruct (is_tok s1' TkComma); [|apply rsim_ok; [cbn [map]; rewrite Et; reflexivity|exact K1]].
  cbv zeta. pose proof (ksim_advance _ _ K1) as K2. rewrite (ksim_is_tok _ _ TkLBrace K2).
  destruct (is_tok (advance s1') TkLBrace); [apply rsim_ok; [cbn [map]; rewrite Et; reflexivity|exact K2]|].
  eapply rsim_bind; [apply IH; exact K2|]. intros r r' s3 s3' Er K3. apply rsim_ok; [cbn [map]; rewrite Et, Er; reflexivity|exact K3].
Qed.

Lemma p_definition_after_prelude_sim fuel pre pre' s s' : er_prelude pre = er_prelude pre' -> ksim s s' ->
  rsim er_defn (p_definition_after_prelude fuel pre s) (p_definition_after_prelude fuel pre' s').
Proof.
  intros Ep H. unfold p_definition_after_prelude. cbv zeta. destruct pre as [doc attrs], pre' as [doc' attrs']. injection Ep as Ed Ea.
  destruct (opt_kw_sim KwCompact _ _ H) as [Ec K1]. destruct (opt_kw KwCompact s) as [compact s1], (opt_kw KwCompact s') as [compact' s1']. cbn [fst snd] in Ec, K1. subst compact'.
  rewrite (ksim_is_kw _ _ KwStruct K1). destruct (is_kw s1' KwStruct).
  { eapply rsim_bind; [apply p_identifier_sim; apply ksim_advance; exact K1|]. intros name name' s2 s2' En K2.
    eapply rsim_bind; [apply expect_sim; exact K2|]. intros u u' s3 s3' _ K3.
    eapply rsim_bind; [apply p_members_sim; exact K3|]. intros fs fs' s4 s4' Ef K4.
    eapply rsim_bind; [apply expect_sim; exact K4|]. intros u5 u5' s5 s5' _ K5.
    apply rsim_ok; [cbn [er_defn]; rewrite Ed, Ea, En, Ef; reflexivity|exact K5]. }
  destruct (opt_kw_sim KwUnchecked _ _ K1) as [Eu K2]. destruct (opt_kw KwUnchecked s1) as [unchecked s2], (opt_kw KwUnchecked s1') as [unchecked' s2']. cbn [fst snd] in Eu, K2. subst unchecked'.
  rewrite (ksim_is_kw _ _ KwEnum K2). destruct (is_kw s2' KwEnum).
  { eapply rsim_bind; [apply p_identifier_sim; apply ksim_advance; exact K2|]. intros name name' s3 s3' En K3.
    eapply (rsim_bind (option_map er_tref)).
    { rewrite (ksim_is_tok _ _ TkColon K3). destruct (is_tok s3' TkColon); [|apply rsim_ok; [reflexivity|exact K3]].
      eapply rsim_bind; [apply p_typeref_sim; apply ksim_advance; exact K3|]. intros t t' a a' Et Ka. apply rsim_ok; [cbn; rewrite Et; reflexivity|exact Ka]. }
    intros under under' s4 s4' Eun K4.
    eapply rsim_bind; [apply expect_sim; exact K4|]. intros u u' s5 s5' _ K5.
    eapply rsim_bind; [apply p_enumerators_sim; exact K5|]. intros es es' s6 s6' Ees K6.
    eapply rsim_bind; [apply expect_sim; exact K6|]. intros u7 u7' s7 s7' _ K7.
    apply rsim_ok; [cbn [er_defn]; rewrite Ed, Ea, En, Eun, Ees; reflexivity|exact K7]. }
  destruct (compact || unchecked); [apply fail_sim; exact K2|].
  rewrite (ksim_is_kw _ _ KwInterface K2). destruct (is_kw s2' KwInterface).
  { eapply rsim_bind; [apply p_identifier_sim; apply ksim_advance; exact K2|]. intros name name' s3 s3' En K3.
    eapply (rsim_bind (map er_tref)).
    { rewrite (ksim_is_tok _ _ TkColon K3). destruct (is_tok s3' TkColon); [apply p_bases_sim; apply ksim_advance; exact K3|apply rsim_ok; [reflexivity|exact K3]]. }
    intros bases bases' s4 s4' Eb K4.
    eapply rsim_bind; [apply expect_sim; exact K4|]. intros u u' s5 s5' _ K5.
    eapply rsim_bind; [apply p_operations_sim; exact K5|]. intros os os' s6 s6' Eos K6.
    eapply rsim_bind; [apply expect_sim; exact K6|]. intros u7 u7' s7 s7' _ K7.
    apply rsim_ok; [cbn [er_defn]; rewrite Ed, Ea, En, Eb, Eos; reflexivity|exact K7]. }
  rewrite (ksim_is_kw _ _ KwCustom K2). destruct (is_kw s2' KwCustom).
  { eapply rsim_bind; [apply p_identifier_sim; apply ksim_advance; exact K2|]. intros name name' s3 s3' En K3.
    apply rsim_ok; [cbn [er_defn]; rewrite Ed, Ea, En; reflexivity|exact K3]. }
  rewrite (ksim_is_kw _ _ KwTypeAlias K2). destruct (is_kw s2' KwTypeAlias); [|apply fail_sim; exact K2].
  eapply rsim_bind; [apply p_identifier_sim; apply ksim_advance; exact K2|]. intros name name' s3 s3' En K3.
  eapply rsim_bind; [apply expect_sim; exact K3|]. intros u u' s4 s4' _ K4.
  eapply rsim_bind; [apply p_typeref_sim; exact K4|]. intros t t' s5 s5' Et K5.
  apply rsim_ok; [cbn [er_defn]; rewrite Ed, Ea, En, Et; reflexivity|exact K5].
Qed.
Lemma eof_sim {A B} (er : A -> B) (v v' : A) s s' : ksim s s' -> er v = er v' ->
  rsim er (match ps_lexerr s with Some e => PErr_ (PeLex e) | None => POk_ v s end) (match ps_lexerr s' with Some e => PErr_ (PeLex e) | None => POk_ v' s' end).
Proof.
  intros H Ev. pose proof H as (_ & H2 & _).
  destruct (ps_lexerr s) as [[[a x] b]|], (ps_lexerr s') as [[[a' x'] b']|]; cbn in H2 |- *; try discriminate H2; [injection H2 as ->; reflexivity|split; assumption].
Qed.
Lemma p_definitions_sim fuel : forall s s', ksim s s' -> rsim (map er_defn) (p_definitions fuel s) (p_definitions fuel s').
Proof.
  induction fuel as [|f IH]; intros s s' H; cbn [p_definitions]; [reflexivity|].
  pose proof (eof_sim (map er_defn) [] [] _ _ H eq_refl) as Heof.
  assert (Hgo : rsim (map er_defn) (plet pre, s1 <- p_prelude f s ;; plet d, s2 <- p_definition_after_prelude f pre s1 ;; plet r, s3 <- p_definitions f s2 ;; POk_ (d :: r) s3)
                                   (plet pre, s1 <- p_prelude f s' ;; plet d, s2 <- p_definition_after_prelude f pre s1 ;; plet r, s3 <- p_definitions f s2 ;; POk_ (d :: r) s3)).
  { eapply rsim_bind; [apply p_prelude_sim; exact H|]. intros pre pre' s1 s1' Ep K1.
    eapply rsim_bind; [apply p_definition_after_prelude_sim; [exact Ep|exact K1]|]. intros d d' s2 s2' Ed K2.
    eapply rsim_bind; [apply IH; exact K2|]. intros r r' s3 s3' Er K3. apply rsim_ok; [cbn [map]; rewrite Ed, Er; reflexivity|exact K3]. }
  heads H; [exact Heof|exact Hgo].
Qed.
(* the whole parser: two token sequences of the same kinds give the same file, the same diagnostics (kinds, in order), the same
   error -- once locations are set aside *)
Theorem p_file_sim fuel s s' : ksim s s' -> rsim er_file (p_file fuel s) (p_file fuel s').
Proof.
  intros H. unfold p_file.
  eapply rsim_bind; [apply p_file_attributes_sim; exact H|]. intros fa fa' s1 s1' Efa K1.
  pose proof (eof_sim er_file (mkfile fa None []) (mkfile fa' None []) _ _ K1 ltac:(unfold er_file; cbn [f_attrs f_module f_defs option_map map]; rewrite Efa; reflexivity)) as Heof.
  assert (Hgo : rsim er_file
     (plet pre, s2 <- p_prelude fuel s1 ;;
      if is_kw s2 KwModule then
        let l := next_start s2 in
        plet name, s3 <- p_relative_identifier fuel (advance s2) ;;
        let sp := mksspan l (ps_last s3) in
        let s4 := match fst pre with [] => s3 | _ => add_diag s3 PdDocOnModule sp end in
        plet ds, s5 <- p_definitions fuel s4 ;;
        POk_ (mkfile fa (Some (mkmodul (fst pre) (snd pre) name sp)) ds) s5
      else
        plet d, s3 <- p_definition_after_prelude fuel pre s2 ;; plet ds, s4 <- p_definitions fuel s3 ;;
        POk_ (mkfile fa None (d :: ds)) (add_diag s4 PdModuleRequired (mksspan (mkloc 0 0) (mkloc 0 0))))
     (plet pre, s2 <- p_prelude fuel s1' ;;
      if is_kw s2 KwModule then
        let l := next_start s2 in
        plet name, s3 <- p_relative_identifier fuel (advance s2) ;;
        let sp := mksspan l (ps_last s3) in
        let s4 := match fst pre with [] => s3 | _ => add_diag s3 PdDocOnModule sp end in
        plet ds, s5 <- p_definitions fuel s4 ;;
        POk_ (mkfile fa' (Some (mkmodul (fst pre) (snd pre) name sp)) ds) s5
      else
        plet d, s3 <- p_definition_after_prelude fuel pre s2 ;; plet ds, s4 <- p_definitions fuel s3 ;;
        POk_ (mkfile fa' None (d :: ds)) (add_diag s4 PdModuleRequired (mksspan (mkloc 0 0) (mkloc 0 0))))).
  { eapply rsim_bind; [apply p_prelude_sim; exact K1|]. intros pre pre' s2 s2' Ep K2.
    rewrite (ksim_is_kw _ _ KwModule K2). destruct (is_kw s2' KwModule).
    - cbv zeta. eapply rsim_bind; [apply p_relative_identifier_sim; apply ksim_advance; exact K2|]. intros name name' s3 s3' En K3.
      injection Ep as Ep1 Ep2.
      eapply rsim_bind.
      + apply p_definitions_sim. pose proof (er_doc_nil _ _ Ep1) as Hn.
        destruct (fst pre), (fst pre'); try exact K3; try (apply ksim_add_diag; exact K3).
        * destruct Hn as [Hn _]. discriminate (Hn eq_refl).
        * destruct Hn as [_ Hn]. discriminate (Hn eq_refl).
      + intros ds ds' s5 s5' Eds K5. apply rsim_ok; [|exact K5]. unfold er_file, er_modul. cbn [f_attrs f_module f_defs option_map mo_doc mo_attrs mo_name]. rewrite Efa, Ep1, Ep2, En, Eds. reflexivity.
    - eapply rsim_bind; [apply p_definition_after_prelude_sim; [exact Ep|exact K2]|]. intros d d' s3 s3' Ed K3.
      eapply rsim_bind; [apply p_definitions_sim; exact K3|]. intros ds ds' s4 s4' Eds K4.
      apply rsim_ok; [unfold er_file; cbn [f_attrs f_module f_defs option_map map]; rewrite Efa, Ed, Eds; reflexivity|apply ksim_add_diag; exact K4]. }
  heads K1; [exact Heof|exact Hgo].
Qed.
