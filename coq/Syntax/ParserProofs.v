(* Token-level read-back of type expressions with exact locations (C02, C09): whatever locations the tokens of a written type
   expression carry (any layout), the parser returns that expression, and the location it records for it and for each nested
   expression runs from the start of its first token to the end of its last token. *)
From Coq Require Import List Bool NArith ZArith Arith Lia.
From SliceV Require Import Cli.PluginSpec Doc.Comment Syntax.Tokens Syntax.Lexer Syntax.Parser.
Import ListNotations.
Local Open Scope nat_scope.

(* type expressions as written (attributes on type references are left out of this theorem) *)
Inductive utype := UT (opt : bool) (d : udef)
with udef := UPrim (p : prim) | USeq (e : utype) | UDict (k v : utype) | URes (s f : utype) | UNamed (global : bool) (first : list N) (more : list (list N)).

Definition pstart (p : ptok) : loc := fst (fst p).
Definition pend (p : ptok) : loc := snd p.
Definition first_start (pts : list ptok) (d : loc) : loc := match pts with p :: _ => pstart p | [] => d end.
Definition last_end (pts : list ptok) (d : loc) : loc := match rev pts with p :: _ => pend p | [] => d end.
Lemma last_end_app a b d : last_end (a ++ b) d = last_end b (last_end a d).
Proof. unfold last_end. rewrite rev_app_distr. destruct (rev b); [rewrite app_nil_l; reflexivity|reflexivity]. Qed.
Lemma last_end_cons p a d : last_end (p :: a) d = last_end a (pend p).
Proof. change (p :: a) with ([p] ++ a). rewrite last_end_app. reflexivity. Qed.

(* positioned tokens spelling a scoped identifier's tail and a type expression; locations are arbitrary *)
Inductive spells_tail : list (list N) -> list ptok -> Prop :=
| st_nil : spells_tail [] []
| st_cons seg r pts l1 e1 l2 e2 : spells_tail r pts -> spells_tail (seg :: r) ((l1, TkDColon, e1) :: (l2, TkIdent seg, e2) :: pts).
Inductive spells : utype -> list ptok -> Prop :=
| sp_plain d pts : spells_d d pts -> spells (UT false d) pts
| sp_opt d pts l e : spells_d d pts -> spells (UT true d) (pts ++ [(l, TkQuestion, e)])
with spells_d : udef -> list ptok -> Prop :=
| sd_prim p l e : spells_d (UPrim p) [(l, TkKw (KwPrim p), e)]
| sd_seq u pts l1 e1 l2 e2 l3 e3 : spells u pts -> spells_d (USeq u) ((l1, TkKw KwSequence, e1) :: (l2, TkLt, e2) :: pts ++ [(l3, TkGt, e3)])
| sd_dict k v pk pv l1 e1 l2 e2 l3 e3 l4 e4 : spells k pk -> spells v pv ->
    spells_d (UDict k v) ((l1, TkKw KwDictionary, e1) :: (l2, TkLt, e2) :: pk ++ (l3, TkComma, e3) :: pv ++ [(l4, TkGt, e4)])
| sd_res k v pk pv l1 e1 l2 e2 l3 e3 l4 e4 : spells k pk -> spells v pv ->
    spells_d (URes k v) ((l1, TkKw KwResult, e1) :: (l2, TkLt, e2) :: pk ++ (l3, TkComma, e3) :: pv ++ [(l4, TkGt, e4)])
| sd_rel first more pts l e : spells_tail more pts -> spells_d (UNamed false first more) ((l, TkIdent first, e) :: pts)
| sd_glob first more pts l0 e0 l e : spells_tail more pts -> spells_d (UNamed true first more) ((l0, TkDColon, e0) :: (l, TkIdent first, e) :: pts).
Scheme spells_ind2 := Induction for spells Sort Prop with spells_d_ind2 := Induction for spells_d Sort Prop.

(* what the AST says, locations aside; None when a reference carries attributes *)
Definition joined (global : bool) (first : list N) (more : list (list N)) : list N :=
  (if global then sep else []) ++ first ++ concat (map (fun s => sep ++ s) more).
Inductive says : stref -> utype -> Prop :=
| says_ref sp o d u : says_d d u -> says (STRef sp o [] d) (UT o u)
with says_d : stdef -> udef -> Prop :=
| sy_prim p : says_d (DPrim p) (UPrim p)
| sy_seq t u : says t u -> says_d (DSeq t) (USeq u)
| sy_dict a b ua ub : says a ua -> says b ub -> says_d (DDict a b) (UDict ua ub)
| sy_res a b ua ub : says a ua -> says b ub -> says_d (DRes a b) (URes ua ub)
| sy_named g first more sp : says_d (DNamed (mksident (joined g first more) sp)) (UNamed g first more).
Definition tref_span (t : stref) : sspan := match t with STRef sp _ _ _ => sp end.
(* every nested reference's location is that of its own tokens: stated through the relation below *)
Definition st (ts : list ptok) (le : option plexerr) (last : loc) (dg : list (pdiag * sspan)) : pstate := mkps ts le last dg.
Definition next_is (t : token) (ts : list ptok) : Prop := match ts with (_, x, _) :: _ => token_eqb x t = true | [] => False end.

Lemma scoped_tail_written more pts : spells_tail more pts -> forall fuel acc rest le last dg, length pts < fuel -> ~ next_is TkDColon rest ->
  p_scoped_tail fuel acc (st (pts ++ rest) le last dg) = POk_ (acc ++ concat (map (fun s => sep ++ s) more)) (st rest le (last_end pts last) dg).
Proof.
  induction 1 as [|seg r pts l1 e1 l2 e2 _ IH]; intros fuel acc rest le last dg Hf Hr; (destruct fuel as [|f]; [cbn [length] in Hf; lia|]).
  - cbn [app p_scoped_tail concat map]. rewrite app_nil_r.
    destruct rest as [|[[l t] e] rest]; [reflexivity|]. cbn [next_is] in Hr. unfold st, is_tok, peek. cbn [ps_toks].
    destruct (token_eqb t TkDColon); [exfalso; apply Hr; reflexivity|reflexivity].
  - cbn [app p_scoped_tail]. unfold st, is_tok, peek, advance. cbn [ps_toks ps_lexerr ps_last ps_diags token_eqb].
    cbn [length] in Hf. specialize (IH f (acc ++ sep ++ seg) rest le e2 dg ltac:(lia) Hr). unfold st in IH. rewrite IH.
    cbn [map concat]. rewrite <- !app_assoc. rewrite !last_end_cons. reflexivity.
Qed.

(* ------------------------------------------------------------------------------------------------ type expressions *)
Definition L0 : loc := mkloc 0 0.
(* pts spell the type reference t, and every location inside t is exactly the extent of the tokens it was read from *)
Inductive written : stref -> list ptok -> Prop :=
| w_plain d pts : written_d d pts -> written (STRef (mksspan (first_start pts L0) (last_end pts L0)) false [] d) pts
| w_opt d pts l e : written_d d pts -> written (STRef (mksspan (first_start pts L0) e) true [] d) (pts ++ [(l, TkQuestion, e)])
with written_d : stdef -> list ptok -> Prop :=
| wd_prim p l e : written_d (DPrim p) [(l, TkKw (KwPrim p), e)]
| wd_seq t pts l1 e1 l2 e2 l3 e3 : written t pts -> written_d (DSeq t) ((l1, TkKw KwSequence, e1) :: (l2, TkLt, e2) :: pts ++ [(l3, TkGt, e3)])
| wd_dict k v pk pv l1 e1 l2 e2 l3 e3 l4 e4 : written k pk -> written v pv ->
    written_d (DDict k v) ((l1, TkKw KwDictionary, e1) :: (l2, TkLt, e2) :: pk ++ (l3, TkComma, e3) :: pv ++ [(l4, TkGt, e4)])
| wd_res k v pk pv l1 e1 l2 e2 l3 e3 l4 e4 : written k pk -> written v pv ->
    written_d (DRes k v) ((l1, TkKw KwResult, e1) :: (l2, TkLt, e2) :: pk ++ (l3, TkComma, e3) :: pv ++ [(l4, TkGt, e4)])
| wd_rel first more pts l e : spells_tail more pts ->
    written_d (DNamed (mksident (joined false first more) (mksspan l (last_end pts e)))) ((l, TkIdent first, e) :: pts)
| wd_glob first more pts l0 e0 l e : spells_tail more pts ->
    written_d (DNamed (mksident (joined true first more) (mksspan l0 (last_end pts e)))) ((l0, TkDColon, e0) :: (l, TkIdent first, e) :: pts).
Scheme written_ind2 := Induction for written Sort Prop with written_d_ind2 := Induction for written_d Sort Prop.

Lemma written_d_nonempty d pts : written_d d pts -> exists p r, pts = p :: r /\ token_eqb (snd (fst p)) TkLBracket = false.
Proof. destruct 1; eexists; eexists; split; reflexivity. Qed.
Lemma written_nonempty t pts : written t pts -> exists p r, pts = p :: r /\ token_eqb (snd (fst p)) TkLBracket = false.
Proof. destruct 1 as [d pts H|d pts l e H]; destruct (written_d_nonempty _ _ H) as (p & r & -> & Hp); eexists; eexists; split; try reflexivity; exact Hp. Qed.
Lemma last_end_nonempty p r a b : last_end (p :: r) a = last_end (p :: r) b.
Proof. rewrite !last_end_cons. reflexivity. Qed.

Definition optq (o : bool) (q rest : list ptok) : Prop :=
  (o = false /\ q = [] /\ ~ next_is TkQuestion rest) \/ (o = true /\ exists l e, q = [(l, TkQuestion, e)]).

(* the optional question mark after the definition *)
Lemma finish_typeref o q rest le last dg : optq o q rest ->
  opt_tok TkQuestion (st (q ++ rest) le last dg) = (o, st rest le (last_end q last) dg).
Proof.
  intros [(-> & -> & Hn)|(-> & l & e & ->)]; unfold opt_tok, is_tok, peek, st; cbn [app ps_toks].
  - destruct rest as [|[[l t] e] rest]; [reflexivity|]. cbn [next_is] in Hn. destruct (token_eqb t TkQuestion); [exfalso; apply Hn; reflexivity|reflexivity].
  - reflexivity.
Qed.

Lemma no_attrs f p r le last dg : token_eqb (snd (fst p)) TkLBracket = false -> 0 < f ->
  p_local_attributes f (mkps (p :: r) le last dg) = POk_ [] (mkps (p :: r) le last dg).
Proof. intros H Hf. destruct f as [|f]; [lia|]. destruct p as [[l t] e]. cbn [p_local_attributes]. unfold is_tok, peek. cbn [ps_toks fst snd] in *. rewrite H. reflexivity. Qed.

Ltac le_norm := repeat (progress (rewrite ?last_end_cons, ?last_end_app; cbn [pend snd first_start pstart fst ps_last])).
Ltac step := unfold expect, is_tok, peek, advance, next_start; cbn [ps_toks ps_lexerr ps_last ps_diags token_eqb pbind fst snd].

Theorem typeref_written_aux :
  (forall t pts (w : written t pts), forall fuel rest le last dg, length pts < fuel -> ~ next_is TkQuestion rest -> ~ next_is TkDColon rest ->
     p_typeref fuel (mkps (pts ++ rest) le last dg) = POk_ t (mkps rest le (last_end pts last) dg)).
Proof.
  apply (written_ind2
    (fun t pts _ => forall fuel rest le last dg, length pts < fuel -> ~ next_is TkQuestion rest -> ~ next_is TkDColon rest ->
       p_typeref fuel (mkps (pts ++ rest) le last dg) = POk_ t (mkps rest le (last_end pts last) dg))
    (fun d pts _ => forall f o q rest le last dg, length pts < S f -> optq o q rest -> ~ next_is TkDColon (q ++ rest) ->
       p_typeref (S f) (mkps (pts ++ q ++ rest) le last dg) =
         POk_ (STRef (mksspan (first_start pts L0) (last_end (pts ++ q) last)) o [] d) (mkps rest le (last_end (pts ++ q) last) dg))).
  - (* plain *)
    intros d pts w IH fuel rest le last dg Hf Hq Hc. destruct fuel as [|f]; [lia|].
    specialize (IH f false [] rest le last dg Hf (or_introl (conj eq_refl (conj eq_refl Hq))) Hc).
    cbn [app] in IH. rewrite app_nil_r in IH. rewrite IH.
    destruct (written_d_nonempty _ _ w) as (p & r & -> & _). rewrite (last_end_nonempty p r L0 last). reflexivity.
  - (* optional *)
    intros d pts l e w IH fuel rest le last dg Hf Hq Hc. destruct fuel as [|f]; [lia|]. rewrite app_length in Hf. cbn [length] in Hf.
    specialize (IH f true [(l, TkQuestion, e)] rest le last dg ltac:(lia) (or_intror (conj eq_refl (ex_intro _ l (ex_intro _ e eq_refl)))) ltac:(cbn; intros X; discriminate X)).
    rewrite <- app_assoc. rewrite IH. rewrite (last_end_app pts [(l, TkQuestion, e)] last). reflexivity.
  - (* primitive *)
    intros p l e f o q rest le last dg Hf Hq Hc. cbn [app length] in *. cbn [p_typeref].
    rewrite no_attrs by (try reflexivity; lia). step.
    pose proof (finish_typeref o q rest le e dg Hq) as F. unfold st in F. rewrite F. rewrite last_end_cons. reflexivity.
  - (* sequence *)
    intros t pts l1 e1 l2 e2 l3 e3 w IH f o q rest le last dg Hf Hq Hc. cbn [app length] in *. rewrite app_length in Hf. cbn [length] in Hf. cbn [p_typeref].
    rewrite no_attrs by (try reflexivity; lia). step. rewrite <- app_assoc. cbn [app].
    rewrite IH by (try lia; cbn; intros X; discriminate X). step.
    pose proof (finish_typeref o q rest le e3 dg Hq) as F. unfold st in F. rewrite F.
    le_norm. reflexivity.
  - (* dictionary *)
    intros k v pk pv l1 e1 l2 e2 l3 e3 l4 e4 wk IHk wv IHv f o q rest le last dg Hf Hq Hc. cbn [app length] in *. rewrite !app_length in Hf. cbn [length] in Hf. rewrite app_length in Hf. cbn [length] in Hf. cbn [p_typeref].
    rewrite no_attrs by (try reflexivity; lia). step. rewrite <- !app_assoc. cbn [app]. rewrite <- !app_assoc. cbn [app].
    rewrite IHk by (try lia; cbn; intros X; discriminate X). step.
    rewrite IHv by (try lia; cbn; intros X; discriminate X). step.
    pose proof (finish_typeref o q rest le e4 dg Hq) as F. unfold st in F. rewrite F.
    le_norm. reflexivity.
  - (* result *)
    intros k v pk pv l1 e1 l2 e2 l3 e3 l4 e4 wk IHk wv IHv f o q rest le last dg Hf Hq Hc. cbn [app length] in *. rewrite !app_length in Hf. cbn [length] in Hf. rewrite app_length in Hf. cbn [length] in Hf. cbn [p_typeref].
    rewrite no_attrs by (try reflexivity; lia). step. rewrite <- !app_assoc. cbn [app]. rewrite <- !app_assoc. cbn [app].
    rewrite IHk by (try lia; cbn; intros X; discriminate X). step.
    rewrite IHv by (try lia; cbn; intros X; discriminate X). step.
    pose proof (finish_typeref o q rest le e4 dg Hq) as F. unfold st in F. rewrite F.
    le_norm. reflexivity.
  - (* relative name *)
    intros first more pts l e w f o q rest le last dg Hf Hq Hc. cbn [app length] in *. cbn [p_typeref].
    rewrite no_attrs by (try reflexivity; lia). step. unfold p_relative_identifier. step.
    pose proof (scoped_tail_written more pts w f first (q ++ rest) le e dg ltac:(lia) Hc) as T. unfold st in T. rewrite T. step.
    pose proof (finish_typeref o q rest le (last_end pts e) dg Hq) as F. unfold st in F. rewrite F.
    rewrite !last_end_cons, !last_end_app. unfold joined. cbn [app]. reflexivity.
  - (* global name *)
    intros first more pts l0 e0 l e w f o q rest le last dg Hf Hq Hc. cbn [app length] in *. cbn [p_typeref].
    rewrite no_attrs by (try reflexivity; lia). step. unfold p_global_identifier. step.
    pose proof (scoped_tail_written more pts w f (sep ++ first) (q ++ rest) le e dg ltac:(lia) Hc) as T. unfold st in T. rewrite T. step.
    pose proof (finish_typeref o q rest le (last_end pts e) dg Hq) as F. unfold st in F. rewrite F.
    rewrite !last_end_cons, !last_end_app. unfold joined. rewrite <- app_assoc. reflexivity.
Qed.
(* whatever locations the tokens carry: the written type expression is what the parser returns, with exactly the locations of
   its own tokens at every level *)
Theorem typeref_written t pts : written t pts -> forall fuel rest le last dg, length pts < fuel -> ~ next_is TkQuestion rest -> ~ next_is TkDColon rest ->
  p_typeref fuel (mkps (pts ++ rest) le last dg) = POk_ t (mkps rest le (last_end pts last) dg).
Proof. intros w. exact (typeref_written_aux t pts w). Qed.

(* ------------------------------------------------------------------------------------------------ small facts *)
(* implicit enumerator values: 0 for the first, previous + 1 afterwards (wrapping only at the top of i128) *)
Lemma implicit_value_first : next_enumerator_value None = 0%Z.
Proof. reflexivity. Qed.
Lemma implicit_value_next v : (v < I128_MAX)%Z -> next_enumerator_value (Some v) = (v + 1)%Z.
Proof. intros H. unfold next_enumerator_value. destruct (Z.eqb_spec v I128_MAX); [lia|reflexivity]. Qed.
(* between brackets a word is an identifier whatever it spells; outside, it is a keyword exactly when the table lists it *)
Lemma attribute_mode_words s : word_token true s = TkIdent s.
Proof. reflexivity. Qed.
Lemma plain_mode_words s : word_token false s = match lookup_kw Gen.Keywords.keyword_table s with Some k => TkKw k | None => TkIdent s end.
Proof. reflexivity. Qed.
(* locations count characters: a line feed starts a new row at column 1, any other character advances the column by one *)
Lemma adv_all_line l s : forallb (fun c => negb (c =? 10)%N) s = true -> adv_all l s = mkloc (l_row l) (l_col l + length s).
Proof.
  revert l. induction s as [|c r IH]; intros l H; cbn [adv_all fold_left length]; [destruct l; cbn; f_equal; lia|].
  cbn [forallb] in H. apply andb_true_iff in H as [Hc Hr]. apply negb_true_iff in Hc.
  change (fold_left adv r (adv l c)) with (adv_all (adv l c) r). rewrite IH by exact Hr. unfold adv. rewrite Hc. cbn [l_row l_col]. f_equal. lia.
Qed.
Lemma adv_newline l : adv l 10%N = mkloc (S (l_row l)) 1.
Proof. reflexivity. Qed.
