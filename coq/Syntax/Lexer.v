(* Executable model of the Slice lexer (parsers/slice/lexer.rs) with locations (C02, C09).  Characters are Unicode scalar
   values; rows and columns count characters from 1, a line feed starts a new row.  The input is a list of source blocks
   (what the preprocessor kept), each with the location of its first character.  Model only. *)
From Coq Require Import List Bool NArith Arith.
From SliceV Require Import Cli.PluginSpec Doc.Comment Syntax.Tokens Gen.Keywords.
Import ListNotations.
Local Open Scope N_scope.

Record loc := mkloc { l_row : nat; l_col : nat }.
Definition adv (l : loc) (c : N) : loc := if c =? 10 then mkloc (S (l_row l)) 1 else mkloc (l_row l) (S (l_col l)).
Definition adv_all (l : loc) (s : list N) : loc := fold_left adv s l.
Definition ptok : Type := loc * token * loc.
Inductive lexerr := LxUnknownSymbol (s : list N) | LxUnterminatedString | LxUnterminatedBlockComment.
Definition plexerr : Type := loc * lexerr * loc.

Definition is_digit (c : N) : bool := (48 <=? c) && (c <=? 57).
Fixpoint lookup_kw (t : list (list N * kw)) (s : list N) : option kw :=
  match t with [] => None | (k, v) :: r => if cstr_eqb k s then Some v else lookup_kw r s end.
Definition word_token (attr : bool) (s : list N) : token :=
  if attr then TkIdent s else match lookup_kw keyword_table s with Some k => TkKw k | None => TkIdent s end.

(* read_string_literal, after the opening quote: the raw content and what follows the closing quote; None = unterminated
   (the second component is what had been consumed when the line or the block ended) *)
Fixpoint scan_string (esc : bool) (s acc : list N) : (list N * list N) + list N :=
  match s with
  | [] => inr (rev acc)
  | c :: r =>
    if c =? 10 then inr (rev acc)
    else if esc then scan_string false r (c :: acc)
    else if c =? 34 then inl (rev acc, r)
    else scan_string (c =? 92) r (c :: acc)
  end.
(* consume_block_comment, after the opening: what follows the closing, or None *)
Fixpoint scan_block (star : bool) (s : list N) : option (list N) :=
  match s with
  | [] => None
  | c :: r => if (c =? 47) && star then Some r else scan_block (c =? 42) r
  end.
Definition consumed (s rest : list N) : list N := firstn (length s - length rest) s.

(* one step of the lexer loop on a non-empty rest, given how the rest of the input is lexed *)
Definition lex_step (rec : bool -> loc -> list N -> list ptok * option plexerr * bool) (attr : bool) (cur : loc) (s : list N)
  : list ptok * option plexerr * bool :=
  match s with
  | [] => ([], None, attr)
  | c :: r =>
    let simple (t : token) := let e := adv cur c in
      let '(ts, er, a) := rec attr e r in ((cur, t, e) :: ts, er, a) in
    let double (d : N) (t2 t1 : token) (attr' : bool) :=
      match r with
      | c2 :: r2 => if c2 =? d then let e := adv (adv cur c) c2 in let '(ts, er, a) := rec attr' e r2 in ((cur, t2, e) :: ts, er, a)
                    else let e := adv cur c in let '(ts, er, a) := rec attr' e r in ((cur, t1, e) :: ts, er, a)
      | [] => let e := adv cur c in ([(cur, t1, e)], None, attr')
      end in
    if c =? 40 then simple TkLParen else if c =? 41 then simple TkRParen
    else if c =? 91 then double 91 TkDLBracket TkLBracket true
    else if c =? 93 then double 93 TkDRBracket TkRBracket false
    else if c =? 123 then simple TkLBrace else if c =? 125 then simple TkRBrace
    else if c =? 60 then simple TkLt else if c =? 62 then simple TkGt
    else if c =? 44 then simple TkComma
    else if c =? 58 then double 58 TkDColon TkColon attr
    else if c =? 61 then simple TkEq else if c =? 63 then simple TkQuestion
    else if c =? 45 then double 62 TkArrow TkMinus attr
    else if c =? 34 then
      match scan_string false r [] with
      | inl (content, rest) =>
        let e := adv_all cur (consumed s rest) in
        let '(ts, er, a) := rec attr e rest in ((cur, TkStr content, e) :: ts, er, a)
      | inr eaten => ([], Some (cur, LxUnterminatedString, adv_all (adv cur c) eaten), attr)
      end
    else if c =? 47 then
      match r with
      | c2 :: r2 =>
        if c2 =? 47 then
          (* line comment; exactly three slashes make a doc comment *)
          let '(slashes, after) := match r2 with
                                   | c3 :: r3 => if c3 =? 47 then (match r3 with c4 :: _ => if c4 =? 47 then (3%nat, false, r3) else (3%nat, true, r3) | [] => (3%nat, true, r3) end)
                                                 else (2%nat, false, r2)
                                   | [] => (2%nat, false, r2)
                                   end in
          let '(n, isdoc) := slashes in
          let start := mkloc (l_row cur) (l_col cur + n) in
          let '(text, rest) := span_while (fun x => negb (x =? 10)) after in
          let e := adv_all start text in
          let text' := match rev text with 13 :: t => rev t | _ => text end in
          let '(ts, er, a) := rec attr e rest in
          if isdoc then ((start, TkDoc text', e) :: ts, er, a) else (ts, er, a)
        else if c2 =? 42 then
          match scan_block false r2 with
          | Some rest => rec attr (adv_all cur (consumed s rest)) rest
          | None => ([], Some (cur, LxUnterminatedBlockComment, adv_all cur s), attr)
          end
        else ([], Some (cur, LxUnknownSymbol [47], adv cur c), attr)
      | [] => ([], Some (cur, LxUnknownSymbol [47], adv cur c), attr)
      end
    else if c =? 92 then
      match r with
      | c2 :: _ => if is_letter c2 then
                     let '(w, rest) := span_while is_alnum_ r in
                     let e := adv_all (adv cur c) w in
                     let '(ts, er, a) := rec attr e rest in ((cur, TkIdent w, e) :: ts, er, a)
                   else ([], Some (cur, LxUnknownSymbol [92], adv cur c), attr)
      | [] => ([], Some (cur, LxUnknownSymbol [92], adv cur c), attr)
      end
    else if is_letter c then
      let '(w, rest) := span_while is_alnum_ s in
      let e := adv_all cur w in
      let '(ts, er, a) := rec attr e rest in ((cur, word_token attr w, e) :: ts, er, a)
    else if is_digit c then
      let '(w, rest) := span_while is_alnum_ s in
      let e := adv_all cur w in
      let '(ts, er, a) := rec attr e rest in ((cur, TkInt w, e) :: ts, er, a)
    else if is_ws c then rec attr (adv cur c) r
    else ([], Some (cur, LxUnknownSymbol [c], adv cur c), attr)
  end.
(* one block; fuel = number of characters + 1.  Result: tokens, the first error if any, and the attribute-mode flag afterwards *)
Fixpoint lex_block (fuel : nat) (attr : bool) (cur : loc) (s : list N) : list ptok * option plexerr * bool :=
  match fuel with O => ([], None, attr) | S f => lex_step (lex_block f) attr cur s end.

(* all blocks in order; the attribute flag carries over, lexing stops at the first error *)
Fixpoint lex_blocks (bs : list (loc * list N)) (attr : bool) : list ptok * option plexerr :=
  match bs with
  | [] => ([], None)
  | (start, s) :: rest =>
    let '(ts, er, a) := lex_block (S (length s)) attr start s in
    match er with
    | Some e => (ts, Some e)
    | None => let '(ts2, er2) := lex_blocks rest a in (ts ++ ts2, er2)
    end
  end.
