(* Tokens of the Slice lexer (parsers/slice/tokens.rs).  Keywords are listed in Gen/Keywords.v, regenerated from lexer.rs. *)
From Coq Require Import List NArith.
Import ListNotations.

Inductive prim := PBool | PInt8 | PUInt8 | PInt16 | PUInt16 | PInt32 | PUInt32 | PVarInt32 | PVarUInt32 | PInt64 | PUInt64
                | PVarInt62 | PVarUInt62 | PFloat32 | PFloat64 | PString.
Inductive kw := KwModule | KwStruct | KwInterface | KwEnum | KwCustom | KwTypeAlias | KwResult | KwSequence | KwDictionary
              | KwPrim (p : prim) | KwCompact | KwIdempotent | KwStream | KwTag | KwUnchecked.
Inductive token :=
| TkIdent (s : list N) | TkInt (s : list N) | TkStr (s : list N) | TkDoc (s : list N) | TkKw (k : kw)
| TkLParen | TkRParen | TkLBracket | TkRBracket | TkDLBracket | TkDRBracket | TkLBrace | TkRBrace | TkLt | TkGt
| TkComma | TkColon | TkDColon | TkEq | TkQuestion | TkArrow | TkMinus.
