(* Token-level read-back, third part (C02, C09): custom types, type aliases, enumerations (underlying type, enumerators with
   fields and explicit or implicit values) and interfaces (bases, operations with parameters and return types) as whole
   definitions, and files made of any of the five kinds of definition -- for arbitrary token locations, with every recorded
   location equal to the extent of its own tokens. *)
From Coq Require Import List Bool NArith ZArith Arith Lia.
From SliceV Require Import Cli.PluginSpec Doc.Comment Syntax.Tokens Syntax.Lexer Syntax.Parser Syntax.ParserProofs Syntax.ParserProofs2.
Import ListNotations.
Local Open Scope nat_scope.

Ltac step3 := unfold p_identifier, expect, expect_kw, is_tok, is_kw, peek, advance, next_start, opt_tok, opt_kw;
  cbn [ps_toks ps_lexerr ps_last ps_diags token_eqb kw_eqb pbind fst snd orb].
Ltac le_close := cbn [first_start pstart fst app]; repeat (progress (rewrite ?last_end_app, ?last_end_cons; cbn [pend snd])); reflexivity.
Lemma advance_cons l t e r le last dg : advance (mkps ((l, t, e) :: r) le last dg) = mkps r le e dg.
Proof. reflexivity. Qed.
Ltac step_id := unfold p_identifier, next_start; repeat (progress (rewrite ?advance_cons; cbn [ps_toks ps_lexerr ps_last ps_diags pbind fst snd])).
Ltac kstep := unfold opt_kw, is_kw, peek; repeat (progress (rewrite ?advance_cons; cbn [ps_toks ps_lexerr ps_last ps_diags pbind fst snd kw_eqb orb])).
Ltac not_next := cbn; intros X; discriminate X.
Definition parse_defn (fuel : nat) (s : pstate) : pres defn := plet pre, s1 <- p_prelude fuel s ;; p_definition_after_prelude fuel pre s1.

(* ------------------------------------------------------------------------------------------------ custom types and aliases *)
Inductive written_custom : defn -> list ptok -> Prop :=
| wcustom doc attrs ppts lc ec name ln en :
    written_prelude (doc, attrs) ppts ->
    written_custom (DCustom doc attrs (mksident name (mksspan ln en)) (mksspan lc en)) (ppts ++ [(lc, TkKw KwCustom, ec); (ln, TkIdent name, en)]).
Lemma custom_written d pts : written_custom d pts -> forall fuel rest le last dg, length pts < fuel ->
  parse_defn fuel (mkps (pts ++ rest) le last dg) = POk_ d (mkps rest le (last_end pts last) dg).
Proof.
  destruct 1 as [doc attrs ppts lc ec name ln en Hpre]. intros fuel rest le last dg Hf. rewrite app_length in Hf. cbn [length] in Hf.
  unfold parse_defn. repeat (rewrite <- app_assoc; cbn [app]).
  pose proof (prelude_written _ _ Hpre fuel ((lc, TkKw KwCustom, ec) :: (ln, TkIdent name, en) :: rest) le last dg ltac:(lia) ltac:(cbn; tauto)) as P.
  unfold ptok in *. rewrite P. cbn [pbind]. unfold p_definition_after_prelude. do 8 step3. le_close.
Qed.

Inductive written_alias : defn -> list ptok -> Prop :=
| walias doc attrs ppts la ea name ln en lq eq t ypts :
    written_prelude (doc, attrs) ppts -> writtenA t ypts ->
    written_alias (DAlias doc attrs (mksident name (mksspan ln en)) t (mksspan la en))
      (ppts ++ (la, TkKw KwTypeAlias, ea) :: (ln, TkIdent name, en) :: (lq, TkEq, eq) :: ypts).
Lemma alias_written d pts : written_alias d pts -> forall fuel rest le last dg, length pts < fuel -> safe_follow rest ->
  parse_defn fuel (mkps (pts ++ rest) le last dg) = POk_ d (mkps rest le (last_end pts last) dg).
Proof.
  destruct 1 as [doc attrs ppts la ea name ln en lq eq t ypts Hpre Hty]. intros fuel rest le last dg Hf [Hq Hc]. rewrite app_length in Hf. cbn [length] in Hf.
  unfold parse_defn. repeat (rewrite <- app_assoc; cbn [app]).
  pose proof (prelude_written _ _ Hpre fuel ((la, TkKw KwTypeAlias, ea) :: (ln, TkIdent name, en) :: (lq, TkEq, eq) :: ypts ++ rest) le last dg ltac:(lia) ltac:(cbn; tauto)) as P.
  pose proof (typerefA_written t ypts Hty fuel rest le eq dg ltac:(lia) Hq Hc) as T.
  unfold ptok in *. rewrite P. cbn [pbind]. unfold p_definition_after_prelude. do 9 step3. rewrite T. cbn [pbind].
  destruct (writtenA_not_stream t ypts rest Hty) as [_ Hne]. destruct ypts as [|py ypts']; [exfalso; apply Hne; reflexivity|]. le_close.
Qed.

(* ------------------------------------------------------------------------------------------------ enumerators *)
(* "= integer" or "= - integer" *)
Inductive written_value : option (Z * sspan) -> list ptok -> Prop :=
| wv_none : written_value None []
| wv_pos s z b lq eq l e : parse_int s = (IntOk z, b) -> written_value (Some (z, mksspan l e)) [(lq, TkEq, eq); (l, TkInt s, e)]
| wv_neg s z b lq eq lm em l e : parse_int s = (IntOk z, b) ->
    written_value (Some ((- z)%Z, mksspan lm e)) [(lq, TkEq, eq); (lm, TkMinus, em); (l, TkInt s, e)].
(* "( fields )" *)
Inductive written_efields : option (list smember) -> list ptok -> Prop :=
| wef_none : written_efields None []
| wef_some fs mpts lp ep lr er : written_members false fs mpts -> written_efields (Some fs) ((lp, TkLParen, ep) :: mpts ++ [(lr, TkRParen, er)]).
Inductive written_enumerator (prev : option Z) : enumerator -> list ptok -> Prop :=
| wen doc attrs ppts name ln en fields fpts value vpts :
    written_prelude (doc, attrs) ppts -> written_efields fields fpts -> written_value value vpts ->
    written_enumerator prev
      (mkenumerator doc attrs (mksident name (mksspan ln en)) fields
         (match value with Some i => fst i | None => next_enumerator_value prev end) (option_map snd value) (mksspan ln (last_end (fpts ++ vpts) en)))
      (ppts ++ (ln, TkIdent name, en) :: fpts ++ vpts).
Definition enum_follow (ts : list ptok) : Prop := ~ next_is TkLParen ts /\ ~ next_is TkEq ts.
Lemma not_next_is t ts : ~ next_is t ts -> is_tok (mkps ts None L0 []) t = false.
Proof. destruct ts as [|[[l x] e] r]; [reflexivity|]. cbn. destruct (token_eqb x t); [intros H; exfalso; apply H; reflexivity|reflexivity]. Qed.
Lemma is_tok_head l t e r le last dg t' : is_tok (mkps ((l, t, e) :: r) le last dg) t' = token_eqb t t'.
Proof. reflexivity. Qed.
Ltac tok_head := unfold expect; rewrite is_tok_head; cbn [token_eqb]; step_id.
Lemma is_tok_indep ts le last dg t : is_tok (mkps ts le last dg) t = is_tok (mkps ts None L0 []) t.
Proof. reflexivity. Qed.
Lemma enumerator_written prev en pts : written_enumerator prev en pts -> forall fuel rest le last dg, S (length pts) < fuel -> enum_follow rest ->
  p_enumerator fuel prev (mkps (pts ++ rest) le last dg) = POk_ en (mkps rest le (last_end pts last) dg).
Proof.
  destruct 1 as [doc attrs ppts name ln en fields fpts value vpts Hpre Hfs Hv]. intros fuel rest le last dg Hf [Hp He].
  rewrite !app_length in Hf. cbn [length] in Hf. rewrite app_length in Hf.
  unfold p_enumerator. repeat (rewrite <- app_assoc; cbn [app]).
  pose proof (prelude_written _ _ Hpre fuel ((ln, TkIdent name, en) :: fpts ++ vpts ++ rest) le last dg ltac:(lia) ltac:(cbn; tauto)) as P.
  unfold ptok in *. rewrite P. cbn [pbind]. step_id.
  (* after the value: nothing of the enumerator is left *)
  assert (V : forall lst, (if is_tok (mkps (vpts ++ rest) le lst dg) TkEq
                           then plet i, a <- p_signed_integer (advance (mkps (vpts ++ rest) le lst dg)) ;; POk_ (Some i) a
                           else POk_ None (mkps (vpts ++ rest) le lst dg)) = POk_ value (mkps rest le (last_end vpts lst) dg)).
  { intros lst. destruct Hv as [|s z b lq eq l e Hs|s z b lq eq lm em l e Hs]; cbn [app].
    - rewrite is_tok_indep, (not_next_is _ _ He). reflexivity.
    - step3. unfold p_signed_integer, p_integer. step3. rewrite Hs. step3. reflexivity.
    - step3. unfold p_signed_integer, p_integer. step3. rewrite Hs. step3. reflexivity. }
  destruct Hfs as [|fs mpts lp ep lr er Hm]; cbn [app].
  - (* no fields *)
    assert (E : is_tok (mkps (vpts ++ rest) le en dg) TkLParen = false).
    { destruct Hv; cbn [app]; [rewrite is_tok_indep; apply (not_next_is _ _ Hp)|reflexivity|reflexivity]. }
    unfold ptok in *. rewrite E. cbn [pbind]. rewrite V. cbn [pbind]. destruct value as [[z sp]|]; cbn [fst snd option_map ps_last]; repeat (progress (rewrite ?last_end_cons, ?last_end_app; cbn [pend snd])); reflexivity.
  - cbn [length] in Hf. rewrite app_length in Hf. cbn [length] in Hf. tok_head. rewrite <- app_assoc. cbn [app].
    pose proof (members_written false fs mpts Hm fuel ((lr, TkRParen, er) :: vpts ++ rest) le ep dg ltac:(lia) eq_refl ltac:(split; not_next) ltac:(not_next)) as M.
    unfold ptok in *. rewrite M. cbn [pbind]. tok_head. rewrite V. cbn [pbind].
    destruct value as [[z sp]|]; cbn [fst snd option_map ps_last]; repeat (progress (rewrite ?last_end_cons, ?last_end_app; cbn [pend snd])); reflexivity.
Qed.

(* UndelimitedList<Enumerator>: after every enumerator a comma may or may not be written; an implicit value is the previous + 1 *)
Inductive written_enumerators : option Z -> list enumerator -> list ptok -> Prop :=
| wes_nil prev : written_enumerators prev [] []
| wes_cons prev e epts c es pts : written_enumerator prev e epts -> (c = [] \/ exists l e', c = [(l, TkComma, e')]) ->
    written_enumerators (Some (se_value e)) es pts -> written_enumerators prev (e :: es) (epts ++ c ++ pts).
Lemma written_enumerator_head prev e pts x : written_enumerator prev e pts ->
  exists p r, pts ++ x = p :: r /\ starts_enumerator (mkps (p :: r) None L0 []) = true /\ enum_follow (p :: r) /\ ~ next_is TkComma (p :: r).
Proof.
  destruct 1 as [doc attrs ppts name ln en fields fpts value vpts Hpre _ _].
  destruct Hpre; cbn [app]; eexists; eexists; (split; [reflexivity|split; [reflexivity|split; [split; not_next|not_next]]]).
Qed.
Lemma enumerators_written prev es pts : written_enumerators prev es pts -> forall fuel rest le last dg, S (S (length pts)) < fuel ->
  starts_enumerator (mkps rest None L0 []) = false -> enum_follow rest -> ~ next_is TkComma rest ->
  p_enumerators fuel prev (mkps (pts ++ rest) le last dg) = POk_ es (mkps rest le (last_end pts last) dg).
Proof.
  induction 1 as [prev|prev e epts c es pts He Hc Hes IH]; intros fuel rest le last dg Hf Hs Hr Hcm; (destruct fuel as [|f]; [cbn [length] in Hf; lia|]).
  - cbn [app p_enumerators]. change (starts_enumerator (mkps rest le last dg)) with (starts_enumerator (mkps rest None L0 [])). rewrite Hs. reflexivity.
  - rewrite !app_length in Hf. cbn [p_enumerators]. rewrite <- !app_assoc.
    destruct (written_enumerator_head prev e epts (c ++ pts ++ rest) He) as (p & r & E & Hst & _).
    assert (St : starts_enumerator (mkps (epts ++ c ++ pts ++ rest) le last dg) = true) by (rewrite E; exact Hst).
    assert (Hm1 : 1 <= length epts) by (destruct He; rewrite !app_length; cbn [length]; lia).
    assert (Hfollow : enum_follow (c ++ pts ++ rest)).
    { destruct Hc as [->|(l & e' & ->)]; cbn [app]; [|split; not_next].
      destruct Hes as [|prev' e2 epts2 c2 es2 pts2 He2 _ _]; [exact Hr|].
      destruct (written_enumerator_head _ e2 epts2 (c2 ++ pts2 ++ rest) He2) as (p' & r' & E' & _ & F & _). unfold ptok in *. rewrite <- !app_assoc. rewrite E'. exact F. }
    unfold ptok in *. assert (Hle : S (length epts) < f) by lia. assert (Hlr : S (S (length pts)) < f) by lia.
    pose proof (enumerator_written prev e epts He f (c ++ pts ++ rest) le last dg Hle Hfollow) as M.
    pose proof (fun lst => IH f rest le lst dg Hlr Hs Hr Hcm) as B.
    assert (Nc : c = [] -> is_tok (mkps (pts ++ rest) le (last_end epts last) dg) TkComma = false).
    { intros _. rewrite is_tok_indep. apply not_next_is. destruct Hes as [|prev' e2 epts2 c2 es2 pts2 He2 _ _]; [exact Hcm|].
      destruct (written_enumerator_head _ e2 epts2 (c2 ++ pts2 ++ rest) He2) as (p' & r' & E' & _ & _ & F). unfold ptok in *. rewrite <- !app_assoc. rewrite E'. exact F. }
    unfold ptok in *. rewrite St. rewrite M. cbn [pbind].
    destruct Hc as [->|(l & e' & ->)]; cbn [app].
    + unfold opt_tok. rewrite (Nc eq_refl). rewrite (B (last_end epts last)). cbn [pbind]. rewrite !last_end_app. reflexivity.
    + unfold opt_tok, is_tok, peek, advance. cbn [ps_toks ps_lexerr ps_last ps_diags token_eqb].
      rewrite (B e'). cbn [pbind]. rewrite !last_end_app, last_end_cons. reflexivity.
Qed.

(* ------------------------------------------------------------------------------------------------ enumerations *)
(* compact? unchecked? *)
Inductive written_mods : bool -> bool -> list ptok -> Prop :=
| wmod_ff : written_mods false false []
| wmod_tf l e : written_mods true false [(l, TkKw KwCompact, e)]
| wmod_ft l e : written_mods false true [(l, TkKw KwUnchecked, e)]
| wmod_tt l e l2 e2 : written_mods true true [(l, TkKw KwCompact, e); (l2, TkKw KwUnchecked, e2)].
(* ": underlying type" *)
Inductive written_under : option stref -> list ptok -> Prop :=
| wu_none : written_under None []
| wu_some t ypts lc ec : writtenA t ypts -> written_under (Some t) ((lc, TkColon, ec) :: ypts).
Inductive written_enum : defn -> list ptok -> Prop :=
| wenum doc attrs ppts compact unchecked mpts lk ek name ln en under upts lb eb ens epts lr er :
    written_prelude (doc, attrs) ppts -> written_mods compact unchecked mpts -> written_under under upts -> written_enumerators None ens epts ->
    written_enum (DEnum doc attrs compact unchecked (mksident name (mksspan ln en)) under ens (mksspan (first_start (mpts ++ [(lk, TkKw KwEnum, ek)]) L0) en))
      (ppts ++ mpts ++ (lk, TkKw KwEnum, ek) :: (ln, TkIdent name, en) :: upts ++ (lb, TkLBrace, eb) :: epts ++ [(lr, TkRBrace, er)]).
Lemma enum_written d pts : written_enum d pts -> forall fuel rest le last dg, length pts < fuel ->
  parse_defn fuel (mkps (pts ++ rest) le last dg) = POk_ d (mkps rest le (last_end pts last) dg).
Proof.
  destruct 1 as [doc attrs ppts compact unchecked mpts lk ek name ln en under upts lb eb ens epts lr er Hpre Hmods Hu Hens]. intros fuel rest le last dg Hf.
  rewrite !app_length in Hf. cbn [length] in Hf. rewrite !app_length in Hf. cbn [length] in Hf. rewrite app_length in Hf. cbn [length] in Hf.
  unfold parse_defn. repeat (rewrite <- app_assoc; cbn [app]).
  assert (NP : ~ starts_prelude (mpts ++ (lk, TkKw KwEnum, ek) :: (ln, TkIdent name, en) :: upts ++ (lb, TkLBrace, eb) :: epts ++ (lr, TkRBrace, er) :: rest)) by (destruct Hmods; cbn; tauto).
  pose proof (prelude_written _ _ Hpre fuel _ le last dg ltac:(lia) NP) as P.
  pose proof (fun lst => enumerators_written None ens epts Hens fuel ((lr, TkRBrace, er) :: rest) le lst dg ltac:(unfold ptok in *; lia) eq_refl ltac:(split; not_next) ltac:(not_next)) as E.
  (* the underlying type *)
  assert (U : forall lst, (if is_tok (mkps (upts ++ (lb, TkLBrace, eb) :: epts ++ (lr, TkRBrace, er) :: rest) le lst dg) TkColon
                           then plet t, a <- p_typeref fuel (advance (mkps (upts ++ (lb, TkLBrace, eb) :: epts ++ (lr, TkRBrace, er) :: rest) le lst dg)) ;; POk_ (Some t) a
                           else POk_ None (mkps (upts ++ (lb, TkLBrace, eb) :: epts ++ (lr, TkRBrace, er) :: rest) le lst dg))
                          = POk_ under (mkps ((lb, TkLBrace, eb) :: epts ++ (lr, TkRBrace, er) :: rest) le (last_end upts lst) dg)).
  { intros lst. destruct Hu as [|t ypts lc ec Hty]; cbn [app]; [reflexivity|]. rewrite is_tok_head. cbn [token_eqb]. step_id.
    pose proof (typerefA_written t ypts Hty fuel ((lb, TkLBrace, eb) :: epts ++ (lr, TkRBrace, er) :: rest) le ec dg ltac:(cbn [length] in Hf; unfold ptok in *; lia) ltac:(not_next) ltac:(not_next)) as T.
    unfold ptok in *. rewrite T. cbn [pbind]. rewrite last_end_cons. reflexivity. }
  unfold ptok in *. rewrite P. cbn [pbind]. unfold p_definition_after_prelude.
  destruct Hmods as [|l e|l e|l e l2 e2]; cbn [app];
    (kstep; step_id; rewrite U; cbn [pbind]; tok_head; rewrite E; cbn [pbind]; tok_head; le_close).
Qed.

(* ------------------------------------------------------------------------------------------------ interfaces *)
(* NonEmptyCommaList<TypeRef> before "{": a trailing comma may be written *)
Inductive written_bases : list stref -> list ptok -> Prop :=
| wb_last t ypts : writtenA t ypts -> written_bases [t] ypts
| wb_last_comma t ypts l e : writtenA t ypts -> written_bases [t] (ypts ++ [(l, TkComma, e)])
| wb_cons t ypts l e r pts : writtenA t ypts -> written_bases r pts -> written_bases (t :: r) (ypts ++ (l, TkComma, e) :: pts).
Lemma writtenA_head t pts x : writtenA t pts -> exists p r, pts ++ x = p :: r /\ token_eqb (snd (fst p)) TkLBrace = false /\ token_eqb (snd (fst p)) TkLParen = false.
Proof.
  assert (D : forall d p, writtenA_d d p -> forall y, exists p0 r, p ++ y = p0 :: r /\ token_eqb (snd (fst p0)) TkLBrace = false /\ token_eqb (snd (fst p0)) TkLParen = false)
    by (destruct 1; intros y; eexists; eexists; (split; [reflexivity|split; reflexivity])).
  destruct 1 as [attrs apts d pts wl wd|attrs apts d pts l e wl wd]; (destruct wl; cbn [app]; [|eexists; eexists; (split; [reflexivity|split; reflexivity])]).
  - apply (D _ _ wd).
  - rewrite <- app_assoc. apply (D _ _ wd).
Qed.
Lemma written_bases_head bs pts x : written_bases bs pts -> exists p r, pts ++ x = p :: r /\ token_eqb (snd (fst p)) TkLBrace = false.
Proof.
  destruct 1 as [t ypts Ht|t ypts l e Ht|t ypts l e r pts Ht _]; rewrite <- ?app_assoc.
  - destruct (writtenA_head t ypts x Ht) as (p & r0 & E & H & _). eexists; eexists; (split; [exact E|exact H]).
  - destruct (writtenA_head t ypts ([(l, TkComma, e)] ++ x) Ht) as (p & r0 & E & H & _). eexists; eexists; (split; [exact E|exact H]).
  - destruct (writtenA_head t ypts (((l, TkComma, e) :: pts) ++ x) Ht) as (p & r0 & E & H & _). eexists; eexists; (split; [exact E|exact H]).
Qed.
Lemma bases_written bs pts : written_bases bs pts -> forall fuel rest le last dg, S (length pts) < fuel -> next_is TkLBrace rest ->
  p_bases fuel (mkps (pts ++ rest) le last dg) = POk_ bs (mkps rest le (last_end pts last) dg).
Proof.
  induction 1 as [t ypts Ht|t ypts l e Ht|t ypts l e r pts Ht Hr IH]; intros fuel rest le last dg Hf Hb; (destruct fuel as [|f]; [cbn [length] in Hf; lia|]);
    (destruct rest as [|[[lb tb] eb] rest]; [contradiction|]); cbn [next_is] in Hb; (destruct tb; try discriminate Hb); cbn [p_bases].
  - pose proof (typerefA_written t ypts Ht f ((lb, TkLBrace, eb) :: rest) le last dg ltac:(lia) ltac:(not_next) ltac:(not_next)) as T.
    unfold ptok in *. rewrite T. cbn [pbind]. rewrite is_tok_head. reflexivity.
  - rewrite app_length in Hf. cbn [length] in Hf. rewrite <- app_assoc. cbn [app].
    pose proof (typerefA_written t ypts Ht f ((l, TkComma, e) :: (lb, TkLBrace, eb) :: rest) le last dg ltac:(lia) ltac:(not_next) ltac:(not_next)) as T.
    unfold ptok in *. rewrite T. cbn [pbind]. rewrite is_tok_head. cbn [token_eqb]. rewrite advance_cons, is_tok_head. cbn [token_eqb].
    rewrite last_end_app, last_end_cons. reflexivity.
  - rewrite app_length in Hf. cbn [length] in Hf. rewrite <- app_assoc. cbn [app].
    pose proof (typerefA_written t ypts Ht f ((l, TkComma, e) :: pts ++ (lb, TkLBrace, eb) :: rest) le last dg ltac:(lia) ltac:(not_next) ltac:(not_next)) as T.
    pose proof (IH f ((lb, TkLBrace, eb) :: rest) le e dg ltac:(lia) ltac:(reflexivity)) as B.
    destruct (written_bases_head r pts ((lb, TkLBrace, eb) :: rest) Hr) as ([[l0 t0] e0] & r0 & E & H0). cbn [fst snd] in H0.
    unfold ptok in *. rewrite T. cbn [pbind]. rewrite is_tok_head. cbn [token_eqb]. rewrite advance_cons.
    rewrite E at 1. rewrite is_tok_head, H0. rewrite B. cbn [pbind]. rewrite last_end_app, last_end_cons. reflexivity.
Qed.

(* "-> type", "-> tag(n) stream type", or "-> ( two or more parameters )" *)
Inductive written_stream : bool -> list ptok -> Prop :=
| wst_no : written_stream false []
| wst_yes l e : written_stream true [(l, TkKw KwStream, e)].
Inductive written_return : list smember -> list ptok -> Prop :=
| wr_none : written_return [] []
| wr_tuple ps mpts la ea lp ep lr er : written_members true ps mpts -> 2 <= length ps ->
    written_return ps ((la, TkArrow, ea) :: (lp, TkLParen, ep) :: mpts ++ [(lr, TkRParen, er)])
| wr_single tag tpts stream spts t ypts la ea : written_tag tag tpts -> written_stream stream spts -> writtenA t ypts ->
    written_return [mksmember [] [] tag (mksident returnValue (mksspan (first_start (tpts ++ spts ++ ypts) L0) (last_end ypts L0))) stream t
                      (mksspan (first_start (tpts ++ spts ++ ypts) L0) (last_end ypts L0))]
      ((la, TkArrow, ea) :: tpts ++ spts ++ ypts).
Lemma stream_then_type stream spts t ypts rest le last dg : written_stream stream spts -> writtenA t ypts ->
  opt_kw KwStream (mkps (spts ++ ypts ++ rest) le last dg) = (stream, mkps (ypts ++ rest) le (last_end spts last) dg).
Proof.
  intros Hs Ht. destruct Hs as [|l e]; cbn [app]; [|reflexivity].
  destruct (writtenA_not_stream t ypts rest Ht) as [Hns Hne]. unfold opt_kw, is_kw, peek. cbn [ps_toks].
  destruct ypts as [|[[ly ty] ey] ypts']; [exfalso; apply Hne; reflexivity|]. cbn [app head_is_stream] in *.
  assert (E : match ty with TkKw x => kw_eqb x KwStream | _ => false end = false) by (destruct ty as [| | | |[]| | | | | | | | | | | | | | | | |]; try reflexivity; discriminate Hns).
  rewrite E. reflexivity.
Qed.
Lemma return_written rs pts : written_return rs pts -> forall fuel rest le last dg, S (length pts) < fuel -> safe_follow rest -> ~ next_is TkArrow rest ->
  (if is_tok (mkps (pts ++ rest) le last dg) TkArrow then p_return_type fuel (mkps (pts ++ rest) le last dg) else POk_ [] (mkps (pts ++ rest) le last dg))
  = POk_ rs (mkps rest le (last_end pts last) dg).
Proof.
  destruct 1 as [|ps mpts la ea lp ep lr er Hm H2|tag tpts stream spts t ypts la ea Htag Hs Hty]; intros fuel rest le last dg Hf [Hq Hc] Ha.
  - cbn [app]. rewrite is_tok_indep, (not_next_is _ _ Ha). reflexivity.
  - cbn [length] in Hf. rewrite app_length in Hf. cbn [length] in Hf. cbn [app]. rewrite is_tok_head. cbn [token_eqb]. unfold p_return_type. tok_head.
    rewrite is_tok_head. cbn [token_eqb]. rewrite ?advance_cons. rewrite <- app_assoc. cbn [app].
    pose proof (members_written true ps mpts Hm fuel ((lr, TkRParen, er) :: rest) le ep dg ltac:(lia) eq_refl ltac:(split; not_next) ltac:(not_next)) as M.
    unfold ptok in *. rewrite M. cbn [pbind]. tok_head.
    destruct ps as [|p1 [|p2 ps']]; cbn [length] in H2; try lia. rewrite !last_end_cons, !last_end_app, !last_end_cons. reflexivity.
  - cbn [length] in Hf. rewrite !app_length in Hf. cbn [app]. rewrite <- !app_assoc. rewrite is_tok_head. cbn [token_eqb]. unfold p_return_type. tok_head.
    destruct (writtenA_not_stream t ypts rest Hty) as [_ Hne].
    pose proof (fun lst => stream_then_type stream spts t ypts rest le lst dg Hs Hty) as St.
    pose proof (fun lst => typerefA_written t ypts Hty fuel rest le lst dg ltac:(lia) Hq Hc) as T.
    destruct Htag as [|s z b l1 e1 l2 e2 l e l3 e3 Hp Hz]; cbn [app].
    + (* no tag: the next token is "stream" or starts the type, never "(" or "tag" *)
      assert (E : is_tok (mkps (spts ++ ypts ++ rest) le ea dg) TkLParen = false /\ is_kw (mkps (spts ++ ypts ++ rest) le ea dg) KwTag = false).
      { destruct Hs; cbn [app]; [|split; reflexivity].
        destruct (writtenA_head t ypts rest Hty) as ([[l0 t0] e0] & r0 & E0 & _ & H0). cbn [fst snd] in H0. unfold ptok in *. rewrite E0. rewrite is_tok_head. split; [exact H0|].
        destruct (writtenA_not_stream t ypts rest Hty) as [_ Hn]. clear -Hty E0. unfold is_kw, peek. cbn [ps_toks].
        assert (D : forall d p, writtenA_d d p -> forall y p0 r, p ++ y = p0 :: r -> match snd (fst p0) with TkKw x => kw_eqb x KwTag | _ => false end = false)
          by (destruct 1; intros y p0 r Hy; cbn [app] in Hy; inversion Hy; subst; reflexivity).
        destruct Hty as [attrs apts d pts wl wd|attrs apts d pts l e wl wd]; (destruct wl; cbn [app] in E0; [|inversion E0; subst; reflexivity]).
        - exact (D _ _ wd _ _ _ E0).
        - rewrite <- app_assoc in E0. exact (D _ _ wd _ _ _ E0). }
      destruct E as [E1 E2]. unfold ptok in *. rewrite E1, E2. cbn [pbind]. rewrite St. rewrite T. cbn [pbind].
      destruct ypts as [|[[ly ty] ey] ypts']; [exfalso; apply Hne; reflexivity|].
      destruct Hs; cbn [app first_start pstart fst ps_toks next_start]; repeat (progress (rewrite ?last_end_app, ?last_end_cons; cbn [pend snd ps_last])); reflexivity.
    + rewrite is_tok_head. cbn [token_eqb]. unfold is_kw, peek. cbn [ps_toks kw_eqb].
      rewrite (tag_written s z b l1 e1 l2 e2 l e l3 e3 _ le _ dg Hp Hz). cbn [pbind]. rewrite St. rewrite T. cbn [pbind].
      destruct ypts as [|[[ly ty] ey] ypts']; [exfalso; apply Hne; reflexivity|].
      cbn [app first_start pstart fst ps_toks next_start]; repeat (progress (rewrite ?last_end_app, ?last_end_cons; cbn [pend snd ps_last])); reflexivity.
Qed.

(* Prelude idempotent? Identifier ( parameters ) return type *)
Inductive written_operation : operation -> list ptok -> Prop :=
| wop doc attrs ppts idem ipts name ln en lp ep ps mpts lr er rs rpts :
    written_prelude (doc, attrs) ppts ->
    (idem = false /\ ipts = [] \/ idem = true /\ exists l e, ipts = [(l, TkKw KwIdempotent, e)]) ->
    written_members true ps mpts -> written_return rs rpts ->
    written_operation (mkoperation doc attrs idem (mksident name (mksspan ln en)) ps rs
                         (mksspan (first_start (ipts ++ [(ln, TkIdent name, en)]) L0) (last_end rpts er)))
      (ppts ++ ipts ++ (ln, TkIdent name, en) :: (lp, TkLParen, ep) :: mpts ++ (lr, TkRParen, er) :: rpts).
Definition op_follow (ts : list ptok) : Prop := safe_follow ts /\ ~ next_is TkArrow ts.
Lemma operation_written o pts : written_operation o pts -> forall fuel rest le last dg, S (length pts) < fuel -> op_follow rest ->
  p_operation fuel (mkps (pts ++ rest) le last dg) = POk_ o (mkps rest le (last_end pts last) dg).
Proof.
  destruct 1 as [doc attrs ppts idem ipts name ln en lp ep ps mpts lr er rs rpts Hpre Hi Hm Hr]. intros fuel rest le last dg Hf [Hsf Ha].
  rewrite !app_length in Hf. cbn [length] in Hf. rewrite app_length in Hf. cbn [length] in Hf.
  unfold p_operation. repeat (rewrite <- app_assoc; cbn [app]).
  assert (NP : ~ starts_prelude (ipts ++ (ln, TkIdent name, en) :: (lp, TkLParen, ep) :: mpts ++ (lr, TkRParen, er) :: rpts ++ rest)).
  { destruct Hi as [[_ ->]|(_ & l & e & ->)]; cbn; tauto. }
  pose proof (prelude_written _ _ Hpre fuel _ le last dg ltac:(lia) NP) as P.
  pose proof (members_written true ps mpts Hm fuel ((lr, TkRParen, er) :: rpts ++ rest) le ep dg ltac:(unfold ptok in *; lia) eq_refl ltac:(split; not_next) ltac:(not_next)) as M.
  pose proof (return_written rs rpts Hr fuel rest le er dg ltac:(unfold ptok in *; lia) Hsf Ha) as R.
  unfold ptok in *. rewrite P. cbn [pbind].
  destruct Hi as [[-> ->]|(-> & l & e & ->)]; cbn [app]; kstep; step_id; tok_head; rewrite M; cbn [pbind]; tok_head; rewrite R; cbn [pbind];
    cbn [first_start pstart fst app]; repeat (progress (rewrite ?last_end_app, ?last_end_cons; cbn [pend snd])); reflexivity.
Qed.

Inductive written_operations : list operation -> list ptok -> Prop :=
| wos_nil : written_operations [] []
| wos_cons o opts os pts : written_operation o opts -> written_operations os pts -> written_operations (o :: os) (opts ++ pts).
Lemma written_operation_head o pts x : written_operation o pts ->
  exists p r, pts ++ x = p :: r /\ starts_operation (mkps (p :: r) None L0 []) = true /\ op_follow (p :: r).
Proof.
  destruct 1 as [doc attrs ppts idem ipts name ln en lp ep ps mpts lr er rs rpts Hpre Hi _ _].
  destruct Hpre; [destruct Hi as [[_ ->]|(_ & l & e & ->)]|..]; cbn [app]; eexists; eexists; (split; [reflexivity|split; [reflexivity|split; [split; not_next|not_next]]]).
Qed.
Lemma operations_written os pts : written_operations os pts -> forall fuel rest le last dg, S (S (length pts)) < fuel ->
  starts_operation (mkps rest None L0 []) = false -> op_follow rest ->
  p_operations fuel (mkps (pts ++ rest) le last dg) = POk_ os (mkps rest le (last_end pts last) dg).
Proof.
  induction 1 as [|o opts os pts Ho Hos IH]; intros fuel rest le last dg Hf Hs Hr; (destruct fuel as [|f]; [cbn [length] in Hf; lia|]).
  - cbn [app p_operations]. change (starts_operation (mkps rest le last dg)) with (starts_operation (mkps rest None L0 [])). rewrite Hs. reflexivity.
  - rewrite app_length in Hf. cbn [p_operations]. rewrite <- app_assoc.
    destruct (written_operation_head o opts (pts ++ rest) Ho) as (p & r & E & Hst & _).
    assert (St : starts_operation (mkps (opts ++ pts ++ rest) le last dg) = true) by (rewrite E; exact Hst).
    assert (Hfollow : op_follow (pts ++ rest)).
    { destruct Hos as [|o2 opts2 os2 pts2 Ho2 _]; [exact Hr|].
      destruct (written_operation_head o2 opts2 (pts2 ++ rest) Ho2) as (p' & r' & E' & _ & F). unfold ptok in *. rewrite <- app_assoc. rewrite E'. exact F. }
    assert (Hm1 : 1 <= length opts) by (destruct Ho; rewrite !app_length; cbn [length]; lia).
    assert (Hl1 : S (length opts) < f) by lia. assert (Hl2 : S (S (length pts)) < f) by lia.
    pose proof (operation_written o opts Ho f (pts ++ rest) le last dg Hl1 Hfollow) as M.
    pose proof (IH f rest le (last_end opts last) dg Hl2 Hs Hr) as B.
    unfold ptok in *. rewrite St, M. cbn [pbind]. rewrite B. cbn [pbind]. rewrite last_end_app. reflexivity.
Qed.

(* ": bases" *)
Inductive written_inherits : list stref -> list ptok -> Prop :=
| wi_none : written_inherits [] []
| wi_some bs bpts lc ec : written_bases bs bpts -> written_inherits bs ((lc, TkColon, ec) :: bpts).
Inductive written_iface : defn -> list ptok -> Prop :=
| wiface doc attrs ppts lk ek name ln en bases bpts lb eb ops opts lr er :
    written_prelude (doc, attrs) ppts -> written_inherits bases bpts -> written_operations ops opts ->
    written_iface (DIface doc attrs (mksident name (mksspan ln en)) bases ops (mksspan lk en))
      (ppts ++ (lk, TkKw KwInterface, ek) :: (ln, TkIdent name, en) :: bpts ++ (lb, TkLBrace, eb) :: opts ++ [(lr, TkRBrace, er)]).
Lemma iface_written d pts : written_iface d pts -> forall fuel rest le last dg, length pts < fuel ->
  parse_defn fuel (mkps (pts ++ rest) le last dg) = POk_ d (mkps rest le (last_end pts last) dg).
Proof.
  destruct 1 as [doc attrs ppts lk ek name ln en bases bpts lb eb ops opts lr er Hpre Hb Hops]. intros fuel rest le last dg Hf.
  rewrite !app_length in Hf. cbn [length] in Hf. rewrite !app_length in Hf. cbn [length] in Hf. rewrite app_length in Hf. cbn [length] in Hf.
  unfold parse_defn. repeat (rewrite <- app_assoc; cbn [app]).
  pose proof (prelude_written _ _ Hpre fuel ((lk, TkKw KwInterface, ek) :: (ln, TkIdent name, en) :: bpts ++ (lb, TkLBrace, eb) :: opts ++ (lr, TkRBrace, er) :: rest) le last dg ltac:(lia) ltac:(cbn; tauto)) as P.
  pose proof (fun lst => operations_written ops opts Hops fuel ((lr, TkRBrace, er) :: rest) le lst dg ltac:(unfold ptok in *; lia) eq_refl ltac:(split; [split|]; not_next)) as O.
  assert (B : forall lst, (if is_tok (mkps (bpts ++ (lb, TkLBrace, eb) :: opts ++ (lr, TkRBrace, er) :: rest) le lst dg) TkColon
                           then p_bases fuel (advance (mkps (bpts ++ (lb, TkLBrace, eb) :: opts ++ (lr, TkRBrace, er) :: rest) le lst dg))
                           else POk_ [] (mkps (bpts ++ (lb, TkLBrace, eb) :: opts ++ (lr, TkRBrace, er) :: rest) le lst dg))
                          = POk_ bases (mkps ((lb, TkLBrace, eb) :: opts ++ (lr, TkRBrace, er) :: rest) le (last_end bpts lst) dg)).
  { intros lst. destruct Hb as [|bs bpts lc ec Hbs]; cbn [app]; [reflexivity|]. rewrite is_tok_head. cbn [token_eqb]. rewrite advance_cons.
    pose proof (bases_written bs bpts Hbs fuel ((lb, TkLBrace, eb) :: opts ++ (lr, TkRBrace, er) :: rest) le ec dg ltac:(cbn [length] in Hf; unfold ptok in *; lia) ltac:(reflexivity)) as T.
    unfold ptok in *. rewrite T. rewrite last_end_cons. reflexivity. }
  unfold ptok in *. rewrite P. cbn [pbind]. unfold p_definition_after_prelude. kstep. step_id. rewrite B. cbn [pbind]. tok_head. rewrite O. cbn [pbind]. tok_head. le_close.
Qed.

(* ------------------------------------------------------------------------------------------------ any definition, any file *)
Inductive written_defn : defn -> list ptok -> Prop :=
| wdf_struct d pts : written_struct d pts -> written_defn d pts
| wdf_enum d pts : written_enum d pts -> written_defn d pts
| wdf_iface d pts : written_iface d pts -> written_defn d pts
| wdf_custom d pts : written_custom d pts -> written_defn d pts
| wdf_alias d pts : written_alias d pts -> written_defn d pts.
Lemma defn_written d pts : written_defn d pts -> forall fuel rest le last dg, length pts < fuel -> safe_follow rest ->
  parse_defn fuel (mkps (pts ++ rest) le last dg) = POk_ d (mkps rest le (last_end pts last) dg).
Proof.
  destruct 1 as [d pts H|d pts H|d pts H|d pts H|d pts H]; intros fuel rest le last dg Hf Hs.
  - apply (struct_written d pts H). lia.
  - apply (enum_written d pts H). lia.
  - apply (iface_written d pts H). lia.
  - apply (custom_written d pts H). lia.
  - apply (alias_written d pts H); [lia|exact Hs].
Qed.
(* the first token of a definition: a doc comment line, "[", or one of the definition keywords *)
Lemma written_defn_head d pts x : written_defn d pts -> exists p r, pts ++ x = p :: r /\ safe_follow (p :: r).
Proof.
  assert (PH : forall pre ppts y, written_prelude pre ppts -> ppts <> [] -> exists p r, ppts ++ y = p :: r /\ safe_follow (p :: r)).
  { intros pre ppts y Hp Hne. destruct Hp; [congruence|..]; cbn [app]; eexists; eexists; (split; [reflexivity|split; not_next]). }
  destruct 1 as [d pts H|d pts H|d pts H|d pts H|d pts H].
  - destruct H as [doc attrs ppts compact cpts ls es name ln en lb eb fields mpts lr er Hpre Hc Hm].
    destruct ppts as [|p0 ppts0]; [|rewrite <- app_assoc; apply (PH _ _ _ Hpre); discriminate].
    destruct Hc as [[_ ->]|(_ & l & e & ->)]; cbn [app]; eexists; eexists; (split; [reflexivity|split; not_next]).
  - destruct H as [doc attrs ppts compact unchecked mpts lk ek name ln en under upts lb eb ens epts lr er Hpre Hmods Hu Hens].
    destruct ppts as [|p0 ppts0]; [|rewrite <- app_assoc; apply (PH _ _ _ Hpre); discriminate].
    destruct Hmods; cbn [app]; eexists; eexists; (split; [reflexivity|split; not_next]).
  - destruct H as [doc attrs ppts lk ek name ln en bases bpts lb eb ops opts lr er Hpre Hb Hops].
    destruct ppts as [|p0 ppts0]; [|rewrite <- app_assoc; apply (PH _ _ _ Hpre); discriminate].
    cbn [app]; eexists; eexists; (split; [reflexivity|split; not_next]).
  - destruct H as [doc attrs ppts lc ec name ln en Hpre].
    destruct ppts as [|p0 ppts0]; [|rewrite <- app_assoc; apply (PH _ _ _ Hpre); discriminate].
    cbn [app]; eexists; eexists; (split; [reflexivity|split; not_next]).
  - destruct H as [doc attrs ppts la ea name ln en lq eq t ypts Hpre Hty].
    destruct ppts as [|p0 ppts0]; [|rewrite <- app_assoc; apply (PH _ _ _ Hpre); discriminate].
    cbn [app]; eexists; eexists; (split; [reflexivity|split; not_next]).
Qed.
Lemma written_defn_nonempty d pts : written_defn d pts -> 1 <= length pts.
Proof.
  destruct 1 as [d pts H|d pts H|d pts H|d pts H|d pts H]; destruct H; rewrite !app_length; cbn [length]; rewrite ?app_length; cbn [length]; lia.
Qed.
Inductive written_defns : list defn -> list ptok -> Prop :=
| wds_nil : written_defns [] []
| wds_cons d dpts ds pts : written_defn d dpts -> written_defns ds pts -> written_defns (d :: ds) (dpts ++ pts).
Lemma written_defns_follow ds pts : written_defns ds pts -> safe_follow pts.
Proof.
  destruct 1 as [|d dpts ds' pts' Hd _]; [split; cbn; tauto|].
  destruct (written_defn_head d dpts pts' Hd) as (p & r & E & F). unfold ptok in *. rewrite E. exact F.
Qed.
Lemma defns_written ds pts : written_defns ds pts -> forall fuel last dg, S (length pts) < fuel ->
  p_definitions fuel (mkps pts None last dg) = POk_ ds (mkps [] None (last_end pts last) dg).
Proof.
  induction 1 as [|d dpts ds pts Hd Hds IH]; intros fuel last dg Hf; (destruct fuel as [|f]; [cbn [length] in Hf; lia|]).
  - reflexivity.
  - rewrite app_length in Hf.
    destruct (written_defn_head d dpts pts Hd) as (p & r & E & _). cbn [p_definitions]. unfold ptok in *. rewrite E. cbn [ps_toks]. rewrite <- E.
    pose proof (written_defn_nonempty d dpts Hd) as Hm1. unfold ptok in *.
    assert (Hl1 : length dpts < f) by lia. assert (Hl2 : S (length pts) < f) by lia.
    pose proof (defn_written d dpts Hd f pts None last dg Hl1 (written_defns_follow ds pts Hds)) as SW. unfold parse_defn in SW.
    pose proof (IH f (last_end dpts last) dg Hl2) as B.
    unfold ptok in *.
    destruct (p_prelude f (mkps (dpts ++ pts) None last dg)) as [pre s1|e] eqn:Ep; cbn [pbind] in SW |- *; [|discriminate SW].
    rewrite SW. cbn [pbind]. rewrite B. cbn [pbind]. rewrite last_end_app. reflexivity.
Qed.

(* a whole file: file attributes are not written; module declaration with its attributes, then definitions of any kind, then
   the end of the input *)
Inductive written_file_all : file -> list ptok -> Prop :=
| wfile_all mattrs ppts lm em first more mpts ln en ds dpts :
    written_prelude ([], mattrs) ppts -> spells_tail more mpts -> written_defns ds dpts ->
    written_file_all (mkfile [] (Some (mkmodul [] mattrs (mksident (joined false first more) (mksspan ln (last_end mpts en))) (mksspan lm (last_end mpts en)))) ds)
      (ppts ++ (lm, TkKw KwModule, em) :: (ln, TkIdent first, en) :: mpts ++ dpts).
(* the tokens of a written file, whatever their locations, are read back as that file: every definition of every kind, every
   member, enumerator, operation, tag, attribute, type expression and name in source order, nothing else, no diagnostic; every
   location is the extent of its own tokens *)
Theorem file_written_all f pts : written_file_all f pts -> forall start,
  p_file (S (S (length pts))) (mkps pts None start []) = POk_ f (mkps [] None (last_end pts start) []).
Proof.
  destruct 1 as [mattrs ppts lm em first more mpts ln en ds dpts Hpre Hs Hds]. intros start.
  set (fuel := S (S (length (ppts ++ (lm, TkKw KwModule, em) :: (ln, TkIdent first, en) :: mpts ++ dpts)))).
  assert (Hlen : length ppts + S (S (length mpts + length dpts)) + 2 = fuel).
  { unfold fuel. rewrite app_length. cbn [length]. rewrite app_length. lia. }
  unfold p_file.
  assert (FA : p_file_attributes fuel (mkps (ppts ++ (lm, TkKw KwModule, em) :: (ln, TkIdent first, en) :: mpts ++ dpts) None start []) =
               POk_ [] (mkps (ppts ++ (lm, TkKw KwModule, em) :: (ln, TkIdent first, en) :: mpts ++ dpts) None start [])).
  { unfold fuel. cbn [p_file_attributes]. destruct Hpre; reflexivity. }
  rewrite FA. cbn [pbind].
  assert (NE : exists p r, ppts ++ (lm, TkKw KwModule, em) :: (ln, TkIdent first, en) :: mpts ++ dpts = p :: r) by (destruct Hpre; cbn [app]; eexists; eexists; reflexivity).
  destruct NE as (p0 & r0 & E0). rewrite E0. cbn [ps_toks]. rewrite <- E0. clear E0 p0 r0 FA.
  assert (H1 : length ppts < fuel) by lia. assert (H2 : length mpts < fuel) by lia. assert (H3 : S (length dpts) < fuel) by lia.
  pose proof (prelude_written _ _ Hpre fuel ((lm, TkKw KwModule, em) :: (ln, TkIdent first, en) :: mpts ++ dpts) None start [] H1 ltac:(cbn; tauto)) as P.
  pose proof (scoped_tail_written more mpts Hs fuel first dpts None en [] H2 (proj2 (written_defns_follow ds dpts Hds))) as T. unfold st in T.
  pose proof (defns_written ds dpts Hds fuel (last_end mpts en) [] H3) as D.
  unfold ptok in *. rewrite P. cbn [pbind]. step2. unfold p_relative_identifier. step2. rewrite T. step2. rewrite D. cbn [pbind].
  unfold joined. cbn [app]. rewrite !last_end_app, !last_end_cons, !last_end_app. cbn [pend snd]. reflexivity.
Qed.

(* non-vacuity: the tokens (at some locations) of
     module M  enum E { A = -1, B(x: bool) }  interface I : J { idempotent op(a: bool) -> bool }  custom C  typealias Y = bool
   spell a file with one definition of each of these kinds *)
Definition T (t : token) : ptok := (L0, t, L0).
Definition ex_bool : list ptok := [T (TkKw (KwPrim PBool))].
Definition ex_J : list ptok := [T (TkIdent [74%N])].
Definition ex_field_x : list ptok := [T (TkIdent [120%N]); T TkColon] ++ ex_bool.
Definition ex_param_a : list ptok := [T (TkIdent [97%N]); T TkColon] ++ ex_bool.
Definition ex_enum : list ptok :=
  [T (TkKw KwEnum); T (TkIdent [69%N]); T TkLBrace;
   T (TkIdent [65%N]); T TkEq; T TkMinus; T (TkInt [49%N]); T TkComma;
   T (TkIdent [66%N]); T TkLParen] ++ ex_field_x ++ [T TkRParen; T TkRBrace].
Definition ex_iface : list ptok :=
  [T (TkKw KwInterface); T (TkIdent [73%N]); T TkColon] ++ ex_J ++ [T TkLBrace; T (TkKw KwIdempotent); T (TkIdent [111%N; 112%N]); T TkLParen] ++ ex_param_a ++
  [T TkRParen; T TkArrow] ++ ex_bool ++ [T TkRBrace].
Definition ex_custom : list ptok := [T (TkKw KwCustom); T (TkIdent [67%N])].
Definition ex_alias : list ptok := [T (TkKw KwTypeAlias); T (TkIdent [89%N]); T TkEq] ++ ex_bool.
Definition ex_all_tokens : list ptok := [T (TkKw KwModule); T (TkIdent [77%N])] ++ ex_enum ++ ex_iface ++ ex_custom ++ ex_alias.

Lemma ex_bool_written : exists t, writtenA t ex_bool.
Proof. eexists. exact (wa_plain [] [] (DPrim PBool) ex_bool wla_nil (wad_prim PBool L0 L0)). Qed.
Lemma ex_J_written : exists t, writtenA t ex_J.
Proof. eexists. exact (wa_plain [] [] _ ex_J wla_nil (wad_rel [74%N] [] [] L0 L0 st_nil)). Qed.
Lemma ex_member_written ip c : exists m, written_member ip m ([T (TkIdent [c]); T TkColon] ++ ex_bool).
Proof.
  destruct ex_bool_written as [t Ht]. eexists.
  exact (wm ip [] [] [] None [] [c] L0 L0 L0 L0 false [] t ex_bool wp_nil (fun _ => eq_refl) wt_none (or_introl (conj eq_refl eq_refl)) Ht).
Qed.
Lemma ex_members_written ip c : exists ms, written_members ip ms ([T (TkIdent [c]); T TkColon] ++ ex_bool) /\ length ms = 1.
Proof.
  destruct (ex_member_written ip c) as [m Hm]. exists [m]. split; [|reflexivity].
  exact (wms_cons ip m _ [] [] [] Hm (or_introl eq_refl) (wms_nil ip)).
Qed.
Lemma ex_enum_written : exists d, written_defn d ex_enum.
Proof.
  destruct (ex_members_written false 120%N) as (fs & Hfs & _).
  pose proof (wen None [] [] [] [65%N] L0 L0 None [] _ _ wp_nil wef_none (wv_neg [49%N] 1%Z 10%N L0 L0 L0 L0 L0 L0 eq_refl)) as HA.
  pose proof (fun prev => wen prev [] [] [] [66%N] L0 L0 (Some fs) _ None [] wp_nil (wef_some fs _ L0 L0 L0 L0 Hfs) wv_none) as HB.
  pose proof (wes_cons None _ _ [T TkComma] _ _ HA (or_intror (ex_intro _ L0 (ex_intro _ L0 eq_refl)))
                (wes_cons _ _ _ [] [] [] (HB _) (or_introl eq_refl) (wes_nil _))) as HE.
  eexists. apply wdf_enum.
  exact (wenum [] [] [] false false [] L0 L0 [69%N] L0 L0 None [] L0 L0 _ _ L0 L0 wp_nil wmod_ff wu_none HE).
Qed.
Lemma ex_iface_written : exists d, written_defn d ex_iface.
Proof.
  destruct ex_bool_written as [tb Hb]. destruct ex_J_written as [tj Hj]. destruct (ex_members_written true 97%N) as (ps & Hps & _).
  pose proof (wr_single None [] false [] tb ex_bool L0 L0 wt_none wst_no Hb) as HR.
  pose proof (wop [] [] [] true [T (TkKw KwIdempotent)] [111%N; 112%N] L0 L0 L0 L0 ps _ L0 L0 _ _ wp_nil
                (or_intror (conj eq_refl (ex_intro _ L0 (ex_intro _ L0 eq_refl)))) Hps HR) as HO.
  pose proof (wos_cons _ _ [] [] HO wos_nil) as HOs.
  eexists. apply wdf_iface.
  exact (wiface [] [] [] L0 L0 [73%N] L0 L0 [tj] _ L0 L0 _ _ L0 L0 wp_nil (wi_some [tj] ex_J L0 L0 (wb_last tj ex_J Hj)) HOs).
Qed.
Lemma ex_custom_written : exists d, written_defn d ex_custom.
Proof. eexists. apply wdf_custom. exact (wcustom [] [] [] L0 L0 [67%N] L0 L0 wp_nil). Qed.
Lemma ex_alias_written : exists d, written_defn d ex_alias.
Proof. destruct ex_bool_written as [tb Hb]. eexists. apply wdf_alias. exact (walias [] [] [] L0 L0 [89%N] L0 L0 L0 L0 tb ex_bool wp_nil Hb). Qed.
Example ex_written_all : exists f, written_file_all f ex_all_tokens /\ length (f_defs f) = 4.
Proof.
  destruct ex_enum_written as [d1 H1]. destruct ex_iface_written as [d2 H2]. destruct ex_custom_written as [d3 H3]. destruct ex_alias_written as [d4 H4].
  pose proof (wds_cons _ _ _ _ H1 (wds_cons _ _ _ _ H2 (wds_cons _ _ _ _ H3 (wds_cons _ _ _ _ H4 wds_nil)))) as HD.
  eexists. split; [exact (wfile_all [] [] L0 L0 [77%N] [] [] L0 L0 _ _ wp_nil st_nil HD)|reflexivity].
Qed.
