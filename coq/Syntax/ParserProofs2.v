(* Token-level read-back, continued (C02, C09): attributes with arguments, type references carrying attributes, preludes
   (doc comment lines and attributes in any order), tags, fields and parameters, member lists with optional commas, and
   struct definitions -- for arbitrary token locations, with every recorded location equal to the extent of its own tokens. *)
From Coq Require Import List Bool NArith ZArith Arith Lia.
From SliceV Require Import Cli.PluginSpec Doc.Comment Syntax.Tokens Syntax.Lexer Syntax.Parser Syntax.ParserProofs.
Import ListNotations.
Local Open Scope nat_scope.

Ltac step2 := unfold p_identifier, expect, expect_kw, is_tok, is_kw, peek, advance, next_start, opt_tok, opt_kw; cbn [ps_toks ps_lexerr ps_last ps_diags token_eqb kw_eqb pbind fst snd].

(* ------------------------------------------------------------------------------------------------ attributes *)
Inductive written_arg : list N -> ptok -> Prop :=
| warg_ident a l e : written_arg a (l, TkIdent a, e)
| warg_str raw l e : written_arg (unescape false raw) (l, TkStr raw, e).
Inductive written_args : list (list N) -> list ptok -> Prop :=
| wargs_nil : written_args [] []
| wargs_last a t : written_arg a t -> written_args [a] [t]
| wargs_last_comma a t l e : written_arg a t -> written_args [a] [t; (l, TkComma, e)]
| wargs_cons a t l e b r pts : written_arg a t -> written_args (b :: r) pts -> written_args (a :: b :: r) (t :: (l, TkComma, e) :: pts).

Lemma attr_args_written args pts : written_args args pts -> forall fuel rest le last dg, length pts < fuel -> next_is TkRParen rest ->
  p_attr_args fuel (mkps (pts ++ rest) le last dg) = POk_ args (mkps rest le (last_end pts last) dg).
Proof.
  induction 1 as [|a t Ha|a t l e Ha|a t l e b r pts Ha Hw IH]; intros fuel rest le last dg Hf Hr; (destruct fuel as [|f]; [cbn [length] in Hf; lia|]).
  - cbn [app p_attr_args ps_toks]. destruct rest as [|[[l t] e] rest]; [contradiction|]. cbn [next_is] in Hr. destruct t; try discriminate Hr. reflexivity.
  - destruct rest as [|[[lr tr] er] rest]; [contradiction|]. cbn [next_is] in Hr. destruct tr; try discriminate Hr.
    destruct Ha as [a l e|raw l e]; cbn [app p_attr_args ps_toks]; step2; reflexivity.
  - destruct rest as [|[[lr tr] er] rest]; [contradiction|]. cbn [next_is] in Hr. destruct tr; try discriminate Hr.
    destruct Ha as [a l0 e0|raw l0 e0]; cbn [app p_attr_args ps_toks]; step2; reflexivity.
  - cbn [length] in Hf. specialize (IH f rest le e dg ltac:(lia) Hr).
    assert (Hne : exists t' pts', pts = t' :: pts' /\ token_eqb (snd (fst t')) TkRParen = false).
    { clear -Hw. inversion Hw as [|? ? Ha0|? ? ? ? Ha0|? ? ? ? ? ? ? Ha0 _]; subst; destruct Ha0; eexists; eexists; split; reflexivity. }
    destruct Hne as (t' & pts' & -> & Ht').
    destruct Ha as [a l0 e0|raw l0 e0]; cbn [app p_attr_args ps_toks]; step2; destruct t' as [[l' t''] e']; cbn [fst snd] in Ht'; cbn [app]; rewrite Ht';
      cbn [app] in IH; rewrite IH; cbn [pbind]; rewrite !last_end_cons; reflexivity.
Qed.

Inductive written_attr : attr -> list ptok -> Prop :=
| wattr_plain first more pts l e : spells_tail more pts ->
    written_attr (mkattr (joined false first more) [] (mksspan l (last_end pts e))) ((l, TkIdent first, e) :: pts)
| wattr_args first more pts l e args apts lp ep lr er : spells_tail more pts -> written_args args apts ->
    written_attr (mkattr (joined false first more) args (mksspan l er)) ((l, TkIdent first, e) :: pts ++ (lp, TkLParen, ep) :: apts ++ [(lr, TkRParen, er)]).
Lemma attr_written a pts : written_attr a pts -> forall fuel rest le last dg, length pts < fuel -> ~ next_is TkDColon rest -> ~ next_is TkLParen rest ->
  p_attribute fuel (mkps (pts ++ rest) le last dg) = POk_ a (mkps rest le (last_end pts last) dg).
Proof.
  destruct 1 as [first more pts l e Hs|first more pts l e args apts lp ep lr er Hs Ha]; intros fuel rest le last dg Hf Hc Hp.
  - cbn [length app] in *. unfold p_attribute, p_relative_identifier. step2.
    pose proof (scoped_tail_written more pts Hs fuel first rest le e dg ltac:(lia) Hc) as T. unfold st in T. rewrite T. step2.
    destruct rest as [|[[l0 t0] e0] rest]; [|cbn [next_is] in Hp; destruct (token_eqb t0 TkLParen) eqn:E; [exfalso; apply Hp; reflexivity|]]; cbn [ps_toks]; rewrite ?E;
      unfold joined; cbn [app si_val]; rewrite !last_end_cons; reflexivity.
  - cbn [length app] in *. rewrite !app_length in Hf. cbn [length] in Hf. rewrite app_length in Hf. cbn [length] in Hf.
    assert (Hl1 : length pts < fuel) by lia. assert (Hl2 : length apts < fuel) by lia.
    unfold p_attribute, p_relative_identifier. step2. repeat (rewrite <- app_assoc; cbn [app]).
    pose proof (scoped_tail_written more pts Hs fuel first ((lp, TkLParen, ep) :: apts ++ (lr, TkRParen, er) :: rest) le e dg Hl1 ltac:(cbn; intros X; discriminate X)) as T.
    unfold st in T. unfold ptok in *. rewrite T. step2.
    pose proof (attr_args_written args apts Ha fuel ((lr, TkRParen, er) :: rest) le ep dg Hl2 ltac:(reflexivity)) as A. unfold ptok in *. rewrite A. step2.
    unfold joined. cbn [app si_val]. rewrite !last_end_cons, !last_end_app. cbn [last_end rev app pend snd]. rewrite !last_end_cons, ?last_end_app. cbn [last_end rev app pend snd]. reflexivity.
Qed.

(* LocalAttribute*: [ attribute ] ... *)
Inductive written_lattrs : list attr -> list ptok -> Prop :=
| wla_nil : written_lattrs [] []
| wla_cons a apts r pts l e l2 e2 : written_attr a apts -> written_lattrs r pts ->
    written_lattrs (a :: r) ((l, TkLBracket, e) :: apts ++ (l2, TkRBracket, e2) :: pts).
Lemma lattrs_written attrs pts : written_lattrs attrs pts -> forall fuel rest le last dg, length pts < fuel -> ~ next_is TkLBracket rest ->
  p_local_attributes fuel (mkps (pts ++ rest) le last dg) = POk_ attrs (mkps rest le (last_end pts last) dg).
Proof.
  induction 1 as [|a apts r pts l e l2 e2 Ha _ IH]; intros fuel rest le last dg Hf Hr; (destruct fuel as [|f]; [cbn [length] in Hf; lia|]).
  - cbn [app p_local_attributes]. destruct rest as [|[[l t] e] rest]; [reflexivity|]. cbn [next_is] in Hr. unfold is_tok, peek. cbn [ps_toks].
    destruct (token_eqb t TkLBracket); [exfalso; apply Hr; reflexivity|reflexivity].
  - cbn [length app] in *. rewrite app_length in Hf. cbn [length] in Hf. cbn [p_local_attributes]. unfold p_local_attribute. step2.
    rewrite <- app_assoc. cbn [app].
    pose proof (attr_written a apts Ha f ((l2, TkRBracket, e2) :: pts ++ rest) le e dg ltac:(lia) ltac:(cbn; intros X; discriminate X) ltac:(cbn; intros X; discriminate X)) as A.
    pose proof (IH f rest le e2 dg ltac:(lia) Hr) as B. unfold ptok in *. rewrite A. step2. rewrite B. cbn [pbind].
    rewrite !last_end_cons, !last_end_app, !last_end_cons. reflexivity.
Qed.

(* ------------------------------------------------------------------------------------------------ type references with attributes *)
Inductive writtenA : stref -> list ptok -> Prop :=
| wa_plain attrs apts d pts : written_lattrs attrs apts -> writtenA_d d pts ->
    writtenA (STRef (mksspan (first_start (apts ++ pts) L0) (last_end pts L0)) false attrs d) (apts ++ pts)
| wa_opt attrs apts d pts l e : written_lattrs attrs apts -> writtenA_d d pts ->
    writtenA (STRef (mksspan (first_start (apts ++ pts) L0) e) true attrs d) (apts ++ pts ++ [(l, TkQuestion, e)])
with writtenA_d : stdef -> list ptok -> Prop :=
| wad_prim p l e : writtenA_d (DPrim p) [(l, TkKw (KwPrim p), e)]
| wad_seq t pts l1 e1 l2 e2 l3 e3 : writtenA t pts -> writtenA_d (DSeq t) ((l1, TkKw KwSequence, e1) :: (l2, TkLt, e2) :: pts ++ [(l3, TkGt, e3)])
| wad_dict k v pk pv l1 e1 l2 e2 l3 e3 l4 e4 : writtenA k pk -> writtenA v pv ->
    writtenA_d (DDict k v) ((l1, TkKw KwDictionary, e1) :: (l2, TkLt, e2) :: pk ++ (l3, TkComma, e3) :: pv ++ [(l4, TkGt, e4)])
| wad_res k v pk pv l1 e1 l2 e2 l3 e3 l4 e4 : writtenA k pk -> writtenA v pv ->
    writtenA_d (DRes k v) ((l1, TkKw KwResult, e1) :: (l2, TkLt, e2) :: pk ++ (l3, TkComma, e3) :: pv ++ [(l4, TkGt, e4)])
| wad_rel first more pts l e : spells_tail more pts ->
    writtenA_d (DNamed (mksident (joined false first more) (mksspan l (last_end pts e)))) ((l, TkIdent first, e) :: pts)
| wad_glob first more pts l0 e0 l e : spells_tail more pts ->
    writtenA_d (DNamed (mksident (joined true first more) (mksspan l0 (last_end pts e)))) ((l0, TkDColon, e0) :: (l, TkIdent first, e) :: pts).
Scheme writtenA_ind2 := Induction for writtenA Sort Prop with writtenA_d_ind2 := Induction for writtenA_d Sort Prop.

Lemma writtenA_d_head d pts : writtenA_d d pts -> exists p r, pts = p :: r /\ token_eqb (snd (fst p)) TkLBracket = false.
Proof. destruct 1; eexists; eexists; split; reflexivity. Qed.
Lemma not_lbracket_head p r x : token_eqb (snd (fst p)) TkLBracket = false -> ~ next_is TkLBracket ((p :: r) ++ x).
Proof. destruct p as [[l t] e]. cbn. intros H X. congruence. Qed.
Lemma first_start_app a b d : a <> [] -> first_start (a ++ b) d = first_start a d.
Proof. destruct a; [congruence|reflexivity]. Qed.

Theorem typerefA_written_aux :
  forall t pts (w : writtenA t pts), forall fuel rest le last dg, length pts < fuel -> ~ next_is TkQuestion rest -> ~ next_is TkDColon rest ->
     p_typeref fuel (mkps (pts ++ rest) le last dg) = POk_ t (mkps rest le (last_end pts last) dg).
Proof.
  apply (writtenA_ind2
    (fun t pts _ => forall fuel rest le last dg, length pts < fuel -> ~ next_is TkQuestion rest -> ~ next_is TkDColon rest ->
       p_typeref fuel (mkps (pts ++ rest) le last dg) = POk_ t (mkps rest le (last_end pts last) dg))
    (fun d pts _ => forall f o q rest le last dg attrs apts, written_lattrs attrs apts -> length (apts ++ pts) < S f -> optq o q rest -> ~ next_is TkDColon (q ++ rest) ->
       p_typeref (S f) (mkps (apts ++ pts ++ q ++ rest) le last dg) =
         POk_ (STRef (mksspan (first_start (apts ++ pts) L0) (last_end (pts ++ q) (last_end apts last))) o attrs d)
              (mkps rest le (last_end (pts ++ q) (last_end apts last)) dg))).
  - intros attrs apts d pts wl wd IH fuel rest le last dg Hf Hq Hc. destruct fuel as [|f]; [lia|].
    specialize (IH f false [] rest le last dg attrs apts wl Hf (or_introl (conj eq_refl (conj eq_refl Hq))) Hc).
    cbn [app] in IH. rewrite app_nil_r in IH. rewrite <- app_assoc. rewrite IH.
    destruct (writtenA_d_head _ _ wd) as (p & r & -> & _). rewrite last_end_app. rewrite (last_end_nonempty p r L0 (last_end apts last)). reflexivity.
  - intros attrs apts d pts l e wl wd IH fuel rest le last dg Hf Hq Hc. destruct fuel as [|f]; [lia|]. rewrite !app_length in Hf. cbn [length] in Hf.
    specialize (IH f true [(l, TkQuestion, e)] rest le last dg attrs apts wl ltac:(rewrite app_length; lia) (or_intror (conj eq_refl (ex_intro _ l (ex_intro _ e eq_refl)))) ltac:(cbn; intros X; discriminate X)).
    repeat (rewrite <- app_assoc; cbn [app]). cbn [app] in IH. rewrite IH. rewrite !last_end_app. reflexivity.
  - (* primitive *)
    intros p l e f o q rest le last dg attrs apts wl Hf Hq Hc. rewrite app_length in Hf. cbn [app length] in *. cbn [p_typeref].
    pose proof (lattrs_written attrs apts wl f ((l, TkKw (KwPrim p), e) :: q ++ rest) le last dg ltac:(lia) ltac:(cbn; intros X; discriminate X)) as A.
    pose proof (finish_typeref o q rest le e dg Hq) as F. unfold st in F. unfold ptok in *. rewrite A. step. rewrite F.
    destruct apts as [|[[? ?] ?] ?]; cbn [app first_start next_start ps_toks]; le_norm; reflexivity.
  - (* sequence *)
    intros t pts l1 e1 l2 e2 l3 e3 w IH f o q rest le last dg attrs apts wl Hf Hq Hc. rewrite !app_length in Hf. cbn [app length] in *. rewrite app_length in Hf. cbn [length] in Hf. cbn [p_typeref].
    pose proof (lattrs_written attrs apts wl f ((l1, TkKw KwSequence, e1) :: (l2, TkLt, e2) :: (pts ++ [(l3, TkGt, e3)]) ++ q ++ rest) le last dg ltac:(lia) ltac:(cbn; intros X; discriminate X)) as A.
    pose proof (IH f ((l3, TkGt, e3) :: q ++ rest) le e2 dg ltac:(lia) ltac:(cbn; intros X; discriminate X) ltac:(cbn; intros X; discriminate X)) as B.
    pose proof (finish_typeref o q rest le e3 dg Hq) as F. unfold st in F. unfold ptok in *. rewrite A. step. rewrite <- app_assoc. cbn [app]. rewrite B. step. rewrite F.
    destruct apts as [|[[? ?] ?] ?]; cbn [app first_start next_start ps_toks]; le_norm; reflexivity.
  - (* dictionary *)
    intros k v pk pv l1 e1 l2 e2 l3 e3 l4 e4 wk IHk wv IHv f o q rest le last dg attrs apts wl Hf Hq Hc. rewrite !app_length in Hf. cbn [app length] in *. rewrite !app_length in Hf. cbn [length] in Hf. rewrite app_length in Hf. cbn [length] in Hf. cbn [p_typeref].
    pose proof (lattrs_written attrs apts wl f ((l1, TkKw KwDictionary, e1) :: (l2, TkLt, e2) :: (pk ++ (l3, TkComma, e3) :: pv ++ [(l4, TkGt, e4)]) ++ q ++ rest) le last dg ltac:(lia) ltac:(cbn; intros X; discriminate X)) as A.
    pose proof (IHk f ((l3, TkComma, e3) :: pv ++ (l4, TkGt, e4) :: q ++ rest) le e2 dg ltac:(lia) ltac:(cbn; intros X; discriminate X) ltac:(cbn; intros X; discriminate X)) as B.
    pose proof (IHv f ((l4, TkGt, e4) :: q ++ rest) le e3 dg ltac:(lia) ltac:(cbn; intros X; discriminate X) ltac:(cbn; intros X; discriminate X)) as C.
    pose proof (finish_typeref o q rest le e4 dg Hq) as F. unfold st in F. unfold ptok in *. rewrite A. step. repeat (rewrite <- app_assoc; cbn [app]). rewrite B. step. rewrite C. step. rewrite F.
    destruct apts as [|[[? ?] ?] ?]; cbn [app first_start next_start ps_toks]; le_norm; reflexivity.
  - (* result *)
    intros k v pk pv l1 e1 l2 e2 l3 e3 l4 e4 wk IHk wv IHv f o q rest le last dg attrs apts wl Hf Hq Hc. rewrite !app_length in Hf. cbn [app length] in *. rewrite !app_length in Hf. cbn [length] in Hf. rewrite app_length in Hf. cbn [length] in Hf. cbn [p_typeref].
    pose proof (lattrs_written attrs apts wl f ((l1, TkKw KwResult, e1) :: (l2, TkLt, e2) :: (pk ++ (l3, TkComma, e3) :: pv ++ [(l4, TkGt, e4)]) ++ q ++ rest) le last dg ltac:(lia) ltac:(cbn; intros X; discriminate X)) as A.
    pose proof (IHk f ((l3, TkComma, e3) :: pv ++ (l4, TkGt, e4) :: q ++ rest) le e2 dg ltac:(lia) ltac:(cbn; intros X; discriminate X) ltac:(cbn; intros X; discriminate X)) as B.
    pose proof (IHv f ((l4, TkGt, e4) :: q ++ rest) le e3 dg ltac:(lia) ltac:(cbn; intros X; discriminate X) ltac:(cbn; intros X; discriminate X)) as C.
    pose proof (finish_typeref o q rest le e4 dg Hq) as F. unfold st in F. unfold ptok in *. rewrite A. step. repeat (rewrite <- app_assoc; cbn [app]). rewrite B. step. rewrite C. step. rewrite F.
    destruct apts as [|[[? ?] ?] ?]; cbn [app first_start next_start ps_toks]; le_norm; reflexivity.
  - (* relative name *)
    intros first more pts l e w f o q rest le last dg attrs apts wl Hf Hq Hc. rewrite app_length in Hf. cbn [app length] in *. cbn [p_typeref].
    pose proof (lattrs_written attrs apts wl f ((l, TkIdent first, e) :: pts ++ q ++ rest) le last dg ltac:(lia) ltac:(cbn; intros X; discriminate X)) as A.
    pose proof (scoped_tail_written more pts w f first (q ++ rest) le e dg ltac:(lia) Hc) as T. unfold st in T.
    pose proof (finish_typeref o q rest le (last_end pts e) dg Hq) as F. unfold st in F. unfold ptok in *. rewrite A. step. unfold p_relative_identifier. step. rewrite T. step. rewrite F.
    unfold joined. destruct apts as [|[[? ?] ?] ?]; cbn [app first_start next_start ps_toks]; le_norm; reflexivity.
  - (* global name *)
    intros first more pts l0 e0 l e w f o q rest le last dg attrs apts wl Hf Hq Hc. rewrite app_length in Hf. cbn [app length] in *. cbn [p_typeref].
    pose proof (lattrs_written attrs apts wl f ((l0, TkDColon, e0) :: (l, TkIdent first, e) :: pts ++ q ++ rest) le last dg ltac:(lia) ltac:(cbn; intros X; discriminate X)) as A.
    pose proof (scoped_tail_written more pts w f (sep ++ first) (q ++ rest) le e dg ltac:(lia) Hc) as T. unfold st in T.
    pose proof (finish_typeref o q rest le (last_end pts e) dg Hq) as F. unfold st in F. unfold ptok in *. rewrite A. step. unfold p_global_identifier. step. rewrite T. step. rewrite F.
    unfold joined. rewrite <- app_assoc. destruct apts as [|[[? ?] ?] ?]; cbn [app first_start next_start ps_toks]; le_norm; reflexivity.
Qed.
Theorem typerefA_written t pts : writtenA t pts -> forall fuel rest le last dg, length pts < fuel -> ~ next_is TkQuestion rest -> ~ next_is TkDColon rest ->
  p_typeref fuel (mkps (pts ++ rest) le last dg) = POk_ t (mkps rest le (last_end pts last) dg).
Proof. intros w. exact (typerefA_written_aux t pts w). Qed.

(* ------------------------------------------------------------------------------------------------ preludes *)
Inductive written_prelude : doclines * list attr -> list ptok -> Prop :=
| wp_nil : written_prelude ([], []) []
| wp_doc v l e d a pts : written_prelude (d, a) pts -> written_prelude ((v, mksspan l e) :: d, a) ((l, TkDoc v, e) :: pts)
| wp_attr at_ apts d a pts l e l2 e2 : written_attr at_ apts -> written_prelude (d, a) pts ->
    written_prelude (d, at_ :: a) ((l, TkLBracket, e) :: apts ++ (l2, TkRBracket, e2) :: pts).
Definition starts_prelude (ts : list ptok) : Prop := match ts with (_, TkDoc _, _) :: _ | (_, TkLBracket, _) :: _ => True | _ => False end.
Lemma prelude_written pre pts : written_prelude pre pts -> forall fuel rest le last dg, length pts < fuel -> ~ starts_prelude rest ->
  p_prelude fuel (mkps (pts ++ rest) le last dg) = POk_ pre (mkps rest le (last_end pts last) dg).
Proof.
  induction 1 as [|v l e d a pts _ IH|at_ apts d a pts l e l2 e2 Ha _ IH]; intros fuel rest le last dg Hf Hr; (destruct fuel as [|f]; [cbn [length] in Hf; lia|]).
  - cbn [app p_prelude ps_toks]. destruct rest as [|[[l t] e] rest]; [reflexivity|]. cbn [starts_prelude] in Hr. destruct t; try reflexivity; exfalso; apply Hr; exact I.
  - cbn [app length] in *. cbn [p_prelude ps_toks]. step2. pose proof (IH f rest le e dg ltac:(lia) Hr) as B. unfold ptok in *. rewrite B. cbn [pbind fst snd]. rewrite last_end_cons. reflexivity.
  - cbn [app length] in *. rewrite app_length in Hf. cbn [length] in Hf. cbn [p_prelude ps_toks]. unfold p_local_attribute. step2. rewrite <- app_assoc. cbn [app].
    pose proof (attr_written at_ apts Ha f ((l2, TkRBracket, e2) :: pts ++ rest) le e dg ltac:(lia) ltac:(cbn; intros X; discriminate X) ltac:(cbn; intros X; discriminate X)) as A.
    pose proof (IH f rest le e2 dg ltac:(lia) Hr) as B. unfold ptok in *. rewrite A. step2. rewrite B. cbn [pbind fst snd].
    rewrite !last_end_cons, !last_end_app, !last_end_cons. reflexivity.
Qed.

(* ------------------------------------------------------------------------------------------------ tags and members *)
(* tag(<integer literal>) with a value in range *)
Inductive written_tag : option (Z * sspan) -> list ptok -> Prop :=
| wt_none : written_tag None []
| wt_some s z b l1 e1 l2 e2 l e l3 e3 : parse_int s = (IntOk z, b) -> (0 <= z <= 2147483647)%Z ->
    written_tag (Some (z, mksspan l e)) [(l1, TkKw KwTag, e1); (l2, TkLParen, e2); (l, TkInt s, e); (l3, TkRParen, e3)].
Lemma tag_written s z b l1 e1 l2 e2 l e l3 e3 rest le last dg : parse_int s = (IntOk z, b) -> (0 <= z <= 2147483647)%Z ->
  p_tag (mkps ((l1, TkKw KwTag, e1) :: (l2, TkLParen, e2) :: (l, TkInt s, e) :: (l3, TkRParen, e3) :: rest) le last dg) = POk_ (z, mksspan l e) (mkps rest le e3 dg).
Proof.
  intros Hp Hz. unfold p_tag. step2. unfold p_signed_integer, p_integer. step2. rewrite Hp. step2.
  assert (E : ((z <? 0) || (z >? 2147483647))%Z = false).
  { apply orb_false_iff. split; [apply Z.ltb_ge; lia|]. rewrite Z.gtb_ltb. apply Z.ltb_ge. lia. }
  cbn [fst snd]. rewrite E. unfold wrap_u32. rewrite Z.mod_small by lia. reflexivity.
Qed.

(* a field (Prelude Tag? Identifier ":" TypeRef) or a parameter (Prelude Tag? Identifier ":" stream? TypeRef, no doc comment) *)
Inductive written_member (is_param : bool) : smember -> list ptok -> Prop :=
| wm doc attrs ppts tag tpts name ln en lc ec stream spts t ypts :
    written_prelude (doc, attrs) ppts -> (is_param = true -> doc = []) ->
    written_tag tag tpts ->
    (spts = [] /\ stream = false \/ is_param = true /\ stream = true /\ exists l e, spts = [(l, TkKw KwStream, e)]) ->
    writtenA t ypts ->
    written_member is_param
      (mksmember doc attrs tag (mksident name (mksspan ln en)) stream t (mksspan (first_start (tpts ++ [(ln, TkIdent name, en)]) L0) (last_end ypts L0)))
      (ppts ++ tpts ++ (ln, TkIdent name, en) :: (lc, TkColon, ec) :: spts ++ ypts).
Definition head_is_stream (ts : list ptok) : bool := match ts with (_, TkKw KwStream, _) :: _ => true | _ => false end.
Lemma written_lattrs_head attrs pts rest : written_lattrs attrs pts -> pts <> [] -> exists l e r, pts ++ rest = (l, TkLBracket, e) :: r.
Proof. destruct 1; [congruence|]. intros _. eexists; eexists; eexists. reflexivity. Qed.
Lemma writtenA_not_stream t pts rest : writtenA t pts -> head_is_stream (pts ++ rest) = false /\ pts <> [].
Proof.
  assert (D : forall d p, writtenA_d d p -> forall x, head_is_stream (p ++ x) = false /\ p <> []) by (destruct 1; intros x; split; try reflexivity; discriminate).
  destruct 1 as [attrs apts d pts wl wd|attrs apts d pts l e wl wd].
  - destruct wl as [|a apts' r pts' l0 e0 l2 e2 Ha Hr].
    + cbn [app]. exact (D _ _ wd rest).
    + split; [reflexivity|discriminate].
  - destruct wl as [|a apts' r pts' l0 e0 l2 e2 Ha Hr].
    + cbn [app]. destruct (D _ _ wd ([(l, TkQuestion, e)] ++ rest)) as [H1 H2]. split; [rewrite <- app_assoc; exact H1|].
      destruct pts; [congruence|discriminate].
    + split; [reflexivity|discriminate].
Qed.
Ltac close_member := cbn [ps_last first_start pstart fst snd app]; repeat (progress (rewrite ?last_end_app, ?last_end_cons; cbn [pend snd])); reflexivity.
Lemma member_written ip m pts : written_member ip m pts -> forall fuel rest le last dg, length pts < fuel ->
  ~ next_is TkQuestion rest -> ~ next_is TkDColon rest ->
  p_member ip fuel (mkps (pts ++ rest) le last dg) = POk_ m (mkps rest le (last_end pts last) dg).
Proof.
  destruct 1 as [doc attrs ppts tag tpts name ln en lc ec stream spts t ypts Hpre Hdoc Htag Hstream Hty]. intros fuel rest le last dg Hf Hq Hc.
  rewrite !app_length in Hf. cbn [length] in Hf. rewrite !app_length in Hf.
  unfold p_member. repeat (rewrite <- app_assoc; cbn [app]).
  (* prelude *)
  pose proof (prelude_written _ _ Hpre fuel (tpts ++ (ln, TkIdent name, en) :: (lc, TkColon, ec) :: spts ++ ypts ++ rest) le last dg ltac:(lia)) as P.
  assert (NP : ~ starts_prelude (tpts ++ (ln, TkIdent name, en) :: (lc, TkColon, ec) :: spts ++ ypts ++ rest)) by (destruct Htag; cbn; tauto).
  specialize (P NP). unfold ptok in *. rewrite P. cbn [pbind fst snd]. clear P NP.
  (* type reference, for later *)
  destruct (writtenA_not_stream t ypts rest Hty) as [Hns Hne].
  assert (Hy : length ypts < fuel) by (destruct Htag; cbn [length] in Hf; lia).
  pose proof (fun lst => typerefA_written t ypts Hty fuel rest le lst dg Hy Hq Hc) as T.
  destruct Htag as [|s z b l1 e1 l2 e2 l e l3 e3 Hp Hz]; cbn [app length] in *.
  - (* no tag *)
    step2. destruct Hstream as [[-> ->]|(-> & -> & ls & es & ->)]; cbn [app].
    + destruct ip.
      * unfold opt_kw, is_kw, peek. cbn [ps_toks]. destruct ypts as [|[[ly ty] ey] ypts']; [exfalso; apply Hne; reflexivity|]. cbn [app head_is_stream] in *.
        assert (E : match ty with TkKw x => kw_eqb x KwStream | _ => false end = false) by (destruct ty as [| | | |[]| | | | | | | | | | | | | | | | |]; try reflexivity; discriminate Hns).
        rewrite E. specialize (T ec). unfold ptok in *. cbn [app] in T. rewrite T. cbn [pbind]. rewrite (Hdoc eq_refl).
        close_member.
      * specialize (T ec). unfold ptok in *. rewrite T. cbn [pbind].
        destruct ypts as [|py ypts']; [exfalso; apply Hne; reflexivity|]. close_member.
    + unfold opt_kw, is_kw, peek. cbn [ps_toks kw_eqb advance ps_lexerr ps_last ps_diags].
      specialize (T es). unfold ptok in *. rewrite T. cbn [pbind]. rewrite (Hdoc eq_refl).
      destruct ypts as [|py ypts']; [exfalso; apply Hne; reflexivity|]. close_member.
  - (* tagged *)
    unfold is_kw, peek. cbn [ps_toks kw_eqb].
    rewrite (tag_written s z b l1 e1 l2 e2 l e l3 e3 _ le _ dg Hp Hz). cbn [pbind]. step2.
    destruct Hstream as [[-> ->]|(-> & -> & ls & es & ->)]; cbn [app].
    + destruct ip.
      * unfold opt_kw, is_kw, peek. cbn [ps_toks]. destruct ypts as [|[[ly ty] ey] ypts']; [exfalso; apply Hne; reflexivity|]. cbn [app head_is_stream] in *.
        assert (E : match ty with TkKw x => kw_eqb x KwStream | _ => false end = false) by (destruct ty as [| | | |[]| | | | | | | | | | | | | | | | |]; try reflexivity; discriminate Hns).
        rewrite E. specialize (T ec). unfold ptok in *. cbn [app] in T. rewrite T. cbn [pbind]. rewrite (Hdoc eq_refl).
        close_member.
      * specialize (T ec). unfold ptok in *. rewrite T. cbn [pbind].
        destruct ypts as [|py ypts']; [exfalso; apply Hne; reflexivity|]. close_member.
    + unfold opt_kw, is_kw, peek. cbn [ps_toks kw_eqb advance ps_lexerr ps_last ps_diags].
      specialize (T es). unfold ptok in *. rewrite T. cbn [pbind]. rewrite (Hdoc eq_refl).
      destruct ypts as [|py ypts']; [exfalso; apply Hne; reflexivity|]. close_member.
Qed.

(* ------------------------------------------------------------------------------------------------ member lists and structs *)
(* UndelimitedList: after every member a comma may or may not be written *)
Inductive written_members (ip : bool) : list smember -> list ptok -> Prop :=
| wms_nil : written_members ip [] []
| wms_cons m mpts c ms pts : written_member ip m mpts -> (c = [] \/ exists l e, c = [(l, TkComma, e)]) -> written_members ip ms pts ->
    written_members ip (m :: ms) (mpts ++ c ++ pts).
Definition safe_follow (ts : list ptok) : Prop := ~ next_is TkQuestion ts /\ ~ next_is TkDColon ts.
Lemma written_member_head ip m pts x : written_member ip m pts ->
  exists p r, pts ++ x = p :: r /\ starts_member (mkps (p :: r) None L0 []) = true /\ safe_follow (p :: r).
Proof.
  destruct 1 as [doc attrs ppts tag tpts name ln en lc ec stream spts t ypts Hpre Hdoc Htag Hstream Hty].
  destruct Hpre as [|v l e d a pts0 _|at_ apts d a pts0 l e l2 e2 _ _]; cbn [app].
  - destruct Htag; cbn [app]; eexists; eexists; (split; [reflexivity|split; [reflexivity|split; cbn; intros X; discriminate X]]).
  - eexists; eexists; (split; [reflexivity|split; [reflexivity|split; cbn; intros X; discriminate X]]).
  - eexists; eexists; (split; [reflexivity|split; [reflexivity|split; cbn; intros X; discriminate X]]).
Qed.
Lemma written_members_follow ip ms pts x : written_members ip ms pts -> safe_follow x -> safe_follow (pts ++ x).
Proof.
  destruct 1 as [|m mpts c ms' pts' Hm Hc _]; intros Hx; [exact Hx|].
  destruct (written_member_head ip m mpts (c ++ pts' ++ x) Hm) as (p & r & E & _ & S). unfold ptok in *. rewrite <- !app_assoc. rewrite E. exact S.
Qed.
Lemma members_written ip ms pts : written_members ip ms pts -> forall fuel rest le last dg, S (length pts) < fuel ->
  starts_member (mkps rest le last dg) = false -> safe_follow rest -> ~ next_is TkComma rest ->
  p_members ip fuel (mkps (pts ++ rest) le last dg) = POk_ ms (mkps rest le (last_end pts last) dg).
Proof.
  induction 1 as [|m mpts c ms pts Hm Hc Hms IH]; intros fuel rest le last dg Hf Hs Hr Hcm; (destruct fuel as [|f]; [cbn [length] in Hf; lia|]).
  - cbn [app p_members]. assert (E : forall l1 l2, starts_member (mkps rest le l1 dg) = starts_member (mkps rest le l2 dg)) by reflexivity.
    rewrite Hs. reflexivity.
  - rewrite !app_length in Hf. cbn [p_members]. rewrite <- !app_assoc.
    destruct (written_member_head ip m mpts (c ++ pts ++ rest) Hm) as (p & r & E & Hst & _).
    assert (St : starts_member (mkps (mpts ++ c ++ pts ++ rest) le last dg) = true) by (rewrite E; exact Hst).
    assert (Hm1 : 1 <= length mpts).
    { destruct Hm as [? ? ppts ? tpts ? ? ? ? ? ? spts ? ypts _ _ _ _ _]. rewrite !app_length. cbn [length]. lia. }
    assert (Hfollow : safe_follow (c ++ pts ++ rest)).
    { destruct Hc as [->|(l & e & ->)]; cbn [app]; [apply (written_members_follow ip ms pts rest Hms Hr)|split; cbn; intros X; discriminate X]. }
    unfold ptok in *. assert (Hlm : length mpts < f) by lia. assert (Hlr : S (length pts) < f) by lia.
    pose proof (member_written ip m mpts Hm f (c ++ pts ++ rest) le last dg Hlm (proj1 Hfollow) (proj2 Hfollow)) as M.
    pose proof (fun lst => IH f rest le lst dg Hlr Hs Hr Hcm) as B.
    (* whether the next token is a comma *)
    assert (Nc : c = [] -> is_tok (mkps (pts ++ rest) le (last_end mpts last) dg) TkComma = false).
    { intros _. unfold is_tok, peek. cbn [ps_toks]. destruct Hms as [|m' mpts' c' ms' pts' Hm' _ _].
      - cbn [app]. destruct rest as [|[[l0 t0] e0] rest']; [reflexivity|]. destruct t0; try reflexivity. exfalso. apply Hcm. reflexivity.
      - destruct (written_member_head ip m' mpts' (c' ++ pts' ++ rest) Hm') as (p' & r' & E' & Hst' & _). unfold ptok in *. rewrite <- !app_assoc. rewrite E'.
        destruct p' as [[l0 t0] e0]. cbn [starts_member peek ps_toks] in Hst'. destruct t0; try discriminate Hst'; reflexivity. }
    unfold ptok in *. rewrite St. rewrite M. cbn [pbind].
    destruct Hc as [->|(l & e & ->)]; cbn [app].
    + unfold opt_tok. rewrite (Nc eq_refl). rewrite (B (last_end mpts last)). cbn [pbind]. rewrite !last_end_app. reflexivity.
    + unfold opt_tok, is_tok, peek, advance. cbn [ps_toks ps_lexerr ps_last ps_diags token_eqb].
      rewrite (B e). cbn [pbind]. rewrite !last_end_app, last_end_cons. reflexivity.
Qed.

(* Prelude compact? struct Identifier { fields } *)
Inductive written_struct : defn -> list ptok -> Prop :=
| wstruct doc attrs ppts compact cpts ls es name ln en lb eb fields mpts lr er :
    written_prelude (doc, attrs) ppts ->
    (compact = false /\ cpts = [] \/ compact = true /\ exists l e, cpts = [(l, TkKw KwCompact, e)]) ->
    written_members false fields mpts ->
    written_struct (DStruct doc attrs compact (mksident name (mksspan ln en)) fields (mksspan (first_start (cpts ++ [(ls, TkKw KwStruct, es)]) L0) en))
      (ppts ++ cpts ++ (ls, TkKw KwStruct, es) :: (ln, TkIdent name, en) :: (lb, TkLBrace, eb) :: mpts ++ [(lr, TkRBrace, er)]).
Lemma struct_written d pts : written_struct d pts -> forall fuel rest le last dg, length pts < fuel ->
  (plet pre, s1 <- p_prelude fuel (mkps (pts ++ rest) le last dg) ;; p_definition_after_prelude fuel pre s1) = POk_ d (mkps rest le (last_end pts last) dg).
Proof.
  destruct 1 as [doc attrs ppts compact cpts ls es name ln en lb eb fields mpts lr er Hpre Hc Hm]. intros fuel rest le last dg Hf.
  rewrite !app_length in Hf. cbn [length] in Hf. rewrite app_length in Hf. cbn [length] in Hf.
  repeat (rewrite <- app_assoc; cbn [app]).
  assert (NP : ~ starts_prelude (cpts ++ (ls, TkKw KwStruct, es) :: (ln, TkIdent name, en) :: (lb, TkLBrace, eb) :: mpts ++ (lr, TkRBrace, er) :: rest)).
  { destruct Hc as [[_ ->]|(_ & l & e & ->)]; cbn; tauto. }
  pose proof (prelude_written _ _ Hpre fuel _ le last dg ltac:(lia) NP) as P.
  assert (Hlm : S (length mpts) < fuel) by (unfold ptok in *; lia).
  pose proof (fun lst => members_written false fields mpts Hm fuel ((lr, TkRBrace, er) :: rest) le lst dg Hlm eq_refl
                ltac:(split; cbn; intros X; discriminate X) ltac:(cbn; intros X; discriminate X)) as M.
  unfold ptok in *. rewrite P. cbn [pbind]. unfold p_definition_after_prelude.
  destruct Hc as [[-> ->]|(-> & l & e & ->)]; cbn [app]; do 3 step2.
  - rewrite (M eb); step2; cbn [first_start pstart fst app]; repeat (progress (rewrite ?last_end_app, ?last_end_cons; cbn [pend snd])); reflexivity.
  - rewrite (M eb); step2; cbn [first_start pstart fst app]; repeat (progress (rewrite ?last_end_app, ?last_end_cons; cbn [pend snd])); reflexivity.
Qed.

(* a file: module declaration (with attributes), then struct definitions, then the end of the input *)
Inductive written_structs : list defn -> list ptok -> Prop :=
| wss_nil : written_structs [] []
| wss_cons d dpts ds pts : written_struct d dpts -> written_structs ds pts -> written_structs (d :: ds) (dpts ++ pts).
Lemma structs_written ds pts : written_structs ds pts -> forall fuel last dg, S (length pts) < fuel ->
  p_definitions fuel (mkps pts None last dg) = POk_ ds (mkps [] None (last_end pts last) dg).
Proof.
  induction 1 as [|d dpts ds pts Hd _ IH]; intros fuel last dg Hf; (destruct fuel as [|f]; [cbn [length] in Hf; lia|]).
  - reflexivity.
  - rewrite app_length in Hf.
    assert (Hne : exists p r, dpts ++ pts = p :: r).
    { destruct Hd as [doc attrs ppts compact cpts ls es name ln en lb eb fields mpts lr er Hpre Hc Hm].
      destruct Hpre; [destruct Hc as [[_ ->]|(_ & l & e & ->)]|..]; cbn [app]; eexists; eexists; reflexivity. }
    destruct Hne as (p & r & E). cbn [p_definitions]. rewrite E. cbn [ps_toks]. rewrite <- E.
    assert (Hl1 : length dpts < f) by (destruct Hd; unfold ptok in *; rewrite !app_length in *; cbn [length] in *; rewrite ?app_length in *; cbn [length] in *; lia).
    assert (Hl2 : S (length pts) < f) by (destruct Hd; unfold ptok in *; rewrite !app_length in *; cbn [length] in *; rewrite ?app_length in *; cbn [length] in *; lia).
    pose proof (struct_written d dpts Hd f pts None last dg Hl1) as SW.
    pose proof (IH f (last_end dpts last) dg Hl2) as B.
    unfold ptok in *.
    change (plet pre, s1 <- p_prelude f (mkps (dpts ++ pts) None last dg) ;; plet d0, s2 <- p_definition_after_prelude f pre s1 ;; plet r0, s3 <- p_definitions f s2 ;; POk_ (d0 :: r0) s3)
      with (plet pre, s1 <- p_prelude f (mkps (dpts ++ pts) None last dg) ;; plet d0, s2 <- p_definition_after_prelude f pre s1 ;; plet r0, s3 <- p_definitions f s2 ;; POk_ (d0 :: r0) s3).
    destruct (p_prelude f (mkps (dpts ++ pts) None last dg)) as [pre s1|e] eqn:Ep; cbn [pbind] in SW |- *; [|discriminate SW].
    rewrite SW. cbn [pbind]. rewrite B. cbn [pbind]. rewrite last_end_app. reflexivity.
Qed.

(* a whole file: module declaration with its attributes, then struct definitions, then the end of the input *)
Inductive written_file : file -> list ptok -> Prop :=
| wfile mattrs ppts lm em first more mpts ln en ds dpts :
    written_prelude ([], mattrs) ppts -> spells_tail more mpts -> written_structs ds dpts ->
    written_file (mkfile [] (Some (mkmodul [] mattrs (mksident (joined false first more) (mksspan ln (last_end mpts en))) (mksspan lm (last_end mpts en)))) ds)
      (ppts ++ (lm, TkKw KwModule, em) :: (ln, TkIdent first, en) :: mpts ++ dpts).
Lemma written_structs_head ds pts : written_structs ds pts -> ~ next_is TkDColon pts.
Proof.
  destruct 1 as [|d dpts ds' pts' Hd _]; [cbn; tauto|].
  destruct Hd as [doc attrs ppts compact cpts ls es name ln en lb eb fields mpts lr er Hpre Hc Hm].
  destruct Hpre; [destruct Hc as [[_ ->]|(_ & l & e & ->)]|..]; cbn; intros X; discriminate X.
Qed.
(* the tokens of a written file, whatever their locations, are read back as that file: every definition, member, tag, attribute
   with its arguments, type expression and name in source order, nothing else, no diagnostic; every location is the extent of
   its own tokens *)
Theorem file_written f pts : written_file f pts -> forall start,
  p_file (S (S (length pts))) (mkps pts None start []) = POk_ f (mkps [] None (last_end pts start) []).
Proof.
  destruct 1 as [mattrs ppts lm em first more mpts ln en ds dpts Hpre Hs Hds]. intros start.
  set (fuel := S (S (length (ppts ++ (lm, TkKw KwModule, em) :: (ln, TkIdent first, en) :: mpts ++ dpts)))).
  assert (Hlen : length ppts + S (S (length mpts + length dpts)) + 2 = fuel).
  { unfold fuel. rewrite app_length. cbn [length]. rewrite app_length. lia. }
  unfold p_file.
  (* no file attributes *)
  assert (FA : p_file_attributes fuel (mkps (ppts ++ (lm, TkKw KwModule, em) :: (ln, TkIdent first, en) :: mpts ++ dpts) None start []) =
               POk_ [] (mkps (ppts ++ (lm, TkKw KwModule, em) :: (ln, TkIdent first, en) :: mpts ++ dpts) None start [])).
  { unfold fuel. cbn [p_file_attributes]. destruct Hpre; reflexivity. }
  rewrite FA. cbn [pbind].
  assert (NE : exists p r, ppts ++ (lm, TkKw KwModule, em) :: (ln, TkIdent first, en) :: mpts ++ dpts = p :: r) by (destruct Hpre; cbn [app]; eexists; eexists; reflexivity).
  destruct NE as (p0 & r0 & E0). rewrite E0. cbn [ps_toks]. rewrite <- E0. clear E0 p0 r0 FA.
  pose proof (prelude_written _ _ Hpre fuel ((lm, TkKw KwModule, em) :: (ln, TkIdent first, en) :: mpts ++ dpts) None start [] ltac:(unfold ptok in *; lia) ltac:(cbn; tauto)) as P.
  pose proof (scoped_tail_written more mpts Hs fuel first dpts None en [] ltac:(unfold ptok in *; lia) (written_structs_head ds dpts Hds)) as T. unfold st in T.
  pose proof (structs_written ds dpts Hds fuel (last_end mpts en) [] ltac:(unfold ptok in *; lia)) as D.
  unfold ptok in *. rewrite P. cbn [pbind]. step2. unfold p_relative_identifier. step2. rewrite T. step2. rewrite D. cbn [pbind].
  unfold joined. cbn [app]. rewrite !last_end_app, !last_end_cons, !last_end_app. cbn [pend snd]. reflexivity.
Qed.

(* non-vacuity: the tokens of  module M  struct S { a: int32 }  (at some locations) spell a file *)
Definition ex_loc (r c : nat) := mkloc r c.
Definition ex_tokens : list ptok :=
  [(ex_loc 1 1, TkKw KwModule, ex_loc 1 7); (ex_loc 1 8, TkIdent [77%N], ex_loc 1 9);
   (ex_loc 2 1, TkKw KwStruct, ex_loc 2 7); (ex_loc 2 8, TkIdent [83%N], ex_loc 2 9); (ex_loc 2 10, TkLBrace, ex_loc 2 11);
   (ex_loc 2 12, TkIdent [97%N], ex_loc 2 13); (ex_loc 2 13, TkColon, ex_loc 2 14); (ex_loc 2 15, TkKw (KwPrim PInt32), ex_loc 2 20);
   (ex_loc 2 21, TkRBrace, ex_loc 2 22)].
Definition ex_field : list ptok := [(ex_loc 2 12, TkIdent [97%N], ex_loc 2 13); (ex_loc 2 13, TkColon, ex_loc 2 14); (ex_loc 2 15, TkKw (KwPrim PInt32), ex_loc 2 20)].
Definition ex_struct : list ptok :=
  (ex_loc 2 1, TkKw KwStruct, ex_loc 2 7) :: (ex_loc 2 8, TkIdent [83%N], ex_loc 2 9) :: (ex_loc 2 10, TkLBrace, ex_loc 2 11) :: ex_field ++ [(ex_loc 2 21, TkRBrace, ex_loc 2 22)].
Example ex_written : exists f, written_file f ex_tokens.
Proof.
  eexists. change ex_tokens with ([] ++ (ex_loc 1 1, TkKw KwModule, ex_loc 1 7) :: (ex_loc 1 8, TkIdent [77%N], ex_loc 1 9) :: [] ++ ex_struct).
  refine (wfile [] [] (ex_loc 1 1) (ex_loc 1 7) [77%N] [] [] (ex_loc 1 8) (ex_loc 1 9) _ ex_struct wp_nil st_nil _).
  change ex_struct with (ex_struct ++ []).
  refine (wss_cons _ ex_struct [] [] _ wss_nil).
  change ex_struct with ([] ++ [] ++ (ex_loc 2 1, TkKw KwStruct, ex_loc 2 7) :: (ex_loc 2 8, TkIdent [83%N], ex_loc 2 9) :: (ex_loc 2 10, TkLBrace, ex_loc 2 11) :: ex_field ++ [(ex_loc 2 21, TkRBrace, ex_loc 2 22)]).
  refine (wstruct [] [] [] false [] (ex_loc 2 1) (ex_loc 2 7) [83%N] (ex_loc 2 8) (ex_loc 2 9) (ex_loc 2 10) (ex_loc 2 11) _ ex_field (ex_loc 2 21) (ex_loc 2 22) wp_nil (or_introl (conj eq_refl eq_refl)) _).
  change ex_field with (ex_field ++ [] ++ []).
  refine (wms_cons false _ ex_field [] [] [] _ (or_introl eq_refl) (wms_nil false)).
  change ex_field with ([] ++ [] ++ (ex_loc 2 12, TkIdent [97%N], ex_loc 2 13) :: (ex_loc 2 13, TkColon, ex_loc 2 14) :: [] ++ [(ex_loc 2 15, TkKw (KwPrim PInt32), ex_loc 2 20)]).
  refine (wm false [] [] [] None [] [97%N] (ex_loc 2 12) (ex_loc 2 13) (ex_loc 2 13) (ex_loc 2 14) false [] _ [(ex_loc 2 15, TkKw (KwPrim PInt32), ex_loc 2 20)] wp_nil (fun H => eq_refl) wt_none (or_introl (conj eq_refl eq_refl)) _).
  change [(ex_loc 2 15, TkKw (KwPrim PInt32), ex_loc 2 20)] with ([] ++ [(ex_loc 2 15, TkKw (KwPrim PInt32), ex_loc 2 20)]).
  exact (wa_plain [] [] _ _ wla_nil (wad_prim PInt32 (ex_loc 2 15) (ex_loc 2 20))).
Qed.
