(* The lexer consumes its whole input (C01): with fuel exceeding the number of characters the result no longer depends on the
   fuel, i.e. the loop of the implementation ends within one step per character. *)
From Coq Require Import List Bool NArith Arith Lia.
From SliceV Require Import Cli.PluginSpec Doc.Comment Doc.CommentProofs Syntax.Tokens Syntax.Lexer.
Import ListNotations.
Local Open Scope nat_scope.

Lemma span_while_len p s : length (snd (span_while p s)) <= length s.
Proof. induction s as [|c r IH]; cbn [span_while]; [cbn; lia|]. destruct (p c); [destruct (span_while p r); cbn [snd length] in *; lia|cbn; lia]. Qed.
Lemma span_while_len_strict p c r : p c = true -> length (snd (span_while p (c :: r))) <= length r.
Proof. intros H. cbn [span_while]. rewrite H. pose proof (span_while_len p r). destruct (span_while p r). cbn [snd] in *. lia. Qed.
Lemma scan_string_len s : forall esc acc content rest, scan_string esc s acc = inl (content, rest) -> length rest < length s.
Proof.
  induction s as [|c r IH]; intros esc acc content rest H; cbn [scan_string] in H; [discriminate|].
  destruct (c =? 10)%N; [discriminate|]. destruct esc; [apply IH in H; cbn; lia|].
  destruct (c =? 34)%N; [inversion H; subst; cbn; lia|apply IH in H; cbn; lia].
Qed.
Lemma scan_block_len s : forall star rest, scan_block star s = Some rest -> length rest < length s.
Proof.
  induction s as [|c r IH]; intros star rest H; cbn [scan_block] in H; [discriminate|].
  destruct ((c =? 47)%N && star); [inversion H; subst; cbn; lia|apply IH in H; cbn; lia].
Qed.

Lemma consumed_nothing : True. Proof. exact I. Qed.
(* one step only asks how strictly shorter rests are lexed *)
Lemma lex_step_ext g1 g2 attr cur s : (forall a l x, length x < length s -> g1 a l x = g2 a l x) -> lex_step g1 attr cur s = lex_step g2 attr cur s.
Proof.
  intros R. unfold lex_step. destruct s as [|c r]; [reflexivity|]. cbn [length] in R.
  assert (R0 : forall a l, g1 a l r = g2 a l r) by (intros; apply R; lia).
  assert (R1 : forall a l x, length x <= length r -> g1 a l x = g2 a l x) by (intros; apply R; lia).
  cbv zeta.
  repeat match goal with |- (if ?b then _ else _) = (if ?b then _ else _) => destruct b eqn:? end; rewrite ?R0; try reflexivity.
  - destruct r as [|c2 r2]; [reflexivity|]. destruct (c2 =? 91)%N; [rewrite (R1 _ _ r2) by (cbn; lia)|rewrite ?R0]; reflexivity.
  - destruct r as [|c2 r2]; [reflexivity|]. destruct (c2 =? 93)%N; [rewrite (R1 _ _ r2) by (cbn; lia)|rewrite ?R0]; reflexivity.
  - destruct r as [|c2 r2]; [reflexivity|]. destruct (c2 =? 58)%N; [rewrite (R1 _ _ r2) by (cbn; lia)|rewrite ?R0]; reflexivity.
  - destruct r as [|c2 r2]; [reflexivity|]. destruct (c2 =? 62)%N; [rewrite (R1 _ _ r2) by (cbn; lia)|rewrite ?R0]; reflexivity.
  - destruct (scan_string false r []) as [[content rest]|eaten] eqn:E; [|reflexivity].
    apply scan_string_len in E. rewrite (R1 _ _ rest) by lia. reflexivity.
  - destruct r as [|c2 r2]; [reflexivity|]. destruct (c2 =? 47)%N.
    + (* line comment *)
      assert (T : forall after, length after <= length r2 -> forall (K1 K2 : list N -> list N -> list ptok * option plexerr * bool),
                (forall text rest, length rest <= length after -> K1 text rest = K2 text rest) ->
                (let '(text, rest) := span_while (fun x => negb (x =? 10)%N) after in K1 text rest) =
                (let '(text, rest) := span_while (fun x => negb (x =? 10)%N) after in K2 text rest)).
      { intros after Ha K1 K2 HK. pose proof (span_while_len (fun x => negb (x =? 10)%N) after) as L.
        destruct (span_while (fun x => negb (x =? 10)%N) after) as [text rest]. cbn [snd] in L. apply HK. exact L. }
      destruct r2 as [|c3 r3].
      * cbn [span_while]. rewrite (R1 _ _ []) by (cbn; lia). reflexivity.
      * destruct (c3 =? 47)%N.
        -- destruct r3 as [|c4 r4].
           ++ cbn [span_while]. rewrite (R1 _ _ []) by (cbn; lia). reflexivity.
           ++ destruct (c4 =? 47)%N; (apply T; [cbn; lia|]; intros text rest Hl; rewrite (R1 _ _ rest) by (cbn [length] in *; lia); reflexivity).
        -- apply T; [cbn; lia|]. intros text rest Hl. rewrite (R1 _ _ rest) by (cbn [length] in *; lia). reflexivity.
    + destruct (c2 =? 42)%N; [|reflexivity]. destruct (scan_block false r2) as [rest|] eqn:E; [|reflexivity].
      apply scan_block_len in E. apply R1. cbn [length]. lia.
  - destruct r as [|c2 r2]; [reflexivity|]. destruct (is_letter c2) eqn:L; [|reflexivity].
    pose proof (span_while_len is_alnum_ (c2 :: r2)) as Ls. destruct (span_while is_alnum_ (c2 :: r2)) as [w rest]. cbn [snd] in Ls.
    rewrite (R1 _ _ rest) by exact Ls. reflexivity.
  - (* word *)
    pose proof (span_while_len is_alnum_ (c :: r)) as Ls. destruct (span_while is_alnum_ (c :: r)) as [w rest] eqn:E. cbn [snd] in Ls.
    assert (length rest <= length r).
    { cbn [span_while] in E. destruct (is_alnum_ c) eqn:A.
      - pose proof (span_while_len is_alnum_ r) as L2. destruct (span_while is_alnum_ r) as [w2 rest2]. inversion E; subst. exact L2.
      - exfalso. unfold is_alnum_ in A. rewrite orb_false_iff in A. destruct A as [A _]. rewrite orb_false_iff in A. destruct A as [A _].
        match goal with H : is_letter c = true |- _ => rewrite H in A end. discriminate A. }
    rewrite (R1 _ _ rest) by assumption. reflexivity.
  - (* number *)
    pose proof (span_while_len is_alnum_ (c :: r)) as Ls. destruct (span_while is_alnum_ (c :: r)) as [w rest] eqn:E. cbn [snd] in Ls.
    assert (length rest <= length r).
    { cbn [span_while] in E. destruct (is_alnum_ c) eqn:A.
      - pose proof (span_while_len is_alnum_ r) as L2. destruct (span_while is_alnum_ r) as [w2 rest2]. inversion E; subst. exact L2.
      - exfalso. unfold is_alnum_ in A. rewrite !orb_false_iff in A. destruct A as [[_ A] _].
        match goal with H : is_digit c = true |- _ => unfold is_digit in H; rewrite H in A end. discriminate A. }
    rewrite (R1 _ _ rest) by assumption. reflexivity.
Qed.
Theorem lex_block_fuel_independent : forall fuel attr cur s, length s < fuel -> lex_block fuel attr cur s = lex_block (S fuel) attr cur s.
Proof.
  induction fuel as [|f IH]; intros attr cur s Hf; [lia|].
  change (lex_block (S (S f)) attr cur s) with (lex_step (lex_block (S f)) attr cur s).
  change (lex_block (S f) attr cur s) with (lex_step (lex_block f) attr cur s).
  apply lex_step_ext. intros a l x Hx. apply IH. lia.
Qed.
(* hence the lexer needs no more steps than there are characters: any larger fuel gives the same tokens *)
Corollary lex_block_total fuel k attr cur s : length s < fuel -> lex_block (fuel + k) attr cur s = lex_block fuel attr cur s.
Proof.
  intros H. induction k as [|k IH]; [rewrite Nat.add_0_r; reflexivity|]. rewrite Nat.add_succ_r, <- lex_block_fuel_independent by lia. exact IH.
Qed.

(* ------------------------------------------------------------------------------------------------ layout independence *)
(* what the parser sees of a lexer result when locations are set aside: the token kinds, the kind of the first error, the flag *)
Definition kinds_of (r : list ptok * option plexerr * bool) : list token * option lexerr * bool :=
  (map (fun p : ptok => snd (fst p)) (fst (fst r)), option_map (fun e : plexerr => snd (fst e)) (snd (fst r)), snd r).
Lemma kinds_cons l t e ts er a : kinds_of ((l, t, e) :: ts, er, a) = (t :: fst (fst (kinds_of (ts, er, a))), snd (fst (kinds_of (ts, er, a))), a).
Proof. reflexivity. Qed.
(* the token kinds do not depend on where the block starts *)
Lemma lex_step_sim g1 g2 attr k1 k2 s : (forall a l1 l2 x, length x < length s -> kinds_of (g1 a l1 x) = kinds_of (g2 a l2 x)) ->
  kinds_of (lex_step g1 attr k1 s) = kinds_of (lex_step g2 attr k2 s).
Proof.
  intros R. unfold lex_step. destruct s as [|c r]; [reflexivity|]. cbn [length] in R.
  assert (R1 : forall a l1 l2 x, length x <= length r -> kinds_of (g1 a l1 x) = kinds_of (g2 a l2 x)) by (intros; apply R; lia).
  assert (K : forall a l1 l2 x t p1 e1 p2 e2, length x <= length r ->
            kinds_of (let '(ts, er, a') := g1 a l1 x in ((p1, t, e1) :: ts, er, a')) = kinds_of (let '(ts, er, a') := g2 a l2 x in ((p2, t, e2) :: ts, er, a'))).
  { intros a l1 l2 x t p1 e1 p2 e2 Hx. specialize (R1 a l1 l2 x Hx). destruct (g1 a l1 x) as [[ts1 er1] a1]. destruct (g2 a l2 x) as [[ts2 er2] a2].
    unfold kinds_of in *. cbn [fst snd map] in *. inversion R1. congruence. }
  cbv zeta.
  repeat match goal with |- kinds_of (if ?b then _ else _) = kinds_of (if ?b then _ else _) => destruct b eqn:? end; try (apply K; lia); try reflexivity.
  - destruct r as [|c2 r2]; [reflexivity|]. destruct (c2 =? 91)%N; apply K; cbn [length]; lia.
  - destruct r as [|c2 r2]; [reflexivity|]. destruct (c2 =? 93)%N; apply K; cbn [length]; lia.
  - destruct r as [|c2 r2]; [reflexivity|]. destruct (c2 =? 58)%N; apply K; cbn [length]; lia.
  - destruct r as [|c2 r2]; [reflexivity|]. destruct (c2 =? 62)%N; apply K; cbn [length]; lia.
  - destruct (scan_string false r []) as [[content rest]|eaten] eqn:E; [|reflexivity]. apply scan_string_len in E. apply K. lia.
  - destruct r as [|c2 r2]; [reflexivity|]. destruct (c2 =? 47)%N.
    + assert (T : forall (after : list N) (isdoc : bool) (n1 n2 : loc), length after <= length r2 ->
                kinds_of (let '(text, rest) := span_while (fun x => negb (x =? 10)%N) after in
                          let '(ts, er, a) := g1 attr (adv_all n1 text) rest in
                          if isdoc then ((n1, TkDoc match rev text with 13%N :: t => rev t | _ => text end, adv_all n1 text) :: ts, er, a) else (ts, er, a)) =
                kinds_of (let '(text, rest) := span_while (fun x => negb (x =? 10)%N) after in
                          let '(ts, er, a) := g2 attr (adv_all n2 text) rest in
                          if isdoc then ((n2, TkDoc match rev text with 13%N :: t => rev t | _ => text end, adv_all n2 text) :: ts, er, a) else (ts, er, a))).
      { intros after isdoc n1 n2 Ha. pose proof (span_while_len (fun x => negb (x =? 10)%N) after) as L.
        destruct (span_while (fun x => negb (x =? 10)%N) after) as [text rest]. cbn [snd] in L. destruct isdoc; [apply K; cbn [length] in *; lia|].
        assert (Hr : length rest <= length (c2 :: r2)) by (cbn [length] in *; lia). specialize (R1 attr (adv_all n1 text) (adv_all n2 text) rest Hr).
        destruct (g1 attr (adv_all n1 text) rest) as [[? ?] ?]. destruct (g2 attr (adv_all n2 text) rest) as [[? ?] ?]. exact R1. }
      destruct r2 as [|c3 r3]; [apply (T [] false); cbn; lia|].
      destruct (c3 =? 47)%N; [|apply (T (c3 :: r3) false); cbn; lia].
      destruct r3 as [|c4 r4]; [apply (T [] true); cbn; lia|]. destruct (c4 =? 47)%N; [apply (T (c4 :: r4) false)|apply (T (c4 :: r4) true)]; cbn; lia.
    + destruct (c2 =? 42)%N; [|reflexivity]. destruct (scan_block false r2) as [rest|] eqn:E; [|reflexivity]. apply scan_block_len in E. apply R1. cbn [length]. lia.
  - destruct r as [|c2 r2]; [reflexivity|]. destruct (is_letter c2) eqn:L; [|reflexivity].
    pose proof (span_while_len is_alnum_ (c2 :: r2)) as Ls. destruct (span_while is_alnum_ (c2 :: r2)) as [w rest]. cbn [snd] in Ls. apply K. exact Ls.
  - pose proof (span_while_len is_alnum_ (c :: r)) as Ls. destruct (span_while is_alnum_ (c :: r)) as [w rest] eqn:E. cbn [snd] in Ls.
    assert (length rest <= length r).
    { cbn [span_while] in E. destruct (is_alnum_ c) eqn:A.
      - pose proof (span_while_len is_alnum_ r) as L2. destruct (span_while is_alnum_ r) as [w2 rest2]. inversion E; subst. exact L2.
      - exfalso. unfold is_alnum_ in A. rewrite orb_false_iff in A. destruct A as [A _]. rewrite orb_false_iff in A. destruct A as [A _].
        match goal with H : is_letter c = true |- _ => rewrite H in A end. discriminate A. }
    apply K. assumption.
  - pose proof (span_while_len is_alnum_ (c :: r)) as Ls. destruct (span_while is_alnum_ (c :: r)) as [w rest] eqn:E. cbn [snd] in Ls.
    assert (length rest <= length r).
    { cbn [span_while] in E. destruct (is_alnum_ c) eqn:A.
      - pose proof (span_while_len is_alnum_ r) as L2. destruct (span_while is_alnum_ r) as [w2 rest2]. inversion E; subst. exact L2.
      - exfalso. unfold is_alnum_ in A. rewrite !orb_false_iff in A. destruct A as [[_ A] _].
        match goal with H : is_digit c = true |- _ => unfold is_digit in H; rewrite H in A end. discriminate A. }
    apply K. assumption.
  - apply R1. lia.
Qed.
Theorem token_kinds_independent_of_start : forall fuel attr c1 c2 s, kinds_of (lex_block fuel attr c1 s) = kinds_of (lex_block fuel attr c2 s).
Proof.
  induction fuel as [|f IH]; intros attr c1 c2 s; [reflexivity|].
  change (lex_block (S f) attr c1 s) with (lex_step (lex_block f) attr c1 s). change (lex_block (S f) attr c2 s) with (lex_step (lex_block f) attr c2 s).
  apply lex_step_sim. intros a l1 l2 x _. apply IH.
Qed.

(* white space and ordinary comments between tokens *)
Definition no_nl (s : list N) : bool := forallb (fun c => negb (c =? 10)%N) s.
Inductive blank : list N -> Prop :=
| bl_nil : blank []
| bl_ws c b : is_ws c = true -> blank b -> blank (c :: b)
| bl_line text b : no_nl text = true -> (match text with 47%N :: _ => False | _ => True end) -> blank (10%N :: b) ->
    blank (47%N :: 47%N :: text ++ 10%N :: b)                                   (* // text, up to the end of the line *)
| bl_line4 text b : no_nl text = true -> blank (10%N :: b) -> blank (47%N :: 47%N :: 47%N :: 47%N :: text ++ 10%N :: b)   (* four or more slashes *)
| bl_block body b : (forall rest, scan_block false (body ++ 42%N :: 47%N :: rest) = Some rest) -> blank b ->
    blank (47%N :: 42%N :: body ++ 42%N :: 47%N :: b).                          (* /* body */ *)
Lemma ws_chars c : is_ws c = true -> (c =? 40)%N = false /\ (c =? 41)%N = false /\ (c =? 91)%N = false /\ (c =? 93)%N = false /\ (c =? 123)%N = false /\ (c =? 125)%N = false /\
  (c =? 60)%N = false /\ (c =? 62)%N = false /\ (c =? 44)%N = false /\ (c =? 58)%N = false /\ (c =? 61)%N = false /\ (c =? 63)%N = false /\ (c =? 45)%N = false /\
  (c =? 34)%N = false /\ (c =? 47)%N = false /\ (c =? 92)%N = false /\ is_letter c = false /\ is_digit c = false.
Proof.
  intros H. unfold is_ws in H. rewrite !orb_true_iff, !andb_true_iff, !N.leb_le, !N.eqb_eq in H.
  repeat split; try (apply N.eqb_neq; lia).
  - unfold is_letter. apply orb_false_iff. split; apply andb_false_iff; rewrite !N.leb_gt; lia.
  - unfold is_digit. apply andb_false_iff. rewrite !N.leb_gt. lia.
Qed.
Lemma span_line text b : no_nl text = true -> span_while (fun x => negb (x =? 10)%N) (text ++ 10%N :: b) = (text, 10%N :: b).
Proof.
  intros H. induction text as [|c t IH]; [reflexivity|]. cbn [app span_while]. unfold no_nl in H. cbn [forallb] in H. apply andb_true_iff in H as [Hc Ht].
  rewrite Hc. rewrite (IH Ht). reflexivity.
Qed.
Lemma kinds_let (g : bool -> loc -> list N -> list ptok * option plexerr * bool) a l x : kinds_of (let '(ts, er, a') := g a l x in (ts, er, a')) = kinds_of (g a l x).
Proof. destruct (g a l x) as [[? ?] ?]. reflexivity. Qed.
(* blanks in front of the input change no token kind *)
Theorem blank_skipped b : blank b -> forall fuel attr cur s, length (b ++ s) < fuel -> exists cur', kinds_of (lex_block fuel attr cur (b ++ s)) = kinds_of (lex_block fuel attr cur' s).
Proof.
  induction 1 as [|c b Hc _ IH|text b Ht Hs _ IH|text b Ht _ IH|body b Hb _ IH]; intros fuel attr cur s Hf.
  - exists cur. reflexivity.
  - destruct fuel as [|f]; [lia|]. cbn [app length] in *. destruct (ws_chars c Hc) as (A1 & A2 & A3 & A4 & A5 & A6 & A7 & A8 & A9 & A10 & A11 & A12 & A13 & A14 & A15 & A16 & A17 & A18).
    destruct (IH f attr (adv cur c) s ltac:(lia)) as (cur' & E). exists cur'.
    change (lex_block (S f) attr cur (c :: b ++ s)) with (lex_step (lex_block f) attr cur (c :: b ++ s)). unfold lex_step.
    rewrite A1, A2, A3, A4, A5, A6, A7, A8, A9, A10, A11, A12, A13, A14, A15, A16, A17, A18, Hc. rewrite E.
    rewrite (lex_block_fuel_independent f attr cur' s) by (rewrite app_length in Hf; lia). reflexivity.
  - destruct fuel as [|f]; [lia|]. cbn [app length] in Hf. repeat (rewrite app_length in Hf; cbn [length] in Hf).
    destruct (IH f attr (adv_all (mkloc (l_row cur) (l_col cur + 2)) text) s ltac:(cbn [app length]; rewrite app_length; lia)) as (cur' & E). exists cur'.
    cbn [app]. rewrite <- app_assoc. cbn [app].
    change (lex_block (S f) attr cur (47%N :: 47%N :: text ++ 10%N :: b ++ s)) with (lex_step (lex_block f) attr cur (47%N :: 47%N :: text ++ 10%N :: b ++ s)).
    unfold lex_step. cbn [N.eqb Pos.eqb].
    assert (X : match text ++ 10%N :: b ++ s with
                | c3 :: r3 => if (c3 =? 47)%N then match r3 with c4 :: _ => if (c4 =? 47)%N then (3, false, r3) else (3, true, r3) | [] => (3, true, r3) end else (2, false, text ++ 10%N :: b ++ s)
                | [] => (2, false, text ++ 10%N :: b ++ s) end = (2, false, text ++ 10%N :: b ++ s)).
    { destruct text as [|c3 t3]; [reflexivity|]. cbn [app]. destruct (N.eqb_spec c3 47) as [->|]; [contradiction|reflexivity]. }
    rewrite X. rewrite span_line by exact Ht. rewrite kinds_let. cbn [app] in E. rewrite E.
    rewrite (lex_block_fuel_independent f attr cur' s) by lia. reflexivity.
  - destruct fuel as [|f]; [lia|]. cbn [app length] in Hf. repeat (rewrite app_length in Hf; cbn [length] in Hf).
    destruct (IH f attr (adv_all (mkloc (l_row cur) (l_col cur + 3)) (47%N :: text)) s ltac:(cbn [app length]; rewrite app_length; lia)) as (cur' & E). exists cur'.
    cbn [app]. rewrite <- app_assoc. cbn [app].
    change (lex_block (S f) attr cur (47%N :: 47%N :: 47%N :: 47%N :: text ++ 10%N :: b ++ s)) with (lex_step (lex_block f) attr cur (47%N :: 47%N :: 47%N :: 47%N :: text ++ 10%N :: b ++ s)).
    unfold lex_step. cbn [N.eqb Pos.eqb].
    change (47%N :: text ++ 10%N :: b ++ s) with ((47%N :: text) ++ 10%N :: b ++ s). rewrite span_line by (unfold no_nl in *; cbn [forallb]; rewrite Ht; reflexivity).
    rewrite kinds_let. cbn [app] in E. rewrite E. rewrite (lex_block_fuel_independent f attr cur' s) by lia. reflexivity.
  - destruct fuel as [|f]; [lia|]. cbn [app length] in Hf. repeat (rewrite app_length in Hf; cbn [length] in Hf).
    cbn [app]. rewrite <- app_assoc. cbn [app].
    destruct (IH f attr (adv_all cur (consumed (47%N :: 42%N :: body ++ 42%N :: 47%N :: b ++ s) (b ++ s))) s ltac:(rewrite app_length; lia)) as (cur' & E). exists cur'.
    change (lex_block (S f) attr cur (47%N :: 42%N :: body ++ 42%N :: 47%N :: b ++ s)) with (lex_step (lex_block f) attr cur (47%N :: 42%N :: body ++ 42%N :: 47%N :: b ++ s)).
    unfold lex_step. cbn [N.eqb Pos.eqb]. rewrite Hb. rewrite E. rewrite (lex_block_fuel_independent f attr cur' s) by lia. reflexivity.
Qed.

(* ------------------------------------------------------------------------------------------------ how each token is spelled *)
Definition starts_with (c : N) (s : list N) : bool := match s with d :: _ => (d =? c)%N | [] => false end.
Definition starts_alnum (s : list N) : bool := match s with d :: _ => is_alnum_ d | [] => false end.
Definition word_ok (w : list N) : Prop := match w with c :: r => is_letter c = true /\ forallb is_alnum_ r = true | [] => False end.
Definition number_ok (w : list N) : Prop := match w with c :: r => is_digit c = true /\ forallb is_alnum_ r = true | [] => False end.
(* spelled attr t w attr' s: in attribute mode attr, the characters w followed by s are the token t, leaving mode attr' *)
Inductive spelled : bool -> token -> list N -> bool -> list N -> Prop :=
| sp_lparen a s : spelled a TkLParen [40%N] a s | sp_rparen a s : spelled a TkRParen [41%N] a s
| sp_lbrace a s : spelled a TkLBrace [123%N] a s | sp_rbrace a s : spelled a TkRBrace [125%N] a s
| sp_lt a s : spelled a TkLt [60%N] a s | sp_gt a s : spelled a TkGt [62%N] a s
| sp_comma a s : spelled a TkComma [44%N] a s | sp_eq a s : spelled a TkEq [61%N] a s | sp_question a s : spelled a TkQuestion [63%N] a s
| sp_lbracket a s : starts_with 91 s = false -> spelled a TkLBracket [91%N] true s
| sp_dlbracket a s : spelled a TkDLBracket [91%N; 91%N] true s
| sp_rbracket a s : starts_with 93 s = false -> spelled a TkRBracket [93%N] false s
| sp_drbracket a s : spelled a TkDRBracket [93%N; 93%N] false s
| sp_colon a s : starts_with 58 s = false -> spelled a TkColon [58%N] a s
| sp_dcolon a s : spelled a TkDColon [58%N; 58%N] a s
| sp_minus a s : starts_with 62 s = false -> spelled a TkMinus [45%N] a s
| sp_arrow a s : spelled a TkArrow [45%N; 62%N] a s
| sp_word a w s : word_ok w -> starts_alnum s = false -> spelled a (word_token a w) w a s
| sp_escaped a w s : word_ok w -> starts_alnum s = false -> spelled a (TkIdent w) (92%N :: w) a s
| sp_number a w s : number_ok w -> starts_alnum s = false -> spelled a (TkInt w) w a s
| sp_string a raw s : scan_string false (raw ++ 34%N :: s) [] = inl (raw, s) -> spelled a (TkStr raw) (34%N :: raw ++ [34%N]) a s
| sp_doc a text s : no_nl text = true -> (match text with 47%N :: _ => False | _ => True end) -> (match s with [] => True | c :: _ => c = 10%N end) ->
    spelled a (TkDoc (match rev text with 13%N :: t => rev t | _ => text end)) (47%N :: 47%N :: 47%N :: text) a s.

Lemma word_span w s : (match w with c :: r => forallb is_alnum_ (c :: r) = true | [] => False end) -> starts_alnum s = false -> span_while is_alnum_ (w ++ s) = (w, s).
Proof.
  intros Hw Hs. destruct w as [|c r]; [contradiction|]. apply span_while_app; [exact Hw|]. destruct s as [|d s']; [exact I|exact Hs].
Qed.
Lemma letter_chars c : is_letter c = true -> (c =? 40)%N = false /\ (c =? 41)%N = false /\ (c =? 91)%N = false /\ (c =? 93)%N = false /\ (c =? 123)%N = false /\ (c =? 125)%N = false /\
  (c =? 60)%N = false /\ (c =? 62)%N = false /\ (c =? 44)%N = false /\ (c =? 58)%N = false /\ (c =? 61)%N = false /\ (c =? 63)%N = false /\ (c =? 45)%N = false /\
  (c =? 34)%N = false /\ (c =? 47)%N = false /\ (c =? 92)%N = false /\ is_alnum_ c = true.
Proof.
  intros H. unfold is_letter in H. rewrite orb_true_iff, !andb_true_iff, !N.leb_le in H.
  repeat split; try (apply N.eqb_neq; lia). unfold is_alnum_, is_letter.
  destruct H as [[H1 H2]|[H1 H2]]; apply N.leb_le in H1, H2; rewrite H1, H2; cbn; rewrite ?orb_true_r; reflexivity.
Qed.
Lemma digit_chars c : is_digit c = true -> (c =? 40)%N = false /\ (c =? 41)%N = false /\ (c =? 91)%N = false /\ (c =? 93)%N = false /\ (c =? 123)%N = false /\ (c =? 125)%N = false /\
  (c =? 60)%N = false /\ (c =? 62)%N = false /\ (c =? 44)%N = false /\ (c =? 58)%N = false /\ (c =? 61)%N = false /\ (c =? 63)%N = false /\ (c =? 45)%N = false /\
  (c =? 34)%N = false /\ (c =? 47)%N = false /\ (c =? 92)%N = false /\ is_letter c = false /\ is_alnum_ c = true.
Proof.
  intros H. unfold is_digit in H. rewrite andb_true_iff, !N.leb_le in H.
  repeat split; try (apply N.eqb_neq; lia).
  - unfold is_letter. apply orb_false_iff. split; apply andb_false_iff; rewrite !N.leb_gt; lia.
  - unfold is_alnum_. destruct H as [H1 H2]. apply N.leb_le in H1, H2. rewrite H1, H2. cbn. rewrite orb_true_r. reflexivity.
Qed.

(* the characters of a token are lexed as that token, and the rest is lexed on its own *)
Definition cons_kind (t : token) (k : list token * option lexerr * bool) : list token * option lexerr * bool := (t :: fst (fst k), snd (fst k), snd k).
Theorem token_lexed a t w a' s : spelled a t w a' s -> forall f cur,
  exists cur', kinds_of (lex_block (S f) a cur (w ++ s)) = cons_kind t (kinds_of (lex_block f a' cur' s)).
Proof.
  assert (G : forall f (x : list N) l t0 p e a0,
            kinds_of (let '(ts, er, a1) := lex_block f a0 l x in ((p, t0, e) :: ts, er, a1)) = cons_kind t0 (kinds_of (lex_block f a0 l x))).
  { intros f x l t0 p e a0. destruct (lex_block f a0 l x) as [[ts er] a1]. reflexivity. }
  destruct 1; intros f cur; cbn [app]; cbn [lex_block]; unfold lex_step; cbn [N.eqb Pos.eqb].
  all: try (eexists; apply G).
  - (* [ *) destruct s as [|d s']; [exists cur; destruct f; reflexivity|]. cbn [starts_with] in H. rewrite H. eexists. apply G.
  - (* ] *) destruct s as [|d s']; [exists cur; destruct f; reflexivity|]. cbn [starts_with] in H. rewrite H. eexists. apply G.
  - (* : *) destruct s as [|d s']; [exists cur; destruct f; reflexivity|]. cbn [starts_with] in H. rewrite H. eexists. apply G.
  - (* - *) destruct s as [|d s']; [exists cur; destruct f; reflexivity|]. cbn [starts_with] in H. rewrite H. eexists. apply G.
  - (* word *)
    destruct w as [|c r]; [contradiction|]. destruct H as [Hc Hr]. destruct (letter_chars c Hc) as (A1 & A2 & A3 & A4 & A5 & A6 & A7 & A8 & A9 & A10 & A11 & A12 & A13 & A14 & A15 & A16 & A17).
    cbn [app]. rewrite A1, A2, A3, A4, A5, A6, A7, A8, A9, A10, A11, A12, A13, A14, A15, A16, Hc.
    change (c :: r ++ s) with ((c :: r) ++ s). rewrite word_span; [|cbn [forallb]; rewrite A17, Hr; reflexivity|exact H0].
    eexists. apply G.
  - (* escaped identifier *)
    destruct w as [|c r]; [contradiction|]. destruct H as [Hc Hr]. destruct (letter_chars c Hc) as (A1 & A2 & A3 & A4 & A5 & A6 & A7 & A8 & A9 & A10 & A11 & A12 & A13 & A14 & A15 & A16 & A17).
    cbn [app]. rewrite Hc. change (c :: r ++ s) with ((c :: r) ++ s). rewrite word_span; [|cbn [forallb]; rewrite A17, Hr; reflexivity|exact H0].
    eexists. apply G.
  - (* number *)
    destruct w as [|c r]; [contradiction|]. destruct H as [Hc Hr]. destruct (digit_chars c Hc) as (A1 & A2 & A3 & A4 & A5 & A6 & A7 & A8 & A9 & A10 & A11 & A12 & A13 & A14 & A15 & A16 & A17 & A18).
    cbn [app]. rewrite A1, A2, A3, A4, A5, A6, A7, A8, A9, A10, A11, A12, A13, A14, A15, A16, A17, Hc.
    change (c :: r ++ s) with ((c :: r) ++ s). rewrite word_span; [|cbn [forallb]; rewrite A18, Hr; reflexivity|exact H0].
    eexists. apply G.
  - (* string *)
    rewrite <- app_assoc. cbn [app]. rewrite H. eexists. apply G.
  - (* doc comment *)
    assert (X : match text ++ s with c4 :: _ => if (c4 =? 47)%N then (3, false, text ++ s) else (3, true, text ++ s) | [] => (3, true, text ++ s) end = (3, true, text ++ s)).
    { destruct text as [|c3 t3]; cbn [app]; [destruct s as [|c4 s']; [reflexivity|subst c4; reflexivity]|]. destruct (N.eqb_spec c3 47) as [->|]; [contradiction|reflexivity]. }
    rewrite X.
    assert (Sp : span_while (fun x => negb (x =? 10)%N) (text ++ s) = (text, s)).
    { apply span_while_app; [exact H|]. destruct s as [|c4 s']; [exact I|subst c4; reflexivity]. }
    rewrite Sp. eexists. apply G.
Qed.

(* ------------------------------------------------------------------------------------------------ any layout gives the same tokens *)
(* a text made of tokens with blanks (white space, line breaks, CRLF, ordinary comments) before, between and after them; the premises
   of `spelled` say where a separator is needed (between two words, before a second bracket, colon or `>`, after a doc comment) *)
Inductive rendered : bool -> list token -> list N -> bool -> Prop :=
| rd_end a b : blank b -> rendered a [] b a
| rd_tok a t w a1 ts rest a2 b : blank b -> spelled a t w a1 rest -> rendered a1 ts rest a2 -> rendered a (t :: ts) (b ++ w ++ rest) a2.
Lemma spelled_nonempty a t w a' s : spelled a t w a' s -> 1 <= length w.
Proof. destruct 1; cbn [length]; try lia; try (destruct w; [contradiction|cbn; lia]). Qed.
Theorem layout_independent a ts text a' : rendered a ts text a' -> forall fuel cur, length text < fuel ->
  kinds_of (lex_block fuel a cur text) = (ts, None, a').
Proof.
  induction 1 as [a b Hb|a t w a1 ts rest a2 b Hb Hs _ IH]; intros fuel cur Hf.
  - destruct (blank_skipped b Hb fuel a cur [] ltac:(rewrite app_nil_r; exact Hf)) as (cur' & E). rewrite app_nil_r in E. rewrite E.
    destruct fuel; reflexivity.
  - destruct (blank_skipped b Hb fuel a cur (w ++ rest) Hf) as (cur' & E). rewrite E.
    pose proof (spelled_nonempty _ _ _ _ _ Hs) as Hw. rewrite !app_length in Hf.
    destruct fuel as [|f]; [lia|]. destruct (token_lexed a t w a1 rest Hs f cur') as (cur'' & T). rewrite T.
    rewrite (IH f cur'' ltac:(lia)). reflexivity.
Qed.
(* hence two layouts of the same token sequence are lexed to the same tokens *)
Corollary same_tokens_any_layout a ts t1 t2 a1 a2 c1 c2 : rendered a ts t1 a1 -> rendered a ts t2 a2 ->
  fst (fst (kinds_of (lex_block (S (length t1)) a c1 t1))) = fst (fst (kinds_of (lex_block (S (length t2)) a c2 t2))).
Proof. intros H1 H2. rewrite (layout_independent _ _ _ _ H1), (layout_independent _ _ _ _ H2) by lia. reflexivity. Qed.

(* non-vacuity: ` struct/**/S` is a rendering of the two tokens struct, S *)
Example ex_rendered : rendered false [TkKw KwStruct; TkIdent [83%N]] ([32%N] ++ [115; 116; 114; 117; 99; 116]%N ++ ([47; 42; 42; 47]%N ++ [83%N] ++ [])) false.
Proof.
  refine (rd_tok false (word_token false [115; 116; 114; 117; 99; 116]%N) _ false _ _ false [32%N] (bl_ws 32%N [] eq_refl bl_nil) _ _).
  - apply sp_word; [split; reflexivity|reflexivity].
  - refine (rd_tok false (word_token false [83%N]) [83%N] false [] [] false [47; 42; 42; 47]%N _ _ (rd_end false [] bl_nil)).
    + exact (bl_block [] [] (fun rest => eq_refl) bl_nil).
    + apply sp_word; [split; reflexivity|reflexivity].
Qed.
