(* The lexer consumes its whole input (C01): with fuel exceeding the number of characters the result no longer depends on the
   fuel, i.e. the loop of the implementation ends within one step per character. *)
From Coq Require Import List Bool NArith Arith Lia.
From SliceV Require Import Cli.PluginSpec Doc.Comment Syntax.Tokens Syntax.Lexer.
Import ListNotations.
Local Open Scope nat_scope.

Lemma span_while_len p s : length (snd (span_while p s)) <= length s.
Proof. induction s as [|c r IH]; cbn [span_while]; [cbn; lia|]. destruct (p c); [destruct (span_while p r); cbn [snd length] in *; lia|cbn; lia]. Qed.
Lemma span_while_len_strict p c r : p c = true -> length (snd (span_while p (c :: r))) <= length r.
Proof. intros H. cbn [span_while]. rewrite H. pose proof (span_while_len p r). destruct (span_while p r). cbn [snd] in *. lia. Qed.
Lemma scan_string_len s : forall esc acc content rest, scan_string esc s acc = inl (content, rest) -> length rest < length s.
Proof.
  induction s as [|c r IH]; intros esc acc content rest H; cbn [scan_string] in H; [discriminate|].
  destruct (c =? 10)%N; [discriminate|]. destruct esc; [apply IH in H; cbn; lia|].
  destruct (c =? 34)%N; [inversion H; subst; cbn; lia|apply IH in H; cbn; lia].
Qed.
Lemma scan_block_len s : forall star rest, scan_block star s = Some rest -> length rest < length s.
Proof.
  induction s as [|c r IH]; intros star rest H; cbn [scan_block] in H; [discriminate|].
  destruct ((c =? 47)%N && star); [inversion H; subst; cbn; lia|apply IH in H; cbn; lia].
Qed.

Lemma consumed_nothing : True. Proof. exact I. Qed.
(* one step only asks how strictly shorter rests are lexed *)
Lemma lex_step_ext g1 g2 attr cur s : (forall a l x, length x < length s -> g1 a l x = g2 a l x) -> lex_step g1 attr cur s = lex_step g2 attr cur s.
Proof.
  intros R. unfold lex_step. destruct s as [|c r]; [reflexivity|]. cbn [length] in R.
  assert (R0 : forall a l, g1 a l r = g2 a l r) by (intros; apply R; lia).
  assert (R1 : forall a l x, length x <= length r -> g1 a l x = g2 a l x) by (intros; apply R; lia).
  cbv zeta.
  repeat match goal with |- (if ?b then _ else _) = (if ?b then _ else _) => destruct b eqn:? end; rewrite ?R0; try reflexivity.
  - destruct r as [|c2 r2]; [reflexivity|]. destruct (c2 =? 91)%N; [rewrite (R1 _ _ r2) by (cbn; lia)|rewrite ?R0]; reflexivity.
  - destruct r as [|c2 r2]; [reflexivity|]. destruct (c2 =? 93)%N; [rewrite (R1 _ _ r2) by (cbn; lia)|rewrite ?R0]; reflexivity.
  - destruct r as [|c2 r2]; [reflexivity|]. destruct (c2 =? 58)%N; [rewrite (R1 _ _ r2) by (cbn; lia)|rewrite ?R0]; reflexivity.
  - destruct r as [|c2 r2]; [reflexivity|]. destruct (c2 =? 62)%N; [rewrite (R1 _ _ r2) by (cbn; lia)|rewrite ?R0]; reflexivity.
  - destruct (scan_string false r []) as [[content rest]|eaten] eqn:E; [|reflexivity].
    apply scan_string_len in E. rewrite (R1 _ _ rest) by lia. reflexivity.
  - destruct r as [|c2 r2]; [reflexivity|]. destruct (c2 =? 47)%N.
    + (* line comment *)
      assert (T : forall after, length after <= length r2 -> forall (K1 K2 : list N -> list N -> list ptok * option plexerr * bool),
                (forall text rest, length rest <= length after -> K1 text rest = K2 text rest) ->
                (let '(text, rest) := span_while (fun x => negb (x =? 10)%N) after in K1 text rest) =
                (let '(text, rest) := span_while (fun x => negb (x =? 10)%N) after in K2 text rest)).
      { intros after Ha K1 K2 HK. pose proof (span_while_len (fun x => negb (x =? 10)%N) after) as L.
        destruct (span_while (fun x => negb (x =? 10)%N) after) as [text rest]. cbn [snd] in L. apply HK. exact L. }
      destruct r2 as [|c3 r3].
      * cbn [span_while]. rewrite (R1 _ _ []) by (cbn; lia). reflexivity.
      * destruct (c3 =? 47)%N.
        -- destruct r3 as [|c4 r4].
           ++ cbn [span_while]. rewrite (R1 _ _ []) by (cbn; lia). reflexivity.
           ++ destruct (c4 =? 47)%N; (apply T; [cbn; lia|]; intros text rest Hl; rewrite (R1 _ _ rest) by (cbn [length] in *; lia); reflexivity).
        -- apply T; [cbn; lia|]. intros text rest Hl. rewrite (R1 _ _ rest) by (cbn [length] in *; lia). reflexivity.
    + destruct (c2 =? 42)%N; [|reflexivity]. destruct (scan_block false r2) as [rest|] eqn:E; [|reflexivity].
      apply scan_block_len in E. apply R1. cbn [length]. lia.
  - destruct r as [|c2 r2]; [reflexivity|]. destruct (is_letter c2) eqn:L; [|reflexivity].
    pose proof (span_while_len is_alnum_ (c2 :: r2)) as Ls. destruct (span_while is_alnum_ (c2 :: r2)) as [w rest]. cbn [snd] in Ls.
    rewrite (R1 _ _ rest) by exact Ls. reflexivity.
  - (* word *)
    pose proof (span_while_len is_alnum_ (c :: r)) as Ls. destruct (span_while is_alnum_ (c :: r)) as [w rest] eqn:E. cbn [snd] in Ls.
    assert (length rest <= length r).
    { cbn [span_while] in E. destruct (is_alnum_ c) eqn:A.
      - pose proof (span_while_len is_alnum_ r) as L2. destruct (span_while is_alnum_ r) as [w2 rest2]. inversion E; subst. exact L2.
      - exfalso. unfold is_alnum_ in A. rewrite orb_false_iff in A. destruct A as [A _]. rewrite orb_false_iff in A. destruct A as [A _].
        match goal with H : is_letter c = true |- _ => rewrite H in A end. discriminate A. }
    rewrite (R1 _ _ rest) by assumption. reflexivity.
  - (* number *)
    pose proof (span_while_len is_alnum_ (c :: r)) as Ls. destruct (span_while is_alnum_ (c :: r)) as [w rest] eqn:E. cbn [snd] in Ls.
    assert (length rest <= length r).
    { cbn [span_while] in E. destruct (is_alnum_ c) eqn:A.
      - pose proof (span_while_len is_alnum_ r) as L2. destruct (span_while is_alnum_ r) as [w2 rest2]. inversion E; subst. exact L2.
      - exfalso. unfold is_alnum_ in A. rewrite !orb_false_iff in A. destruct A as [[_ A] _].
        match goal with H : is_digit c = true |- _ => unfold is_digit in H; rewrite H in A end. discriminate A. }
    rewrite (R1 _ _ rest) by assumption. reflexivity.
Qed.
Theorem lex_block_fuel_independent : forall fuel attr cur s, length s < fuel -> lex_block fuel attr cur s = lex_block (S fuel) attr cur s.
Proof.
  induction fuel as [|f IH]; intros attr cur s Hf; [lia|].
  change (lex_block (S (S f)) attr cur s) with (lex_step (lex_block (S f)) attr cur s).
  change (lex_block (S f) attr cur s) with (lex_step (lex_block f) attr cur s).
  apply lex_step_ext. intros a l x Hx. apply IH. lia.
Qed.
(* hence the lexer needs no more steps than there are characters: any larger fuel gives the same tokens *)
Corollary lex_block_total fuel k attr cur s : length s < fuel -> lex_block (fuel + k) attr cur s = lex_block fuel attr cur s.
Proof.
  intros H. induction k as [|k IH]; [rewrite Nat.add_0_r; reflexivity|]. rewrite Nat.add_succ_r, <- lex_block_fuel_independent by lia. exact IH.
Qed.
