(* The two halves together (C02, C09): a text that is a layout of a token sequence -- blanks, line breaks, comments wherever they
   may be written -- is lexed to those tokens (LexerProofs.layout_independent) at the locations the text gives them, and if these
   tokens spell a file (ParserProofs3.written_file_all: the relation also fixes every location to the extent of its own tokens),
   parsing the text returns exactly that file and no diagnostic. *)
From Coq Require Import List Bool NArith ZArith Arith Lia.
From SliceV Require Import Cli.PluginSpec Doc.Comment Syntax.Tokens Syntax.Lexer Syntax.LexerProofs Syntax.Parser Syntax.ParserProofs
  Syntax.ParserProofs2 Syntax.ParserProofs3.
Import ListNotations.
Local Open Scope nat_scope.

Definition lexed (text : list N) : list ptok := fst (fst (lex_block (S (length text)) false (mkloc 1 1) text)).
Theorem text_read_back ts text a' : rendered false ts text a' ->
  map (fun p : ptok => snd (fst p)) (lexed text) = ts /\
  forall f, written_file_all f (lexed text) -> parse_text text = POk_ f (mkps [] None (last_end (lexed text) (mkloc 1 1)) []).
Proof.
  intros Hr. pose proof (layout_independent false ts text a' Hr (S (length text)) (mkloc 1 1) ltac:(lia)) as L.
  unfold lexed. destruct (lex_block (S (length text)) false (mkloc 1 1) text) as [[pts er] a] eqn:E.
  unfold kinds_of in L. cbn [fst snd] in L. inversion L as [[Hk He Ha]]. destruct er as [e|]; [discriminate He|]. cbn [fst].
  split; [reflexivity|]. intros f Hw.
  unfold parse_text, parse_blocks. cbn [lex_blocks]. rewrite E. rewrite app_nil_r.
  exact (file_written_all f pts Hw (mkloc 1 1)).
Qed.
(* two layouts of the same tokens: both are read back as files that say the same, whenever their tokens spell files at all; in
   particular a file's meaning cannot depend on white space or comments.  (What "spells" requires of locations is satisfied by
   whatever locations the lexer assigns: the relation constrains only the AST's recorded locations.) *)
Corollary same_kinds_two_layouts ts t1 t2 a1 a2 : rendered false ts t1 a1 -> rendered false ts t2 a2 ->
  map (fun p : ptok => snd (fst p)) (lexed t1) = map (fun p : ptok => snd (fst p)) (lexed t2).
Proof. intros H1 H2. rewrite (proj1 (text_read_back _ _ _ H1)), (proj1 (text_read_back _ _ _ H2)). reflexivity. Qed.

(* ------------------------------------------------------------------------------------------------ for every text *)
From SliceV Require Import Syntax.Relocate.
(* two texts whose tokens (and first lexical error, if any) are of the same kinds are parsed to the same file, the same
   diagnostics in the same order, the same error -- locations aside.  No hypothesis on the texts: this covers malformed input *)
Theorem parse_text_sim t1 t2 :
  fst (kinds_of (lex_block (S (length t1)) false (mkloc 1 1) t1)) = fst (kinds_of (lex_block (S (length t2)) false (mkloc 1 1) t2)) ->
  rsim er_file (parse_text t1) (parse_text t2).
Proof.
  intros H. unfold parse_text, parse_blocks. cbn [lex_blocks].
  destruct (lex_block (S (length t1)) false (mkloc 1 1) t1) as [[ts1 er1] a1], (lex_block (S (length t2)) false (mkloc 1 1) t2) as [[ts2 er2] a2].
  unfold kinds_of in H. cbn [fst snd] in H. injection H as Hk He.
  assert (Hl : length ts1 = length ts2) by (apply (f_equal (@length token)) in Hk; rewrite !map_length in Hk; exact Hk).
  destruct er1 as [e1|], er2 as [e2|]; try discriminate He.
  - rewrite Hl. apply p_file_sim. repeat split; [exact Hk|cbn [ps_lexerr option_map] in *; exact He].
  - rewrite !app_nil_r, Hl. apply p_file_sim. repeat split; exact Hk.
Qed.
(* hence: however the tokens of a file are laid out -- white space, line breaks, CRLF, comments wherever they may be written --
   the parser returns the same syntax tree and the same diagnostics; only locations differ *)
Theorem parse_independent_of_layout ts t1 t2 a1 a2 : rendered false ts t1 a1 -> rendered false ts t2 a2 ->
  rsim er_file (parse_text t1) (parse_text t2).
Proof.
  intros H1 H2. apply parse_text_sim.
  rewrite (layout_independent _ _ _ _ H1 (S (length t1)) (mkloc 1 1) ltac:(lia)), (layout_independent _ _ _ _ H2 (S (length t2)) (mkloc 1 1) ltac:(lia)). reflexivity.
Qed.
(* in particular: if one layout's tokens spell a file, every layout of these tokens is parsed to a file that says the same,
   completely and without a diagnostic *)
Corollary any_layout_read_back ts t1 t2 a1 a2 f : rendered false ts t1 a1 -> rendered false ts t2 a2 -> written_file_all f (lexed t1) ->
  exists f' s', parse_text t2 = POk_ f' s' /\ er_file f' = er_file f /\ ps_toks s' = [] /\ ps_diags s' = [].
Proof.
  intros H1 H2 Hw. pose proof (proj2 (text_read_back _ _ _ H1) f Hw) as P1. pose proof (parse_independent_of_layout _ _ _ _ _ H1 H2) as S.
  rewrite P1 in S. destruct (parse_text t2) as [f' s'|e]; [|contradiction]. destruct S as [Ef (Kt & _ & Kd)]. cbn [ps_toks ps_diags map] in Kt, Kd.
  exists f', s'. repeat split; [symmetry; exact Ef| |].
  - destruct (ps_toks s'); [reflexivity|discriminate Kt].
  - destruct (ps_diags s'); [reflexivity|discriminate Kd].
Qed.
