(* Executable model of the Slice parser (parsers/slice/grammar.lalrpop and the actions of grammar.rs) as a recursive descent
   over the lexer's tokens (C02, C09).  Locations: an element's sspan runs from the first token of its declaration proper to
   its last token, as the grammar's captures intend.  Model only; proofs in ParserProofs.v. *)
From Coq Require Import List Bool NArith ZArith Arith.
From SliceV Require Import Cli.PluginSpec Doc.Comment Syntax.Tokens Syntax.Lexer.
Import ListNotations.
Local Open Scope N_scope.

Record sspan := mksspan { ss_start : loc; ss_end : loc }.
Record sident := mksident { si_val : list N; si_span : sspan }.
Record attr := mkattr { at_dir : list N; at_args : list (list N); at_span : sspan }.
Inductive stref := STRef (sp : sspan) (opt : bool) (attrs : list attr) (d : stdef)
with stdef := DPrim (p : prim) | DSeq (e : stref) | DDict (k v : stref) | DRes (s f : stref) | DNamed (id : sident).
Definition doclines := list (list N * sspan).
Record smember := mksmember { sm_doc : doclines; sm_attrs : list attr; sm_tag : option (Z * sspan); sm_name : sident; sm_stream : bool; sm_type : stref; sm_span : sspan }.
Record enumerator := mkenumerator { se_doc : doclines; se_attrs : list attr; se_name : sident; se_fields : option (list smember);
                                    se_value : Z; se_explicit : option sspan; se_span : sspan }.
Record operation := mkoperation { so_doc : doclines; so_attrs : list attr; so_idem : bool; so_name : sident; so_params : list smember; so_rets : list smember; so_span : sspan }.
Inductive defn :=
| DStruct (doc : doclines) (attrs : list attr) (compact : bool) (name : sident) (fields : list smember) (sp : sspan)
| DIface (doc : doclines) (attrs : list attr) (name : sident) (bases : list stref) (ops : list operation) (sp : sspan)
| DEnum (doc : doclines) (attrs : list attr) (compact unchecked : bool) (name : sident) (under : option stref) (ens : list enumerator) (sp : sspan)
| DCustom (doc : doclines) (attrs : list attr) (name : sident) (sp : sspan)
| DAlias (doc : doclines) (attrs : list attr) (name : sident) (t : stref) (sp : sspan).
Record modul := mkmodul { mo_doc : doclines; mo_attrs : list attr; mo_name : sident; mo_span : sspan }.
Record file := mkfile { f_attrs : list attr; f_module : option modul; f_defs : list defn }.

(* diagnostics raised by the actions (they do not stop the parse) *)
Inductive pdiag := PdDocOnModule | PdDocOnParam | PdSmallTuple | PdInvalidInt (base : N) | PdIntOverflow | PdTagBounds | PdModuleRequired.
Inductive perror := PeToken (t : ptok) | PeEof (at_ : loc) | PeLex (e : plexerr) | PeFuel.
Record pstate := mkps { ps_toks : list ptok; ps_lexerr : option plexerr; ps_last : loc; ps_diags : list (pdiag * sspan) }.
Inductive pres (A : Type) := POk_ (a : A) (s : pstate) | PErr_ (e : perror).
Arguments POk_ {A}. Arguments PErr_ {A}.
Definition pbind {A B} (r : pres A) (f : A -> pstate -> pres B) : pres B := match r with POk_ a s => f a s | PErr_ e => PErr_ e end.
Notation "'plet' x , s <- e ;; k" := (pbind e (fun x s => k)) (at level 200, x pattern, s name, right associativity).

Definition fail_here {A} (s : pstate) : pres A :=
  match ps_toks s with
  | t :: _ => PErr_ (PeToken t)
  | [] => match ps_lexerr s with Some e => PErr_ (PeLex e) | None => PErr_ (PeEof (ps_last s)) end
  end.
Definition peek (s : pstate) : option token := match ps_toks s with (_, t, _) :: _ => Some t | [] => None end.
Definition next_start (s : pstate) : loc := match ps_toks s with (l, _, _) :: _ => l | [] => ps_last s end.
Definition advance (s : pstate) : pstate :=
  match ps_toks s with
  | (_, _, e) :: r => mkps r (ps_lexerr s) e (ps_diags s)
  | [] => s
  end.
Definition add_diag (s : pstate) (d : pdiag) (sp : sspan) : pstate := mkps (ps_toks s) (ps_lexerr s) (ps_last s) (ps_diags s ++ [(d, sp)]).
Definition token_eqb (a b : token) : bool :=
  match a, b with
  | TkLParen, TkLParen | TkRParen, TkRParen | TkLBracket, TkLBracket | TkRBracket, TkRBracket | TkDLBracket, TkDLBracket
  | TkDRBracket, TkDRBracket | TkLBrace, TkLBrace | TkRBrace, TkRBrace | TkLt, TkLt | TkGt, TkGt | TkComma, TkComma
  | TkColon, TkColon | TkDColon, TkDColon | TkEq, TkEq | TkQuestion, TkQuestion | TkArrow, TkArrow | TkMinus, TkMinus => true
  | _, _ => false
  end.
Definition kw_eqb (a b : kw) : bool :=
  match a, b with
  | KwModule, KwModule | KwStruct, KwStruct | KwInterface, KwInterface | KwEnum, KwEnum | KwCustom, KwCustom | KwTypeAlias, KwTypeAlias
  | KwResult, KwResult | KwSequence, KwSequence | KwDictionary, KwDictionary | KwCompact, KwCompact | KwIdempotent, KwIdempotent
  | KwStream, KwStream | KwTag, KwTag | KwUnchecked, KwUnchecked => true
  | _, _ => false
  end.
Definition is_tok (s : pstate) (t : token) : bool := match peek s with Some x => token_eqb x t | None => false end.
Definition is_kw (s : pstate) (k : kw) : bool := match peek s with Some (TkKw x) => kw_eqb x k | _ => false end.
Definition expect (t : token) (s : pstate) : pres unit := if is_tok s t then POk_ tt (advance s) else fail_here s.
Definition expect_kw (k : kw) (s : pstate) : pres unit := if is_kw s k then POk_ tt (advance s) else fail_here s.
(* an optional symbol: consumed when present *)
Definition opt_tok (t : token) (s : pstate) : bool * pstate := if is_tok s t then (true, advance s) else (false, s).
Definition opt_kw (k : kw) (s : pstate) : bool * pstate := if is_kw s k then (true, advance s) else (false, s).

(* ------------------------------------------------------------------------------------------------ values *)
Definition I128_MAX : Z := (2 ^ 127 - 1)%Z. Definition I128_MIN : Z := (- 2 ^ 127)%Z.
Definition digit_val (c : N) : option Z :=
  if (48 <=? c) && (c <=? 57) then Some (Z.of_N (c - 48))
  else if (97 <=? c) && (c <=? 122) then Some (Z.of_N (c - 87))
  else if (65 <=? c) && (c <=? 90) then Some (Z.of_N (c - 55))
  else None.
Inductive intres := IntOk (z : Z) | IntInvalid | IntOverflow.
(* i128::from_str_radix on a string without sign: an invalid digit wins over overflow only if it comes first *)
Fixpoint radix_fold (base : Z) (s : list N) (acc : Z) : intres :=
  match s with
  | [] => IntOk acc
  | c :: r => match digit_val c with
              | Some d => if (d <? base)%Z then
                            let acc' := (acc * base + d)%Z in
                            if (acc' >? I128_MAX)%Z then (if forallb (fun x => match digit_val x with Some d' => (d' <? base)%Z | None => false end) r then IntOverflow else IntInvalid)
                            else radix_fold base r acc'
                          else IntInvalid
              | None => IntInvalid
              end
  end.
Definition parse_int (s : list N) : intres * N :=
  let t := filter (fun c => negb (c =? 95)) s in
  match t with
  | 48 :: 98 :: r => (match r with [] => IntOverflow | _ => radix_fold 2 r 0 end, 2)
  | 48 :: 120 :: r => (match r with [] => IntOverflow | _ => radix_fold 16 r 0 end, 16)
  | [] => (IntOverflow, 10)
  | _ => (radix_fold 10 t 0, 10)
  end.
(* unescape_string_literal: a backslash that is not itself escaped is dropped *)
Fixpoint unescape (esc : bool) (s : list N) : list N :=
  match s with
  | [] => []
  | c :: r => if (c =? 92) && negb esc then unescape true r else c :: unescape false r
  end.
Definition wrap_u32 (z : Z) : Z := (z mod 2 ^ 32)%Z.
Definition next_enumerator_value (prev : option Z) : Z :=
  match prev with None => 0%Z | Some v => if (v =? I128_MAX)%Z then I128_MIN else (v + 1)%Z end.

(* ------------------------------------------------------------------------------------------------ small productions *)
Definition p_identifier (s : pstate) : pres sident :=
  match ps_toks s with (l, TkIdent v, e) :: _ => POk_ (mksident v (mksspan l e)) (advance s) | _ => fail_here s end.
Definition sep : list N := [58; 58].
(* ("::" identifier)* *)
Fixpoint p_scoped_tail (fuel : nat) (acc : list N) (s : pstate) : pres (list N) :=
  match fuel with O => PErr_ PeFuel | S f =>
    if is_tok s TkDColon then
      let s1 := advance s in
      match ps_toks s1 with (_, TkIdent v, _) :: _ => p_scoped_tail f (acc ++ sep ++ v) (advance s1) | _ => fail_here s1 end
    else POk_ acc s
  end.
Definition p_relative_identifier (fuel : nat) (s : pstate) : pres sident :=
  match ps_toks s with
  | (l, TkIdent v, _) :: _ => plet val, s1 <- p_scoped_tail fuel v (advance s) ;; POk_ (mksident val (mksspan l (ps_last s1))) s1
  | _ => fail_here s
  end.
Definition p_global_identifier (fuel : nat) (s : pstate) : pres sident :=
  if is_tok s TkDColon then
    let l := next_start s in
    let s1 := advance s in
    match ps_toks s1 with
    | (_, TkIdent v, _) :: _ => plet val, s2 <- p_scoped_tail fuel (sep ++ v) (advance s1) ;; POk_ (mksident val (mksspan l (ps_last s2))) s2
    | _ => fail_here s1
    end
  else fail_here s.
Definition p_integer (s : pstate) : pres (Z * sspan) :=
  match ps_toks s with
  | (l, TkInt v, e) :: _ =>
    let sp := mksspan l e in
    let s1 := advance s in
    match parse_int v with
    | (IntOk z, _) => POk_ (z, sp) s1
    | (IntInvalid, b) => POk_ (0%Z, sp) (add_diag s1 (PdInvalidInt b) sp)
    | (IntOverflow, _) => POk_ (0%Z, sp) (add_diag s1 PdIntOverflow sp)
    end
  | _ => fail_here s
  end.
Definition p_signed_integer (s : pstate) : pres (Z * sspan) :=
  if is_tok s TkMinus then
    let l := next_start s in
    plet i, s1 <- p_integer (advance s) ;; POk_ ((- fst i)%Z, mksspan l (ss_end (snd i))) s1
  else p_integer s.
Definition p_tag (s : pstate) : pres (Z * sspan) :=
  plet _, s1 <- expect_kw KwTag s ;; plet _, s2 <- expect TkLParen s1 ;; plet i, s3 <- p_signed_integer s2 ;; plet _, s4 <- expect TkRParen s3 ;;
  let s5 := if ((fst i <? 0) || (fst i >? 2147483647))%Z then add_diag s4 PdTagBounds (snd i) else s4 in
  POk_ (wrap_u32 (fst i), snd i) s5.

(* CommaList<AttributeArgument> up to the closing parenthesis *)
Fixpoint p_attr_args (fuel : nat) (s : pstate) : pres (list (list N)) :=
  match fuel with O => PErr_ PeFuel | S f =>
    match ps_toks s with
    | (_, TkStr v, _) :: _ | (_, TkIdent v, _) :: _ =>
      let a := match ps_toks s with (_, TkStr _, _) :: _ => unescape false v | _ => v end in
      let s1 := advance s in
      if is_tok s1 TkComma then
        let s2 := advance s1 in
        if is_tok s2 TkRParen then POk_ [a] s2 else plet r, s3 <- p_attr_args f s2 ;; (match r with [] => fail_here s2 | _ => POk_ (a :: r) s3 end)
      else POk_ [a] s1
    | _ => POk_ [] s
    end
  end.
Definition p_attribute (fuel : nat) (s : pstate) : pres attr :=
  let l := next_start s in
  plet d, s1 <- p_relative_identifier fuel s ;;
  if is_tok s1 TkLParen then
    plet args, s2 <- p_attr_args fuel (advance s1) ;; plet _, s3 <- expect TkRParen s2 ;; POk_ (mkattr (si_val d) args (mksspan l (ps_last s3))) s3
  else POk_ (mkattr (si_val d) [] (mksspan l (ps_last s1))) s1.
Definition p_local_attribute (fuel : nat) (s : pstate) : pres attr :=
  plet _, s1 <- expect TkLBracket s ;; plet a, s2 <- p_attribute fuel s1 ;; plet _, s3 <- expect TkRBracket s2 ;; POk_ a s3.
Fixpoint p_local_attributes (fuel : nat) (s : pstate) : pres (list attr) :=
  match fuel with O => PErr_ PeFuel | S f =>
    if is_tok s TkLBracket then plet a, s1 <- p_local_attribute f s ;; plet r, s2 <- p_local_attributes f s1 ;; POk_ (a :: r) s2
    else POk_ [] s
  end.
Fixpoint p_file_attributes (fuel : nat) (s : pstate) : pres (list attr) :=
  match fuel with O => PErr_ PeFuel | S f =>
    if is_tok s TkDLBracket then
      plet a, s1 <- p_attribute f (advance s) ;; plet _, s2 <- expect TkDRBracket s1 ;; plet r, s3 <- p_file_attributes f s2 ;; POk_ (a :: r) s3
    else POk_ [] s
  end.
(* Prelude: doc comment lines and attributes in any order *)
Fixpoint p_prelude (fuel : nat) (s : pstate) : pres (doclines * list attr) :=
  match fuel with O => PErr_ PeFuel | S f =>
    match ps_toks s with
    | (l, TkDoc v, e) :: _ => plet r, s1 <- p_prelude f (advance s) ;; POk_ ((v, mksspan l e) :: fst r, snd r) s1
    | (_, TkLBracket, _) :: _ => plet a, s1 <- p_local_attribute f s ;; plet r, s2 <- p_prelude f s1 ;; POk_ (fst r, a :: snd r) s2
    | _ => POk_ ([], []) s
    end
  end.

(* ------------------------------------------------------------------------------------------------ type references *)
Fixpoint p_typeref (fuel : nat) (s : pstate) : pres stref :=
  match fuel with O => PErr_ PeFuel | S f =>
    let l := next_start s in
    plet attrs, s1 <- p_local_attributes f s ;;
    plet d, s2 <-
      (match ps_toks s1 with
       | (_, TkKw (KwPrim p), _) :: _ => POk_ (DPrim p) (advance s1)
       | (_, TkKw KwSequence, _) :: _ =>
         plet _, a <- expect TkLt (advance s1) ;; plet e, b <- p_typeref f a ;; plet _, c <- expect TkGt b ;; POk_ (DSeq e) c
       | (_, TkKw KwDictionary, _) :: _ =>
         plet _, a <- expect TkLt (advance s1) ;; plet k, b <- p_typeref f a ;; plet _, c <- expect TkComma b ;; plet v, d <- p_typeref f c ;;
         plet _, e <- expect TkGt d ;; POk_ (DDict k v) e
       | (_, TkKw KwResult, _) :: _ =>
         plet _, a <- expect TkLt (advance s1) ;; plet k, b <- p_typeref f a ;; plet _, c <- expect TkComma b ;; plet v, d <- p_typeref f c ;;
         plet _, e <- expect TkGt d ;; POk_ (DRes k v) e
       | (_, TkIdent _, _) :: _ => plet i, a <- p_relative_identifier f s1 ;; POk_ (DNamed i) a
       | (_, TkDColon, _) :: _ => plet i, a <- p_global_identifier f s1 ;; POk_ (DNamed i) a
       | _ => fail_here s1
       end) ;;
    let '(o, s3) := opt_tok TkQuestion s2 in
    POk_ (STRef (mksspan l (ps_last s3)) o attrs d) s3
  end.

(* ------------------------------------------------------------------------------------------------ members *)
Definition starts_member (s : pstate) : bool :=
  match peek s with Some (TkDoc _) | Some TkLBracket | Some (TkKw KwTag) | Some (TkIdent _) => true | _ => false end.
(* Field: Prelude Tag? Identifier ":" TypeRef     Parameter: Prelude Tag? Identifier ":" stream? TypeRef *)
Definition p_member (is_param : bool) (fuel : nat) (s : pstate) : pres smember :=
  plet pre, s1 <- p_prelude fuel s ;;
  let l := next_start s1 in
  plet tag, s2 <- (if is_kw s1 KwTag then plet t, a <- p_tag s1 ;; POk_ (Some t) a else POk_ None s1) ;;
  plet name, s3 <- p_identifier s2 ;;
  plet _, s4 <- expect TkColon s3 ;;
  let '(stream, s5) := if is_param then opt_kw KwStream s4 else (false, s4) in
  plet t, s6 <- p_typeref fuel s5 ;;
  let sp := mksspan l (ps_last s6) in
  let s7 := if is_param then (match fst pre with [] => s6 | _ => add_diag s6 PdDocOnParam sp end) else s6 in
  POk_ (mksmember (if is_param then [] else fst pre) (snd pre) tag name stream t sp) s7.
(* UndelimitedList<T>: (T ","?)* *)
Fixpoint p_members (is_param : bool) (fuel : nat) (s : pstate) : pres (list smember) :=
  match fuel with O => PErr_ PeFuel | S f =>
    if starts_member s then
      plet m, s1 <- p_member is_param f s ;; let '(_, s2) := opt_tok TkComma s1 in plet r, s3 <- p_members is_param f s2 ;; POk_ (m :: r) s3
    else POk_ [] s
  end.
Definition returnValue : list N := [114; 101; 116; 117; 114; 110; 86; 97; 108; 117; 101].
Definition p_return_type (fuel : nat) (s : pstate) : pres (list smember) :=
  plet _, s1 <- expect TkArrow s ;;
  let l := next_start s1 in
  if is_tok s1 TkLParen then
    plet ps, s2 <- p_members true fuel (advance s1) ;; plet _, s3 <- expect TkRParen s2 ;;
    POk_ ps (match ps with _ :: _ :: _ => s3 | _ => add_diag s3 PdSmallTuple (mksspan l (ps_last s3)) end)
  else
    plet tag, s2 <- (if is_kw s1 KwTag then plet t, a <- p_tag s1 ;; POk_ (Some t) a else POk_ None s1) ;;
    let '(stream, s3) := opt_kw KwStream s2 in
    plet t, s4 <- p_typeref fuel s3 ;;
    let sp := mksspan l (ps_last s4) in
    POk_ [mksmember [] [] tag (mksident returnValue sp) stream t sp] s4.
Definition starts_operation (s : pstate) : bool :=
  match peek s with Some (TkDoc _) | Some TkLBracket | Some (TkKw KwIdempotent) | Some (TkIdent _) => true | _ => false end.
Definition p_operation (fuel : nat) (s : pstate) : pres operation :=
  plet pre, s1 <- p_prelude fuel s ;;
  let l := next_start s1 in
  let '(idem, s2) := opt_kw KwIdempotent s1 in
  plet name, s3 <- p_identifier s2 ;;
  plet _, s4 <- expect TkLParen s3 ;;
  plet ps, s5 <- p_members true fuel s4 ;;
  plet _, s6 <- expect TkRParen s5 ;;
  plet rs, s7 <- (if is_tok s6 TkArrow then p_return_type fuel s6 else POk_ [] s6) ;;
  POk_ (mkoperation (fst pre) (snd pre) idem name ps rs (mksspan l (ps_last s7))) s7.
Fixpoint p_operations (fuel : nat) (s : pstate) : pres (list operation) :=
  match fuel with O => PErr_ PeFuel | S f =>
    if starts_operation s then plet o, s1 <- p_operation f s ;; plet r, s2 <- p_operations f s1 ;; POk_ (o :: r) s2 else POk_ [] s
  end.
Definition starts_enumerator (s : pstate) : bool :=
  match peek s with Some (TkDoc _) | Some TkLBracket | Some (TkIdent _) => true | _ => false end.
Definition p_enumerator (fuel : nat) (prev : option Z) (s : pstate) : pres enumerator :=
  plet pre, s1 <- p_prelude fuel s ;;
  let l := next_start s1 in
  plet name, s2 <- p_identifier s1 ;;
  plet fields, s3 <- (if is_tok s2 TkLParen then plet fs, a <- p_members false fuel (advance s2) ;; plet _, b <- expect TkRParen a ;; POk_ (Some fs) b else POk_ None s2) ;;
  plet value, s4 <- (if is_tok s3 TkEq then plet i, a <- p_signed_integer (advance s3) ;; POk_ (Some i) a else POk_ None s3) ;;
  let v := match value with Some i => fst i | None => next_enumerator_value prev end in
  POk_ (mkenumerator (fst pre) (snd pre) name fields v (option_map snd value) (mksspan l (ps_last s4))) s4.
Fixpoint p_enumerators (fuel : nat) (prev : option Z) (s : pstate) : pres (list enumerator) :=
  match fuel with O => PErr_ PeFuel | S f =>
    if starts_enumerator s then
      plet e, s1 <- p_enumerator f prev s ;; let '(_, s2) := opt_tok TkComma s1 in
      plet r, s3 <- p_enumerators f (Some (se_value e)) s2 ;; POk_ (e :: r) s3
    else POk_ [] s
  end.
(* NonEmptyCommaList<TypeRef> for interface bases *)
Fixpoint p_bases (fuel : nat) (s : pstate) : pres (list stref) :=
  match fuel with O => PErr_ PeFuel | S f =>
    plet t, s1 <- p_typeref f s ;;
    if is_tok s1 TkComma then
      let s2 := advance s1 in
      if is_tok s2 TkLBrace then POk_ [t] s2 else plet r, s3 <- p_bases f s2 ;; POk_ (t :: r) s3
    else POk_ [t] s1
  end.

(* ------------------------------------------------------------------------------------------------ definitions and file *)
(* a definition whose prelude has been read; l is where its declaration proper starts *)
Definition p_definition_after_prelude (fuel : nat) (pre : doclines * list attr) (s : pstate) : pres defn :=
  let l := next_start s in
  let '(doc, attrs) := pre in
  let '(compact, s1) := opt_kw KwCompact s in
  if is_kw s1 KwStruct then
    plet name, s2 <- p_identifier (advance s1) ;;
    let sp := mksspan l (ps_last s2) in
    plet _, s3 <- expect TkLBrace s2 ;; plet fs, s4 <- p_members false fuel s3 ;; plet _, s5 <- expect TkRBrace s4 ;;
    POk_ (DStruct doc attrs compact name fs sp) s5
  else
    let '(unchecked, s2) := opt_kw KwUnchecked s1 in
    if is_kw s2 KwEnum then
      plet name, s3 <- p_identifier (advance s2) ;;
      let sp := mksspan l (ps_last s3) in
      plet under, s4 <- (if is_tok s3 TkColon then plet t, a <- p_typeref fuel (advance s3) ;; POk_ (Some t) a else POk_ None s3) ;;
      plet _, s5 <- expect TkLBrace s4 ;; plet es, s6 <- p_enumerators fuel None s5 ;; plet _, s7 <- expect TkRBrace s6 ;;
      POk_ (DEnum doc attrs compact unchecked name under es sp) s7
    else if compact || unchecked then fail_here s2
    else if is_kw s2 KwInterface then
      plet name, s3 <- p_identifier (advance s2) ;;
      let sp := mksspan l (ps_last s3) in
      plet bases, s4 <- (if is_tok s3 TkColon then p_bases fuel (advance s3) else POk_ [] s3) ;;
      plet _, s5 <- expect TkLBrace s4 ;; plet os, s6 <- p_operations fuel s5 ;; plet _, s7 <- expect TkRBrace s6 ;;
      POk_ (DIface doc attrs name bases os sp) s7
    else if is_kw s2 KwCustom then
      plet name, s3 <- p_identifier (advance s2) ;; POk_ (DCustom doc attrs name (mksspan l (ps_last s3))) s3
    else if is_kw s2 KwTypeAlias then
      plet name, s3 <- p_identifier (advance s2) ;;
      let sp := mksspan l (ps_last s3) in
      plet _, s4 <- expect TkEq s3 ;; plet t, s5 <- p_typeref fuel s4 ;; POk_ (DAlias doc attrs name t sp) s5
    else fail_here s2.
Fixpoint p_definitions (fuel : nat) (s : pstate) : pres (list defn) :=
  match fuel with O => PErr_ PeFuel | S f =>
    match ps_toks s with
    | [] => match ps_lexerr s with Some e => PErr_ (PeLex e) | None => POk_ [] s end
    | _ => plet pre, s1 <- p_prelude f s ;; plet d, s2 <- p_definition_after_prelude f pre s1 ;; plet r, s3 <- p_definitions f s2 ;; POk_ (d :: r) s3
    end
  end.
Definition p_file (fuel : nat) (s : pstate) : pres file :=
  plet fattrs, s1 <- p_file_attributes fuel s ;;
  match ps_toks s1 with
  | [] => match ps_lexerr s1 with Some e => PErr_ (PeLex e) | None => POk_ (mkfile fattrs None []) s1 end
  | _ =>
    plet pre, s2 <- p_prelude fuel s1 ;;
    if is_kw s2 KwModule then
      let l := next_start s2 in
      plet name, s3 <- p_relative_identifier fuel (advance s2) ;;
      let sp := mksspan l (ps_last s3) in
      let s4 := match fst pre with [] => s3 | _ => add_diag s3 PdDocOnModule sp end in
      plet ds, s5 <- p_definitions fuel s4 ;;
      POk_ (mkfile fattrs (Some (mkmodul (fst pre) (snd pre) name sp)) ds) s5
    else
      (* parsers/mod.rs: definitions without a module declaration are a syntax error (reported without a location) *)
      plet d, s3 <- p_definition_after_prelude fuel pre s2 ;; plet ds, s4 <- p_definitions fuel s3 ;;
      POk_ (mkfile fattrs None (d :: ds)) (add_diag s4 PdModuleRequired (mksspan (mkloc 0 0) (mkloc 0 0)))
  end.

Definition parse_blocks (bs : list (loc * list N)) : pres file :=
  let '(ts, er) := lex_blocks bs false in
  p_file (S (S (length ts))) (mkps ts er (mkloc 1 1) []).
(* a file without preprocessor directives is one block starting at 1:1 *)
Definition parse_text (s : list N) : pres file := parse_blocks [(mkloc 1 1, s)].
