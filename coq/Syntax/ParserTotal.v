(* The model parser is total (C01, C02): with the fuel that parse_blocks gives it -- number of tokens + 2 -- no production ever
   reports the model's out-of-fuel artefact, on any token sequence, well-formed or not; every production returns with no more
   tokens than it was given, and the productions that loops iterate over consume at least one token when they succeed (which is
   why the loops end).  Each production P has a slack c_P: it never runs out of fuel when  tokens + c_P <= fuel. *)
From Coq Require Import List Bool NArith ZArith Arith Lia.
From SliceV Require Import Cli.PluginSpec Doc.Comment Syntax.Tokens Syntax.Lexer Syntax.Parser.
Import ListNotations.
Local Open Scope nat_scope.

Definition n (s : pstate) : nat := length (ps_toks s).
(* a result is fine when it is not the fuel artefact and, on success, at least k tokens were consumed *)
Definition ok_res {A} (k : nat) (s : pstate) (r : pres A) : Prop :=
  match r with POk_ _ s' => n s' + k <= n s | PErr_ e => e <> PeFuel end.

Lemma fail_ok {A} k s0 s : ok_res k s0 (@fail_here A s).
Proof. unfold fail_here. destruct (ps_toks s); [destruct (ps_lexerr s)|]; cbn; discriminate. Qed.
Lemma is_tok_adv s t : is_tok s t = true -> n (advance s) + 1 = n s.
Proof. unfold is_tok, peek, advance, n. destruct (ps_toks s) as [|[[l x] e] r]; [discriminate|]. intros _. cbn. lia. Qed.
Lemma is_kw_adv s k : is_kw s k = true -> n (advance s) + 1 = n s.
Proof. unfold is_kw, peek, advance, n. destruct (ps_toks s) as [|[[l x] e] r]; [discriminate|]. intros _. cbn. lia. Qed.
Lemma adv_le s : n (advance s) <= n s.
Proof. unfold advance, n. destruct (ps_toks s) as [|[[l x] e] r] eqn:E; cbn; [rewrite E; cbn; lia|lia]. Qed.
Lemma add_diag_n s d sp : n (add_diag s d sp) = n s.
Proof. reflexivity. Qed.
Lemma opt_tok_n t s : n (snd (opt_tok t s)) <= n s.
Proof. unfold opt_tok. destruct (is_tok s t); cbn [snd]; [apply adv_le|lia]. Qed.
Lemma opt_kw_n k s : n (snd (opt_kw k s)) <= n s.
Proof. unfold opt_kw. destruct (is_kw s k); cbn [snd]; [apply adv_le|lia]. Qed.
Lemma expect_ok t s : ok_res 1 s (expect t s).
Proof. unfold expect. destruct (is_tok s t) eqn:E; [cbn; pose proof (is_tok_adv _ _ E); lia|apply fail_ok]. Qed.
Lemma expect_kw_ok k s : ok_res 1 s (expect_kw k s).
Proof. unfold expect_kw. destruct (is_kw s k) eqn:E; [cbn; pose proof (is_kw_adv _ _ E); lia|apply fail_ok]. Qed.
Lemma ok_weaken {A} k k' s s0 (r : pres A) : ok_res k s r -> k' + n s <= k + n s0 -> ok_res k' s0 r.
Proof. destruct r; cbn; [lia|tauto]. Qed.

(* run the next production of a bind chain: on failure the chain's result is that failure, on success remember what it consumed *)
Ltac bind L := match goal with |- ok_res _ _ (pbind ?P _) =>
  let X := fresh "X" in pose proof L as X; destruct P as [?a ?s|?e]; cbn [pbind]; [cbn [ok_res] in X|exact X] end.
Ltac heads s := let E := fresh "E" in destruct (ps_toks s) as [|[[?l ?t] ?e] ?r] eqn:E.
Ltac finish := cbn [ok_res]; rewrite ?add_diag_n; lia.

Lemma p_identifier_ok s : ok_res 1 s (p_identifier s).
Proof.
  unfold p_identifier. pose proof (@fail_ok sident 1 s s) as F.
  destruct (ps_toks s) as [|[[l t] e] r] eqn:E; [exact F|]. destruct t; try exact F.
  assert (A : n (advance s) + 1 = n s) by (unfold advance, n; rewrite E; cbn; lia). finish.
Qed.
Lemma p_scoped_tail_ok fuel : forall acc s, n s + 1 <= fuel -> ok_res 0 s (p_scoped_tail fuel acc s).
Proof.
  induction fuel as [|f IH]; intros acc s H; [lia|]. cbn [p_scoped_tail].
  destruct (is_tok s TkDColon) eqn:E; [|finish]. pose proof (is_tok_adv _ _ E) as A1. cbv zeta.
  pose proof (@fail_ok (list N) 0 s (advance s)) as F. pose proof (adv_le (advance s)) as A2.
  destruct (ps_toks (advance s)) as [|[[l t] e] r] eqn:E2; [exact F|]. destruct t; try exact F.
  eapply ok_weaken; [apply IH; lia|lia].
Qed.
Lemma p_relative_identifier_ok fuel s : n s <= fuel -> ok_res 1 s (p_relative_identifier fuel s).
Proof.
  intros H. unfold p_relative_identifier. pose proof (@fail_ok sident 1 s s) as F.
  destruct (ps_toks s) as [|[[l t] e] r] eqn:E; [exact F|]. destruct t; try exact F.
  assert (A : n (advance s) + 1 = n s) by (unfold advance, n; rewrite E; cbn; lia).
  bind (p_scoped_tail_ok fuel s0 (advance s) ltac:(lia)). finish.
Qed.
Lemma p_global_identifier_ok fuel s : n s <= fuel -> ok_res 1 s (p_global_identifier fuel s).
Proof.
  intros H. unfold p_global_identifier. destruct (is_tok s TkDColon) eqn:E; [|apply fail_ok]. pose proof (is_tok_adv _ _ E) as A1. cbv zeta.
  pose proof (@fail_ok sident 1 s (advance s)) as F. pose proof (adv_le (advance s)) as A2.
  destruct (ps_toks (advance s)) as [|[[l t] e] r] eqn:E2; [exact F|]. destruct t; try exact F.
  bind (p_scoped_tail_ok fuel (sep ++ s0) (advance (advance s)) ltac:(lia)). finish.
Qed.
Lemma p_integer_ok s : ok_res 1 s (p_integer s).
Proof.
  unfold p_integer. pose proof (@fail_ok (Z * sspan) 1 s s) as F.
  destruct (ps_toks s) as [|[[l t] e] r] eqn:E; [exact F|]. destruct t; try exact F. cbv zeta.
  assert (A : n (advance s) + 1 = n s) by (unfold advance, n; rewrite E; cbn; lia).
  destruct (parse_int s0) as [[z| |] b]; finish.
Qed.
Lemma p_signed_integer_ok s : ok_res 1 s (p_signed_integer s).
Proof.
  unfold p_signed_integer. destruct (is_tok s TkMinus) eqn:E; [|apply p_integer_ok]. pose proof (is_tok_adv _ _ E) as A1. cbv zeta.
  bind (p_integer_ok (advance s)). finish.
Qed.
Lemma p_tag_ok s : ok_res 1 s (p_tag s).
Proof.
  unfold p_tag. bind (expect_kw_ok KwTag s). bind (expect_ok TkLParen s0). bind (p_signed_integer_ok s1). bind (expect_ok TkRParen s2). cbv zeta.
  destruct ((fst a1 <? 0) || (fst a1 >? 2147483647))%Z; finish.
Qed.

Lemma p_attr_args_ok fuel : forall s, n s + 1 <= fuel -> ok_res 0 s (p_attr_args fuel s).
Proof.
  induction fuel as [|f IH]; intros s H; [lia|]. cbn [p_attr_args].
  destruct (ps_toks s) as [|[[l t] e] r] eqn:E; [finish|].
  assert (A : n (advance s) + 1 = n s) by (unfold advance, n; rewrite E; cbn; lia).
  assert (G : forall a, ok_res 0 s (let s1 := advance s in
                if is_tok s1 TkComma then let s2 := advance s1 in
                  if is_tok s2 TkRParen then POk_ [a] s2 else plet r0, s3 <- p_attr_args f s2 ;; (match r0 with [] => fail_here s2 | _ => POk_ (a :: r0) s3 end)
                else POk_ [a] s1)).
  { intros a. cbv zeta. destruct (is_tok (advance s) TkComma) eqn:Ec; [|finish]. pose proof (is_tok_adv _ _ Ec) as A2.
    destruct (is_tok (advance (advance s)) TkRParen); [finish|].
    bind (IH (advance (advance s)) ltac:(lia)). destruct a0; [apply fail_ok|finish]. }
  destruct t; try finish; apply G.
Qed.
Lemma p_attribute_ok fuel s : n s <= fuel -> ok_res 1 s (p_attribute fuel s).
Proof.
  intros H. unfold p_attribute. cbv zeta. bind (p_relative_identifier_ok fuel s H).
  destruct (is_tok s0 TkLParen) eqn:E; [|finish]. pose proof (is_tok_adv _ _ E) as A.
  bind (p_attr_args_ok fuel (advance s0) ltac:(lia)). bind (expect_ok TkRParen s1). finish.
Qed.
Lemma p_local_attribute_ok fuel s : n s <= fuel -> ok_res 1 s (p_local_attribute fuel s).
Proof.
  intros H. unfold p_local_attribute. bind (expect_ok TkLBracket s). bind (p_attribute_ok fuel s0 ltac:(lia)). bind (expect_ok TkRBracket s1). finish.
Qed.
Lemma p_local_attributes_ok fuel : forall s, n s + 1 <= fuel -> ok_res 0 s (p_local_attributes fuel s).
Proof.
  induction fuel as [|f IH]; intros s H; [lia|]. cbn [p_local_attributes].
  destruct (is_tok s TkLBracket); [|finish]. bind (p_local_attribute_ok f s ltac:(lia)). bind (IH s0 ltac:(lia)). finish.
Qed.
Lemma p_file_attributes_ok fuel : forall s, n s + 1 <= fuel -> ok_res 0 s (p_file_attributes fuel s).
Proof.
  induction fuel as [|f IH]; intros s H; [lia|]. cbn [p_file_attributes].
  destruct (is_tok s TkDLBracket) eqn:E; [|finish]. pose proof (is_tok_adv _ _ E) as A.
  bind (p_attribute_ok f (advance s) ltac:(lia)). bind (expect_ok TkDRBracket s0). bind (IH s1 ltac:(lia)). finish.
Qed.
Lemma p_prelude_ok fuel : forall s, n s + 1 <= fuel -> ok_res 0 s (p_prelude fuel s).
Proof.
  induction fuel as [|f IH]; intros s H; [lia|]. cbn [p_prelude].
  destruct (ps_toks s) as [|[[l t] e] r] eqn:E; [finish|].
  assert (A : n (advance s) + 1 = n s) by (unfold advance, n; rewrite E; cbn; lia).
  destruct t; try finish.
  - bind (IH (advance s) ltac:(lia)). finish.
  - bind (p_local_attribute_ok f s ltac:(lia)). bind (IH s0 ltac:(lia)). finish.
Qed.
Lemma p_typeref_ok fuel : forall s, n s + 2 <= fuel -> ok_res 1 s (p_typeref fuel s).
Proof.
  induction fuel as [|f IH]; intros s H; [lia|]. cbn [p_typeref]. cbv zeta.
  bind (p_local_attributes_ok f s ltac:(lia)).
  assert (G : ok_res 1 s0
    (match ps_toks s0 with
       | (_, TkKw (KwPrim p), _) :: _ => POk_ (DPrim p) (advance s0)
       | (_, TkKw KwSequence, _) :: _ =>
         plet _, a <- expect TkLt (advance s0) ;; plet e, b <- p_typeref f a ;; plet _, c <- expect TkGt b ;; POk_ (DSeq e) c
       | (_, TkKw KwDictionary, _) :: _ =>
         plet _, a <- expect TkLt (advance s0) ;; plet k, b <- p_typeref f a ;; plet _, c <- expect TkComma b ;; plet v, d <- p_typeref f c ;;
         plet _, e <- expect TkGt d ;; POk_ (DDict k v) e
       | (_, TkKw KwResult, _) :: _ =>
         plet _, a <- expect TkLt (advance s0) ;; plet k, b <- p_typeref f a ;; plet _, c <- expect TkComma b ;; plet v, d <- p_typeref f c ;;
         plet _, e <- expect TkGt d ;; POk_ (DRes k v) e
       | (_, TkIdent _, _) :: _ => plet i, a <- p_relative_identifier f s0 ;; POk_ (DNamed i) a
       | (_, TkDColon, _) :: _ => plet i, a <- p_global_identifier f s0 ;; POk_ (DNamed i) a
       | _ => fail_here s0
       end)).
  { pose proof (@fail_ok stdef 1 s0 s0) as F.
    destruct (ps_toks s0) as [|[[l t] e] r] eqn:E; [exact F|].
    assert (A : n (advance s0) + 1 = n s0) by (unfold advance, n; rewrite E; cbn; lia).
    assert (Two : forall mk : stref -> stref -> stdef, ok_res 1 s0
              (plet _, a <- expect TkLt (advance s0) ;; plet k, b <- p_typeref f a ;; plet _, c <- expect TkComma b ;; plet v, d <- p_typeref f c ;; plet _, e <- expect TkGt d ;; POk_ (mk k v) e)).
    { intros mk. bind (expect_ok TkLt (advance s0)). bind (IH s1 ltac:(lia)). bind (expect_ok TkComma s2). bind (IH s3 ltac:(lia)). bind (expect_ok TkGt s4). finish. }
    destruct t; try exact F.
    - bind (p_relative_identifier_ok f s0 ltac:(lia)). finish.
    - destruct k; try exact F.
      + apply Two.
      + bind (expect_ok TkLt (advance s0)). bind (IH s1 ltac:(lia)). bind (expect_ok TkGt s2). finish.
      + apply Two.
      + finish.
    - bind (p_global_identifier_ok f s0 ltac:(lia)). finish. }
  bind G. pose proof (opt_tok_n TkQuestion s1) as Q. destruct (opt_tok TkQuestion s1) as [o s3]. cbn [snd] in Q. finish.
Qed.

Lemma opt_tag_ok s : ok_res 0 s (if is_kw s KwTag then plet t, a <- p_tag s ;; POk_ (Some t) a else POk_ None s).
Proof. destruct (is_kw s KwTag); [|finish]. bind (p_tag_ok s). finish. Qed.
Lemma p_member_ok ip fuel s : n s + 1 <= fuel -> ok_res 1 s (p_member ip fuel s).
Proof.
  intros H. unfold p_member. bind (p_prelude_ok fuel s H). cbv zeta. bind (opt_tag_ok s0). bind (p_identifier_ok s1). bind (expect_ok TkColon s2).
  assert (St : n (snd (if ip then opt_kw KwStream s3 else (false, s3))) <= n s3) by (destruct ip; [apply opt_kw_n|cbn; lia]).
  destruct (if ip then opt_kw KwStream s3 else (false, s3)) as [stream s5]. cbn [snd] in St.
  bind (p_typeref_ok fuel s5 ltac:(lia)). destruct ip; [destruct (fst a)|]; finish.
Qed.
Lemma p_members_ok ip fuel : forall s, n s + 2 <= fuel -> ok_res 0 s (p_members ip fuel s).
Proof.
  induction fuel as [|f IH]; intros s H; [lia|]. cbn [p_members].
  destruct (starts_member s); [|finish]. bind (p_member_ok ip f s ltac:(lia)).
  pose proof (opt_tok_n TkComma s0) as Q. destruct (opt_tok TkComma s0) as [c s2]. cbn [snd] in Q.
  bind (IH s2 ltac:(lia)). finish.
Qed.
Lemma p_return_type_ok fuel s : n s + 1 <= fuel -> ok_res 1 s (p_return_type fuel s).
Proof.
  intros H. unfold p_return_type. bind (expect_ok TkArrow s). cbv zeta.
  destruct (is_tok s0 TkLParen) eqn:E.
  - pose proof (is_tok_adv _ _ E) as A. bind (p_members_ok true fuel (advance s0) ltac:(lia)). bind (expect_ok TkRParen s1).
    destruct a0 as [|p1 [|p2 ps]]; finish.
  - bind (opt_tag_ok s0). pose proof (opt_kw_n KwStream s1) as Q. destruct (opt_kw KwStream s1) as [stream s3]. cbn [snd] in Q.
    bind (p_typeref_ok fuel s3 ltac:(lia)). finish.
Qed.
Lemma p_operation_ok fuel s : n s + 1 <= fuel -> ok_res 1 s (p_operation fuel s).
Proof.
  intros H. unfold p_operation. bind (p_prelude_ok fuel s H). cbv zeta.
  pose proof (opt_kw_n KwIdempotent s0) as Q. destruct (opt_kw KwIdempotent s0) as [idem s2]. cbn [snd] in Q.
  bind (p_identifier_ok s2). bind (expect_ok TkLParen s1). bind (p_members_ok true fuel s3 ltac:(lia)). bind (expect_ok TkRParen s4).
  assert (R : ok_res 0 s5 (if is_tok s5 TkArrow then p_return_type fuel s5 else POk_ [] s5)).
  { destruct (is_tok s5 TkArrow); [|finish]. eapply ok_weaken; [apply p_return_type_ok; lia|lia]. }
  bind R. finish.
Qed.
Lemma p_operations_ok fuel : forall s, n s + 2 <= fuel -> ok_res 0 s (p_operations fuel s).
Proof.
  induction fuel as [|f IH]; intros s H; [lia|]. cbn [p_operations].
  destruct (starts_operation s); [|finish]. bind (p_operation_ok f s ltac:(lia)). bind (IH s0 ltac:(lia)). finish.
Qed.
Lemma p_enumerator_ok fuel prev s : n s + 1 <= fuel -> ok_res 1 s (p_enumerator fuel prev s).
Proof.
  intros H. unfold p_enumerator. bind (p_prelude_ok fuel s H). cbv zeta. bind (p_identifier_ok s0).
  assert (F : ok_res 0 s1 (if is_tok s1 TkLParen then plet fs, a <- p_members false fuel (advance s1) ;; plet _, b <- expect TkRParen a ;; POk_ (Some fs) b else POk_ None s1)).
  { destruct (is_tok s1 TkLParen) eqn:E; [|finish]. pose proof (is_tok_adv _ _ E) as A. bind (p_members_ok false fuel (advance s1) ltac:(lia)). bind (expect_ok TkRParen s2). finish. }
  bind F.
  assert (V : ok_res 0 s2 (if is_tok s2 TkEq then plet i, a <- p_signed_integer (advance s2) ;; POk_ (Some i) a else POk_ None s2)).
  { destruct (is_tok s2 TkEq) eqn:E; [|finish]. pose proof (is_tok_adv _ _ E) as A. bind (p_signed_integer_ok (advance s2)). finish. }
  bind V. finish.
Qed.
Lemma p_enumerators_ok fuel : forall prev s, n s + 2 <= fuel -> ok_res 0 s (p_enumerators fuel prev s).
Proof.
  induction fuel as [|f IH]; intros prev s H; [lia|]. cbn [p_enumerators].
  destruct (starts_enumerator s); [|finish]. bind (p_enumerator_ok f prev s ltac:(lia)).
  pose proof (opt_tok_n TkComma s0) as Q. destruct (opt_tok TkComma s0) as [c s2]. cbn [snd] in Q.
  bind (IH (Some (se_value a)) s2 ltac:(lia)). finish.
Qed.
Lemma p_bases_ok fuel : forall s, n s + 3 <= fuel -> ok_res 1 s (p_bases fuel s).
Proof.
  induction fuel as [|f IH]; intros s H; [lia|]. cbn [p_bases].
  bind (p_typeref_ok f s ltac:(lia)). destruct (is_tok s0 TkComma) eqn:E; [|finish]. pose proof (is_tok_adv _ _ E) as A. cbv zeta.
  destruct (is_tok (advance s0) TkLBrace); [finish|]. bind (IH (advance s0) ltac:(lia)). finish.
Qed.

Lemma p_definition_after_prelude_ok fuel pre s : n s <= fuel -> ok_res 1 s (p_definition_after_prelude fuel pre s).
Proof.
  intros H. unfold p_definition_after_prelude. cbv zeta. destruct pre as [doc attrs].
  pose proof (opt_kw_n KwCompact s) as Q1. destruct (opt_kw KwCompact s) as [compact s1]. cbn [snd] in Q1.
  destruct (is_kw s1 KwStruct) eqn:Es.
  { pose proof (is_kw_adv _ _ Es) as A. bind (p_identifier_ok (advance s1)). bind (expect_ok TkLBrace s0). bind (p_members_ok false fuel s2 ltac:(lia)). bind (expect_ok TkRBrace s3). finish. }
  pose proof (opt_kw_n KwUnchecked s1) as Q2. destruct (opt_kw KwUnchecked s1) as [unchecked s2]. cbn [snd] in Q2.
  destruct (is_kw s2 KwEnum) eqn:Ee.
  { pose proof (is_kw_adv _ _ Ee) as A. bind (p_identifier_ok (advance s2)).
    assert (U : ok_res 0 s0 (if is_tok s0 TkColon then plet t, a <- p_typeref fuel (advance s0) ;; POk_ (Some t) a else POk_ None s0)).
    { destruct (is_tok s0 TkColon) eqn:E; [|finish]. pose proof (is_tok_adv _ _ E) as A2. bind (p_typeref_ok fuel (advance s0) ltac:(lia)). finish. }
    bind U. bind (expect_ok TkLBrace s3). bind (p_enumerators_ok fuel None s4 ltac:(lia)). bind (expect_ok TkRBrace s5). finish. }
  destruct (compact || unchecked); [apply fail_ok|].
  destruct (is_kw s2 KwInterface) eqn:Ei.
  { pose proof (is_kw_adv _ _ Ei) as A. bind (p_identifier_ok (advance s2)).
    assert (B : ok_res 0 s0 (if is_tok s0 TkColon then p_bases fuel (advance s0) else POk_ [] s0)).
    { destruct (is_tok s0 TkColon) eqn:E; [|finish]. pose proof (is_tok_adv _ _ E) as A2. eapply ok_weaken; [apply p_bases_ok; lia|lia]. }
    bind B. bind (expect_ok TkLBrace s3). bind (p_operations_ok fuel s4 ltac:(lia)). bind (expect_ok TkRBrace s5). finish. }
  destruct (is_kw s2 KwCustom) eqn:Ec.
  { pose proof (is_kw_adv _ _ Ec) as A. bind (p_identifier_ok (advance s2)). finish. }
  destruct (is_kw s2 KwTypeAlias) eqn:Ea; [|apply fail_ok].
  pose proof (is_kw_adv _ _ Ea) as A. bind (p_identifier_ok (advance s2)). bind (expect_ok TkEq s0). bind (p_typeref_ok fuel s3 ltac:(lia)). finish.
Qed.
Lemma eof_ok {A} (v : A) s : ok_res 0 s (match ps_lexerr s with Some e => PErr_ (PeLex e) | None => POk_ v s end).
Proof. destruct (ps_lexerr s); cbn; [discriminate|lia]. Qed.
Lemma p_definitions_ok fuel : forall s, n s + 2 <= fuel -> ok_res 0 s (p_definitions fuel s).
Proof.
  induction fuel as [|f IH]; intros s H; [lia|]. cbn [p_definitions].
  assert (G : ok_res 0 s (plet pre, s1 <- p_prelude f s ;; plet d, s2 <- p_definition_after_prelude f pre s1 ;; plet r, s3 <- p_definitions f s2 ;; POk_ (d :: r) s3)).
  { bind (p_prelude_ok f s ltac:(lia)). bind (p_definition_after_prelude_ok f a s0 ltac:(lia)). bind (IH s1 ltac:(lia)). finish. }
  pose proof (eof_ok (@nil defn) s) as Z. destruct (ps_toks s); [exact Z|exact G].
Qed.
(* the whole parser never runs out of fuel when given one more than the number of tokens; parse_blocks gives it two more *)
Theorem p_file_ok fuel s : n s + 1 <= fuel -> ok_res 0 s (p_file fuel s).
Proof.
  intros H. unfold p_file. bind (p_file_attributes_ok fuel s H).
  assert (G : ok_res 0 s0
     (plet pre, s2 <- p_prelude fuel s0 ;;
      if is_kw s2 KwModule then
        let l := next_start s2 in
        plet name, s3 <- p_relative_identifier fuel (advance s2) ;;
        let sp := mksspan l (ps_last s3) in
        let s4 := match fst pre with [] => s3 | _ => add_diag s3 PdDocOnModule sp end in
        plet ds, s5 <- p_definitions fuel s4 ;;
        POk_ (mkfile a (Some (mkmodul (fst pre) (snd pre) name sp)) ds) s5
      else
        plet d, s3 <- p_definition_after_prelude fuel pre s2 ;; plet ds, s4 <- p_definitions fuel s3 ;;
        POk_ (mkfile a None (d :: ds)) (add_diag s4 PdModuleRequired (mksspan (mkloc 0 0) (mkloc 0 0))))).
  { bind (p_prelude_ok fuel s0 ltac:(lia)). destruct (is_kw s1 KwModule) eqn:E.
    - pose proof (is_kw_adv _ _ E) as A. cbv zeta. bind (p_relative_identifier_ok fuel (advance s1) ltac:(lia)).
      assert (D : ok_res 0 s2 (p_definitions fuel (match fst a0 with [] => s2 | _ => add_diag s2 PdDocOnModule (mksspan (next_start s1) (ps_last s2)) end))).
      { destruct (fst a0); (eapply ok_weaken; [apply p_definitions_ok; rewrite ?add_diag_n; lia|rewrite ?add_diag_n; lia]). }
      bind D. finish.
    - bind (p_definition_after_prelude_ok fuel a0 s1 ltac:(lia)). bind (p_definitions_ok fuel s2 ltac:(lia)). finish. }
  pose proof (eof_ok (mkfile a None []) s0) as Z. destruct (ps_toks s0); [eapply ok_weaken; [exact Z|lia]|eapply ok_weaken; [exact G|lia]].
Qed.
Corollary parse_blocks_total bs : parse_blocks bs <> PErr_ PeFuel.
Proof.
  unfold parse_blocks. destruct (lex_blocks bs false) as [ts er].
  pose proof (p_file_ok (S (S (length ts))) (mkps ts er (mkloc 1 1) []) ltac:(cbn; lia)) as H.
  destruct (p_file (S (S (length ts))) (mkps ts er (mkloc 1 1) [])) as [f s|e]; [discriminate|]. intros X. injection X as ->. exact (H eq_refl).
Qed.
Corollary parse_text_total text : parse_text text <> PErr_ PeFuel.
Proof. apply parse_blocks_total. Qed.
