(* The compiled file set does not depend on the order in which paths are listed (C15, C17): permuting the source paths and the
   reference paths changes neither which files (by identity) are compiled nor which of them are sources, nor whether anything
   is parsed at all; only the order of files and of reports changes. *)
From Coq Require Import List Bool NArith Arith Lia Permutation.
From SliceV Require Import Doc.Comment Driver.Files Driver.FilesProofs.
Import ListNotations.
Local Open Scope nat_scope.

(* what one listed path contributes *)
Definition contrib (fuel : nat) (fs : fsys) (source : bool) (p : path) : list path :=
  match kind_of fs p with
  | KNone => []
  | KFile => if is_slice_file p then [p] else []
  | KDir => if source then [] else fst (walk fuel [] fs p)
  end.
Definition contrib_diags (fuel : nat) (fs : fsys) (source : bool) (p : path) : list fdiag :=
  match kind_of fs p with
  | KNone => [DNotFound p]
  | KFile => if is_slice_file p then [] else [DNotSlice p]
  | KDir => if source then [DDirAsSource p] else snd (walk fuel [] fs p)
  end.
Definition canonize (fs : fsys) (source : bool) (p : path) : list fpath :=
  match canon_of fs p with Some id => [{| fp_path := p; fp_id := id; fp_source := source |}] | None => [] end.
Definition canon_diags (fs : fsys) (p : path) : list fdiag := match canon_of fs p with Some _ => [] | None => [DCanon p] end.

Lemma first_pass_flat fuel fs source paths : forall acc,
  fold_left (first_pass fuel fs source) paths acc = (fst acc ++ flat_map (contrib fuel fs source) paths, snd acc ++ flat_map (contrib_diags fuel fs source) paths).
Proof.
  induction paths as [|p paths IH]; intros [a d]; cbn [fold_left flat_map fst snd]; [rewrite !app_nil_r; reflexivity|].
  rewrite IH. unfold first_pass, contrib, contrib_diags. destruct (kind_of fs p); cbn [fst snd].
  - rewrite app_nil_l, <- app_assoc. reflexivity.
  - destruct (is_slice_file p); cbn [fst snd]; rewrite ?app_nil_l, <- ?app_assoc; reflexivity.
  - destruct source; cbn [fst snd]; rewrite ?app_nil_l, <- ?app_assoc; reflexivity.
Qed.
Lemma canon_pass_flat fs source found : forall acc ds,
  fold_left (fun acc p => match canon_of fs p with
                          | Some id => (fst acc ++ [{| fp_path := p; fp_id := id; fp_source := source |}], snd acc)
                          | None => (fst acc, snd acc ++ [DCanon p]) end) found (acc, ds)
  = (acc ++ flat_map (canonize fs source) found, ds ++ flat_map (canon_diags fs) found).
Proof.
  induction found as [|p l IH]; intros acc ds; cbn [fold_left flat_map fst snd]; [rewrite !app_nil_r; reflexivity|].
  unfold canonize at 1, canon_diags at 1. destruct (canon_of fs p) as [id|]; rewrite IH; cbn [app]; rewrite <- ?app_assoc; reflexivity.
Qed.
(* find_slice_files as two flat maps: per path, then per found file *)
Theorem find_slice_files_flat fuel fs paths source :
  find_slice_files fuel fs paths source =
  (flat_map (canonize fs source) (flat_map (contrib fuel fs source) paths),
   flat_map (contrib_diags fuel fs source) paths ++ flat_map (canon_diags fs) (flat_map (contrib fuel fs source) paths)).
Proof.
  unfold find_slice_files. fold (first_pass fuel fs source). rewrite first_pass_flat. cbn [fst snd app]. rewrite canon_pass_flat. reflexivity.
Qed.
Lemma found_perm fuel fs source paths paths' : Permutation paths paths' ->
  Permutation (fst (find_slice_files fuel fs paths source)) (fst (find_slice_files fuel fs paths' source)) /\
  Permutation (snd (find_slice_files fuel fs paths source)) (snd (find_slice_files fuel fs paths' source)).
Proof.
  intros H. rewrite !find_slice_files_flat. cbn [fst snd]. split.
  - apply Permutation_flat_map, Permutation_flat_map, H.
  - apply Permutation_app; [apply Permutation_flat_map, H|apply Permutation_flat_map, Permutation_flat_map, H].
Qed.
(* every file found carries the identity its path has, and the role of the list it came from *)
Lemma found_canon fuel fs paths source x : In x (fst (find_slice_files fuel fs paths source)) -> canon_of fs (fp_path x) = Some (fp_id x) /\ fp_source x = source.
Proof.
  rewrite find_slice_files_flat. cbn [fst]. intros H. apply in_flat_map in H as (p & _ & Hx). unfold canonize in Hx.
  destruct (canon_of fs p) as [id|] eqn:E; [|contradiction]. destruct Hx as [<-|[]]. cbn. split; [exact E|reflexivity].
Qed.

(* the identities kept by the duplicate filter are exactly the identities present and not seen before *)
Lemma firsts_ids l : forall seen id, In id (map fp_id (firsts seen l)) <-> In id (map fp_id l) /\ ~ In id seen.
Proof.
  intros seen id. split.
  - intros H. apply in_map_iff in H as (x & <- & Hx). destruct (proj2 (firsts_nodup l seen) x Hx) as [Hn Hin]. split; [apply in_map; exact Hin|exact Hn].
  - intros [H Hn]. apply in_map_iff in H as (x & <- & Hx). destruct (firsts_complete l seen x Hx) as [X|X]; [contradiction|exact X].
Qed.

Section Order.
  Variables (fuel : nat) (fs : fsys).
  (* whether a file can be read does not depend on which of its spellings is used *)
  Hypothesis readable_by_identity : forall p q id, canon_of fs p = Some id -> canon_of fs q = Some id -> readable fs p = readable fs q.

  Definition compiled_ids (r : resolved) : list nat := map fp_id (rs_files r).
  Definition is_source_in (r : resolved) (id : nat) : Prop := exists x, In x (rs_files r) /\ fp_id x = id /\ fp_source x = true.

  (* which identities are compiled, in terms of what the two lists find *)
  Lemma compiled_iff sources references id :
    In id (compiled_ids (resolve_files fuel fs sources references)) <->
    exists x, (In x (fst (find_slice_files fuel fs sources true)) \/ In x (fst (find_slice_files fuel fs references false))) /\ fp_id x = id /\ readable fs (fp_path x) = true.
  Proof.
    unfold compiled_ids. rewrite resolve_files_spec. cbv zeta.
    set (S := fst (find_slice_files fuel fs sources true)). set (R := fst (find_slice_files fuel fs references false)).
    split.
    - intros H. apply in_map_iff in H as (x & <- & Hx). apply filter_In in Hx as [Hx Hr]. exists x. split; [|split; [reflexivity|exact Hr]].
      apply in_app_iff in Hx as [Hx|Hx].
      + left. exact (proj2 (proj2 (firsts_nodup S []) x Hx)).
      + right. pose proof (proj2 (proj2 (firsts_nodup (firsts [] R) _) x Hx)) as H1. exact (proj2 (proj2 (firsts_nodup R []) x H1)).
    - intros (x & Hx & <- & Hr).
      (* some spelling y of the same file is kept; it is readable because x is *)
      assert (Hid : In (fp_id x) (map fp_id (firsts [] S ++ firsts (map fp_id (firsts [] S)) (firsts [] R)))).
      { rewrite map_app, in_app_iff. destruct (in_dec Nat.eq_dec (fp_id x) (map fp_id (firsts [] S))) as [Y|N]; [left; exact Y|].
        destruct Hx as [Hx|Hx].
        - exfalso. apply N. apply firsts_ids. split; [apply in_map; exact Hx|intros []].
        - right. apply firsts_ids. split; [|exact N]. apply firsts_ids. split; [apply in_map; exact Hx|intros []]. }
      apply in_map_iff in Hid as (y & Ey & Hy). apply in_map_iff. exists y. split; [exact Ey|]. apply filter_In. split; [exact Hy|].
      assert (Cy : canon_of fs (fp_path y) = Some (fp_id y)).
      { apply in_app_iff in Hy as [Hy|Hy].
        - exact (proj1 (found_canon fuel fs sources true y (proj2 (proj2 (firsts_nodup S []) y Hy)))).
        - pose proof (proj2 (proj2 (firsts_nodup (firsts [] R) _) y Hy)) as H1. exact (proj1 (found_canon fuel fs references false y (proj2 (proj2 (firsts_nodup R []) y H1)))). }
      assert (Cx : canon_of fs (fp_path x) = Some (fp_id x)) by (destruct Hx as [Hx|Hx]; [exact (proj1 (found_canon _ _ _ _ _ Hx))|exact (proj1 (found_canon _ _ _ _ _ Hx))]).
      rewrite (readable_by_identity (fp_path y) (fp_path x) (fp_id x)); [exact Hr|rewrite Cy, Ey; reflexivity|exact Cx].
  Qed.
  (* a compiled file is a source exactly when some source path reaches it *)
  Lemma source_iff sources references id :
    is_source_in (resolve_files fuel fs sources references) id <->
    In id (compiled_ids (resolve_files fuel fs sources references)) /\ In id (map fp_id (fst (find_slice_files fuel fs sources true))).
  Proof.
    unfold is_source_in, compiled_ids. rewrite resolve_files_spec. cbv zeta.
    set (S := fst (find_slice_files fuel fs sources true)). set (R := fst (find_slice_files fuel fs references false)).
    split.
    - intros (x & Hx & <- & Hs). split; [apply in_map; exact Hx|]. apply filter_In in Hx as [Hx _]. apply in_app_iff in Hx as [Hx|Hx].
      + apply in_map. exact (proj2 (proj2 (firsts_nodup S []) x Hx)).
      + exfalso. pose proof (proj2 (proj2 (firsts_nodup (firsts [] R) _) x Hx)) as H1. pose proof (proj2 (found_canon fuel fs references false x (proj2 (proj2 (firsts_nodup R []) x H1)))) as F.
        rewrite F in Hs. discriminate.
    - intros [Hc Hs]. apply in_map_iff in Hc as (x & <- & Hx). exists x. split; [exact Hx|split; [reflexivity|]].
      apply filter_In in Hx as [Hx _]. apply in_app_iff in Hx as [Hx|Hx].
      + exact (proj2 (found_canon fuel fs sources true x (proj2 (proj2 (firsts_nodup S []) x Hx)))).
      + exfalso. destruct (proj2 (firsts_nodup (firsts [] R) (map fp_id (firsts [] S))) x Hx) as [Hn _]. apply Hn. apply firsts_ids. split; [exact Hs|intros []].
  Qed.

  Theorem file_set_order_independent sources sources' references references' : Permutation sources sources' -> Permutation references references' ->
    (forall id, In id (compiled_ids (resolve_files fuel fs sources references)) <-> In id (compiled_ids (resolve_files fuel fs sources' references'))) /\
    (forall id, is_source_in (resolve_files fuel fs sources references) id <-> is_source_in (resolve_files fuel fs sources' references') id) /\
    length (compiled_ids (resolve_files fuel fs sources references)) = length (compiled_ids (resolve_files fuel fs sources' references')).
  Proof.
    intros Ps Pr.
    destruct (found_perm fuel fs true _ _ Ps) as [PS _]. destruct (found_perm fuel fs false _ _ Pr) as [PR _].
    assert (A : forall id, In id (compiled_ids (resolve_files fuel fs sources references)) <-> In id (compiled_ids (resolve_files fuel fs sources' references'))).
    { intros id. rewrite !compiled_iff. split; intros (x & Hx & E & Hr); exists x; (split; [|split; assumption]); destruct Hx as [Hx|Hx].
      - left. eapply Permutation_in; [exact PS|exact Hx].
      - right. eapply Permutation_in; [exact PR|exact Hx].
      - left. eapply Permutation_in; [apply Permutation_sym; exact PS|exact Hx].
      - right. eapply Permutation_in; [apply Permutation_sym; exact PR|exact Hx]. }
    split; [exact A|split].
    - intros id. rewrite !source_iff. rewrite (A id). split; intros [H1 H2]; (split; [exact H1|]).
      + eapply Permutation_in; [apply Permutation_map; exact PS|exact H2].
      + eapply Permutation_in; [apply Permutation_map, Permutation_sym; exact PS|exact H2].
    - apply Permutation_length. apply NoDup_Permutation; [apply compiled_once|apply compiled_once|exact A].
  Qed.
  (* and whether anything is parsed at all: the same defects are reported, in another order *)
  Theorem parses_order_independent sources sources' references references' : Permutation sources sources' -> Permutation references references' ->
    (forall d, is_error_fdiag d = true ->
       (In d (snd (find_slice_files fuel fs sources true)) \/ In d (snd (find_slice_files fuel fs references false))) <->
       (In d (snd (find_slice_files fuel fs sources' true)) \/ In d (snd (find_slice_files fuel fs references' false)))).
  Proof.
    intros Ps Pr d _. destruct (found_perm fuel fs true _ _ Ps) as [_ DS]. destruct (found_perm fuel fs false _ _ Pr) as [_ DR].
    split; intros [H|H]; [left; eapply Permutation_in; [exact DS|exact H]|right; eapply Permutation_in; [exact DR|exact H]
                         |left; eapply Permutation_in; [apply Permutation_sym; exact DS|exact H]|right; eapply Permutation_in; [apply Permutation_sym; exact DR|exact H]].
  Qed.
End Order.
