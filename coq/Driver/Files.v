(* Executable model of utils/file_util.rs::resolve_files_from and of the early return of lib.rs::compile_from_options (C17).
   The file system is an oracle given as tables: what a path designates after following links, the identity of the file it
   reaches (its canonical path), what a directory lists, whether a file's content can be read as text.  Model only. *)
From Coq Require Import List Bool NArith Arith.
From SliceV Require Import Doc.Comment.
Import ListNotations.
Local Open Scope nat_scope.

Definition path := list N.
Inductive kind := KNone | KFile | KDir.
Record fsys := { fs_kind : list (path * kind); fs_canon : list (path * nat); fs_children : list (path * option (list path)); fs_unreadable : list path }.
Fixpoint assoc {A} (l : list (path * A)) (p : path) : option A :=
  match l with [] => None | (k, v) :: r => if cstr_eqb k p then Some v else assoc r p end.
Definition kind_of (fs : fsys) (p : path) : kind := match assoc (fs_kind fs) p with Some k => k | None => KNone end.
Definition canon_of (fs : fsys) (p : path) : option nat := assoc (fs_canon fs) p.
Definition children_of (fs : fsys) (p : path) : option (list path) := match assoc (fs_children fs) p with Some c => c | None => None end.
Definition readable (fs : fsys) (p : path) : bool := negb (existsb (cstr_eqb p) (fs_unreadable fs)).

(* Path::extension() == "slice": the text after the last dot of the last component, the part before that dot not empty *)
Definition slash := 47%N. Definition dot := 46%N.
Fixpoint last_component (p acc : path) : path :=
  match p with [] => rev acc | c :: r => if (c =? slash)%N then last_component r [] else last_component r (c :: acc) end.
(* reverse the name and take the characters up to the first dot *)
Definition extension_of (name : path) : option (path * path) :=
  let r := rev name in
  let '(e, rest) := span_while (fun c => negb (c =? dot)%N) r in
  match rest with
  | _ :: stem_rev => Some (rev stem_rev, rev e)
  | [] => None
  end.
Definition s_slice : path := [115; 108; 105; 99; 101]%N.
Definition is_slice_file (p : path) : bool :=
  match extension_of (last_component p []) with
  | Some (stem, ext) => negb (match stem with [] => true | _ => false end) && cstr_eqb ext s_slice
  | None => false
  end.

Inductive fdiag := DNotFound (p : path) | DNotSlice (p : path) | DDirAsSource (p : path) | DUnreadableDir (p : path) | DCanon (p : path)
                 | DUnreadable (p : path) | DDuplicate (p : path).
Definition is_error_fdiag (d : fdiag) : bool := match d with DDuplicate _ => false | _ => true end.

(* find_slice_files_in_path / _in_directory.  anc: the identities of the directories being searched (a directory that contains
   itself through links is not searched again from within itself); fuel bounds the depth of the walk and is never exhausted
   when it exceeds the number of directories (FilesProofs.walk_fuel_independent) *)
Fixpoint walk (fuel : nat) (anc : list nat) (fs : fsys) (p : path) : list path * list fdiag :=
  match fuel with O => ([], []) | S f =>
    match kind_of fs p with
    | KDir => match canon_of fs p with
              | None => ([], [DUnreadableDir p])
              | Some id =>
                if existsb (Nat.eqb id) anc then ([], [])
                else match children_of fs p with
                     | None => ([], [DUnreadableDir p])
                     | Some cs => fold_left (fun acc c => let r := walk f (id :: anc) fs c in (fst acc ++ fst r, snd acc ++ snd r)) cs ([], [])
                     end
              end
    | KFile => if is_slice_file p then ([p], []) else ([], [])
    | KNone => ([], [])
    end
  end.
Record fpath := { fp_path : path; fp_id : nat; fp_source : bool }.
Definition find_slice_files (fuel : nat) (fs : fsys) (paths : list path) (source : bool) : list fpath * list fdiag :=
  let step (acc : list path * list fdiag) (p : path) :=
    match kind_of fs p with
    | KNone => (fst acc, snd acc ++ [DNotFound p])
    | KFile => if is_slice_file p then (fst acc ++ [p], snd acc) else (fst acc, snd acc ++ [DNotSlice p])
    | KDir => if source then (fst acc, snd acc ++ [DDirAsSource p])
              else let r := walk fuel [] fs p in (fst acc ++ fst r, snd acc ++ snd r)
    end in
  let '(found, ds) := fold_left step paths ([], []) in
  fold_left (fun acc p => match canon_of fs p with
                          | Some id => (fst acc ++ [{| fp_path := p; fp_id := id; fp_source := source |}], snd acc)
                          | None => (fst acc, snd acc ++ [DCanon p])
                          end) found ([], ds).
Definition known (l : list fpath) (x : fpath) : bool := existsb (fun y => Nat.eqb (fp_id y) (fp_id x)) l.
(* remove_duplicate_file_paths: the first spelling is kept, every repeat is reported *)
Definition dedup (l : list fpath) : list fpath * list fdiag :=
  fold_left (fun acc x => if known (fst acc) x then (fst acc, snd acc ++ [DDuplicate (fp_path x)]) else (fst acc ++ [x], snd acc)) l ([], []).
Record resolved := { rs_files : list fpath; rs_diags : list fdiag }.
Definition resolve_files (fuel : nat) (fs : fsys) (sources references : list path) : resolved :=
  let '(src, d1) := find_slice_files fuel fs sources true in
  let '(src', d2) := dedup src in
  let '(refs, d3) := find_slice_files fuel fs references false in
  let '(refs', d4) := dedup refs in
  let all := fold_left (fun acc x => if known acc x then acc else acc ++ [x]) refs' src' in
  let '(files, d5) := fold_left (fun acc x => if readable fs (fp_path x) then (fst acc ++ [x], snd acc) else (fst acc, snd acc ++ [DUnreadable (fp_path x)])) all ([], []) in
  {| rs_files := files; rs_diags := d1 ++ d2 ++ d3 ++ d4 ++ d5 |}.
(* compile_from_options: nothing is parsed when an I/O error was reported *)
Definition parses (r : resolved) : bool := negb (existsb is_error_fdiag (rs_diags r)).
