(* Order independence of what is counted and decided from the diagnostics (C15): the numbers of warnings and errors, whether
   generators run and the exit status are the same for every order in which the diagnostics were reported. *)
From Coq Require Import List Bool NArith ZArith Arith Lia Permutation.
From SliceV Require Import Base.Bytes Codec.Wire Codec.Reply Sema.Lints Driver.Main.
Import ListNotations.
Local Open Scope nat_scope.

Lemma filter_perm {A} (f : A -> bool) l l' : Permutation l l' -> Permutation (filter f l) (filter f l').
Proof.
  induction 1 as [|x l l' _ IH|x y l|l l' l'' _ IH1 _ IH2]; cbn [filter].
  - constructor.
  - destruct (f x); [constructor|]; exact IH.
  - destruct (f x), (f y); try apply Permutation_refl; apply perm_swap.
  - eapply Permutation_trans; eassumption.
Qed.
Theorem totals_order_independent c ds ds' : Permutation ds ds' -> totals c ds = totals c ds'.
Proof. intros H. unfold totals. f_equal; apply Permutation_length, filter_perm, H. Qed.
Theorem levels_order_independent c ds ds' : Permutation ds ds' -> Permutation (map (level_of c) ds) (map (level_of c) ds').
Proof. apply Permutation_map. Qed.
Lemma existsb_perm {A} (f : A -> bool) l l' : Permutation l l' -> existsb f l = existsb f l'.
Proof.
  intros H. apply eq_true_iff_eq. rewrite !existsb_exists. split; intros (x & Hx & E); exists x; (split; [|exact E]).
  - eapply Permutation_in; [exact H|exact Hx].
  - eapply Permutation_in; [apply Permutation_sym; exact H|exact Hx].
Qed.
Definition with_diags (c : run_config) (ds : list diag) : run_config :=
  {| rc_diags := ds; rc_ctx := rc_ctx c; rc_dry_run := rc_dry_run c; rc_generators := rc_generators c; rc_fs := rc_fs c |}.
Theorem outcome_order_independent c ds' : Permutation (rc_diags c) ds' ->
  generation_runs (with_diags c ds') = generation_runs c /\ gen_results (with_diags c ds') = gen_results c /\ exit_status (with_diags c ds') = exit_status c.
Proof.
  intros H.
  assert (G : generation_runs (with_diags c ds') = generation_runs c).
  { unfold generation_runs, has_errors. cbn [rc_diags rc_dry_run with_diags]. rewrite (existsb_perm is_error _ _ H). reflexivity. }
  assert (R : gen_results (with_diags c ds') = gen_results c) by (unfold gen_results; rewrite G; reflexivity).
  split; [exact G|split; [exact R|]]. unfold exit_status, error_count. rewrite R. cbn [rc_ctx rc_diags with_diags].
  rewrite (totals_order_independent (rc_ctx c) _ _ (Permutation_sym H)). reflexivity.
Qed.
