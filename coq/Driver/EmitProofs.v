From Coq Require Import List Bool Arith NArith Lia.
From SliceV Require Import Prep.PrepCore Sema.Lints Driver.Emit.
Import ListNotations.

(* every diagnostic that is not suppressed is written exactly once, in the order it was recorded *)
Theorem emit_json_once_in_order ds : emit_json ds = map json_line (filter shown ds).
Proof. induction ds as [|d r IH]; [reflexivity|]. cbn [emit_json filter]. unfold shown at 1. destruct (e_level d); cbn [map]; congruence. Qed.
Theorem emit_human_once_in_order files ds : emit_human files ds = map (human_diag files) (filter shown ds).
Proof. induction ds as [|d r IH]; [reflexivity|]. cbn [emit_human filter]. unfold shown at 1. destruct (e_level d); cbn [map]; congruence. Qed.
(* suppressed lints leave no trace in either format *)
Theorem allowed_leave_no_trace files ds : emit_json (filter shown ds) = emit_json ds /\ emit_human files (filter shown ds) = emit_human files ds.
Proof.
  rewrite !emit_json_once_in_order, !emit_human_once_in_order.
  assert (E : filter shown (filter shown ds) = filter shown ds).
  { induction ds as [|d r IH]; [reflexivity|]. cbn [filter]. destruct (shown d) eqn:S; cbn [filter]; [rewrite S|]; congruence. }
  rewrite E. auto.
Qed.
(* the totals equal the numbers of warnings and errors written *)
Theorem totals_match ds :
  fst (get_totals ds) + snd (get_totals ds) = length (emit_json ds) /\
  snd (get_totals ds) = length (filter (fun d => match e_level d with LError => true | _ => false end) (filter shown ds)) /\
  fst (get_totals ds) = length (filter (fun d => match e_level d with LWarning => true | _ => false end) (filter shown ds)).
Proof.
  rewrite emit_json_once_in_order, map_length. unfold get_totals, count_level. cbn [fst snd].
  unfold shown. induction ds as [|d r (IH1 & IH2 & IH3)]; [cbn; auto|].
  cbn [filter]. destruct (e_level d) eqn:E; cbn [filter length]; rewrite ?E; cbn [length]; lia.
Qed.

(* ---------- JSON strings ---------- *)
Lemma unhex_hex n : (n < 16)%N -> unhex (hex_digit n) = Some n.
Proof.
  intros H. unfold hex_digit, unhex. destruct (N.ltb_spec n 10).
  - replace ((48 <=? 48 + n) && (48 + n <=? 57))%N with true by (symmetry; apply andb_true_iff; split; apply N.leb_le; lia). f_equal. lia.
  - replace ((48 <=? 87 + n) && (87 + n <=? 57))%N with false by (symmetry; apply andb_false_iff; right; apply N.leb_gt; lia).
    replace ((97 <=? 87 + n) && (87 + n <=? 102))%N with true by (symmetry; apply andb_true_iff; split; apply N.leb_le; lia). f_equal. lia.
Qed.
Lemma unescape_step c r f : unescape (S f) (escape_char c ++ r) = option_map (cons c) (unescape f r).
Proof.
  unfold escape_char.
  destruct (N.eqb_spec c 34) as [->|H34]; [reflexivity|].
  destruct (N.eqb_spec c 92) as [->|H92]; [reflexivity|].
  destruct (N.eqb_spec c 8) as [->|H8]; [reflexivity|].
  destruct (N.eqb_spec c 9) as [->|H9]; [reflexivity|].
  destruct (N.eqb_spec c 10) as [->|H10]; [reflexivity|].
  destruct (N.eqb_spec c 12) as [->|H12]; [reflexivity|].
  destruct (N.eqb_spec c 13) as [->|H13]; [reflexivity|].
  destruct (N.ltb_spec c 32) as [Hlt|Hge].
  - cbn [app unescape]. cbn [N.eqb Pos.eqb].
    assert (H1 : (c / 16 < 16)%N) by (apply N.div_lt_upper_bound; lia).
    assert (H2 : (c mod 16 < 16)%N) by (apply N.mod_lt; lia).
    rewrite (unhex_hex _ H1), (unhex_hex _ H2). cbn [andb N.eqb Pos.eqb].
    replace (c / 16 * 16 + c mod 16)%N with c by (pose proof (N.div_mod c 16); lia). reflexivity.
  - cbn [app unescape]. destruct (N.eqb_spec c 92); [contradiction|].
    destruct (N.eqb_spec c 34); [contradiction|]. destruct (N.ltb_spec c 32); [lia|]. reflexivity.
Qed.
(* what serde_json's escaping writes reads back as the same text *)
Theorem escape_roundtrip t : forall fuel, length t < fuel -> unescape fuel (flat_map escape_char t) = Some t.
Proof.
  induction t as [|c t IH]; intros fuel Hf; (destruct fuel as [|f]; [cbn in Hf; lia|]); [reflexivity|].
  cbn [flat_map]. rewrite unescape_step, IH by (cbn in Hf; lia). reflexivity.
Qed.

(* a JSON line contains exactly one newline: its last character *)
Definition no_nl (l : str) : Prop := ~ In 10%N l.
Lemma no_nl_app a b : no_nl a -> no_nl b -> no_nl (a ++ b).
Proof. unfold no_nl. intros Ha Hb H. apply in_app_or in H as [H|H]; auto. Qed.
Lemma hex_digit_not_nl n : hex_digit n <> 10%N.
Proof. unfold hex_digit. destruct (n <? 10)%N; lia. Qed.
Lemma escape_char_no_nl c : no_nl (escape_char c).
Proof.
  unfold escape_char, no_nl.
  destruct (N.eqb_spec c 34); [cbn; intros [H|[H|[]]]; discriminate|].
  destruct (N.eqb_spec c 92); [cbn; intros [H|[H|[]]]; discriminate|].
  destruct (N.eqb_spec c 8); [cbn; intros [H|[H|[]]]; discriminate|].
  destruct (N.eqb_spec c 9); [cbn; intros [H|[H|[]]]; discriminate|].
  destruct (N.eqb_spec c 10); [cbn; intros [H|[H|[]]]; discriminate|].
  destruct (N.eqb_spec c 12); [cbn; intros [H|[H|[]]]; discriminate|].
  destruct (N.eqb_spec c 13); [cbn; intros [H|[H|[]]]; discriminate|].
  destruct (N.ltb_spec c 32).
  - cbn. intros [E|[E|[E|[E|[E|[E|[]]]]]]]; try discriminate; exact (hex_digit_not_nl _ E).
  - cbn. intros [E|[]]. congruence.
Qed.
Lemma escape_no_nl t : no_nl (flat_map escape_char t).
Proof. induction t as [|c t IH]; [intros []|]. cbn [flat_map]. apply no_nl_app; [apply escape_char_no_nl|exact IH]. Qed.
Lemma json_string_no_nl t : no_nl (json_string t).
Proof. unfold json_string. apply (no_nl_app [q]); [unfold no_nl, q; cbn; intros [H|[]]; discriminate|]. apply no_nl_app; [apply escape_no_nl|unfold no_nl, q; cbn; intros [H|[]]; discriminate]. Qed.
Lemma dec_digits_no_nl : forall fuel n acc, no_nl acc -> no_nl (dec_digits fuel n acc).
Proof.
  induction fuel as [|f IH]; intros n acc Ha; cbn [dec_digits]; [exact Ha|].
  assert (Hd : no_nl ((48 + N.of_nat (n mod 10))%N :: acc)).
  { unfold no_nl. intros [H|H]; [|auto]. pose proof (Nat.mod_upper_bound n 10). lia. }
  destruct (Nat.ltb n 10); [exact Hd|apply IH; exact Hd].
Qed.
Lemma dec_no_nl n : no_nl (dec n).
Proof. apply dec_digits_no_nl. intros []. Qed.
Lemma lit_no_nl (l : str) : forallb (fun c => negb (c =? 10)%N) l = true -> no_nl l.
Proof. intros H Hin. rewrite forallb_forall in H. specialize (H _ Hin). discriminate. Qed.
Ltac nonl := repeat (apply no_nl_app); try apply json_string_no_nl; try apply dec_no_nl; try (apply lit_no_nl; reflexivity).
Lemma json_span_no_nl sp : no_nl (json_span sp).
Proof. destruct sp as [x|]; unfold json_span, json_loc, key; nonl. Qed.
Lemma join_no_nl l : Forall no_nl l -> no_nl (join [comma_c] l).
Proof.
  induction 1 as [|x l Hx Hl IH]; [intros []|]. cbn [join]. destruct l; [exact Hx|].
  apply no_nl_app; [exact Hx|]. apply no_nl_app; [apply lit_no_nl; reflexivity|exact IH].
Qed.
Theorem json_line_single_line d : exists body, json_line d = body ++ [10%N] /\ no_nl body.
Proof.
  unfold json_line. eexists. rewrite !app_assoc. split; [reflexivity|].
  unfold key. nonl; try apply json_span_no_nl.
  apply join_no_nl. apply Forall_forall. intros x Hx. apply in_map_iff in Hx as (n & <- & _).
  unfold json_note, key. nonl. apply json_span_no_nl.
Qed.

(* ---------- colours disabled: the emitter adds no escape sequence ---------- *)
(* ESC (27) occurs in what is written only if it occurs in what the diagnostics and the sources themselves contain *)
Definition noesc (l : str) : Prop := Forall (fun c => c <> 27%N) l.
Lemma noesc_app a b : noesc a -> noesc b -> noesc (a ++ b).
Proof. intros; apply Forall_app; auto. Qed.
Lemma noesc_lit (l : str) : forallb (fun c => negb (c =? 27)%N) l = true -> noesc l.
Proof.
  intros H. apply Forall_forall. intros c Hc E. rewrite forallb_forall in H. specialize (H c Hc). subst c. discriminate.
Qed.
Lemma noesc_repeat c n : c <> 27%N -> noesc (repeat c n).
Proof. intros H. induction n; cbn; constructor; auto. Qed.
Lemma noesc_spaces n : noesc (spaces n).
Proof. apply noesc_repeat. discriminate. Qed.
Lemma noesc_dec_digits : forall fuel n acc, noesc acc -> noesc (dec_digits fuel n acc).
Proof.
  induction fuel as [|f IH]; intros n acc H; cbn [dec_digits]; auto.
  assert (D : (48 + N.of_nat (n mod 10))%N <> 27%N) by (intro X; apply (f_equal (fun z => N.leb 48 z)) in X; rewrite (proj2 (N.leb_le _ _) (N.le_add_r 48 _)) in X; discriminate X).
  destruct (Nat.ltb n 10); [constructor; auto|apply IH; constructor; auto].
Qed.
Lemma noesc_dec n : noesc (dec n).
Proof. apply noesc_dec_digits. constructor. Qed.
Lemma noesc_flat_map {A} (g : A -> str) l : (forall x, In x l -> noesc (g x)) -> noesc (flat_map g l).
Proof. induction l as [|x l IH]; intros H; cbn; [constructor|]. apply noesc_app; [apply H; left; reflexivity|apply IH; intros; apply H; right; assumption]. Qed.
Lemma noesc_expand_tabs l : noesc l -> noesc (expand_tabs l).
Proof.
  intros H. apply noesc_flat_map. intros c Hc. destruct (c =? tab)%N; [apply noesc_lit; reflexivity|].
  constructor; [|constructor]. unfold noesc in H. rewrite Forall_forall in H. apply H, Hc.
Qed.
Lemma noesc_rev l : noesc l -> noesc (rev l).
Proof. intros H. apply Forall_forall. intros c Hc. unfold noesc in H. rewrite Forall_forall in H. apply H, in_rev, Hc. Qed.
Lemma noesc_tl_case (cur : str) : noesc cur -> noesc (match cur with x :: cur' => if (x =? 13)%N then cur' else cur | [] => cur end).
Proof. intros H. destruct cur as [|x cur']; auto. destruct (x =? 13)%N; auto. inversion H; auto. Qed.
Lemma noesc_lines_aux : forall t cur, noesc t -> noesc cur -> Forall noesc (lines_aux t cur).
Proof.
  induction t as [|c r IH]; intros cur Ht Hc; cbn [lines_aux].
  - destruct cur; constructor; [apply noesc_rev; assumption|constructor].
  - inversion Ht as [|? ? Hc0 Hr]; subst. destruct (c =? 10)%N.
    + constructor; [apply noesc_rev, noesc_tl_case, Hc|apply IH; [assumption|constructor]].
    + apply IH; [assumption|constructor; assumption].
Qed.
Lemma noesc_highlight line hs he : noesc (highlight line hs he).
Proof.
  unfold highlight. destruct (Nat.eqb hs he).
  - apply noesc_app; [apply noesc_spaces|apply noesc_lit; reflexivity].
  - apply noesc_app; [apply noesc_spaces|apply noesc_repeat; discriminate].
Qed.
Lemma noesc_snippet text x : noesc text -> noesc (snippet text x).
Proof.
  intros Ht. unfold snippet.
  repeat apply noesc_app; try apply noesc_spaces; try (apply noesc_lit; reflexivity).
  apply noesc_flat_map. intros i _. destruct (nth_error (text_lines text) i) as [line|] eqn:E; [|constructor].
  assert (Hl : noesc line).
  { apply nth_error_In in E. pose proof (noesc_lines_aux text [] Ht (Forall_nil _)) as F. rewrite Forall_forall in F. apply F, E. }
  repeat apply noesc_app;
    first [apply noesc_spaces | apply noesc_dec | apply noesc_highlight | apply noesc_expand_tabs, Hl
          | (unfold pad_right; apply noesc_app; [apply noesc_dec|apply noesc_spaces]) | (apply noesc_lit; reflexivity)].
Qed.
Definition files_noesc (files : list (str * str)) : Prop := forall f, In f files -> noesc (snd f).
Lemma noesc_emit_snippet files x : files_noesc files -> noesc (sp_file x) -> noesc (emit_snippet files x).
Proof.
  intros Hf Hx. unfold emit_snippet. repeat apply noesc_app; auto; try (apply noesc_lit; reflexivity); try apply noesc_dec.
  match goal with |- context [find ?p files] => destruct (find p files) as [f|] eqn:E end; [|constructor]. apply find_some in E as [Hin _].
  apply noesc_app; [apply noesc_snippet, Hf, Hin|apply noesc_lit; reflexivity].
Qed.
Definition span_noesc (o : option span) : Prop := match o with Some x => noesc (sp_file x) | None => True end.
Definition ediag_noesc (d : ediag) : Prop :=
  noesc (e_code d) /\ noesc (e_msg d) /\ span_noesc (e_span d) /\ forall n, In n (e_notes d) -> noesc (n_msg n) /\ span_noesc (n_span n).
Theorem human_adds_no_escape files d : files_noesc files -> ediag_noesc d -> noesc (human_diag files d).
Proof.
  intros Hf (Hc & Hm & Hs & Hn). unfold human_diag. repeat apply noesc_app; auto; try (apply noesc_lit; reflexivity).
  - destruct (e_level d); apply noesc_lit; reflexivity.
  - destruct (e_span d) as [x|]; [apply noesc_emit_snippet; assumption|constructor].
  - apply noesc_flat_map. intros n Hin. destruct (Hn n Hin) as [H1 H2].
    repeat apply noesc_app; auto; try (apply noesc_lit; reflexivity).
    destruct (n_span n) as [x|]; [apply noesc_emit_snippet; assumption|constructor].
Qed.
Corollary emit_human_no_escape files ds : files_noesc files -> Forall ediag_noesc ds -> Forall noesc (emit_human files ds).
Proof.
  intros Hf Hd. rewrite emit_human_once_in_order. apply Forall_forall. intros l Hl. apply in_map_iff in Hl as [d [<- Hin]].
  apply filter_In in Hin as [Hin _]. rewrite Forall_forall in Hd. apply human_adds_no_escape; auto.
Qed.

(* ---------- the underline lies under exactly the characters of the span ---------- *)
Lemma display_width_acc l : forall n, fold_left (fun n c => if (c =? tab)%N then n + 4 else n + 1) l n = n + display_width l.
Proof.
  unfold display_width. induction l as [|c r IH]; intros n; cbn [fold_left]; [lia|].
  rewrite IH. rewrite (IH (if (c =? tab)%N then 0 + 4 else 0 + 1)). destruct (c =? tab)%N; lia.
Qed.
Lemma display_width_cons c r : display_width (c :: r) = (if (c =? tab)%N then 4 else 1) + display_width r.
Proof. unfold display_width at 1. cbn [fold_left]. rewrite display_width_acc. destruct (c =? tab)%N; lia. Qed.
(* the width of a text is the length of what is printed for it once tabs are expanded *)
Lemma display_width_expand l : display_width l = length (expand_tabs l).
Proof.
  induction l as [|c r IH]; [reflexivity|]. rewrite display_width_cons. unfold expand_tabs in *. cbn [flat_map].
  rewrite app_length, <- IH. destruct (c =? tab)%N; reflexivity.
Qed.
Lemma skipn_add_ {A} (a : nat) : forall b (l : list A), skipn a (skipn b l) = skipn (b + a) l.
Proof. induction b as [|b IH]; intros l; [reflexivity|]. destruct l as [|x l]; cbn [skipn plus]; [destruct a; reflexivity|apply IH]. Qed.
(* a span of positive width on one line: the dashes begin in the printed column of the span's first character and there are
   as many as the span's characters occupy when printed (tabs as four columns) -- so the underline and the underlined text,
   both printed after the same gutter, line up character for character *)
Theorem underline_matches_span line hs he : hs < he -> he <= length line ->
  highlight line hs he = spaces (1 + length (expand_tabs (firstn hs line))) ++ repeat 45%N (length (expand_tabs (firstn (he - hs) (skipn hs line)))) /\
  expand_tabs line = expand_tabs (firstn hs line) ++ expand_tabs (firstn (he - hs) (skipn hs line)) ++ expand_tabs (skipn he line).
Proof.
  intros H1 H2. split.
  - unfold highlight. destruct (Nat.eqb_spec hs he) as [E|_]; [lia|]. rewrite !display_width_expand. reflexivity.
  - unfold expand_tabs. rewrite <- !flat_map_app. f_equal.
    assert (E : skipn he line = skipn (he - hs) (skipn hs line)) by (rewrite skipn_add_; replace (hs + (he - hs)) with he by lia; reflexivity).
    rewrite E, firstn_skipn, firstn_skipn. reflexivity.
Qed.
