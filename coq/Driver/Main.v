(* Executable model of slicec/src/main.rs: when generators are started, what is done with what they reply, which
   diagnostics result and what the exit status is (C07, C18).  The operating system is an oracle: what each generator does
   as seen through its pipes and exit status, and what the file system answers when a generated file is written.  Model only. *)
From Coq Require Import List Bool NArith ZArith Arith.
From SliceV Require Import Base.Bytes Codec.Wire Codec.Reply Sema.Lints.
Import ListNotations.
Local Open Scope nat_scope.

(* a generator as seen by the compiler *)
Inductive behaviour :=
| BCannotStart                                   (* spawn fails: missing, not executable *)
| BRuns (stdin_accepted : bool)                  (* false: it went away before the request was written (broken pipe) *)
        (wrote_stderr : bool)
        (status : option Z)                      (* None: killed by a signal *)
        (stdout : list byte).
Inductive gen_error := GeSpawn | GeBrokenPipe | GeStderr | GeStatus (c : Z) | GeInterrupted | GeDecode (e : derr).
Inductive fsres := FsIdentical | FsWritten | FsFailed.
Record gen_result := { gr_error : option gen_error;                (* the one error naming this generator, if it failed *)
                       gr_files : list (genfile * fsres);           (* write attempts, in reply order *)
                       gr_messages : list (list byte) }.             (* diagnostics of the reply, printed *)
Definition failed (e : gen_error) : gen_result := {| gr_error := Some e; gr_files := []; gr_messages := [] |}.
(* spawn_plugin_process, collect_plugin_output, handle_generator_response *)
Definition run_generator (fs : genfile -> fsres) (b : behaviour) : gen_result :=
  match b with
  | BCannotStart => failed GeSpawn
  | BRuns false _ _ _ => failed GeBrokenPipe
  | BRuns true true _ _ => failed GeStderr
  | BRuns true false None _ => failed GeInterrupted
  | BRuns true false (Some c) out =>
    if (c =? 0)%Z then
      match dec_reply out with
      | DOk (files, diags) _ => {| gr_error := None; gr_files := map (fun f => (f, fs f)) files; gr_messages := map gd_message diags |}
      | DErr e => failed (GeDecode e)
      end
    else failed (GeStatus c)
  end.
Definition gen_errors (r : gen_result) : nat :=
  (match gr_error r with Some _ => 1 | None => 0 end) + length (filter (fun p => match snd p with FsFailed => true | _ => false end) (gr_files r)).

Record run_config := { rc_diags : list diag;       (* what compilation reported (errors and lints) *)
                       rc_ctx : ctx;               (* the suppression configuration (C13) *)
                       rc_dry_run : bool;
                       rc_generators : list behaviour;
                       rc_fs : genfile -> fsres }.
Definition is_error (d : diag) : bool := match d_lint d with None => true | Some _ => false end.
Definition has_errors (ds : list diag) : bool := existsb is_error ds.
(* generators are started only after an error-free compilation, and not at all with --dry-run *)
Definition generation_runs (c : run_config) : bool := negb (has_errors (rc_diags c)) && negb (rc_dry_run c).
Definition gen_results (c : run_config) : list gen_result :=
  if generation_runs c then map (run_generator (rc_fs c)) (rc_generators c) else [].
Definition error_count (c : run_config) : nat :=
  snd (totals (rc_ctx c) (rc_diags c)) + fold_right (fun r n => gen_errors r + n) 0 (gen_results c).
Definition exit_status (c : run_config) : nat := if Nat.eqb (error_count c) 0 then 0 else 1.
