(* The inventory of deliberate abort sites (C01): every unwrap/expect/panic!/unreachable!/todo!/assert! found in the non-test code
   (Gen/PanicSites.v, regenerated from the sources on every run) is listed here with the reason it cannot fire on any input.
   Guarded: a check or a grammar rule in front of it, mirrored in a model or theorem; Invariant: an internal invariant argued here and
   exercised by the crash-search streams of C01; Environment: an I/O failure of the terminal, outside the property's inputs.
   A site that is new, or whose line was edited, is not in this list: `inventory_complete` then fails and the obligation is reported. *)
From Coq Require Import List NArith Bool.
From SliceV Require Import Gen.PanicSites.
Import ListNotations.

Inductive site_class := Guarded | Invariant | Environment.
Definition classified : list (N * site_class) :=
  [
   (14488291216579615144%N, Environment) (* compilation_state.rs :: emit_diagnostics -- writing diagnostics to the terminal failed: outside the inputs the property quantifies over *);
   (17283481434437138131%N, Environment) (* compilation_state.rs :: emit_diagnostics -- writing diagnostics to the terminal failed: outside the inputs the property quantifies over *);
   (7823860037545506736%N, Invariant) (* diagnostic_emitter.rs :: emit_snippet -- a span's file name is the relative path of one of the compiled files (set by the parser from that file); files are compiled once (C17 compiled_once) *);
   (4569748353214328793%N, Environment) (* main.rs :: main -- writing diagnostics to the terminal failed: outside the inputs the property quantifies over *);
   (371416189293346711%N, Environment) (* main.rs :: main -- writing diagnostics to the terminal failed: outside the inputs the property quantifies over *);
   (1841388477037002265%N, Guarded) (* slice_file.rs :: new -- the path has a file stem: command-line files passed is_slice_file (C17 model: non-empty stem), compile_from_strings uses string-N *);
   (12989214474487225124%N, Guarded) (* slice_file.rs :: new -- the path has a file stem: command-line files passed is_slice_file (C17 model: non-empty stem), compile_from_strings uses string-N *);
   (15006590847458627009%N, Invariant) (* slice_file.rs :: get_snippet -- writing into a String cannot fail *);
   (2477028204862891969%N, Invariant) (* slice_file_converter.rs :: get_attribute_args -- every attribute kind is one of the six parsed kinds or Unparsed (the attribute patcher rejects unknown unprefixed directives with E024 before generation) *);
   (11879167540075248597%N, Guarded) (* slice_file_converter.rs :: from -- files without a module declaration are skipped by encode_generate_code_request (fix e3480d0); C07/C08 streams run module-less files through the binary *);
   (10669127699324931920%N, Guarded) (* slice_file_converter.rs :: convert_variant -- generation runs only after an error-free compilation (C07 generation_iff) and enumerators of enums without underlying type are validated within 0..i32::MAX (C04 enum_default_bounds) *);
   (8016924973952875387%N, Guarded) (* slice_options.rs :: plugin_parser -- taken only after peek() returned Some (C19 model: the backslash look-ahead) *);
   (10783626966939343195%N, Guarded) (* slice_options.rs :: plugin_parser -- state Key/Value is entered only by pushing an argument pair (C19 model: acc invariant, proofs in Cli/PluginSpecProofs.v) *);
   (7504008054230275254%N, Guarded) (* slice_options.rs :: plugin_parser -- state Key/Value is entered only by pushing an argument pair (C19 model: acc invariant, proofs in Cli/PluginSpecProofs.v) *);
   (2485032129241881876%N, Invariant) (* diagnostics/diagnostic.rs :: into_updated (the site follows the helper find_in in the text) -- as above: every span names a compiled file; diagnostics from generators carry no span *);
   (8629041630888560645%N, Invariant) (* grammar/traits.rs :: get_module -- entities exist only in files with a module declaration: definitions without one are a syntax error and later phases are skipped (Syntax/Parser.v PdModuleRequired; token-soup stream) *);
   (14725657066975630259%N, Invariant) (* grammar/elements/type_ref.rs :: definition -- later phases run only when patching reported no error, and an error-free patch binds every reference (C03 model; fix 83baaeb removed the unpatched bases/underlying types) *);
   (8293306126473137574%N, Guarded) (* parsers/comments/grammar.rs :: sanitize_message_lines -- Message = MessageComponent+ is never empty (Doc/Comment.v opt_msg) *);
   (10216311870026386372%N, Guarded) (* parsers/comments/grammar.rs :: sanitize_message_lines -- Message = MessageComponent+ is never empty (Doc/Comment.v opt_msg) *);
   (16421978901191786357%N, Guarded) (* parsers/comments/lexer.rs :: new -- parse_doc_comment returns early for an empty comment *);
   (17141328956322647440%N, Invariant) (* parsers/comments/lexer.rs :: read_tag_keyword -- only the four keyword kinds are constructed in the preceding match *);
   (2429856488173393042%N, Invariant) (* parsers/comments/lexer.rs :: next -- the buffer is non-empty only in the three lexing modes (Doc/Comment.v lex) *);
   (9138708152569362986%N, Invariant) (* parsers/comments/mod.rs :: construct_lint_from -- LALRPOP with an external lexer produces only User, UnrecognizedToken and UnrecognizedEof errors *);
   (16055139890064041883%N, Guarded) (* parsers/comments/mod.rs :: generate_message -- the match arm binds a slice of at least three elements *);
   (12447157288607719976%N, Invariant) (* parsers/preprocessor/lexer.rs :: lex_next_preprocessor_token -- inline white space is skipped before every call (C06 model, exhaustive lines) *);
   (15038575434006510410%N, Invariant) (* parsers/preprocessor/lexer.rs :: next -- start location and position are set when the mode becomes SourceBlock and taken only in that mode (C06 model, exhaustive lines) *);
   (1568729118032280678%N, Invariant) (* parsers/preprocessor/lexer.rs :: next -- start location and position are set when the mode becomes SourceBlock and taken only in that mode (C06 model, exhaustive lines) *);
   (15038574334494882199%N, Invariant) (* parsers/preprocessor/lexer.rs :: next -- start location and position are set when the mode becomes SourceBlock and taken only in that mode (C06 model, exhaustive lines) *);
   (1568728018520652467%N, Invariant) (* parsers/preprocessor/lexer.rs :: next -- start location and position are set when the mode becomes SourceBlock and taken only in that mode (C06 model, exhaustive lines) *);
   (14976374606307742728%N, Invariant) (* parsers/slice/grammar.rs :: primitive_to_type_ref_definition -- Ast::create puts every primitive among the AST's elements and elements are never removed (the site used to read the lookup table, where a module named like the primitive could take its place: fix 21e7062) *);
   (9781887821541066439%N, Invariant) (* parsers/slice/grammar.rs :: primitive_to_type_ref_definition -- the node was selected by matching Node::Primitive *);
   (1648890451669158098%N, Invariant) (* parsers/slice/mod.rs :: construct_error_from -- LALRPOP with an external lexer produces only User, UnrecognizedToken and UnrecognizedEof errors *);
   (15683795781569734881%N, Guarded) (* parsers/slice/mod.rs :: generate_message -- the match arm binds a slice of at least three elements *);
   (6577567016631682070%N, Invariant) (* patchers/comment_link_patcher.rs :: macro patch_link -- compute_patches_for and apply_patches traverse the same nodes and the same links in the same order: one queue entry per link (Doc/Comment.v doc_links; C16 stream) *);
   (14190682926993854556%N, Invariant) (* patchers/comment_link_patcher.rs :: resolve_link -- links are created unpatched by the comment parser and patched once; find_node_with_scope only fails with DoesNotExist *);
   (13256935269901477441%N, Invariant) (* patchers/comment_link_patcher.rs :: resolve_link -- links are created unpatched by the comment parser and patched once; find_node_with_scope only fails with DoesNotExist *);
   (724161298295724432%N, Invariant) (* patchers/comment_link_patcher.rs :: convert_node_to_entity_ptr -- the lookup table holds named elements only (anonymous types and attributes are added with add_element) *);
   (12203676402909195726%N, Invariant) (* patchers/type_ref_patcher.rs :: apply_patches -- patches are computed and applied over the same node sequence, each patch kind chosen from its node's kind *);
   (5210411252350936648%N, Invariant) (* patchers/type_ref_patcher.rs :: apply_patches -- patches are computed and applied over the same node sequence, each patch kind chosen from its node's kind *);
   (17463552431147707906%N, Invariant) (* patchers/type_ref_patcher.rs :: apply_patches -- patches are computed and applied over the same node sequence, each patch kind chosen from its node's kind *);
   (1331882239612100268%N, Invariant) (* patchers/type_ref_patcher.rs :: apply_patches -- patches are computed and applied over the same node sequence, each patch kind chosen from its node's kind *);
   (15292466902693523191%N, Invariant) (* patchers/type_ref_patcher.rs :: apply_patches -- patches are computed and applied over the same node sequence, each patch kind chosen from its node's kind *);
   (17150399327197867657%N, Invariant) (* patchers/type_ref_patcher.rs :: apply_patches -- patches are computed and applied over the same node sequence, each patch kind chosen from its node's kind *);
   (14090723265721383156%N, Invariant) (* patchers/type_ref_patcher.rs :: apply_patches -- patches are computed and applied over the same node sequence, each patch kind chosen from its node's kind *);
   (10232869072255528668%N, Invariant) (* patchers/type_ref_patcher.rs :: apply_patches -- patches are computed and applied over the same node sequence, each patch kind chosen from its node's kind *);
   (12979894255046621224%N, Invariant) (* patchers/type_ref_patcher.rs :: apply_patches -- patches are computed and applied over the same node sequence, each patch kind chosen from its node's kind *);
   (11326831351948373613%N, Guarded) (* patchers/type_ref_patcher.rs :: resolve_type_alias -- the lookup result was checked to be Ok in the preceding branch *);
   (6381245941068702230%N, Invariant) (* utils/ptr_util.rs :: borrow -- weak pointers are initialised by the container that adopts the element before the AST is used (set_children_for!) *);
   (841843881298932750%N, Invariant) (* validators/comments.rs :: report_only_operation_error -- tag kinds are the constants 'param tag' and 'returns tag' *);
   (2328210474109366935%N, Invariant) (* validators/comments.rs :: report_only_operation_error -- tag kinds are the constants 'param tag' and 'returns tag' *);
   (5564327930550926093%N, Invariant) (* validators/cycle_detection.rs :: push_to_stack_and_check -- type_being_checked is set before every traversal; fields belong to structs or enumerators *);
   (8010468081133987810%N, Invariant) (* validators/cycle_detection.rs :: report_cycle_error -- type_being_checked is set before every traversal; fields belong to structs or enumerators *);
   (4410044386203822823%N, Invariant) (* validators/cycle_detection.rs :: get_note_for -- type_being_checked is set before every traversal; fields belong to structs or enumerators *);
   (1311774714989073849%N, Guarded) (* validators/enums.rs :: cannot_contain_fields -- called inside `if enum_def.underlying.is_some()` *);
   (14257336985397520603%N, Guarded) (* validators/members.rs :: tags_are_unique -- the list was filtered to tagged members *);
   (12566233725656098808%N, Guarded) (* validators/members.rs :: tags_are_unique -- the list was filtered to tagged members *);
   (259901547155615908%N, Guarded) (* validators/parameters.rs :: at_most_one_stream_parameter -- split_last on a list checked to be non-empty *)].

Definition is_classified (h : N) : bool := existsb (fun p => N.eqb (fst p) h) classified.
Theorem inventory_complete : forallb is_classified panic_sites = true.
Proof. vm_compute. reflexivity. Qed.
Theorem inventory_size : length panic_sites = 57.
Proof. reflexivity. Qed.
