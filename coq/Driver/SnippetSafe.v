(* No subtraction of SliceFile::get_snippet / get_highlight (slice_file.rs) can go below zero on a span the lexer produces,
   or on a span running from the start of one token to the end of a later one (what the parser and the validators report),
   whatever the text: line feeds, carriage returns before them, tabs, any characters (C01; supports C09 and C14).
   The emitter model (Driver/Emit.v) uses truncated subtraction; `snippet_safe` lists every subtraction of the code. *)
From Coq Require Import List Bool Arith NArith Lia.
From SliceV Require Import Prep.PrepCore Sema.Lints Driver.Emit Cli.PluginSpec Doc.Comment Doc.CommentProofs Syntax.Tokens Syntax.Lexer Syntax.LexerProofs.
Import ListNotations.
Local Open Scope nat_scope.

(* highlight_start / highlight_end of the line with index i (line number i + 1) *)
Definition hs_of (x : span) (i : nat) : nat := if Nat.eqb (S i) (sp_srow x) then sp_scol x - 1 else 0.
Definition he_of (x : span) (i : nat) (line : str) : nat := if Nat.eqb (S i) (sp_erow x) then sp_ecol x - 1 else length line.
(* `start.row - 1`, `start.col - 1`, `end.col - 1`, the debug assertion `start <= end`, and `highlight_end - highlight_start`
   on every line shown *)
Definition snippet_safe (text : str) (x : span) : Prop :=
  1 <= sp_srow x /\ 1 <= sp_scol x /\ 1 <= sp_ecol x /\
  (sp_srow x < sp_erow x \/ (sp_srow x = sp_erow x /\ sp_scol x <= sp_ecol x)) /\
  forall i line, sp_srow x - 1 <= i < sp_erow x -> nth_error (text_lines text) i = Some line -> hs_of x i <= he_of x i line.

(* ---------- positions in a text ---------- *)
Definition l1 : loc := mkloc 1 1.
Definition pos (p : list N) : loc := adv_all l1 p.
Fixpoint count_nl (p : list N) : nat := match p with [] => 0 | c :: r => (if (c =? 10)%N then 1 else 0) + count_nl r end.
(* the current line so far, last character first *)
Fixpoint seg (p cur : list N) : list N := match p with [] => cur | c :: r => seg r (if (c =? 10)%N then [] else c :: cur) end.

Lemma adv_all_app l a b : adv_all l (a ++ b) = adv_all (adv_all l a) b.
Proof. unfold adv_all. apply fold_left_app. Qed.
Lemma pos_app a b : pos (a ++ b) = adv_all (pos a) b.
Proof. apply adv_all_app. Qed.
Lemma count_nl_app a b : count_nl (a ++ b) = count_nl a + count_nl b.
Proof. induction a as [|c r IH]; cbn [count_nl app]; [reflexivity|]. rewrite IH. lia. Qed.
Lemma seg_app a b cur : seg (a ++ b) cur = seg b (seg a cur).
Proof. revert cur. induction a as [|c r IH]; intros cur; cbn [seg app]; [reflexivity|]. apply IH. Qed.
Lemma seg_no_nl b : forall cur, count_nl b = 0 -> length (seg b cur) = length cur + length b.
Proof.
  induction b as [|c r IH]; intros cur H; cbn [seg count_nl length] in *; [lia|].
  destruct (c =? 10)%N; [lia|]. rewrite IH by lia. cbn [length]. lia.
Qed.
Lemma adv_all_pos : forall p l cur, l_col l = S (length cur) -> adv_all l p = mkloc (l_row l + count_nl p) (S (length (seg p cur))).
Proof.
  induction p as [|c r IH]; intros l cur H.
  - destruct l as [row col]. cbn in *. subst col. f_equal. lia.
  - change (adv_all l (c :: r)) with (adv_all (adv l c) r). cbn [seg count_nl]. unfold adv. destruct (c =? 10)%N.
    + rewrite (IH _ []) by reflexivity. cbn [l_row]. f_equal. lia.
    + rewrite (IH _ (c :: cur)) by (cbn [l_col length]; lia). cbn [l_row]. f_equal.
Qed.
Lemma pos_eq p : pos p = mkloc (1 + count_nl p) (S (length (seg p []))).
Proof. unfold pos. rewrite (adv_all_pos p l1 []) by reflexivity. reflexivity. Qed.

(* ---------- the lines of the text ---------- *)
(* the one position whose column lies beyond its line as displayed: between a carriage return and the line feed after it *)
Definition bad_start (cur rest : list N) : bool :=
  match rest, cur with c :: _, x :: _ => (c =? 10)%N && (x =? 13)%N | _, _ => false end.
Lemma lines_head : forall rest cur line, nth_error (lines_aux rest cur) 0 = Some line -> length cur <= length line + (if bad_start cur rest then 1 else 0).
Proof.
  induction rest as [|c r IH]; intros cur line; cbn [lines_aux].
  - destruct cur as [|x cur']; cbn [nth_error]; [discriminate|]. intros E. apply (f_equal (fun o => match o with Some l => length l | None => 0 end)) in E. rewrite rev_length in E. unfold bad_start. lia.
  - destruct (c =? 10)%N eqn:E.
    + cbn [nth_error]. intros H. apply (f_equal (fun o => match o with Some l => length l | None => 0 end)) in H. rewrite rev_length in H. unfold bad_start. rewrite E. destruct cur as [|x cur']; [cbn in *; lia|].
      destruct (x =? 13)%N; cbn [andb length] in *; lia.
    + intros H. specialize (IH (c :: cur) line H). cbn [length] in IH. unfold bad_start. rewrite E. destruct cur; cbn [andb]; destruct (bad_start _ _) in IH; lia.
Qed.
Lemma lines_at : forall p cur rest line, nth_error (lines_aux (p ++ rest) cur) (count_nl p) = Some line ->
  length (seg p cur) <= length line + (if bad_start (seg p cur) rest then 1 else 0).
Proof.
  induction p as [|c r IH]; intros cur rest line; cbn [app count_nl seg lines_aux]; [apply lines_head|].
  destruct (c =? 10)%N; cbn [Nat.add nth_error]; apply IH.
Qed.

(* ---------- spans between two positions ---------- *)
Definition good_at (p rest : list N) : bool := negb (bad_start (seg p []) rest).
Definition span_of (f : str) (a b : loc) : span := {| sp_file := f; sp_srow := l_row a; sp_scol := l_col a; sp_erow := l_row b; sp_ecol := l_col b |}.

Theorem snippet_safe_between f p1 p2 rest : good_at p1 (p2 ++ rest) = true ->
  snippet_safe (p1 ++ p2 ++ rest) (span_of f (pos p1) (pos (p1 ++ p2))).
Proof.
  intros G. unfold snippet_safe, span_of, hs_of, he_of. cbn [sp_srow sp_scol sp_erow sp_ecol]. rewrite !pos_eq. cbn [l_row l_col].
  rewrite count_nl_app, seg_app.
  repeat split; try lia.
  - destruct (count_nl p2) eqn:E; [right|left; lia]. split; [lia|]. rewrite (seg_no_nl p2) by exact E. lia.
  - intros i line Hi Hl. destruct (Nat.eqb (S i) (1 + count_nl p1)) eqn:E1; [|lia]. apply Nat.eqb_eq in E1.
    destruct (Nat.eqb (S i) (1 + (count_nl p1 + count_nl p2))) eqn:E2.
    + apply Nat.eqb_eq in E2. rewrite (seg_no_nl p2) by lia. lia.
    + assert (i = count_nl p1) by lia. subst i. unfold text_lines in Hl. apply lines_at in Hl. cbn [seg] in Hl.
      unfold good_at in G. apply negb_true_iff in G. rewrite G in Hl. lia.
Qed.

(* A span of no width -- the end of a directive that ends too early, the end of a file that leaves a region open: what the preprocessor
   reports there -- is safe at every position of every text, also between a carriage return and its line feed. *)
Theorem snippet_safe_zero_width f p rest : snippet_safe (p ++ rest) (span_of f (pos p) (pos p)).
Proof.
  unfold snippet_safe, span_of, hs_of, he_of. cbn [sp_srow sp_scol sp_erow sp_ecol]. rewrite !pos_eq. cbn [l_row l_col].
  split; [lia|]. split; [lia|]. split; [lia|]. split; [right; split; lia|].
  intros i line Hi _. destruct (Nat.eqb (S i) (1 + count_nl p)) eqn:E; [lia|]. apply Nat.eqb_neq in E. lia.
Qed.

(* ---------- the lexer's tokens lie between such positions, in order ---------- *)
Definition tok_span_ok (text : list N) (a : nat) (s e : loc) (b : nat) : Prop :=
  exists p1 p2 rest, text = p1 ++ p2 ++ rest /\ length p1 = a /\ b = length p1 + length p2 /\ s = pos p1 /\ e = pos (p1 ++ p2) /\ good_at p1 (p2 ++ rest) = true.
Inductive toks_from (text : list N) : nat -> list ptok -> Prop :=
| tf_nil n : toks_from text n []
| tf_cons n a b s t e ts : n <= a -> tok_span_ok text a s e b -> toks_from text b ts -> toks_from text n ((s, t, e) :: ts).
Definition err_from (text : list N) (n : nat) (er : option plexerr) : Prop :=
  match er with Some (s, _, e) => exists a b, n <= a /\ tok_span_ok text a s e b | None => True end.
Definition res_ok (text : list N) (n : nat) (r : list ptok * option plexerr * bool) : Prop :=
  toks_from text n (fst (fst r)) /\ err_from text n (snd (fst r)).

Lemma toks_from_le text n m ts : m <= n -> toks_from text n ts -> toks_from text m ts.
Proof. intros L H. destruct H as [|n a b s t e ts H1 H2 H3]; [constructor|]. econstructor; [|exact H2|exact H3]. lia. Qed.
Lemma err_from_le text n m er : m <= n -> err_from text n er -> err_from text m er.
Proof. intros L H. destruct er as [[[s x] e]|]; [|exact I]. destruct H as (a & b & H1 & H2). exists a, b. split; [lia|exact H2]. Qed.
Lemma res_ok_le text n m r : m <= n -> res_ok text n r -> res_ok text m r.
Proof. intros L [H1 H2]. split; [eapply toks_from_le|eapply err_from_le]; eassumption. Qed.
Lemma tok_span_ends text a s e b : tok_span_ok text a s e b -> a <= b.
Proof. intros (p1 & p2 & rest & _ & H1 & H2 & _). lia. Qed.

Section Step.
  Variables (text post : list N) (rec : bool -> loc -> list N -> list ptok * option plexerr * bool).
  Hypothesis Hrec : forall attr p body, text = p ++ body ++ post -> res_ok text (length p) (rec attr (pos p) body).

  Lemma skip_ok attr p w rest : text = p ++ (w ++ rest) ++ post -> res_ok text (length p) (rec attr (adv_all (pos p) w) rest).
  Proof.
    intros E. rewrite <- pos_app. apply (res_ok_le text (length (p ++ w))); [rewrite app_length; lia|]. apply Hrec. rewrite E, <- !app_assoc. reflexivity.
  Qed.
  (* a token that starts w0 after the current position (w0 = [] but for doc comments, which start after their slashes) *)
  Lemma tok_ok attr p w0 w rest t : text = p ++ (w0 ++ w ++ rest) ++ post -> good_at (p ++ w0) (w ++ rest ++ post) = true ->
    res_ok text (length p) (let '(ts, er, a) := rec attr (adv_all (adv_all (pos p) w0) w) rest in ((adv_all (pos p) w0, t, adv_all (adv_all (pos p) w0) w) :: ts, er, a)).
  Proof.
    intros E G. rewrite <- !pos_app.
    assert (E' : text = ((p ++ w0) ++ w) ++ rest ++ post) by (rewrite E, <- !app_assoc; reflexivity).
    pose proof (Hrec attr _ _ E') as [H1 H2]. destruct (rec attr (pos ((p ++ w0) ++ w)) rest) as [[ts er] a]. cbn [fst snd] in *.
    split; cbn [fst snd].
    - apply (tf_cons text (length p) (length (p ++ w0)) (length ((p ++ w0) ++ w))); [rewrite app_length; lia| |exact H1].
      exists (p ++ w0), w, (rest ++ post). repeat split; [rewrite E, <- !app_assoc; reflexivity|rewrite !app_length; lia|exact G].
    - eapply err_from_le; [|exact H2]. rewrite !app_length. lia.
  Qed.
  Lemma err_ok attr p w rest x : text = p ++ (w ++ rest) ++ post -> good_at p (w ++ rest ++ post) = true ->
    res_ok text (length p) ([], Some (pos p, x, adv_all (pos p) w), attr).
  Proof.
    intros E G. split; cbn [fst snd]; [constructor|]. exists (length p), (length p + length w). split; [lia|].
    exists p, w, (rest ++ post). rewrite pos_app. repeat split; [rewrite E, <- !app_assoc; reflexivity|exact G].
  Qed.
  Lemma last_ok attr p w t : text = p ++ w ++ post -> good_at p (w ++ post) = true -> res_ok text (length p) ([(pos p, t, adv_all (pos p) w)], None, attr).
  Proof.
    intros E G. split; cbn [fst snd]; [|exact I]. apply (tf_cons text (length p) (length p) (length p + length w)); [lia| |constructor].
    exists p, w, post. rewrite pos_app. repeat split; assumption.
  Qed.
End Step.

Lemma good_first p c r : (c =? 10)%N = false -> good_at p (c :: r) = true.
Proof. intros H. unfold good_at, bad_start. rewrite H. destruct (seg p []); reflexivity. Qed.
Lemma good_after_slash p w rest : good_at (p ++ w ++ [47%N]) rest = true.
Proof. unfold good_at. rewrite app_assoc, seg_app. cbn [seg N.eqb Pos.eqb]. unfold bad_start. destruct rest; [reflexivity|]. cbn. rewrite andb_false_r. reflexivity. Qed.
Lemma consumed_app w rest : consumed (w ++ rest) rest = w.
Proof. unfold consumed. rewrite app_length. replace (length w + length rest - length rest) with (length w) by lia. rewrite firstn_app, firstn_all, Nat.sub_diag. cbn [firstn]. apply app_nil_r. Qed.
Lemma scan_string_split : forall r esc acc, match scan_string esc r acc with
  | inl (content, rest) => exists w, r = w ++ rest
  | inr eaten => exists w rest, r = w ++ rest /\ eaten = rev acc ++ w end.
Proof.
  induction r as [|c r IH]; intros esc acc; cbn [scan_string].
  - exists [], []. split; [reflexivity|]. rewrite app_nil_r. reflexivity.
  - destruct (c =? 10)%N. { exists [], (c :: r). split; [reflexivity|]. rewrite app_nil_r. reflexivity. }
    assert (K : forall e, match scan_string e r (c :: acc) with
      | inl (content, rest) => exists w, c :: r = w ++ rest | inr eaten => exists w rest, c :: r = w ++ rest /\ eaten = rev acc ++ w end).
    { intros e. specialize (IH e (c :: acc)). destruct (scan_string e r (c :: acc)) as [[content rest]|eaten].
      - destruct IH as [w ->]. exists (c :: w). reflexivity.
      - destruct IH as (w & rest & -> & ->). exists (c :: w), rest. split; [reflexivity|]. cbn [rev]. rewrite <- app_assoc. reflexivity. }
    destruct esc; [apply K|]. destruct (c =? 34)%N; [|apply K]. exists [c]. reflexivity.
Qed.
Lemma scan_block_split : forall r star rest, scan_block star r = Some rest -> exists w, r = w ++ rest.
Proof.
  induction r as [|c r IH]; intros star rest; cbn [scan_block]; [discriminate|].
  destruct ((c =? 47)%N && star). { intros E. inversion E; subst. exists [c]. reflexivity. }
  intros E. apply IH in E. destruct E as [w ->]. exists (c :: w). reflexivity.
Qed.
Lemma lex_step_nl rec attr cur r : lex_step rec attr cur (10%N :: r) = rec attr (adv cur 10%N) r.
Proof. reflexivity. Qed.

Lemma lex_step_spans text post rec :
  (forall attr p body, text = p ++ body ++ post -> res_ok text (length p) (rec attr (pos p) body)) ->
  forall attr p body, text = p ++ body ++ post -> res_ok text (length p) (lex_step rec attr (pos p) body).
Proof.
  intros Hrec attr p body E. destruct body as [|c r]; [split; [constructor|exact I]|].
  destruct (c =? 10)%N eqn:Enl.
  { apply N.eqb_eq in Enl. subst c. rewrite lex_step_nl. apply (skip_ok text post rec Hrec attr p [10%N] r). exact E. }
  pose proof (good_first p c (r ++ post) Enl) as G.
  assert (SK : forall a w rest, c :: r = w ++ rest -> res_ok text (length p) (rec a (adv_all (pos p) w) rest)).
  { intros a w rest Hw. apply (skip_ok text post rec Hrec). rewrite <- Hw. exact E. }
  assert (TK : forall a w rest t, c :: r = w ++ rest ->
            res_ok text (length p) (let '(ts, er, a') := rec a (adv_all (pos p) w) rest in ((pos p, t, adv_all (pos p) w) :: ts, er, a'))).
  { intros a w rest t Hw. apply (tok_ok text post rec Hrec a p [] w rest t); cbn [app]; [rewrite <- Hw; exact E|].
    rewrite app_nil_r, app_assoc, <- Hw. exact G. }
  assert (ER : forall a w rest x, c :: r = w ++ rest -> res_ok text (length p) ([], Some (pos p, x, adv_all (pos p) w), a)).
  { intros a w rest x Hw. apply (err_ok text post a p w rest x); [rewrite <- Hw; exact E|]. rewrite app_assoc, <- Hw. exact G. }
  unfold lex_step. cbv zeta.
  repeat match goal with |- res_ok _ _ (if ?b then _ else _) => destruct b eqn:? end;
    try (apply (TK attr [c] r); reflexivity); try (apply (ER attr [c] r); reflexivity).
  - destruct r as [|c2 r2]; [apply (last_ok text post true p [c]); [exact E|exact G]|]. destruct (c2 =? 91)%N; [apply (TK true [c; c2] r2)|apply (TK true [c] (c2 :: r2))]; reflexivity.
  - destruct r as [|c2 r2]; [apply (last_ok text post false p [c]); [exact E|exact G]|]. destruct (c2 =? 93)%N; [apply (TK false [c; c2] r2)|apply (TK false [c] (c2 :: r2))]; reflexivity.
  - destruct r as [|c2 r2]; [apply (last_ok text post attr p [c]); [exact E|exact G]|]. destruct (c2 =? 58)%N; [apply (TK attr [c; c2] r2)|apply (TK attr [c] (c2 :: r2))]; reflexivity.
  - destruct r as [|c2 r2]; [apply (last_ok text post attr p [c]); [exact E|exact G]|]. destruct (c2 =? 62)%N; [apply (TK attr [c; c2] r2)|apply (TK attr [c] (c2 :: r2))]; reflexivity.
  - pose proof (scan_string_split r false []) as S. destruct (scan_string false r []) as [[content rest]|eaten].
    + destruct S as [w ->]. change (c :: w ++ rest) with ((c :: w) ++ rest). rewrite consumed_app. apply TK. reflexivity.
    + destruct S as (w & rest & -> & ->). cbn [rev app]. apply (ER attr (c :: w) rest). reflexivity.
  - destruct r as [|c2 r2]; [apply (ER attr [c] []); reflexivity|]. destruct (c2 =? 47)%N eqn:E2.
    + apply N.eqb_eq in E2. subst c2.
      match goal with H : (c =? 47)%N = true |- _ => apply N.eqb_eq in H; subst c end.
      assert (T : forall (sl after : list N) (isdoc : bool) (n : nat), 47%N :: 47%N :: r2 = (sl ++ [47%N]) ++ after -> mkloc (l_row (pos p)) (l_col (pos p) + n) = adv_all (pos p) (sl ++ [47%N]) ->
                res_ok text (length p)
                  (let '(text0, rest) := span_while (fun x => negb (x =? 10)%N) after in
                   let e := adv_all (mkloc (l_row (pos p)) (l_col (pos p) + n)) text0 in
                   let text' := match rev text0 with 13%N :: t => rev t | _ => text0 end in
                   let '(ts, er, a) := rec attr e rest in
                   if isdoc then ((mkloc (l_row (pos p)) (l_col (pos p) + n), TkDoc text', e) :: ts, er, a) else (ts, er, a))).
      { intros sl after isdoc n Hb Hl. rewrite Hl. pose proof (span_while_split (fun x => negb (x =? 10)%N) after) as [Sp _].
        destruct (span_while (fun x => negb (x =? 10)%N) after) as [text0 rest]. cbn [fst snd] in Sp. cbv zeta. destruct isdoc.
        - apply (tok_ok text post rec Hrec attr p (sl ++ [47%N]) text0 rest); [rewrite <- Sp, <- Hb; exact E|apply good_after_slash].
        - rewrite <- adv_all_app.
          assert (Q := SK attr ((sl ++ [47%N]) ++ text0) rest). rewrite <- app_assoc in Q. rewrite <- Sp in Q. specialize (Q Hb).
          destruct (rec attr (adv_all (pos p) ((sl ++ [47%N]) ++ text0)) rest) as [[ts er] a]. exact Q. }
      assert (L2 : mkloc (l_row (pos p)) (l_col (pos p) + 2) = adv_all (pos p) ([47%N] ++ [47%N])).
      { cbn. f_equal. lia. }
      assert (L3 : mkloc (l_row (pos p)) (l_col (pos p) + 3) = adv_all (pos p) ([47%N; 47%N] ++ [47%N])).
      { cbn. f_equal. lia. }
      destruct r2 as [|c3 r3]; [apply (T [47%N] [] false 2%nat); [reflexivity|exact L2]|].
      destruct (c3 =? 47)%N eqn:E3; [|apply (T [47%N] (c3 :: r3) false 2%nat); [reflexivity|exact L2]].
      apply N.eqb_eq in E3. subst c3.
      destruct r3 as [|c4 r4]; [apply (T [47%N; 47%N] [] true 3%nat); [reflexivity|exact L3]|].
      destruct (c4 =? 47)%N; [apply (T [47%N; 47%N] (c4 :: r4) false 3%nat)|apply (T [47%N; 47%N] (c4 :: r4) true 3%nat)]; try reflexivity; exact L3.
    + destruct (c2 =? 42)%N; [|apply (ER attr [c] (c2 :: r2)); reflexivity].
      destruct (scan_block false r2) as [rest|] eqn:Eb.
      * apply scan_block_split in Eb. destruct Eb as [w ->]. change (c :: c2 :: w ++ rest) with ((c :: c2 :: w) ++ rest). rewrite consumed_app. apply SK. reflexivity.
      * apply (ER attr (c :: c2 :: r2) []). rewrite app_nil_r. reflexivity.
  - destruct r as [|c2 r2]; [apply (ER attr [c] []); reflexivity|]. destruct (is_letter c2); [|apply (ER attr [c] (c2 :: r2)); reflexivity].
    pose proof (span_while_split is_alnum_ (c2 :: r2)) as [Sp _]. destruct (span_while is_alnum_ (c2 :: r2)) as [w rest]. cbn [fst snd] in Sp.
    apply (TK attr (c :: w) rest). rewrite Sp. reflexivity.
  - pose proof (span_while_split is_alnum_ (c :: r)) as [Sp _]. destruct (span_while is_alnum_ (c :: r)) as [w rest]. cbn [fst snd] in Sp. apply TK. exact Sp.
  - pose proof (span_while_split is_alnum_ (c :: r)) as [Sp _]. destruct (span_while is_alnum_ (c :: r)) as [w rest]. cbn [fst snd] in Sp. apply TK. exact Sp.
  - apply (SK attr [c] r). reflexivity.
Qed.

Theorem lex_block_spans text post : forall fuel attr p body, text = p ++ body ++ post -> res_ok text (length p) (lex_block fuel attr (pos p) body).
Proof.
  induction fuel as [|f IH]; intros attr p body E; [split; [constructor|exact I]|].
  change (lex_block (S f) attr (pos p) body) with (lex_step (lex_block f) attr (pos p) body). apply (lex_step_spans text post); [exact IH|exact E].
Qed.

(* ---------- from the start of one token to the end of the same or a later one ---------- *)
Lemma span_join text a1 s1 e1 b1 a2 s2 e2 b2 : tok_span_ok text a1 s1 e1 b1 -> tok_span_ok text a2 s2 e2 b2 -> b1 <= a2 -> tok_span_ok text a1 s1 e2 b2.
Proof.
  intros (p1 & p2 & r1 & E1 & L1 & B1 & S1 & _ & G1) (q1 & q2 & r2 & E2 & L2 & B2 & _ & T2 & _) Le.
  (* q1 ++ q2 extends p1 *)
  assert (Hp : p1 = firstn a1 text) by (rewrite E1, <- L1, firstn_app, firstn_all, Nat.sub_diag; cbn [firstn]; rewrite app_nil_r; reflexivity).
  assert (Hq : q1 ++ q2 = firstn b2 text).
  { rewrite E2, app_assoc, B2, <- app_length, firstn_app, firstn_all, Nat.sub_diag. cbn [firstn]. rewrite app_nil_r. reflexivity. }
  assert (Hab : a1 <= b2) by lia.
  assert (Hb2 : b2 <= length text) by (rewrite E2, !app_length; lia).
  exists p1, (skipn a1 (firstn b2 text)), (skipn b2 text).
  assert (Hsplit : firstn b2 text = p1 ++ skipn a1 (firstn b2 text)).
  { rewrite Hp. rewrite <- (firstn_skipn a1 (firstn b2 text)) at 1. f_equal. rewrite firstn_firstn. f_equal. lia. }
  assert (Et : text = p1 ++ skipn a1 (firstn b2 text) ++ skipn b2 text) by (rewrite app_assoc, <- Hsplit; symmetry; apply firstn_skipn).
  repeat split.
  - exact Et.
  - exact L1.
  - rewrite skipn_length, firstn_length. lia.
  - exact S1.
  - rewrite <- Hsplit, <- Hq. exact T2.
  - assert (X : p2 ++ r1 = skipn a1 (firstn b2 text) ++ skipn b2 text) by (apply (app_inv_head p1); rewrite <- E1; exact Et). rewrite <- X. exact G1.
Qed.
Lemma toks_from_in text : forall ts n s t e, toks_from text n ts -> In (s, t, e) ts -> exists a b, n <= a /\ tok_span_ok text a s e b.
Proof.
  induction ts as [|x ts IH]; intros n s t e H Hin; [destruct Hin|]. inversion H as [|n0 a b s0 t0 e0 ts0 Hn Hs Hr]; subst.
  destruct Hin as [Heq|Hin].
  - inversion Heq; subst. exists a, b. split; assumption.
  - destruct (IH _ _ _ _ Hr Hin) as (a' & b' & L & Hok). exists a', b'. split; [|exact Hok]. apply tok_span_ends in Hs. lia.
Qed.
Lemma toks_from_pair text : forall ts n ts1 s1 t1 e1 ts2 s2 t2 e2 ts3, toks_from text n ts -> ts = ts1 ++ (s1, t1, e1) :: ts2 ++ (s2, t2, e2) :: ts3 ->
  exists a b, tok_span_ok text a s1 e2 b.
Proof.
  induction ts as [|x ts IH]; intros n ts1 s1 t1 e1 ts2 s2 t2 e2 ts3 H E; [destruct ts1; discriminate|].
  inversion H as [|n0 a b s0 t0 e0 ts0 Hn Hs Hr]; subst. destruct ts1 as [|y ts1]; cbn [app] in E.
  - inversion E; subst. destruct (toks_from_in text _ _ s2 t2 e2 Hr) as (a2 & b2 & L & Hok); [apply in_or_app; right; left; reflexivity|].
    exists a, b2. eapply span_join; eassumption.
  - inversion E; subst. eapply IH; [exact Hr|reflexivity].
Qed.

(* Every token of a block of the file (a block is a stretch of the text, starting where the text puts it), every lexical error,
   and every stretch from the start of a token to the end of a later token of the block can be shown as a snippet without
   any subtraction going below zero. *)
Theorem lexed_spans_render_safely f pre body post fuel attr ts er a :
  lex_block fuel attr (pos pre) body = (ts, er, a) ->
  (forall s t e, In (s, t, e) ts -> snippet_safe (pre ++ body ++ post) (span_of f s e)) /\
  (forall ts1 s1 t1 e1 ts2 s2 t2 e2 ts3, ts = ts1 ++ (s1, t1, e1) :: ts2 ++ (s2, t2, e2) :: ts3 -> snippet_safe (pre ++ body ++ post) (span_of f s1 e2)) /\
  (forall s x e, er = Some (s, x, e) -> snippet_safe (pre ++ body ++ post) (span_of f s e)).
Proof.
  intros E. pose proof (lex_block_spans (pre ++ body ++ post) post fuel attr pre body eq_refl) as [H1 H2]. rewrite E in H1, H2. cbn [fst snd] in H1, H2.
  assert (K : forall a0 s e b, tok_span_ok (pre ++ body ++ post) a0 s e b -> snippet_safe (pre ++ body ++ post) (span_of f s e)).
  { intros a0 s e b (p1 & p2 & rest & Et & _ & _ & -> & -> & G). rewrite Et. apply snippet_safe_between. exact G. }
  split; [|split].
  - intros s t e Hin. destruct (toks_from_in _ _ _ _ _ _ H1 Hin) as (a0 & b & _ & Hok). eapply K; exact Hok.
  - intros ts1 s1 t1 e1 ts2 s2 t2 e2 ts3 Ets. destruct (toks_from_pair _ _ _ _ _ _ _ _ _ _ _ _ H1 Ets) as (a0 & b & Hok). eapply K; exact Hok.
  - intros s x e ->. destruct H2 as (a0 & b & _ & Hok). eapply K; exact Hok.
Qed.

(* the premises are met by a CRLF text whose doc comment is empty (its token starts on the carriage return) *)
Example crlf_doc_comment_is_safe :
  let text := [47; 47; 47; 13; 10; 109; 13; 10]%N in
  exists ts, lex_block 20 false (pos []) text = (ts, None, false) /\ length ts = 2 /\
             forall s t e, In (s, t, e) ts -> snippet_safe text (span_of [] s e).
Proof.
  cbv zeta. eexists. split; [vm_compute; reflexivity|]. split; [reflexivity|].
  intros s t e Hin.
  pose proof (lexed_spans_render_safely [] [] [47; 47; 47; 13; 10; 109; 13; 10]%N [] 20 false _ None false eq_refl) as [H _].
  rewrite app_nil_r in H. apply (H s t e). exact Hin.
Qed.
