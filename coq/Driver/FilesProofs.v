From Coq Require Import List Bool NArith Arith Lia.
From SliceV Require Import Doc.Comment Driver.Files.
Import ListNotations.
Local Open Scope nat_scope.

Lemma known_iff l x : known l x = true <-> In (fp_id x) (map fp_id l).
Proof.
  unfold known. rewrite existsb_exists. split.
  - intros (y & Hy & E). apply Nat.eqb_eq in E. rewrite <- E. apply in_map. exact Hy.
  - intros H. apply in_map_iff in H as (y & E & Hy). exists y. split; [exact Hy|apply Nat.eqb_eq; exact E].
Qed.

(* ------------------------------------------------------------------------------------------------ de-duplication *)
(* specification: keep the first spelling of every file, report every later one *)
Fixpoint firsts (seen : list nat) (l : list fpath) : list fpath :=
  match l with [] => [] | x :: r => if existsb (Nat.eqb (fp_id x)) seen then firsts seen r else x :: firsts (fp_id x :: seen) r end.
Fixpoint repeats (seen : list nat) (l : list fpath) : list fdiag :=
  match l with [] => [] | x :: r => if existsb (Nat.eqb (fp_id x)) seen then DDuplicate (fp_path x) :: repeats seen r else repeats (fp_id x :: seen) r end.
Lemma existsb_eqb_in n l : existsb (Nat.eqb n) l = true <-> In n l.
Proof. rewrite existsb_exists. split; [intros (y & Hy & E); apply Nat.eqb_eq in E; subst; exact Hy|intros H; exists n; split; [exact H|apply Nat.eqb_refl]]. Qed.
Lemma dedup_gen l : forall acc ds,
  fold_left (fun acc x => if known (fst acc) x then (fst acc, snd acc ++ [DDuplicate (fp_path x)]) else (fst acc ++ [x], snd acc)) l (acc, ds)
  = (acc ++ firsts (map fp_id acc) l, ds ++ repeats (map fp_id acc) l).
Proof.
  induction l as [|x l IH]; intros acc ds; cbn [fold_left firsts repeats fst snd]; [rewrite !app_nil_r; reflexivity|].
  assert (E : known acc x = existsb (Nat.eqb (fp_id x)) (map fp_id acc)).
  { apply eq_true_iff_eq. rewrite known_iff, existsb_eqb_in. tauto. }
  rewrite E. destruct (existsb (Nat.eqb (fp_id x)) (map fp_id acc)) eqn:K.
  - rewrite IH. rewrite <- app_assoc. reflexivity.
  - rewrite IH. rewrite map_app. cbn [map]. rewrite <- app_assoc. cbn [app].
    (* the set of identities seen is what matters, not its order *)
    assert (P : forall s1 s2 l0, (forall n, In n s1 <-> In n s2) -> firsts s1 l0 = firsts s2 l0 /\ repeats s1 l0 = repeats s2 l0).
    { clear. intros s1 s2 l0; revert s1 s2. induction l0 as [|y l0 IH]; intros s1 s2 H; cbn [firsts repeats]; [split; reflexivity|].
      assert (E : existsb (Nat.eqb (fp_id y)) s1 = existsb (Nat.eqb (fp_id y)) s2) by (apply eq_true_iff_eq; rewrite !existsb_eqb_in; apply H).
      rewrite E. destruct (existsb (Nat.eqb (fp_id y)) s2).
      - destruct (IH s1 s2 H) as [-> ->]. split; reflexivity.
      - destruct (IH (fp_id y :: s1) (fp_id y :: s2)) as [-> ->]; [intros n; cbn; rewrite H; tauto|split; reflexivity]. }
    destruct (P (map fp_id acc ++ [fp_id x]) (fp_id x :: map fp_id acc) l) as [-> ->]; [intros n; rewrite in_app_iff; cbn; tauto|reflexivity].
Qed.
Theorem dedup_spec l : dedup l = (firsts [] l, repeats [] l).
Proof. unfold dedup. rewrite dedup_gen. reflexivity. Qed.
Lemma firsts_nodup l : forall seen, NoDup (map fp_id (firsts seen l)) /\ (forall x, In x (firsts seen l) -> ~ In (fp_id x) seen /\ In x l).
Proof.
  induction l as [|x l IH]; intros seen; cbn [firsts]; [split; [constructor|intros x []]|].
  destruct (existsb (Nat.eqb (fp_id x)) seen) eqn:K.
  - destruct (IH seen) as [H1 H2]. split; [exact H1|]. intros y Hy. destruct (H2 y Hy). split; auto. right; auto.
  - destruct (IH (fp_id x :: seen)) as [H1 H2]. split.
    + cbn [map]. constructor; [|exact H1]. intros Hin. apply in_map_iff in Hin as (y & E & Hy). destruct (H2 y Hy) as [Hn _]. apply Hn. left. congruence.
    + intros y [<-|Hy].
      * split; [|left; reflexivity]. intros Hin. apply existsb_eqb_in in Hin. congruence.
      * destruct (H2 y Hy) as [Hn Hin]. split; [intros X; apply Hn; right; exact X|right; exact Hin].
Qed.
Lemma firsts_complete l : forall seen x, In x l -> In (fp_id x) seen \/ In (fp_id x) (map fp_id (firsts seen l)).
Proof.
  induction l as [|y l IH]; intros seen x Hin; [contradiction|]. cbn [firsts]. destruct (existsb (Nat.eqb (fp_id y)) seen) eqn:K.
  - destruct Hin as [->|Hin]; [left; apply existsb_eqb_in; exact K|apply IH; exact Hin].
  - destruct Hin as [->|Hin]; [right; left; reflexivity|]. destruct (IH (fp_id y :: seen) x Hin) as [[E|H]|H]; [right; left; exact E|left; exact H|right; right; exact H].
Qed.
Lemma repeats_count l : forall seen, length (firsts seen l) + length (repeats seen l) = length l.
Proof. induction l as [|x l IH]; intros seen; cbn [firsts repeats]; [reflexivity|]. destruct (existsb _ seen); cbn [length]; [specialize (IH seen)|specialize (IH (fp_id x :: seen))]; lia. Qed.

Lemma NoDup_app_ {A} (a b : list A) : NoDup a -> NoDup b -> (forall x, In x a -> In x b -> False) -> NoDup (a ++ b).
Proof.
  induction a as [|x a IH]; intros Ha Hb H; cbn [app]; [exact Hb|]. inversion Ha as [|? ? Hn Ha']; subst. constructor.
  - rewrite in_app_iff. intros [X|X]; [exact (Hn X)|exact (H x (or_introl eq_refl) X)].
  - apply IH; auto. intros y Hy. apply H. right. exact Hy.
Qed.
(* ------------------------------------------------------------------------------------------------ the compiled set *)
Lemma merge_gen refs : forall acc, fold_left (fun acc x => if known acc x then acc else acc ++ [x]) refs acc = acc ++ firsts (map fp_id acc) refs.
Proof.
  induction refs as [|x l IH]; intros acc; cbn [fold_left firsts]; [rewrite app_nil_r; reflexivity|].
  assert (E : known acc x = existsb (Nat.eqb (fp_id x)) (map fp_id acc)) by (apply eq_true_iff_eq; rewrite known_iff, existsb_eqb_in; tauto).
  rewrite E. destruct (existsb (Nat.eqb (fp_id x)) (map fp_id acc)) eqn:K; rewrite IH; [reflexivity|].
  rewrite map_app. cbn [map]. rewrite <- app_assoc. cbn [app]. f_equal. f_equal.
  assert (P : forall s1 s2 l0, (forall n, In n s1 <-> In n s2) -> firsts s1 l0 = firsts s2 l0).
  { clear. intros s1 s2 l0; revert s1 s2. induction l0 as [|y l0 IH]; intros s1 s2 H; cbn [firsts]; [reflexivity|].
    assert (E : existsb (Nat.eqb (fp_id y)) s1 = existsb (Nat.eqb (fp_id y)) s2) by (apply eq_true_iff_eq; rewrite !existsb_eqb_in; apply H).
    rewrite E. destruct (existsb (Nat.eqb (fp_id y)) s2); [apply IH; exact H|f_equal; apply IH; intros n; cbn; rewrite H; tauto]. }
  apply P. intros n. rewrite in_app_iff. cbn. tauto.
Qed.
Lemma read_gen fs all : forall acc ds,
  fold_left (fun acc x => if readable fs (fp_path x) then (fst acc ++ [x], snd acc) else (fst acc, snd acc ++ [DUnreadable (fp_path x)])) all (acc, ds)
  = (acc ++ filter (fun x => readable fs (fp_path x)) all, ds ++ map (fun x => DUnreadable (fp_path x)) (filter (fun x => negb (readable fs (fp_path x))) all)).
Proof.
  induction all as [|x l IH]; intros acc ds; cbn [fold_left filter map fst snd]; [rewrite !app_nil_r; reflexivity|].
  destruct (readable fs (fp_path x)); cbn [negb map]; rewrite IH, <- app_assoc; reflexivity.
Qed.
(* the compiled files: the listed sources (first spelling of each), then the reference files not among them (first spelling
   of each), minus what cannot be read -- in that order *)
Theorem resolve_files_spec fuel fs sources references :
  let src := firsts [] (fst (find_slice_files fuel fs sources true)) in
  let refs := firsts (map fp_id src) (firsts [] (fst (find_slice_files fuel fs references false))) in
  rs_files (resolve_files fuel fs sources references) = filter (fun x => readable fs (fp_path x)) (src ++ refs).
Proof.
  cbn zeta. unfold resolve_files.
  destruct (find_slice_files fuel fs sources true) as [s d1]. destruct (find_slice_files fuel fs references false) as [r d3].
  rewrite !dedup_spec. cbn [fst snd]. rewrite merge_gen. rewrite read_gen. cbn [rs_files app]. reflexivity.
Qed.
(* each file is compiled once *)
Theorem compiled_once fuel fs sources references : NoDup (map fp_id (rs_files (resolve_files fuel fs sources references))).
Proof.
  rewrite resolve_files_spec. set (s := firsts [] _). set (r := firsts (map fp_id s) _).
  assert (N : NoDup (map fp_id (s ++ r))).
  { rewrite map_app. apply NoDup_app_; [apply firsts_nodup|apply firsts_nodup|].
    intros n Hs Hr. apply in_map_iff in Hr as (y & <- & Hy). destruct (proj2 (firsts_nodup _ (map fp_id s)) y Hy) as [Hn _]. exact (Hn Hs). }
  clear -N. induction (s ++ r) as [|x l IH]; cbn [filter map]; [constructor|]. cbn [map] in N. inversion N as [|? ? Hn N']; subst.
  destruct (readable fs (fp_path x)); [|apply IH; exact N']. cbn [map]. constructor; [|apply IH; exact N'].
  intros H. apply Hn. apply in_map_iff in H as (y & E & Hy). apply filter_In in Hy as [Hy _]. rewrite <- E. apply in_map. exact Hy.
Qed.

(* ------------------------------------------------------------------------------------------------ roles, priority, errors *)
Definition first_pass (fuel : nat) (fs : fsys) (source : bool) (acc : list path * list fdiag) (p : path) : list path * list fdiag :=
  match kind_of fs p with
  | KNone => (fst acc, snd acc ++ [DNotFound p])
  | KFile => if is_slice_file p then (fst acc ++ [p], snd acc) else (fst acc, snd acc ++ [DNotSlice p])
  | KDir => if source then (fst acc, snd acc ++ [DDirAsSource p])
            else let r := walk fuel [] fs p in (fst acc ++ fst r, snd acc ++ snd r)
  end.
Definition listed_defect (fs : fsys) (source : bool) (p : path) : option fdiag :=
  match kind_of fs p with
  | KNone => Some (DNotFound p)
  | KFile => if is_slice_file p then None else Some (DNotSlice p)
  | KDir => if source then Some (DDirAsSource p) else None
  end.
Lemma first_pass_diags fuel fs source paths : forall acc, exists found ds,
  fold_left (first_pass fuel fs source) paths acc = (found, snd acc ++ ds) /\
  forall p d, In p paths -> listed_defect fs source p = Some d -> In d ds.
Proof.
  induction paths as [|p paths IH]; intros acc; cbn [fold_left].
  - exists (fst acc), []. rewrite app_nil_r. split; [destruct acc; reflexivity|intros ? ? []].
  - destruct (IH (first_pass fuel fs source acc p)) as (found & ds & E & H). rewrite E.
    unfold first_pass, listed_defect in *. destruct (kind_of fs p) eqn:K; cbn [fst snd] in *.
    + exists found, (DNotFound p :: ds). rewrite <- app_assoc. split; [reflexivity|]. intros q d [<-|Hq] Hd; [rewrite K in Hd; inversion Hd; left; reflexivity|right; eapply H; eauto].
    + destruct (is_slice_file p) eqn:S; cbn [fst snd] in *.
      * exists found, ds. split; [reflexivity|]. intros q d [<-|Hq] Hd; [rewrite K, S in Hd; discriminate|eapply H; eauto].
      * exists found, (DNotSlice p :: ds). rewrite <- app_assoc. split; [reflexivity|]. intros q d [<-|Hq] Hd; [rewrite K, S in Hd; inversion Hd; left; reflexivity|right; eapply H; eauto].
    + destruct source; cbn [fst snd] in *.
      * exists found, (DDirAsSource p :: ds). rewrite <- app_assoc. split; [reflexivity|]. intros q d [<-|Hq] Hd; [rewrite K in Hd; inversion Hd; left; reflexivity|right; eapply H; eauto].
      * exists found, (snd (walk fuel [] fs p) ++ ds). rewrite <- app_assoc. split; [reflexivity|]. intros q d [<-|Hq] Hd; [rewrite K in Hd; discriminate|apply in_app_iff; right; eapply H; eauto].
Qed.
Lemma canon_pass fs source found : forall acc ds, exists fps ds',
  fold_left (fun acc p => match canon_of fs p with
                          | Some id => (fst acc ++ [{| fp_path := p; fp_id := id; fp_source := source |}], snd acc)
                          | None => (fst acc, snd acc ++ [DCanon p]) end) found (acc, ds) = (acc ++ fps, ds ++ ds') /\
  Forall (fun x => fp_source x = source) fps.
Proof.
  induction found as [|p l IH]; intros acc ds; cbn [fold_left fst snd].
  - exists [], []. rewrite !app_nil_r. split; [reflexivity|constructor].
  - destruct (canon_of fs p) as [id|].
    + destruct (IH (acc ++ [{| fp_path := p; fp_id := id; fp_source := source |}]) ds) as (fps & ds' & E & F). rewrite E.
      exists ({| fp_path := p; fp_id := id; fp_source := source |} :: fps), ds'. rewrite <- app_assoc. split; [reflexivity|constructor; [reflexivity|exact F]].
    + destruct (IH acc (ds ++ [DCanon p])) as (fps & ds' & E & F). rewrite E. exists fps, (DCanon p :: ds'). rewrite <- app_assoc. split; [reflexivity|exact F].
Qed.
(* a listed path that does not exist, is a file without the .slice extension, or (among the sources) is a directory is
   reported as an error, and then nothing is parsed *)
Theorem listed_defects_reported fuel fs paths source p d : In p paths -> listed_defect fs source p = Some d ->
  In d (snd (find_slice_files fuel fs paths source)) /\ is_error_fdiag d = true.
Proof.
  intros Hp Hd. split.
  - unfold find_slice_files. fold (first_pass fuel fs source).
    destruct (first_pass_diags fuel fs source paths ([], [])) as (found & ds & E & H). rewrite E. cbn [snd app].
    destruct (canon_pass fs source found [] ds) as (fps & ds' & E2 & _). rewrite E2. cbn [snd]. apply in_app_iff. left. eapply H; eauto.
  - unfold listed_defect in Hd. destruct (kind_of fs p); [inversion Hd; reflexivity|destruct (is_slice_file p); inversion Hd; reflexivity|destruct source; inversion Hd; reflexivity].
Qed.
Theorem errors_stop_parsing fuel fs sources references d :
  In d (snd (find_slice_files fuel fs sources true)) \/ In d (snd (find_slice_files fuel fs references false)) -> is_error_fdiag d = true ->
  parses (resolve_files fuel fs sources references) = false.
Proof.
  intros Hin He. unfold parses. apply negb_false_iff. apply existsb_exists. exists d. split; [|exact He].
  unfold resolve_files. destruct (find_slice_files fuel fs sources true) as [s d1]. destruct (dedup s) as [s' d2].
  destruct (find_slice_files fuel fs references false) as [r d3]. destruct (dedup r) as [r' d4]. cbn [snd] in Hin.
  destruct (fold_left _ (fold_left _ r' s') ([], [])) as [files d5]. cbn [rs_diags]. rewrite !in_app_iff. tauto.
Qed.
(* roles: what was found through the source list is a source, what was found through the reference list is a reference *)
Theorem roles fuel fs paths source : Forall (fun x => fp_source x = source) (fst (find_slice_files fuel fs paths source)).
Proof.
  unfold find_slice_files. fold (first_pass fuel fs source). destruct (fold_left (first_pass fuel fs source) paths ([], [])) as [found ds].
  destruct (canon_pass fs source found [] ds) as (fps & ds' & E & F). rewrite E. exact F.
Qed.
(* a file listed as a source and also reachable as a reference is compiled as a source: no reference entry shares its identity *)
Theorem source_wins seen l x : In x (firsts seen l) -> ~ In (fp_id x) seen.
Proof. intros H. exact (proj1 (proj2 (firsts_nodup l seen) x H)). Qed.
(* repeats within one list: one DuplicateFile warning per repeated spelling, the first spelling is the one compiled *)
Theorem duplicates_reported l : length (repeats [] l) = length l - length (firsts [] l) /\
  Forall (fun d => exists x, In x l /\ d = DDuplicate (fp_path x)) (repeats [] l).
Proof.
  split; [pose proof (repeats_count l []); lia|].
  generalize (@nil nat). induction l as [|x l IH]; intros seen; cbn [repeats]; [constructor|].
  destruct (existsb _ seen).
  - constructor; [exists x; split; [left; reflexivity|reflexivity]|]. eapply Forall_impl; [|apply IH]. intros d (y & Hy & ->). exists y. split; [right; exact Hy|reflexivity].
  - eapply Forall_impl; [|apply IH]. intros d (y & Hy & ->). exists y. split; [right; exact Hy|reflexivity].
Qed.

(* ------------------------------------------------------------------------------------------------ the walk ends, loops or not *)
(* every identity the file system knows; a directory being searched has one of them *)
Definition known_ids (fs : fsys) : list nat := nodup Nat.eq_dec (map snd (fs_canon fs)).
Lemma assoc_in {A} (l : list (path * A)) p v : assoc l p = Some v -> In v (map snd l).
Proof. induction l as [|[k x] r IH]; cbn [assoc]; [discriminate|]. destruct (cstr_eqb k p); [intros E; inversion E; left; reflexivity|intros H; right; exact (IH H)]. Qed.
Lemma fold_walk_ext (f g : path -> list path * list fdiag) cs : (forall c, In c cs -> f c = g c) -> forall acc,
  fold_left (fun acc c => let r := f c in (fst acc ++ fst r, snd acc ++ snd r)) cs acc = fold_left (fun acc c => let r := g c in (fst acc ++ fst r, snd acc ++ snd r)) cs acc.
Proof.
  induction cs as [|c r IH]; intros H acc; cbn [fold_left]; [reflexivity|]. rewrite (H c (or_introl eq_refl)). apply IH. intros x Hx. apply H. right. exact Hx.
Qed.
(* whatever the links: with more fuel than there are identities not yet on the path, the result does not depend on the fuel *)
Theorem walk_fuel_independent fs : forall f1 f2 anc p, NoDup anc -> incl anc (known_ids fs) ->
  length (known_ids fs) - length anc < f1 -> length (known_ids fs) - length anc < f2 -> walk f1 anc fs p = walk f2 anc fs p.
Proof.
  induction f1 as [|f1 IH]; intros f2 anc p Hn Hi H1 H2; [lia|]. destruct f2 as [|f2]; [lia|]. cbn [walk].
  destruct (kind_of fs p); try reflexivity. destruct (canon_of fs p) as [id|] eqn:C; [|reflexivity].
  destruct (existsb (Nat.eqb id) anc) eqn:E; [reflexivity|]. destruct (children_of fs p) as [cs|]; [|reflexivity].
  assert (Nin : ~ In id anc) by (intros X; assert (existsb (Nat.eqb id) anc = true) by (apply existsb_exists; exists id; split; [exact X|apply Nat.eqb_refl]); congruence).
  assert (Kid : In id (known_ids fs)) by (unfold known_ids; apply nodup_In; unfold canon_of in C; exact (assoc_in _ _ _ C)).
  assert (Hn' : NoDup (id :: anc)) by (constructor; assumption).
  assert (Hi' : incl (id :: anc) (known_ids fs)) by (intros x [<-|Hx]; [exact Kid|exact (Hi x Hx)]).
  pose proof (NoDup_incl_length Hn' Hi') as L. cbn [length] in L.
  apply fold_walk_ext. intros c _. apply IH; try assumption; cbn [length]; lia.
Qed.
Corollary walk_terminates fs k p : walk (S (length (known_ids fs)) + k) [] fs p = walk (S (length (known_ids fs))) [] fs p.
Proof. apply walk_fuel_independent; [constructor|intros x []|cbn; lia|cbn; lia]. Qed.
(* a directory reached again from within itself contributes nothing: no file is found twice through a loop *)
Lemma walk_skips_ancestor fs fuel anc p id : kind_of fs p = KDir -> canon_of fs p = Some id -> In id anc -> walk (S fuel) anc fs p = ([], []).
Proof.
  intros K C H. cbn [walk]. rewrite K, C. assert (E : existsb (Nat.eqb id) anc = true) by (apply existsb_exists; exists id; split; [exact H|apply Nat.eqb_refl]). rewrite E. reflexivity.
Qed.
