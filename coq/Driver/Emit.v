(* Diagnostic emission (C14, and the snippet/underline part of C09): diagnostic_emitter.rs and SliceFile::get_snippet /
   get_highlight (slice_file.rs), with colours disabled; serde_json's string escaping.  Strings are code-point lists.
   Model only. *)
From Coq Require Import List Bool Arith NArith.
From SliceV Require Import Prep.PrepCore Sema.Lints.
Import ListNotations.

Record span := { sp_file : str; sp_srow : nat; sp_scol : nat; sp_erow : nat; sp_ecol : nat }.
Record note := { n_msg : str; n_span : option span }.
Record ediag := { e_level : level; e_code : str; e_msg : str; e_span : option span; e_notes : list note }.
Definition shown (d : ediag) : bool := match e_level d with LAllowed => false | _ => true end.

(* ---------- text helpers ---------- *)
Definition s (l : list N) : str := l.
Fixpoint dec_digits (fuel n : nat) (acc : str) : str :=
  match fuel with O => acc | S f =>
    let d := N.of_nat (n mod 10) in
    if Nat.ltb n 10 then (48 + d)%N :: acc else dec_digits f (n / 10) ((48 + d)%N :: acc)
  end.
Definition dec (n : nat) : str := dec_digits (S n) n [].
Definition q : N := 34%N.  (* the double quote *)
Definition bsl : N := 92%N.
Definition hex_digit (n : N) : N := if (n <? 10)%N then (48 + n)%N else (87 + n)%N.
(* serde_json: the double quote and the backslash are escaped; control characters as \b \t \n \f \r or \u00XX; everything else raw *)
Definition escape_char (c : N) : str :=
  if (c =? 34)%N then [bsl; 34%N]
  else if (c =? 92)%N then [bsl; bsl]
  else if (c =? 8)%N then [bsl; 98%N]
  else if (c =? 9)%N then [bsl; 116%N]
  else if (c =? 10)%N then [bsl; 110%N]
  else if (c =? 12)%N then [bsl; 102%N]
  else if (c =? 13)%N then [bsl; 114%N]
  else if (c <? 32)%N then [bsl; 117%N; 48%N; 48%N; hex_digit (c / 16); hex_digit (c mod 16)]
  else [c].
Definition json_string (t : str) : str := q :: flat_map escape_char t ++ [q].
(* the inverse of the escaping above: Some text, or None when the input is not a body produced by it *)
Definition unhex (c : N) : option N :=
  if ((48 <=? c) && (c <=? 57))%N then Some (c - 48)%N else if ((97 <=? c) && (c <=? 102))%N then Some (c - 87)%N else None.
Fixpoint unescape (fuel : nat) (t : str) : option str :=
  match fuel with O => None | S f =>
  match t with
  | [] => Some []
  | c :: r =>
    if (c =? 92)%N then
      match r with
      | e :: r' =>
        if (e =? 34)%N then option_map (cons 34%N) (unescape f r')
        else if (e =? 92)%N then option_map (cons 92%N) (unescape f r')
        else if (e =? 98)%N then option_map (cons 8%N) (unescape f r')
        else if (e =? 116)%N then option_map (cons 9%N) (unescape f r')
        else if (e =? 110)%N then option_map (cons 10%N) (unescape f r')
        else if (e =? 102)%N then option_map (cons 12%N) (unescape f r')
        else if (e =? 114)%N then option_map (cons 13%N) (unescape f r')
        else if (e =? 117)%N then
          match r' with
          | a :: b :: x :: y :: r'' =>
            match unhex x, unhex y with
            | Some hx, Some hy => if ((a =? 48) && (b =? 48))%N then option_map (cons (hx * 16 + hy)%N) (unescape f r'') else None
            | _, _ => None end
          | _ => None end
        else None
      | [] => None end
    else if ((c =? 34) || (c <? 32))%N then None
    else option_map (cons c) (unescape f r)
  end end.


(* ASCII literals *)
Definition k_message : str := [109;101;115;115;97;103;101]%N.
Definition k_severity : str := [115;101;118;101;114;105;116;121]%N.
Definition k_span : str := [115;112;97;110]%N.
Definition k_notes : str := [110;111;116;101;115]%N.
Definition k_error_code : str := [101;114;114;111;114;95;99;111;100;101]%N.
Definition k_start : str := [115;116;97;114;116]%N.
Definition k_end : str := [101;110;100]%N.
Definition k_row : str := [114;111;119]%N.
Definition k_col : str := [99;111;108]%N.
Definition k_file : str := [102;105;108;101]%N.
Definition k_null : str := [110;117;108;108]%N.
Definition k_error : str := [101;114;114;111;114]%N.
Definition k_warning : str := [119;97;114;110;105;110;103]%N.
Definition k_note : str := [110;111;116;101]%N.
Definition colon : N := 58%N. Definition comma_c : N := 44%N.
Definition key (k : str) : str := json_string k ++ [colon].

Definition json_loc (r c : nat) : str := [123%N] ++ key k_row ++ dec r ++ [comma_c] ++ key k_col ++ dec c ++ [125%N].
Definition json_span (sp : option span) : str :=
  match sp with
  | None => k_null
  | Some x => [123%N] ++ key k_start ++ json_loc (sp_srow x) (sp_scol x) ++ [comma_c] ++ key k_end ++ json_loc (sp_erow x) (sp_ecol x)
              ++ [comma_c] ++ key k_file ++ json_string (sp_file x) ++ [125%N]
  end.
Fixpoint join (sep : str) (l : list str) : str :=
  match l with [] => [] | [x] => x | x :: r => x ++ sep ++ join sep r end.
Definition json_note (n : note) : str := [123%N] ++ key k_message ++ json_string (n_msg n) ++ [comma_c] ++ key k_span ++ json_span (n_span n) ++ [125%N].
(* one diagnostic = one JSON object with exactly these five keys, followed by a newline *)
Definition json_line (d : ediag) : str :=
  [123%N] ++ key k_message ++ json_string (e_msg d) ++ [comma_c] ++
  key k_severity ++ json_string (match e_level d with LError => k_error | _ => k_warning end) ++ [comma_c] ++
  key k_span ++ json_span (e_span d) ++ [comma_c] ++
  key k_notes ++ [91%N] ++ join [comma_c] (map json_note (e_notes d)) ++ [93%N] ++ [comma_c] ++
  key k_error_code ++ json_string (e_code d) ++ [125%N] ++ [10%N].
(* the emission loop: Allowed diagnostics are skipped (`continue`) *)
Fixpoint emit_json (ds : list ediag) : list str :=
  match ds with
  | [] => []
  | d :: r => match e_level d with LAllowed => emit_json r | _ => json_line d :: emit_json r end
  end.

(* ---------- human format, colours disabled ---------- *)
Definition tab : N := 9%N. Definition sp_c : N := 32%N.
Definition expand_tabs (l : str) : str := flat_map (fun c => if (c =? tab)%N then [sp_c; sp_c; sp_c; sp_c] else [c]) l.
Definition spaces (n : nat) : str := repeat sp_c n.
(* str::lines: split at '\n'; a '\r' directly before the '\n' belongs to the line ending; no empty last line *)
Fixpoint lines_aux (t : str) (cur : str) : list str :=
  match t with
  | [] => match cur with [] => [] | _ => [rev cur] end
  | c :: r => if (c =? 10)%N then rev (match cur with x :: cur' => if (x =? 13)%N then cur' else cur | [] => cur end) :: lines_aux r []
              else lines_aux r (c :: cur)
  end.
Definition text_lines (t : str) : list str := lines_aux t [].
(* get_highlight *)
Definition display_width (l : str) : nat := fold_left (fun n c => if (c =? tab)%N then n + 4 else n + 1) l 0.
Definition highlight (line : str) (hs he : nat) : str :=
  let ws := 1 + display_width (firstn hs line) in
  if Nat.eqb hs he then spaces (ws - 1) ++ [47%N; 92%N]
  else spaces ws ++ repeat 45%N (display_width (firstn (he - hs) (skipn hs line))).
Definition pad_right (t : str) (w : nat) : str := t ++ spaces (w - length t).
(* get_snippet *)
Definition snippet (text : str) (x : span) : str :=
  let w := length (dec (sp_erow x)) + 1 in
  let blank := spaces w ++ [124%N] in
  let ls := text_lines text in
  blank ++ [10%N] ++
  flat_map (fun i =>
    match nth_error ls i with
    | None => []
    | Some line =>
      let n := S i in
      let hs := if Nat.eqb n (sp_srow x) then sp_scol x - 1 else 0 in
      let he := if Nat.eqb n (sp_erow x) then sp_ecol x - 1 else length line in
      pad_right (dec n) w ++ [124%N; sp_c] ++ expand_tabs line ++ [10%N] ++ blank ++ highlight line hs he ++ [10%N]
    end) (seq (sp_srow x - 1) (sp_erow x - (sp_srow x - 1))) ++
  blank.
Definition arrow : str := [32;45;45;62;32]%N.
Definition emit_snippet (files : list (str * str)) (x : span) : str :=
  arrow ++ sp_file x ++ [colon] ++ dec (sp_srow x) ++ [colon] ++ dec (sp_scol x) ++ [10%N] ++
  match find (fun f => str_eqb (fst f) (sp_file x)) files with
  | Some f => snippet (snd f) x ++ [10%N]
  | None => []     (* `unwrap()` on a missing file: outside the model, every span names a compiled file *)
  end.
Definition human_diag (files : list (str * str)) (d : ediag) : str :=
  (match e_level d with LError => k_error | _ => k_warning end) ++ [sp_c; 91%N] ++ e_code d ++ [93%N; colon; sp_c] ++ e_msg d ++ [10%N] ++
  (match e_span d with Some x => emit_snippet files x | None => [] end) ++
  flat_map (fun n => k_note ++ [colon; sp_c] ++ n_msg n ++ [10%N] ++ match n_span n with Some x => emit_snippet files x | None => [] end) (e_notes d).
Fixpoint emit_human (files : list (str * str)) (ds : list ediag) : list str :=
  match ds with
  | [] => []
  | d :: r => match e_level d with LAllowed => emit_human files r | _ => human_diag files d :: emit_human files r end
  end.
(* get_totals / emit_totals *)
Definition count_level (l : level) (ds : list ediag) : nat :=
  length (filter (fun d => match e_level d, l with LError, LError | LWarning, LWarning | LAllowed, LAllowed => true | _, _ => false end) ds).
Definition get_totals (ds : list ediag) : nat * nat := (count_level LWarning ds, count_level LError ds).
