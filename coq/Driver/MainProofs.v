From Coq Require Import List Bool NArith ZArith Arith Lia.
From SliceV Require Import Base.Bytes Codec.Wire Codec.Reply Codec.PrefixProofs Sema.Lints Sema.LintsProofs Driver.Main.
Import ListNotations.
Local Open Scope nat_scope.

Lemma has_errors_iff ds : has_errors ds = true <-> exists d, In d ds /\ d_lint d = None.
Proof.
  unfold has_errors. rewrite existsb_exists. split; intros (d & Hd & H); exists d; split; auto; unfold is_error in *; destruct (d_lint d); auto; discriminate.
Qed.
(* the number of error-level diagnostics after suppression = the number of error diagnostics before it *)
Lemma error_total_is_count c ds : snd (totals c ds) = length (filter is_error ds).
Proof.
  unfold totals. cbn [snd]. induction ds as [|d ds IH]; [reflexivity|]. cbn [filter]. unfold is_error at 1.
  destruct (d_lint d) as [code|] eqn:E.
  - pose proof (lints_never_errors c d code E). destruct (level_of c d); try congruence; exact IH.
  - rewrite errors_never_silenced by exact E. cbn [length]. f_equal. exact IH.
Qed.
Lemma no_errors_count ds : has_errors ds = false <-> length (filter is_error ds) = 0.
Proof.
  unfold has_errors. induction ds as [|d ds IH]; cbn [existsb filter]; [tauto|]. destruct (is_error d); cbn [orb length]; [split; [discriminate|lia]|exact IH].
Qed.

(* C07: generators run exactly after an error-free compilation without --dry-run; lints (warnings), whatever their number and
   whether suppressed or not, never prevent generation *)
Theorem generation_iff c : generation_runs c = true <-> (forall d, In d (rc_diags c) -> d_lint d <> None) /\ rc_dry_run c = false.
Proof.
  unfold generation_runs. rewrite andb_true_iff, !negb_true_iff. split; intros [H1 H2]; split; auto.
  - intros d Hd E. assert (has_errors (rc_diags c) = true) by (apply has_errors_iff; eauto). congruence.
  - destruct (has_errors (rc_diags c)) eqn:E; [|reflexivity]. apply has_errors_iff in E as (d & Hd & E). exfalso. exact (H1 d Hd E).
Qed.
Theorem nothing_started_otherwise c : generation_runs c = false -> gen_results c = [].
Proof. intros H. unfold gen_results. rewrite H. reflexivity. Qed.
Theorem generation_independent_of_suppression c ctx' :
  generation_runs {| rc_diags := rc_diags c; rc_ctx := ctx'; rc_dry_run := rc_dry_run c; rc_generators := rc_generators c; rc_fs := rc_fs c |} = generation_runs c.
Proof. reflexivity. Qed.
(* the exit status is non-zero exactly when an error was reported: by compilation, or by a generator that failed or whose
   file could not be written *)
Theorem exit_status_iff c : exit_status c <> 0 <->
  has_errors (rc_diags c) = true \/ (generation_runs c = true /\ exists r, In r (gen_results c) /\ gen_errors r <> 0).
Proof.
  unfold exit_status, error_count. rewrite error_total_is_count.
  assert (S : forall rs, fold_right (fun r n => gen_errors r + n) 0 rs <> 0 <-> exists r, In r rs /\ gen_errors r <> 0).
  { induction rs as [|r rs IH]; cbn [fold_right In]; [split; [lia|intros (r & [] & _)]|].
    split.
    - intros H. destruct (Nat.eq_dec (gen_errors r) 0) as [E|E]; [|exists r; auto]. rewrite E in H. cbn in H. apply IH in H as (r' & Hin & Hr). exists r'. auto.
    - intros (r' & [<-|Hin] & Hr); [lia|]. assert (fold_right (fun r n => gen_errors r + n) 0 rs <> 0) by (apply IH; eauto). lia. }
  destruct (Nat.eqb_spec (length (filter is_error (rc_diags c)) + fold_right (fun r n => gen_errors r + n) 0 (gen_results c)) 0) as [E|E].
  - split; [congruence|]. intros [H|(Hg & H)].
    + destruct (has_errors (rc_diags c)) eqn:HE; [|discriminate]. assert (length (filter is_error (rc_diags c)) <> 0) by (intros X; apply no_errors_count in X; congruence). lia.
    + apply S in H. lia.
  - split; [|discriminate]. intros _.
    destruct (has_errors (rc_diags c)) eqn:HE; [left; reflexivity|right].
    apply no_errors_count in HE. assert (F : fold_right (fun r n => gen_errors r + n) 0 (gen_results c) <> 0) by lia.
    split.
    + unfold gen_results in F. destruct (generation_runs c); [reflexivity|]. cbn in F. congruence.
    + apply S. exact F.
Qed.

Lemma nth_firstn_ {A} (l : list A) : forall i j, j < i -> nth_error (firstn i l) j = nth_error l j.
Proof. induction l as [|x l IH]; intros [|i] [|j] H; cbn; try reflexivity; try lia. apply IH. lia. Qed.
Lemma nth_skipn_ {A} (l : list A) : forall n k, nth_error (skipn n l) k = nth_error l (n + k).
Proof. induction l as [|x l IH]; intros [|n] k; cbn; try reflexivity; [destruct k; reflexivity|apply IH]. Qed.
(* C18: every generator is handled on its own: the i-th result depends on the i-th generator only (so the others still run and
   are honoured whatever one of them does), in the order given *)
Theorem generators_independent c : generation_runs c = true -> gen_results c = map (run_generator (rc_fs c)) (rc_generators c).
Proof. intros H. unfold gen_results. rewrite H. reflexivity. Qed.
Theorem other_generators_unaffected fs gs i b : forall j, j <> i ->
  nth_error (map (run_generator fs) (firstn i gs ++ b :: skipn (S i) gs)) j = nth_error (map (run_generator fs) gs) j \/ length gs <= i.
Proof.
  intros j Hj. destruct (Nat.le_gt_cases (length gs) i) as [Hle|Hlt]; [right; exact Hle|left].
  rewrite !nth_error_map. f_equal.
  destruct (Nat.lt_ge_cases j i).
  - rewrite nth_error_app1 by (rewrite firstn_length; lia). rewrite nth_firstn_ by lia. reflexivity.
  - rewrite nth_error_app2 by (rewrite firstn_length; lia). rewrite firstn_length, Nat.min_l by lia.
    destruct (j - i) as [|k] eqn:E; [lia|]. cbn [nth_error]. rewrite nth_skipn_. f_equal. lia.
Qed.
(* a generator that fails in any way yields exactly one error for it, writes nothing and prints nothing *)
Theorem failing_generator_reported fs b r : r = run_generator fs b -> gr_error r <> None -> gr_files r = [] /\ gr_messages r = [] /\ gen_errors r = 1.
Proof.
  intros -> H. unfold run_generator in *. destruct b as [|[|] [|] [c|] out]; try (repeat split; reflexivity).
  destruct (c =? 0)%Z; [|repeat split; reflexivity]. destruct (dec_reply out) as [[files diags] rest|e]; [cbn in H; congruence|repeat split; reflexivity].
Qed.
(* what makes a generator succeed: it started, took the request, kept stderr empty, exited with status 0 and its output decodes;
   only then are files written, and exactly the decoded ones, in order *)
Theorem files_only_from_decoded_reply fs b : gr_files (run_generator fs b) <> [] ->
  exists out files diags rest, b = BRuns true false (Some 0%Z) out /\ dec_reply out = DOk (files, diags) rest /\
    gr_files (run_generator fs b) = map (fun f => (f, fs f)) files.
Proof.
  unfold run_generator. destruct b as [|[|] [|] [c|] out]; cbn [failed gr_files]; try congruence.
  destruct (Z.eqb_spec c 0) as [->|]; cbn [failed gr_files]; [|congruence].
  destruct (dec_reply out) as [[files diags] rest|e] eqn:E; cbn [failed gr_files]; [|congruence].
  intros _. exists out, files, diags, rest. auto.
Qed.

(* a generator that exits normally after writing only a strict prefix of (the consumed part of) a valid reply is reported
   with a decoding error for that generator and nothing of the prefix is written: a reply is never half-trusted *)
Theorem truncated_reply_reported fs out v r k : dec_reply out = DOk v r -> k < length out - length r ->
  exists e, run_generator fs (BRuns true false (Some 0%Z) (firstn k out)) = failed (GeDecode e) /\ e <> EFuel.
Proof.
  intros H Hk. destruct (truncated_reply_rejected _ _ _ H k Hk) as (e & He & Hne). exists e. split; [|exact Hne].
  cbn [run_generator]. cbn. rewrite He. reflexivity.
Qed.

(* C07, stated from the side of what must not happen: a write attempt, a printed generator message or a generator error can
   only exist when compilation reported no error and --dry-run was not given *)
Theorem file_written_only_after_clean_compile c r : In r (gen_results c) ->
  has_errors (rc_diags c) = false /\ rc_dry_run c = false.
Proof.
  intros Hin. destruct (generation_runs c) eqn:G.
  - unfold generation_runs in G. apply andb_true_iff in G as [G1 G2]. apply negb_true_iff in G1. apply negb_true_iff in G2. auto.
  - rewrite (nothing_started_otherwise c G) in Hin. destruct Hin.
Qed.
(* one error anywhere among the diagnostics, whatever surrounds it: nothing is started and the status is 1 *)
Theorem one_error_stops_everything c d : In d (rc_diags c) -> d_lint d = None -> gen_results c = [] /\ exit_status c = 1.
Proof.
  intros Hin E. assert (HE : has_errors (rc_diags c) = true) by (apply has_errors_iff; eauto). split.
  - apply nothing_started_otherwise. unfold generation_runs. rewrite HE. reflexivity.
  - assert (X : exit_status c <> 0) by (apply exit_status_iff; auto). unfold exit_status in *. destruct (Nat.eqb (error_count c) 0); congruence.
Qed.
(* warnings only: the status is 0 under --dry-run, and otherwise 0 exactly when every generator and every write succeeded *)
Theorem warnings_only_status c : (forall d, In d (rc_diags c) -> d_lint d <> None) ->
  exit_status c = 0 <-> (rc_dry_run c = true \/ forall r, In r (gen_results c) -> gen_errors r = 0).
Proof.
  intros W. assert (HE : has_errors (rc_diags c) = false).
  { destruct (has_errors (rc_diags c)) eqn:X; [|reflexivity]. apply has_errors_iff in X as (d & Hd & E). exfalso. exact (W d Hd E). }
  pose proof (exit_status_iff c) as S. rewrite HE in S. split.
  - intros Z. destruct (rc_dry_run c) eqn:D; [left; reflexivity|right]. intros r Hr.
    destruct (Nat.eq_dec (gen_errors r) 0) as [|N]; [assumption|]. exfalso. apply (proj2 S); [|exact Z].
    right. split; [unfold generation_runs; rewrite HE, D; reflexivity|eauto].
  - intros H. destruct (Nat.eq_dec (exit_status c) 0) as [|N]; [assumption|]. exfalso. apply S in N as [N|(G & r & Hr & Nr)]; [discriminate|].
    destruct H as [D|H]; [|exact (Nr (H r Hr))]. unfold generation_runs in G. rewrite D in G. rewrite andb_false_r in G. discriminate.
Qed.
