(* Bytes, little-endian integer codecs and two's-complement casts.  Model only: no proofs here. *)
From Coq Require Import List NArith ZArith.
Import ListNotations.
Open Scope N_scope.

Definition byte := N.
Definition wf_bytes (bs : list byte) : Prop := Forall (fun b => b < 256) bs.
Definition wf_bytesb (bs : list byte) : bool := forallb (fun b => b <? 256) bs.

(* `to_le_bytes` of an n-byte unsigned integer; also models the truncating `as uN` casts,
   since only the low n bytes are produced. *)
Fixpoint le_bytes (n : nat) (v : N) : list byte :=
  match n with O => [] | S k => (v mod 256) :: le_bytes k (v / 256) end.
(* `from_le_bytes` *)
Fixpoint of_le (bs : list byte) : N :=
  match bs with [] => 0 | b :: r => b + 256 * of_le r end.

(* `z as uN` for an n-byte unsigned type and back (`u as iN`). *)
Definition twos (n : nat) (z : Z) : N := Z.to_N (z mod 2 ^ (8 * Z.of_nat n)).
Definition untwos (n : nat) (u : N) : Z :=
  if (u <? 2 ^ (8 * N.of_nat n - 1)) then Z.of_N u else (Z.of_N u - 2 ^ (8 * Z.of_nat n))%Z.

Definition take_exact {A} (n : nat) (l : list A) : option (list A * list A) :=
  if Nat.leb n (length l) then Some (firstn n l, skipn n l) else None.
