(* UTF-8 encoder / strict validator round trip. *)
From Coq Require Import List NArith ZArith Lia ZifyBool ZifyN ZifyNat Bool.
From SliceV Require Import Base.Bytes Base.Utf8.
Import ListNotations.
Ltac Zify.zify_post_hook ::= Z.div_mod_to_equations.
Open Scope N_scope.

Lemma encode_cp_nonempty c : encode_cp c <> [].
Proof. unfold encode_cp. repeat (destruct (_ <? _)); discriminate. Qed.
Lemma encode_cp_len c : length (encode_cp c) = len_utf8 c.
Proof. unfold encode_cp, len_utf8. repeat (destruct (_ <? _)); reflexivity. Qed.

Lemma decode_encode_cp c r : is_scalar c = true -> decode_cp (encode_cp c ++ r) = Some (c, r).
Proof.
  unfold is_scalar, encode_cp. intros Hs.
  destruct (N.ltb_spec c 128) as [H1|H1].
  { cbn. destruct (N.ltb_spec c 128); [reflexivity|lia]. }
  destruct (N.ltb_spec c 2048) as [H2|H2].
  { cbn [app decode_cp].
    destruct (N.ltb_spec (192 + c / 64) 128); [lia|].
    unfold inr, cont.
    replace ((194 <=? 192 + c / 64) && (192 + c / 64 <=? 223)) with true by lia.
    replace ((128 <=? 128 + c mod 64) && (128 + c mod 64 <=? 191)) with true by lia.
    f_equal. f_equal. lia. }
  destruct (N.ltb_spec c 65536) as [H3|H3].
  { cbn [app decode_cp].
    destruct (N.ltb_spec (224 + c / 4096) 128); [lia|].
    unfold inr, cont.
    replace ((194 <=? 224 + c / 4096) && (224 + c / 4096 <=? 223)) with false by lia.
    replace ((224 <=? 224 + c / 4096) && (224 + c / 4096 <=? 239)) with true by lia.
    destruct (N.eqb_spec (224 + c / 4096) 224) as [E0|E0];
    destruct (N.eqb_spec (224 + c / 4096) 237) as [E1|E1]; try lia.
    all: match goal with |- context [if ?b then _ else _] => replace b with true by lia end.
    all: f_equal; f_equal; lia. }
  { cbn [app decode_cp].
    destruct (N.ltb_spec (240 + c / 262144) 128); [lia|].
    unfold inr, cont.
    replace ((194 <=? 240 + c / 262144) && (240 + c / 262144 <=? 223)) with false by lia.
    replace ((224 <=? 240 + c / 262144) && (240 + c / 262144 <=? 239)) with false by lia.
    replace ((240 <=? 240 + c / 262144) && (240 + c / 262144 <=? 244)) with true by lia.
    destruct (N.eqb_spec (240 + c / 262144) 240) as [E0|E0];
    destruct (N.eqb_spec (240 + c / 262144) 244) as [E1|E1]; try lia.
    all: match goal with |- context [if ?b then _ else _] => replace b with true by lia end.
    all: f_equal; f_equal; lia. }
Qed.

Lemma decode_fuel_encode s fuel : Forall (fun c => is_scalar c = true) s -> (length (utf8_encode s) <= fuel)%nat ->
  utf8_decode_fuel fuel (utf8_encode s) = Some s.
Proof.
  intros H. revert fuel. induction H as [|c s Hc Hs IH]; intros fuel Hf.
  - destruct fuel; reflexivity.
  - cbn [utf8_encode flat_map] in *. fold (utf8_encode s) in *.
    assert (Hlen : (length (encode_cp c) >= 1)%nat).
    { pose proof (encode_cp_nonempty c). destruct (encode_cp c); [congruence|cbn; lia]. }
    rewrite app_length in Hf.
    destruct fuel as [|f]; [lia|].
    cbn [utf8_decode_fuel].
    destruct (encode_cp c ++ utf8_encode s) as [|b0 bs0] eqn:E.
    { apply (f_equal (@length _)) in E. rewrite app_length in E. cbn in E. lia. }
    rewrite <- E. rewrite decode_encode_cp by exact Hc.
    rewrite IH by lia. reflexivity.
Qed.

Theorem utf8_decode_encode s : Forall (fun c => is_scalar c = true) s -> utf8_decode (utf8_encode s) = Some s.
Proof. intros H. unfold utf8_decode. apply decode_fuel_encode; auto. Qed.
Theorem utf8_encode_valid s : Forall (fun c => is_scalar c = true) s -> utf8_valid (utf8_encode s) = true.
Proof. intros H. unfold utf8_valid. rewrite utf8_decode_encode by exact H. reflexivity. Qed.
