(* UTF-8: encoder over Unicode scalar values and the strict validator of `core::str::from_utf8`
   (well-formed table 3-7 of the Unicode standard: no overlong forms, no surrogates, <= U+10FFFF). *)
From Coq Require Import List NArith Bool.
From SliceV Require Import Base.Bytes.
Import ListNotations.
Open Scope N_scope. Open Scope bool_scope.

Definition is_scalar (c : N) : bool := (c <? 55296) || ((57343 <? c) && (c <? 1114112)).

Definition encode_cp (c : N) : list byte :=
  if c <? 128 then [c]
  else if c <? 2048 then [192 + c / 64; 128 + c mod 64]
  else if c <? 65536 then [224 + c / 4096; 128 + (c / 64) mod 64; 128 + c mod 64]
  else [240 + c / 262144; 128 + (c / 4096) mod 64; 128 + (c / 64) mod 64; 128 + c mod 64].

Definition utf8_encode (s : list N) : list byte := flat_map encode_cp s.

Definition len_utf8 (c : N) : nat :=
  if c <? 128 then 1%nat else if c <? 2048 then 2%nat else if c <? 65536 then 3%nat else 4%nat.

Definition cont (b : byte) : bool := (128 <=? b) && (b <=? 191).
Definition inr (lo hi b : N) : bool := (lo <=? b) && (b <=? hi).

(* One decoding step: Some (code point, rest) or None when the head is ill-formed/truncated. *)
Definition decode_cp (bs : list byte) : option (N * list byte) :=
  match bs with
  | [] => None
  | b0 :: r =>
    if b0 <? 128 then Some (b0, r)
    else if inr 194 223 b0 then
      match r with b1 :: r' => if cont b1 then Some ((b0 - 192) * 64 + (b1 - 128), r') else None | _ => None end
    else if inr 224 239 b0 then
      match r with
      | b1 :: b2 :: r' =>
        let lo := if b0 =? 224 then 160 else 128 in
        let hi := if b0 =? 237 then 159 else 191 in
        if inr lo hi b1 && cont b2 then Some ((b0 - 224) * 4096 + (b1 - 128) * 64 + (b2 - 128), r') else None
      | _ => None end
    else if inr 240 244 b0 then
      match r with
      | b1 :: b2 :: b3 :: r' =>
        let lo := if b0 =? 240 then 144 else 128 in
        let hi := if b0 =? 244 then 143 else 191 in
        if inr lo hi b1 && cont b2 && cont b3
        then Some ((b0 - 240) * 262144 + (b1 - 128) * 4096 + (b2 - 128) * 64 + (b3 - 128), r') else None
      | _ => None end
    else None
  end.

(* Decoding the whole string; fuel = number of bytes (each step consumes at least one). *)
Fixpoint utf8_decode_fuel (fuel : nat) (bs : list byte) : option (list N) :=
  match bs with
  | [] => Some []
  | _ => match fuel with
         | O => None
         | S f => match decode_cp bs with
                  | Some (c, r) => option_map (cons c) (utf8_decode_fuel f r)
                  | None => None end
         end
  end.
Definition utf8_decode (bs : list byte) : option (list N) := utf8_decode_fuel (length bs) bs.
Definition utf8_valid (bs : list byte) : bool :=
  match utf8_decode bs with Some _ => true | None => false end.
