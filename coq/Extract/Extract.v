(* Extraction of the executable models.  ExtrOcamlBasic only: bool, option, unit, list, prod,
   sumbool, sumor map to OCaml's; N, Z, positive, nat stay the extracted datatypes. *)
From Coq Require Import Extraction ExtrOcamlBasic.
From SliceV Require Import Base.Bytes Base.Utf8 Codec.Wire Codec.Typed Codec.Reply Codec.Buffer Cli.PluginSpec Prep.PrepCore Prep.PrepText Sema.Cyc Sema.CyclesProg Sema.Lookup Sema.Resolve Sema.Visitor Sema.Validate Sema.Lints Driver.Emit Request.Schema Request.Request Request.Convert Sema.AttrTypes Sema.Attributes Doc.Comment Syntax.Tokens Gen.Keywords Syntax.Lexer Syntax.Parser Driver.Main Driver.Files Sema.Scoped.
Extraction "model.ml"
  enc_bool dec_bool enc_uint enc_int dec_uint dec_int enc_varuint enc_varint dec_varuint dec_varint
  dec_varuint_max dec_varint_in enc_str dec_str utf8_valid utf8_encode utf8_decode skip_tagged_fields
  enc_val dec_val dec_generated_file dec_diagnostic dec_level dec_reply seq_reservation str_reservation
  bstep astep vstep vastep rstep init ainit vinit render ranges
  parse render_opt
  detect_prog chain_fields gcyclic resolve_alias resolve visit_file preorder tree_of_file declared check level_of totals emit_json emit_human get_totals dec_request request_ids_wellfounded conv_file check_attributes parse_comment tag_lints resolve_link lex_line parse_text parse_blocks lex_blocks prim_name generation_runs exit_status error_count gen_results resolve_files parses redef_report sc_lookup sc_table sc_table_with locate locate_unscoped concerned
  run_text run_text_spec split_lines line_start_loc classify.
