(* C20 -- visitor traversal presents every element exactly once, in source order.
   Statements only; proofs in Sema/VisitorProofs.v. *)
From Coq Require Import List Bool Arith.
From SliceV Require Import Sema.Visitor Sema.VisitorProofs.
Import ListNotations.

(* file, module, definitions in source order; containers before contents; each type right after its owner, followed by the
   element/key/value/success/failure types nested in it to any depth: the walk is the pre-order of the file's tree *)
Theorem C20_visit_is_preorder : forall f, visit_file f = preorder (tree_of_file f).
Proof. exact visit_eq_spec. Qed.
(* every declared field, operation, parameter, return member, enumerator, enumerator field and definition is presented
   exactly once, in source order, and nothing else is presented as an entity *)
Theorem C20_entities_exactly_once : forall f, filter is_entity (visit_file f) = declared f.
Proof. exact entities_exactly_once. Qed.
Theorem C20_nothing_twice : forall f, NoDup (declared f) -> NoDup (filter is_entity (visit_file f)).
Proof. exact entities_nodup. Qed.
Theorem C20_unpatched_not_descended : forall l, visit_tref (TR l []) = [ETypeRef l].
Proof. exact unpatched_not_descended. Qed.

(* the type of every field, parameter, return member, enumerator field and alias is presented right after its owner, whole:
   the owner's event is immediately followed by the complete walk of its type (nested element, key, value, success and
   failure types to any depth), wherever in the file the owner stands *)
Theorem C20_type_right_after_owner : forall f o t, In (o, t) (owned f) -> contains_block (visit_file f) o t.
Proof. exact type_right_after_owner. Qed.
Theorem C20_nested_types_follow : forall l ns, visit_tref (TR l ns) = ETypeRef l :: flat_map visit_tref ns.
Proof. exact nested_types_follow. Qed.
(* the type references presented are exactly the walks of the owned types, in source order: none skipped, none twice, none
   from elsewhere *)
Theorem C20_types_exactly_once : forall f, filter is_tref (visit_file f) = flat_map (fun p => visit_tref (snd p)) (owned f).
Proof. exact types_exactly_once. Qed.
(* events are entities, type references or the file itself, so the two exactness theorems together account for every event *)
Theorem C20_every_event_accounted : forall e, is_entity e = true \/ is_tref e = true \/ e = EFile.
Proof. intros e; destruct e; cbn; auto. Qed.

Example C20_owner_instance :
  let f := {| vfile_module := Some 1; vfile_defs := [VIface 2 [{| vo_id := 3; vo_params := [{| vf_id := 4; vf_ty := TR 10 [TR 11 []] |}]; vo_rets := [{| vf_id := 5; vf_ty := TR 12 [] |}] |}]] |} in
  In (EParam 5, TR 12 []) (owned f) /\ filter is_tref (visit_file f) = [ETypeRef 10; ETypeRef 11; ETypeRef 12].
Proof. cbn. split; [right; left|]; reflexivity. Qed.

Example C20_instance :
  visit_file {| vfile_module := Some 1; vfile_defs := [VStruct 2 [{| vf_id := 3; vf_ty := TR 10 [TR 11 []; TR 12 [TR 13 []]] |}]; VAlias 4 (TR 14 [])] |}
  = [EFile; EModule 1; EStruct 2; EField 3; ETypeRef 10; ETypeRef 11; ETypeRef 12; ETypeRef 13; EAlias 4; ETypeRef 14].
Proof. reflexivity. Qed.
