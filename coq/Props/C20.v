(* C20 -- visitor traversal presents every element exactly once, in source order.
   Statements only; proofs in Sema/VisitorProofs.v. *)
From Coq Require Import List Bool Arith.
From SliceV Require Import Sema.Visitor Sema.VisitorProofs.
Import ListNotations.

(* file, module, definitions in source order; containers before contents; each type right after its owner, followed by the
   element/key/value/success/failure types nested in it to any depth: the walk is the pre-order of the file's tree *)
Theorem C20_visit_is_preorder : forall f, visit_file f = preorder (tree_of_file f).
Proof. exact visit_eq_spec. Qed.
(* every declared field, operation, parameter, return member, enumerator, enumerator field and definition is presented
   exactly once, in source order, and nothing else is presented as an entity *)
Theorem C20_entities_exactly_once : forall f, filter is_entity (visit_file f) = declared f.
Proof. exact entities_exactly_once. Qed.
Theorem C20_nothing_twice : forall f, NoDup (declared f) -> NoDup (filter is_entity (visit_file f)).
Proof. exact entities_nodup. Qed.
Theorem C20_unpatched_not_descended : forall l, visit_tref (TR l []) = [ETypeRef l].
Proof. exact unpatched_not_descended. Qed.

Example C20_instance :
  visit_file {| vfile_module := Some 1; vfile_defs := [VStruct 2 [{| vf_id := 3; vf_ty := TR 10 [TR 11 []; TR 12 [TR 13 []]] |}]; VAlias 4 (TR 14 [])] |}
  = [EFile; EModule 1; EStruct 2; EField 3; ETypeRef 10; ETypeRef 11; ETypeRef 12; ETypeRef 13; EAlias 4; ETypeRef 14].
Proof. reflexivity. Qed.
