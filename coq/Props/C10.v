(* C10 -- Slice encoding round-trips and matches the wire format.
   Statements only; every proof is `exact <lemma>` into Codec/*Proofs.v.
   The width arms, masks, shifts and 62-bit limits the model is built from are regenerated
   from slice-codec/src/{encoding,decoding,lib}.rs (Gen/VarintArms.v) on every run. *)
From Coq Require Import List NArith ZArith Bool.
From SliceV Require Import Base.Bytes Base.Utf8 Base.Utf8Proofs Gen.VarintArms Codec.Wire Codec.WireProofs Codec.CollProofs Codec.Typed Codec.TypedProofs.
Import ListNotations.
Open Scope N_scope.

(* fixed width: decode (encode v) = v, consuming exactly the bytes written *)
Theorem C10_uint_roundtrip : forall n v rest, v < 256 ^ N.of_nat n ->
  dec_uint n (enc_uint n v ++ rest) = DOk v rest.
Proof. exact uint_roundtrip. Qed.
Theorem C10_int_roundtrip : forall n z rest, (0 < n)%nat ->
  (- 2 ^ (8 * Z.of_nat n - 1) <= z < 2 ^ (8 * Z.of_nat n - 1))%Z ->
  dec_int n (enc_int n z ++ rest) = DOk z rest.
Proof. exact int_roundtrip. Qed.
Theorem C10_bool_roundtrip : forall b rest, dec_bool (enc_bool b ++ rest) = DOk b rest.
Proof. exact bool_roundtrip. Qed.
(* little-endian, two's complement: the bytes, read as a base-256 little-endian numeral, are z mod 2^(8n) *)
Theorem C10_fixed_is_LE_twos_complement : forall n z,
  of_le (enc_int n z) = Z.to_N (z mod 2 ^ (8 * Z.of_nat n)) /\ length (enc_int n z) = n.
Proof. exact fixed_is_LE_twos_complement. Qed.
Theorem C10_fixed_is_LE : forall n v, v < 256 ^ N.of_nat n ->
  of_le (enc_uint n v) = v /\ length (enc_uint n v) = n.
Proof. exact fixed_is_LE. Qed.

(* variable width *)
Theorem C10_varuint_roundtrip : forall v rest, v < 2 ^ 62 ->
  exists bs, enc_varuint v = Some bs /\ dec_varuint (bs ++ rest) = DOk v rest.
Proof. exact varuint_roundtrip. Qed.
Theorem C10_varint_roundtrip : forall z rest, (- 2 ^ 61 <= z < 2 ^ 61)%Z ->
  exists bs, enc_varint z = Some bs /\ dec_varint (bs ++ rest) = DOk z rest.
Proof. exact varint_roundtrip. Qed.
Theorem C10_varuint_refuses_out_of_62 : forall v, 2 ^ 62 <= v -> enc_varuint v = None.
Proof. exact varuint_refuses. Qed.
Theorem C10_varint_refuses_out_of_62 : forall z, (z < - 2 ^ 61 \/ 2 ^ 61 <= z)%Z -> enc_varint z = None.
Proof. exact varint_refuses. Qed.
Theorem C10_varuint_width_in_1248 : forall v bs, enc_varuint v = Some bs ->
  (length bs = 1 \/ length bs = 2 \/ length bs = 4 \/ length bs = 8)%nat.
Proof. exact varuint_length. Qed.
Theorem C10_varint_width_in_1248 : forall z bs, enc_varint z = Some bs ->
  (length bs = 1 \/ length bs = 2 \/ length bs = 4 \/ length bs = 8)%nat.
Proof. exact varint_length. Qed.
(* shortest of 1, 2, 4, 8 bytes that holds the value shifted left by two (with its code bits) *)
Theorem C10_varuint_shortest : forall v bs, enc_varuint v = Some bs ->
  forall m, (m = 1 \/ m = 2 \/ m = 4 \/ m = 8)%nat -> 4 * v + 3 < 256 ^ N.of_nat m -> (length bs <= m)%nat.
Proof. exact varuint_shortest. Qed.
Theorem C10_varint_shortest : forall z bs, enc_varint z = Some bs ->
  forall m, (m = 1 \/ m = 2 \/ m = 4 \/ m = 8)%nat ->
  (- 2 ^ (8 * Z.of_nat m - 1) <= 4 * z /\ 4 * z + 3 < 2 ^ (8 * Z.of_nat m - 1))%Z -> (length bs <= m)%nat.
Proof. exact varint_shortest. Qed.
(* the length code sits in the two low bits of the first byte *)
Theorem C10_varuint_low_bits_code : forall v b bs, enc_varuint v = Some (b :: bs) ->
  b mod 4 = code_of_width (S (length bs)).
Proof. exact varuint_low_bits. Qed.

(* strings: size prefix + UTF-8; any sequence of Unicode scalar values *)
Theorem C10_string_roundtrip : forall s rest, utf8_valid s = true -> N.of_nat (length s) < 2 ^ 62 ->
  exists bs, enc_str s = Some bs /\ dec_str (bs ++ rest) = DOk s rest.
Proof. exact str_roundtrip. Qed.
Theorem C10_unicode_is_valid_utf8 : forall cps, Forall (fun c => is_scalar c = true) cps ->
  utf8_valid (utf8_encode cps) = true /\ utf8_decode (utf8_encode cps) = Some cps.
Proof. intros cps H. split; [exact (utf8_encode_valid cps H)|exact (utf8_decode_encode cps H)]. Qed.

(* sequences and dictionaries, generic in the element codec, hence closed under nesting *)
Theorem C10_seq_roundtrip : forall (A : Type) (enc_e : A -> option (list byte)) (dec_e : list byte -> dres A) (P : A -> Prop),
  (forall x rest, P x -> exists b, enc_e x = Some b /\ dec_e (b ++ rest) = DOk x rest) ->
  (forall x b, enc_e x = Some b -> b <> []) ->
  forall l rest, Forall P l -> N.of_nat (length l) < 2 ^ 62 ->
  exists bs, enc_seq enc_e l = Some bs /\ dec_seq dec_e (bs ++ rest) = DOk l rest.
Proof. exact @seq_roundtrip. Qed.
Theorem C10_dict_roundtrip : forall (K V : Type) (keq : K -> K -> bool)
  (enc_k : K -> option (list byte)) (dec_k : list byte -> dres K)
  (enc_v : V -> option (list byte)) (dec_v : list byte -> dres V) (PK : K -> Prop) (PV : V -> Prop),
  (forall a b, PK a -> PK b -> keq a b = true -> a = b) ->
  (forall x rest, PK x -> exists b, enc_k x = Some b /\ dec_k (b ++ rest) = DOk x rest) ->
  (forall x rest, PV x -> exists b, enc_v x = Some b /\ dec_v (b ++ rest) = DOk x rest) ->
  (forall x b, enc_k x = Some b -> b <> []) ->
  forall l rest, Forall (fun kv => PK (fst kv) /\ PV (snd kv)) l -> NoDup (map fst l) -> N.of_nat (length l) < 2 ^ 62 ->
  exists bs, enc_dict enc_k enc_v l = Some bs /\ dec_dict keq dec_k dec_v (bs ++ rest) = DOk l rest.
Proof. exact @dict_roundtrip. Qed.

(* every value of every supported type, nested to any depth (induction on the type) *)
Theorem C10_typed_roundtrip : forall t v rest, wf_val t v ->
  exists bs, enc_val t v = Some bs /\ bs <> [] /\ dec_val t (bs ++ rest) = DOk v rest.
Proof. exact typed_roundtrip. Qed.

(* non-vacuity: the hypotheses are met by concrete values, and nesting works by instantiation *)
Example C10_nested_instance :
  let enc_u32 := fun v => Some (enc_uint 4 v) in
  exists bs, enc_seq (enc_seq enc_u32) [[1; 2]; []; [4294967295]] = Some bs /\
             dec_seq (dec_seq (dec_uint 4)) (bs ++ [7]) = DOk [[1; 2]; []; [4294967295]] [7].
Proof. cbv zeta. eexists. split; vm_compute; reflexivity. Qed.
Example C10_varint_instance : enc_varint (-8193) = Some [254; 127; 255; 255] /\ enc_varuint 16383 = Some [253; 255]
  /\ enc_varuint (2^62 - 1) = Some [255;255;255;255;255;255;255;255] /\ enc_varint (- 2^61) = Some [3;0;0;0;0;0;0;128].
Proof. vm_compute. repeat split. Qed.
