(* C13 -- lint suppression silences only the named lints in scope, never errors.
   Statements only; proofs in Sema/LintsProofs.v. *)
From Coq Require Import List Bool Arith NArith.
From SliceV Require Import Prep.PrepCore Sema.Lints Sema.LintsProofs.
Import ListNotations.

(* a lint is Allowed exactly when it is named (or All is given) by an accepted command-line value, by an allow attribute of
   the file it occurs in, or by an allow attribute on the element concerned or a definition enclosing it; otherwise Warning *)
Theorem C13_level_iff_silenced : forall c d code, wf_ents (c_ents c) -> d_lint d = Some code ->
  (forall s, d_scope d = Some s -> s < length (c_ents c)) ->
  (level_of c d = LAllowed <-> silenced c d code) /\ (level_of c d = LWarning <-> ~ silenced c d code).
Proof. exact level_iff. Qed.
Theorem C13_errors_never_silenced : forall c d, d_lint d = None -> level_of c d = LError.
Proof. exact errors_never_silenced. Qed.
Theorem C13_lints_never_become_errors : forall c d code, d_lint d = Some code -> level_of c d <> LError.
Proof. exact lints_never_errors. Qed.
(* the error total, hence the exit status, does not depend on any suppression *)
Theorem C13_exit_status_independent : forall c c' ds, snd (totals c ds) = snd (totals c' ds).
Proof. exact error_total_independent. Qed.
(* adding, removing or changing the allow attributes of an element that neither is the element concerned nor encloses it
   changes nothing about a diagnostic *)
Theorem C13_allow_noninterference : forall c d id a, wf_ents (c_ents c) ->
  (forall s, d_scope d = Some s -> s < length (c_ents c) /\ ~ encloses (c_ents c) id s) ->
  level_of {| c_cli := c_cli c; c_file_allows := c_file_allows c; c_ents := set_allows (c_ents c) id a |} d = level_of c d.
Proof. exact allow_noninterference. Qed.

(* Which element a lint concerns (innermost_entity_at, fix fcc6175): from the entity its scope names, inwards to the innermost
   member that contains its location; a parameter that does not contain it gives way to its operation first (a parameter and a
   return member may share a scoped identifier).  The element found lies below the one named -- every definition enclosing the
   named element encloses it -- so looking closer never loses a suppression ... *)
Theorem C13_element_concerned_is_below : forall es ps scope s,
  encloses es scope (concerned es ps scope s) \/
  (exists pl p, nth_error ps scope = Some pl /\ lp_param pl = true /\ within s (lp_span pl) = false /\ parent_of es scope = Some p /\ encloses es p (concerned es ps scope s)).
Proof. exact concerned_is_below. Qed.
Theorem C13_closer_look_keeps_suppressions : forall es ps id s code, wf_ents es -> id < length es ->
  allowed_by (all_allows (S (length es)) es id) code = true -> allowed_by (all_allows (S (length es)) es (descend (S (length es)) es ps id s)) code = true.
Proof. exact closer_look_keeps_suppressions. Qed.
(* ... the element found is innermost: none of its members contains the lint ... *)
Theorem C13_element_concerned_is_innermost : forall es ps scope s, wf_ents es -> scope < length es ->
  find (is_child_at es ps (concerned es ps scope s) s) (seq 0 (length es)) = None.
Proof. exact concerned_is_innermost. Qed.
(* ... and it is what makes 'the element it concerns' of the property the parameter, not its namesake among the return members *)
Theorem C13_twin_parameter :
  let es := [{| ent_allows := []; ent_parent := None |}; {| ent_allows := []; ent_parent := Some 0 |};
             {| ent_allows := [[68]%N]; ent_parent := Some 1 |}; {| ent_allows := []; ent_parent := Some 1 |}; {| ent_allows := []; ent_parent := Some 1 |}] in
  let sp a b c d := {| ls_lo := (a, b); ls_hi := (c, d) |} in
  let ps := [{| lp_span := sp 3 1 5 2; lp_param := false; lp_file := 0; lp_under := None |}; {| lp_span := sp 4 5 4 60; lp_param := false; lp_file := 0; lp_under := None |};
             {| lp_span := sp 4 31 4 37; lp_param := true; lp_file := 0; lp_under := None |}; {| lp_span := sp 4 43 4 50; lp_param := true; lp_file := 0; lp_under := None |}; {| lp_span := sp 4 52 4 59; lp_param := true; lp_file := 0; lp_under := None |}] in
  concerned es ps 3 (sp 4 34 4 37) = 2 /\ concerned es ps 3 (sp 4 46 4 50) = 3 /\ concerned es ps 1 (sp 4 34 4 37) = 2.
Proof. exact twin_parameter. Qed.

Example C13_instance :
  let dep := [68;101;112]%N in
  let c := {| c_cli := []; c_file_allows := [[]]; c_ents := [ {| ent_allows := [dep]; ent_parent := None |}; {| ent_allows := []; ent_parent := Some 0 |}; {| ent_allows := [s_All]; ent_parent := None |} ] |} in
  level_of c {| d_lint := Some dep; d_file := Some 0; d_scope := Some 1 |} = LAllowed /\
  level_of c {| d_lint := Some [66]%N; d_file := Some 0; d_scope := Some 1 |} = LWarning /\
  level_of c {| d_lint := None; d_file := Some 0; d_scope := Some 2 |} = LError.
Proof. vm_compute. repeat split. Qed.
