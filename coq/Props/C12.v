(* C12 -- output targets act as an append-only byte log with safe reservations.
   Statements only; proofs in Codec/BufferProofs.v. *)
From Coq Require Import List Arith NArith.
From SliceV Require Import Base.Bytes Codec.Buffer Codec.BufferProofs.
Import ListNotations.
Open Scope nat_scope.

(* any history on the fixed-slice target: same results as the log, and the final states are related:
   buffer = rendered log ++ untouched tail, cursor = length of the log, reservations = unwritten hole ranges *)
Theorem C12_slice_refines_log : forall ops t a, R t a ->
  snd (run t ops) = snd (arun a ops) /\ R (fst (run t ops)) (fst (arun a ops)).
Proof. exact run_refines. Qed.
Theorem C12_slice_initial_state_related : forall b, R (init b) (ainit b).
Proof. exact init_R. Qed.
(* an operation that does not fit fails and changes neither contents nor position *)
Theorem C12_failed_op_is_noop : forall t o, snd (bstep t o) <> Done -> fst (bstep t o) = t.
Proof. exact failed_is_noop. Qed.
Theorem C12_never_past_end : forall ops b,
  let t := fst (run (init b) ops) in length (buf t) = length b /\ pos t <= length b.
Proof. exact never_past_end. Qed.
(* a write into a reservation touches only [s, s+|bs|) inside it and shrinks it from the front *)
Theorem C12_reservation_confined : forall t a r bs s e, R t a -> nth_error (res t) r = Some (s, e) ->
  snd (bstep t (WRes r bs)) = Done ->
  let t' := fst (bstep t (WRes r bs)) in
  s + length bs <= e /\ e <= pos t /\
  firstn s (buf t') = firstn s (buf t) /\ skipn (s + length bs) (buf t') = skipn (s + length bs) (buf t) /\
  firstn (length bs) (skipn s (buf t')) = bs /\ pos t' = pos t /\
  nth_error (res t') r = Some (s + length bs, e).
Proof. exact reservation_confined. Qed.
Theorem C12_reservations_disjoint_and_below_pos : forall t a, R t a ->
  forall i j s1 e1 s2 e2, i < j -> nth_error (res t) i = Some (s1, e1) -> nth_error (res t) j = Some (s2, e2) ->
  s1 <= e1 /\ e1 <= s2 /\ s2 <= e2 /\ e2 <= pos t.
Proof. exact reservations_disjoint_and_below_pos. Qed.
(* growable target *)
Theorem C12_vec_refines_log : forall ops t a, Rv t a ->
  snd (vrun t ops) = snd (varun a ops) /\ Rv (fst (vrun t ops)) (fst (varun a ops)).
Proof. exact vrun_refines. Qed.
Theorem C12_vec_failed_op_is_noop : forall t o, snd (vstep t o) <> Done -> fst (vstep t o) = t.
Proof. exact vfailed_is_noop. Qed.
Theorem C12_vec_reserve_zeroed : forall t k, vbytes (fst (vstep t (Reserve k))) = vbytes t ++ repeat 0%N k
  /\ nth_error (vres (fst (vstep t (Reserve k)))) (length (vres t)) = Some (length (vbytes t), length (vbytes t) + k).
Proof. exact vec_reserve_zeroed. Qed.
(* input sources *)
Theorem C12_reads_within : forall s o bs, ipos s <= length (ibuf s) -> snd (rstep s o) = Bytes bs ->
  exists k, bs = firstn k (skipn (ipos s) (ibuf s)) /\ ipos s + k <= length (ibuf s) /\ length bs = k
            /\ ipos (fst (rstep s o)) <= length (ibuf s) /\ ibuf (fst (rstep s o)) = ibuf s.
Proof. exact reads_within. Qed.
Theorem C12_peek_does_not_consume : forall s, fst (rstep s Peek1) = s /\ forall k, fst (rstep s (PeekK k)) = s.
Proof. exact peek_does_not_consume. Qed.
Theorem C12_read_failure_is_noop : forall s o, snd (rstep s o) = REob -> fst (rstep s o) = s.
Proof. exact read_failure_is_noop. Qed.

(* non-vacuity: a concrete history with a reservation filled in two steps, a failing write and a failing fill *)
Example C12_history :
  let ops := [WBytes [1;2]%N; Reserve 3; WByte 9%N; WRes 0 [7]%N; WRes 0 [8;8]%N; WRes 0 [5]%N; WBytes [1;1;1]%N; WRes 1 []%N] in
  run (init [0;0;0;0;0;0;0;0]%N) ops =
    ({| buf := [1;2;7;8;8;9;0;0]%N; pos := 6; res := [(5, 5)] |}, [Done; Done; Done; Done; Done; Eob; Eob; BadRes]).
Proof. vm_compute. reflexivity. Qed.
