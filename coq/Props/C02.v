(* C02 -- the AST says exactly what the source says.  Statements only; proofs in Syntax/ValueProofs.v and Syntax/ParserProofs.v
   (model: Syntax/Lexer.v, Syntax/Parser.v; the keyword table Gen/Keywords.v is regenerated from lexer.rs on every run). *)
From Coq Require Import List NArith ZArith Bool.
From SliceV Require Import Syntax.Tokens Syntax.Lexer Syntax.Parser Syntax.ValueProofs Syntax.ParserProofs.
Import ListNotations.

(* type expressions: whatever locations the tokens carry (any layout), the tokens of a written type expression -- primitives,
   Sequence/Dictionary/Result nested to any depth, relative and global scoped names, optional marks -- are read back as that
   expression, nothing of what follows is consumed, and no diagnostic is added *)
Theorem C02_type_expression_read_back : forall t pts, written t pts -> forall fuel rest le last dg,
  (length pts < fuel)%nat -> ~ next_is TkQuestion rest -> ~ next_is TkDColon rest ->
  p_typeref fuel (mkps (pts ++ rest) le last dg) = POk_ t (mkps rest le (last_end pts last) dg).
Proof. exact typeref_written. Qed.
(* string arguments: every escape choice reads back to the text that was meant, and the lexer stops at the closing quote *)
Theorem C02_string_argument_roundtrip : forall choice s rest, forallb (fun c => negb (c =? 10)%N) s = true ->
  exists raw, scan_string false (escape choice s ++ 34%N :: rest) [] = inl (raw, rest) /\ unescape false raw = s.
Proof. exact string_argument_roundtrip. Qed.
(* integer literals: digits in base 2, 10 or 16 (either letter case), underscores anywhere: the value is the number written *)
Theorem C02_integer_literal_value : forall base us ds s, (base = 2 \/ base = 10 \/ base = 16)%Z -> ds <> [] -> length us = length ds ->
  Forall (fun d => (0 <= d < base)%Z) ds -> (value_of base ds <= I128_MAX)%Z ->
  filter (fun c => negb (c =? 95)%N) s = prefix_of base ++ map (fun p => digit_char (fst p) (snd p)) (combine us ds) ->
  parse_int s = (IntOk (value_of base ds), Z.to_N base).
Proof. exact integer_literal_value. Qed.
Theorem C02_integer_literal_checked : forall s z b, parse_int s = (IntOk z, b) -> (0 <= z <= I128_MAX)%Z.
Proof. exact integer_literal_checked. Qed.
(* enumerator values: 0 for the first implicit one, previous + 1 afterwards *)
Theorem C02_implicit_value_first : next_enumerator_value None = 0%Z.
Proof. exact implicit_value_first. Qed.
Theorem C02_implicit_value_next : forall v, (v < I128_MAX)%Z -> next_enumerator_value (Some v) = (v + 1)%Z.
Proof. exact implicit_value_next. Qed.
(* a keyword inside an attribute is an identifier *)
Theorem C02_attribute_mode_words : forall s, word_token true s = TkIdent s.
Proof. exact attribute_mode_words. Qed.

Example C02_example : parse_int [48; 120; 95; 102; 70]%N = (IntOk 255%Z, 16%N).
Proof. vm_compute. reflexivity. Qed.
