(* C02 -- the AST says exactly what the source says.  Statements only; proofs in Syntax/ValueProofs.v and Syntax/ParserProofs.v
   (model: Syntax/Lexer.v, Syntax/Parser.v; the keyword table Gen/Keywords.v is regenerated from lexer.rs on every run). *)
From Coq Require Import List NArith ZArith Bool.
From SliceV Require Import Syntax.Tokens Syntax.Lexer Syntax.LexerProofs Syntax.Parser Syntax.ValueProofs Syntax.ParserProofs Syntax.ParserProofs2 Syntax.ParserProofs3 Syntax.Relocate Syntax.Compose.
Import ListNotations.

(* type expressions: whatever locations the tokens carry (any layout), the tokens of a written type expression -- primitives,
   Sequence/Dictionary/Result nested to any depth, relative and global scoped names, optional marks -- are read back as that
   expression, nothing of what follows is consumed, and no diagnostic is added *)
Theorem C02_type_expression_read_back : forall t pts, written t pts -> forall fuel rest le last dg,
  (length pts < fuel)%nat -> ~ next_is TkQuestion rest -> ~ next_is TkDColon rest ->
  p_typeref fuel (mkps (pts ++ rest) le last dg) = POk_ t (mkps rest le (last_end pts last) dg).
Proof. exact typeref_written. Qed.
(* whole files: for arbitrary token locations, the tokens of a written file -- module declaration with attributes, then struct
   definitions with doc comment lines and attributes in any order, compact marker, fields with tags, optional commas between
   them, attributes with identifier and (escaped) string arguments, attributed type expressions of any depth -- are read back
   as exactly that file: everything in source order, nothing else, no diagnostic.  (`written_file` and the relations it is built
   from, in Syntax/ParserProofs2.v, say which tokens spell which element.) *)
Theorem C02_file_read_back : forall f pts, written_file f pts -> forall start,
  p_file (S (S (length pts))) (mkps pts None start []) = POk_ f (mkps [] None (last_end pts start) []).
Proof. exact file_written. Qed.
(* the same for files made of definitions of every kind: structs, enumerations (compact/unchecked markers, underlying type,
   enumerators with fields, explicit -- also negative -- values or implicit ones = previous + 1, optional commas), interfaces (bases
   with an optional trailing comma, operations with idempotent marker, parameters, no return type / one return type with tag and
   stream marker / a tuple of two or more), custom types and type aliases.  (`written_file_all` in Syntax/ParserProofs3.v.) *)
Theorem C02_any_file_read_back : forall f pts, written_file_all f pts -> forall start,
  p_file (S (S (length pts))) (mkps pts None start []) = POk_ f (mkps [] None (last_end pts start) []).
Proof. exact file_written_all. Qed.
(* lexer and parser together: a text that is a layout of a token sequence (white space, line breaks, CRLF, comments wherever they
   may be written) is lexed to exactly those tokens, and if they spell a file, parsing the text returns that file, no diagnostic *)
Theorem C02_text_read_back : forall ts text a', rendered false ts text a' ->
  map (fun p : ptok => snd (fst p)) (lexed text) = ts /\
  forall f, written_file_all f (lexed text) -> parse_text text = POk_ f (mkps [] None (last_end (lexed text) (mkloc 1 1)) []).
Proof. exact text_read_back. Qed.
(* the parser never looks at locations: on token sequences of the same kinds every input -- well-formed or not -- gives the same
   file, the same diagnostics in the same order and the same error once locations are erased (`er_file`, `rsim`, `ksim` in
   Syntax/Relocate.v) *)
Theorem C02_parser_ignores_locations : forall fuel s s', ksim s s' -> rsim er_file (p_file fuel s) (p_file fuel s').
Proof. exact p_file_sim. Qed.
(* hence, for every token sequence: all its layouts are parsed to the same syntax tree with the same diagnostics *)
Theorem C02_parse_independent_of_layout : forall ts t1 t2 a1 a2, rendered false ts t1 a1 -> rendered false ts t2 a2 ->
  rsim er_file (parse_text t1) (parse_text t2).
Proof. exact parse_independent_of_layout. Qed.
Theorem C02_any_layout_read_back : forall ts t1 t2 a1 a2 f, rendered false ts t1 a1 -> rendered false ts t2 a2 -> written_file_all f (lexed t1) ->
  exists f' s', parse_text t2 = POk_ f' s' /\ er_file f' = er_file f /\ ps_toks s' = [] /\ ps_diags s' = [].
Proof. exact any_layout_read_back. Qed.
(* members (fields and parameters: prelude, tag, name, stream marker, attributed type) and member lists whatever commas are written *)
Theorem C02_member_read_back : forall ip m pts, written_member ip m pts -> forall fuel rest le last dg, (length pts < fuel)%nat ->
  ~ next_is TkQuestion rest -> ~ next_is TkDColon rest ->
  p_member ip fuel (mkps (pts ++ rest) le last dg) = POk_ m (mkps rest le (last_end pts last) dg).
Proof. exact member_written. Qed.
Theorem C02_member_list_read_back : forall ip ms pts, written_members ip ms pts -> forall fuel rest le last dg, (S (length pts) < fuel)%nat ->
  starts_member (mkps rest le last dg) = false -> safe_follow rest -> ~ next_is TkComma rest ->
  p_members ip fuel (mkps (pts ++ rest) le last dg) = POk_ ms (mkps rest le (last_end pts last) dg).
Proof. exact members_written. Qed.
(* attributes: directive (scoped, keywords allowed) and arguments, identifiers verbatim and strings unescaped *)
Theorem C02_attribute_read_back : forall a pts, written_attr a pts -> forall fuel rest le last dg, (length pts < fuel)%nat ->
  ~ next_is TkDColon rest -> ~ next_is TkLParen rest ->
  p_attribute fuel (mkps (pts ++ rest) le last dg) = POk_ a (mkps rest le (last_end pts last) dg).
Proof. exact attr_written. Qed.
(* type expressions carrying attributes, at any depth *)
Theorem C02_attributed_type_read_back : forall t pts, writtenA t pts -> forall fuel rest le last dg, (length pts < fuel)%nat ->
  ~ next_is TkQuestion rest -> ~ next_is TkDColon rest ->
  p_typeref fuel (mkps (pts ++ rest) le last dg) = POk_ t (mkps rest le (last_end pts last) dg).
Proof. exact typerefA_written. Qed.
(* layout: a text made of the spellings of a token sequence with blanks -- white space of any kind, line breaks, CRLF, line
   comments, block comments -- before, between and after them (`rendered`; a separator is required only where two spellings
   would fuse: between words, before a second bracket, colon or `>`, after a doc comment; a backslash-escaped word is always an
   identifier; inside brackets every word is an identifier) is lexed to exactly that token sequence, whatever the layout *)
Theorem C02_layout_independent : forall a ts text a', rendered a ts text a' -> forall fuel cur, (length text < fuel)%nat ->
  kinds_of (lex_block fuel a cur text) = (ts, None, a').
Proof. exact layout_independent. Qed.
Theorem C02_blanks_change_nothing : forall b, blank b -> forall fuel attr cur s, (length (b ++ s) < fuel)%nat ->
  exists cur', kinds_of (lex_block fuel attr cur (b ++ s)) = kinds_of (lex_block fuel attr cur' s).
Proof. exact blank_skipped. Qed.
Theorem C02_token_kinds_independent_of_position : forall fuel attr c1 c2 s, kinds_of (lex_block fuel attr c1 s) = kinds_of (lex_block fuel attr c2 s).
Proof. exact token_kinds_independent_of_start. Qed.
Example C02_rendered_inhabited : rendered false [TkKw KwStruct; TkIdent [83%N]] ([32%N] ++ [115; 116; 114; 117; 99; 116]%N ++ ([47; 42; 42; 47]%N ++ [83%N] ++ [])) false.
Proof. exact ex_rendered. Qed.
(* string arguments: every escape choice reads back to the text that was meant, and the lexer stops at the closing quote *)
Theorem C02_string_argument_roundtrip : forall choice s rest, forallb (fun c => negb (c =? 10)%N) s = true ->
  exists raw, scan_string false (escape choice s ++ 34%N :: rest) [] = inl (raw, rest) /\ unescape false raw = s.
Proof. exact string_argument_roundtrip. Qed.
(* integer literals: digits in base 2, 10 or 16 (either letter case), underscores anywhere: the value is the number written *)
Theorem C02_integer_literal_value : forall base us ds s, (base = 2 \/ base = 10 \/ base = 16)%Z -> ds <> [] -> length us = length ds ->
  Forall (fun d => (0 <= d < base)%Z) ds -> (value_of base ds <= I128_MAX)%Z ->
  filter (fun c => negb (c =? 95)%N) s = prefix_of base ++ map (fun p => digit_char (fst p) (snd p)) (combine us ds) ->
  parse_int s = (IntOk (value_of base ds), Z.to_N base).
Proof. exact integer_literal_value. Qed.
Theorem C02_integer_literal_checked : forall s z b, parse_int s = (IntOk z, b) -> (0 <= z <= I128_MAX)%Z.
Proof. exact integer_literal_checked. Qed.
(* enumerator values: 0 for the first implicit one, previous + 1 afterwards *)
Theorem C02_implicit_value_first : next_enumerator_value None = 0%Z.
Proof. exact implicit_value_first. Qed.
Theorem C02_implicit_value_next : forall v, (v < I128_MAX)%Z -> next_enumerator_value (Some v) = (v + 1)%Z.
Proof. exact implicit_value_next. Qed.
(* a keyword inside an attribute is an identifier *)
Theorem C02_attribute_mode_words : forall s, word_token true s = TkIdent s.
Proof. exact attribute_mode_words. Qed.

Example C02_example : parse_int [48; 120; 95; 102; 70]%N = (IntOk 255%Z, 16%N).
Proof. vm_compute. reflexivity. Qed.
(* non-vacuity of the read-back theorems: the nine tokens of `module M  struct S { a: int32 }` spell a file *)
Example C02_written_file_inhabited : exists f, written_file f ex_tokens.
Proof. exact ex_written. Qed.
(* and the tokens of  module M  enum E { A = -1, B(x: bool) }  interface I : J { idempotent op(a: bool) -> bool }  custom C
   typealias Y = bool  spell a file with these four definitions *)
Example C02_written_file_all_inhabited : exists f, written_file_all f ex_all_tokens /\ length (f_defs f) = 4.
Proof. exact ex_written_all. Qed.
