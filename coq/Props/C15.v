(* C15 -- results are reproducible and do not depend on the order of the inputs.  Statements only; proofs in Sema/OrderProofs.v
   and Sema/Lookup.v.  Reproducibility itself is a property of the models by construction: they are functions of their input. *)
From Coq Require Import List Bool Arith Permutation.
From SliceV Require Import Sema.Lookup Sema.Validate Sema.WellFormed Sema.OrderProofs.
Import ListNotations.

(* the verdict of the rule catalogue (C04's model: accepted iff well-formed) is the same for every order in which the
   definitions, hence the files, are presented, provided definitions have distinct identities *)
Theorem C15_acceptance_order_independent : forall p p', Permutation p p' -> distinct_ids p -> (check p = [] <-> check p' = []).
Proof. exact acceptance_order_independent. Qed.
(* the lookup table: with unique scoped names the insertion order (the order of the files) is irrelevant to every lookup, hence
   to every binding of a type reference or link (C03's model) *)
Theorem C15_lookup_order_independent : forall V (t t' : table V) k, NoDup (map fst t) -> Permutation t t' -> get V t k = get V t' k.
Proof. exact get_perm. Qed.
