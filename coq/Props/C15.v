(* C15 -- results are reproducible and do not depend on the order of the inputs.  Statements only; proofs in Sema/OrderProofs.v
   and Sema/Lookup.v.  Reproducibility itself is a property of the models by construction: they are functions of their input. *)
From Coq Require Import List Bool Arith Permutation.
From SliceV Require Import Sema.Scoped Sema.ScopedProofs Sema.Lookup Sema.Validate Sema.WellFormed Sema.OrderProofs Sema.Lints Driver.Files Driver.FilesOrder Driver.Main Driver.OrderMisc.
Import ListNotations.

(* the verdict of the rule catalogue (C04's model: accepted iff well-formed) is the same for every order in which the
   definitions, hence the files, are presented, provided definitions have distinct identities *)
Theorem C15_acceptance_order_independent : forall p p', Permutation p p' -> distinct_ids p -> (check p = [] <-> check p' = []).
Proof. exact acceptance_order_independent. Qed.
(* the lookup table: with unique scoped names the insertion order (the order of the files) is irrelevant to every lookup, hence
   to every binding of a type reference or link (C03's model) *)
Theorem C15_lookup_order_independent : forall V (t t' : table V) k, NoDup (map fst t) -> Permutation t t' -> get V t k = get V t' k.
Proof. exact get_perm. Qed.

(* the file set: listing the source paths and the reference paths in another order changes neither which files (by identity) are
   compiled, nor which of them are sources, nor how many there are -- given that whether a file can be read does not depend on
   the spelling of its path *)
Theorem C15_file_set_order_independent : forall fuel fs,
  (forall p q id, canon_of fs p = Some id -> canon_of fs q = Some id -> readable fs p = readable fs q) ->
  forall sources sources' references references', Permutation sources sources' -> Permutation references references' ->
  (forall id, In id (compiled_ids (resolve_files fuel fs sources references)) <-> In id (compiled_ids (resolve_files fuel fs sources' references'))) /\
  (forall id, is_source_in (resolve_files fuel fs sources references) id <-> is_source_in (resolve_files fuel fs sources' references') id) /\
  length (compiled_ids (resolve_files fuel fs sources references)) = length (compiled_ids (resolve_files fuel fs sources' references')).
Proof. exact file_set_order_independent. Qed.
(* the same path defects are reported whatever the order, hence the same decision whether anything is parsed *)
Theorem C15_path_defects_order_independent : forall fuel fs sources sources' references references', Permutation sources sources' -> Permutation references references' ->
  forall d, is_error_fdiag d = true ->
    (In d (snd (find_slice_files fuel fs sources true)) \/ In d (snd (find_slice_files fuel fs references false))) <->
    (In d (snd (find_slice_files fuel fs sources' true)) \/ In d (snd (find_slice_files fuel fs references' false))).
Proof. exact parses_order_independent. Qed.
(* warnings and errors are counted, generators are started and the exit status is decided the same way for every order in which
   the diagnostics were reported; each diagnostic keeps its level *)
Theorem C15_totals_order_independent : forall c ds ds', Permutation ds ds' -> totals c ds = totals c ds'.
Proof. exact totals_order_independent. Qed.
Theorem C15_levels_order_independent : forall c ds ds', Permutation ds ds' -> Permutation (map (level_of c) ds) (map (level_of c) ds').
Proof. exact levels_order_independent. Qed.
Theorem C15_outcome_order_independent : forall c ds', Permutation (rc_diags c) ds' ->
  generation_runs (with_diags c ds') = generation_runs c /\ gen_results (with_diags c ds') = gen_results c /\ exit_status (with_diags c ds') = exit_status c.
Proof. exact outcome_order_independent. Qed.

(* The lookup table over several files (Sema/Scoped.v: modules, definitions, members and their members, entered in the parser's
   order, a later entry replacing an earlier one).  The redefinition pass is silent exactly when no entity shares its scoped
   identifier with a module, definitions have distinct scoped identifiers and names are unique within each container ... *)
Theorem C15_redefinition_pass_silent_iff : forall fs, Scoped.redef_report fs = [] <-> ScopedProofs.names_ok fs.
Proof. exact redef_report_silent_iff. Qed.
(* ... which does not depend on the order of the files ... *)
Theorem C15_redefinition_verdict_order_independent : forall fs fs', Permutation fs fs' -> (redef_report fs = [] <-> redef_report fs' = []).
Proof. exact redef_verdict_order_independent. Qed.
(* ... and then whatever is looked up is found the same for every order of the files: the premise of C15_lookup_order_independent
   is met by every program the pass lets through (modules re-opened in several files are one module) *)
Theorem C15_lookup_of_accepted_files_order_independent : forall fs fs' k,
  redef_report fs = [] -> Permutation fs fs' -> sc_lookup k (sc_table fs) = sc_lookup k (sc_table fs').
Proof. exact lookup_order_independent. Qed.
(* the pass has to report a member that shares its scoped identifier with a module (fix f3561ee): otherwise the lookup of
   A::I::op depends on the order of the files *)
Theorem C15_member_module_collision : redef_report [f_iface; f_module] = [3] /\ redef_report [f_module; f_iface] = [3] /\
  sc_lookup [1; 2; 3] (sc_table [f_iface; f_module]) <> sc_lookup [1; 2; 3] (sc_table [f_module; f_iface]).
Proof.
  split; [exact (proj1 member_module_collision_reported)|]. split; [exact (proj2 member_module_collision_reported)|].
  destruct member_module_collision_order_dependent as [-> ->]. discriminate.
Qed.
(* every entity of a file with a module is entered in the sc_table *)
Theorem C15_every_entity_entered : forall f k, In k (entity_keys f) -> exists p, In (k, ScEntity (sf_id f) p) (file_entries f).
Proof. exact every_entity_entered. Qed.
(* the primitive types are in the table too, entered first under their keywords: what the files enter wins over them, in every order *)
Theorem C15_lookup_with_primitives_order_independent : forall prims fs fs' k,
  redef_report fs = [] -> Permutation fs fs' -> sc_lookup k (sc_table_with prims fs) = sc_lookup k (sc_table_with prims fs').
Proof. exact lookup_with_primitives_order_independent. Qed.
