(* C17 -- each input file is compiled exactly once: sources first, in the order given.  Statements only; proofs in
   Driver/FilesProofs.v (model of utils/file_util.rs: Driver/Files.v; the file system is an oracle). *)
From Coq Require Import List Bool NArith Arith.
From SliceV Require Import Doc.Comment Driver.Files Driver.FilesProofs.
Import ListNotations.
Local Open Scope nat_scope.

(* the compiled set: what the source list reaches (first spelling of each file), then what the reference list reaches --
   directories recursively -- that is not already there (first spelling of each), minus what cannot be read; in that order *)
Theorem C17_compiled_set : forall fuel fs sources references,
  let src := firsts [] (fst (find_slice_files fuel fs sources true)) in
  let refs := firsts (map fp_id src) (firsts [] (fst (find_slice_files fuel fs references false))) in
  rs_files (resolve_files fuel fs sources references) = filter (fun x => readable fs (fp_path x)) (src ++ refs).
Proof. exact resolve_files_spec. Qed.
(* whatever the spellings, links and repeats: no file (canonical identity) is compiled twice *)
Theorem C17_compiled_once : forall fuel fs sources references, NoDup (map fp_id (rs_files (resolve_files fuel fs sources references))).
Proof. exact compiled_once. Qed.
(* what is found through the source list is a source, through the reference list a reference; a file that is both is a source *)
Theorem C17_roles : forall fuel fs paths source, Forall (fun x => fp_source x = source) (fst (find_slice_files fuel fs paths source)).
Proof. exact roles. Qed.
Theorem C17_source_wins : forall seen l x, In x (firsts seen l) -> ~ In (fp_id x) seen.
Proof. exact source_wins. Qed.
(* de-duplication keeps the first spelling and reports each later one once *)
Theorem C17_dedup : forall l, dedup l = (firsts [] l, repeats [] l).
Proof. exact dedup_spec. Qed.
Theorem C17_duplicates_reported : forall l, length (repeats [] l) = length l - length (firsts [] l) /\
  Forall (fun d => exists x, In x l /\ d = DDuplicate (fp_path x)) (repeats [] l).
Proof. exact duplicates_reported. Qed.
(* a listed path that does not exist, a file without the .slice extension, a directory among the sources: an error each, and
   after any error nothing is parsed *)
Theorem C17_listed_defects_reported : forall fuel fs paths source p d, In p paths -> listed_defect fs source p = Some d ->
  In d (snd (find_slice_files fuel fs paths source)) /\ is_error_fdiag d = true.
Proof. exact listed_defects_reported. Qed.
Theorem C17_errors_stop_parsing : forall fuel fs sources references d,
  In d (snd (find_slice_files fuel fs sources true)) \/ In d (snd (find_slice_files fuel fs references false)) -> is_error_fdiag d = true ->
  parses (resolve_files fuel fs sources references) = false.
Proof. exact errors_stop_parsing. Qed.

Example C17_extension_rule :
  is_slice_file [97; 47; 98; 46; 115; 108; 105; 99; 101]%N = true /\ is_slice_file [46; 115; 108; 105; 99; 101]%N = false /\
  is_slice_file [97; 46; 115; 108; 105; 99; 101; 46; 98; 97; 107]%N = false.
Proof. vm_compute. repeat split. Qed.

(* the walk below a reference directory ends whatever the links: a directory is not searched again from within itself, and with
   more fuel than the file system has identities the result does not depend on the fuel *)
Theorem C17_walk_fuel_independent : forall fs f1 f2 anc p, NoDup anc -> incl anc (known_ids fs) ->
  length (known_ids fs) - length anc < f1 -> length (known_ids fs) - length anc < f2 -> walk f1 anc fs p = walk f2 anc fs p.
Proof. exact walk_fuel_independent. Qed.
Theorem C17_link_back_to_an_ancestor_adds_nothing : forall fs fuel anc p id, kind_of fs p = KDir -> canon_of fs p = Some id -> In id anc ->
  walk (S fuel) anc fs p = ([], []).
Proof. exact walk_skips_ancestor. Qed.
