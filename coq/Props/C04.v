(* C04 -- accepted programs are well-formed; every rule violation is diagnosed.
   Statements only; proofs in Sema/WellFormed.v.  The model (Sema/Validate.v) mirrors the parse-time checks, the
   redefinition pass and the validators as written; numeric bounds come from Gen/NumericBounds.v (regenerated). *)
From Coq Require Import List Bool Arith ZArith.
From SliceV Require Import Gen.NumericBounds Sema.Validate Sema.WellFormed Sema.AttrTypes Gen.AttributeRules Sema.Attributes Sema.AttributesProofs.
Import ListNotations.

(* a program is accepted (no error diagnostic) exactly when it satisfies every rule of the catalogue *)
Theorem C04_accept_iff_well_formed : forall p, check p = [] <-> well_formed p.
Proof. exact accept_iff_well_formed. Qed.
(* the rules one by one: each check is silent exactly when its declarative rule holds *)
Theorem C04_names_unique : forall names, redefs [] names = [] <-> NoDup names.
Proof. exact names_unique_iff. Qed.
Theorem C04_redefinition_pass : forall p, redefinition_errors p = [] <-> names_ok p.
Proof. exact redefinition_errors_iff. Qed.
Theorem C04_tags_unique_and_optional : forall ms, validate_members ms = [] <-> members_ok ms.
Proof. exact validate_members_iff. Qed.
Theorem C04_compact_structs : forall s, validate_struct s = [] <-> struct_ok s.
Proof. exact validate_struct_iff. Qed.
Theorem C04_enums : forall e, validate_enum e = [] <-> enum_ok e.
Proof. exact validate_enum_iff. Qed.
Theorem C04_stream_last : forall ms, validate_parameters ms = [] <-> stream_ok ms.
Proof. exact validate_parameters_iff. Qed.
Theorem C04_inherited_operations : forall p i, shadow_errors p i = [] <-> forall o, In o (i_ops i) -> ~ In (o_name o) (inherited_op_names p i).
Proof. exact shadow_errors_iff. Qed.
Theorem C04_syntax_rules : forall p, parse_errors p = [] <-> syntax_ok p.
Proof. exact parse_errors_iff. Qed.
(* dictionary keys: what the check accepts is a legal key; a legal key is accepted when the fuel covers its nesting depth *)
Theorem C04_key_check_sound : forall p fuel t, key_error p fuel t = None -> legal_key p t.
Proof. exact key_error_sound. Qed.
Theorem C04_key_check_complete : forall p n t, legal_key_depth p n t -> forall fuel, (n <= fuel)%nat -> key_error p fuel t = None.
Proof. exact key_error_complete. Qed.
Theorem C04_every_dictionary_checked : forall p t, dict_errors p t = [] <-> forall k, In k (dict_keys t) -> key_error p (S (length p)) k = None.
Proof. exact dict_errors_iff. Qed.
(* gating: an earlier phase that reports anything hides the later ones *)
Theorem C04_accepted_iff_all_phases_silent : forall p,
  check p = [] <-> parse_errors p = [] /\ redefinition_errors p = [] /\ validator_errors p = [].
Proof.
  intros p. unfold check. destruct (parse_errors p) as [|c1 l1] eqn:E1.
  - destruct (redefinition_errors p) as [|c2 l2] eqn:E2.
    + tauto.
    + split; [intros H; discriminate H|]. intros (_ & H & _). discriminate H.
  - split; [intros H; discriminate H|]. intros (H & _). discriminate H.
Qed.

(* attributes only where legal, well-formed and not repeated (model: Sema/Attributes.v).  The table of built-in attributes that
   tools/regen_attrs.py extracts from grammar/attributes/*.rs on every run -- directive, repeatability, argument count range,
   accepted arguments, legal places -- is the one the model fixes *)
Theorem C04_attribute_table_as_in_the_sources : attribute_rules = the_rules.
Proof. exact regenerated_table_is_expected. Qed.
(* no attribute diagnostic is reported exactly when every attribute is a built-in one used with an accepted number of accepted
   arguments or carries a scope prefix, stands where it is legal (oneway only on operations that return nothing), and no
   non-repeatable attribute occurs twice on one element *)
Theorem C04_attributes_accepted_iff : forall es, check_attributes es = [] <->
  Forall (fun e => Forall wellformed (el_attrs e) /\ not_repeated (el_attrs e) /\ Forall (legal e) (el_attrs e)) es.
Proof. exact attributes_accepted_iff. Qed.
Theorem C04_unknown_attribute_iff : forall es, In E024 (check_attributes es) <->
  exists e a, In e es /\ In a (el_attrs e) /\ rule_of a = None /\ unscoped (ad_dir a) = true.
Proof. exact unknown_iff. Qed.
Theorem C04_attribute_placement : forall e a, place_codes e a = [] <-> legal e a.
Proof. exact place_codes_nil. Qed.
Theorem C04_attribute_arguments : forall a, parse_codes a = [] <-> wellformed a.
Proof. exact parse_codes_nil. Qed.
Theorem C04_attribute_repeats : forall l, repeat_codes [] l = [] <-> not_repeated l.
Proof. exact repeat_codes_nil0. Qed.

(* non-vacuity: compact struct with a tagged optional field and a duplicate tag *)
Example C04_instance :
  check [DS 1 {| s_name := 1; s_compact := true; s_fields := [ {| m_name := 2; m_tag := Some 1%Z; m_ty := RT true (RPrim 5); m_stream := false |};
                                                              {| m_name := 3; m_tag := Some 1%Z; m_ty := RT false (RPrim 5); m_stream := false |} ] |}]
  = [15; 15; 16; 12]
  /\ check [DS 1 {| s_name := 1; s_compact := false; s_fields := [ {| m_name := 2; m_tag := Some 2147483647%Z; m_ty := RT true (RPrim 5); m_stream := false |} ] |}] = [].
Proof. vm_compute. split; reflexivity. Qed.
