(* C11 -- decoding untrusted bytes fails cleanly: no crash, no over-read.
   Statements only; proofs in Codec/DecodeProofs.v, CollProofs.v, ReplyProofs.v. *)
From Coq Require Import List NArith ZArith Bool.
From SliceV Require Import Base.Bytes Base.Utf8 Codec.Wire Codec.WireProofs Codec.CollProofs Codec.Typed Codec.TypedProofs Codec.DecodeProofs Codec.Reply Codec.ReplyProofs Codec.PrefixProofs.
Import ListNotations.
Open Scope N_scope.

(* for every byte string and every decodable type (nested to any depth): the decoder is total (the model's
   out-of-fuel artefact is never produced, so `for _ in 0..length` ends within the input) and a success has
   consumed a non-empty prefix and nothing else *)
Theorem C11_total_and_prefix : forall t, wf_ty t ->
  (forall bs v r, dec_val t bs = DOk v r -> exists pre, bs = pre ++ r /\ pre <> []) /\
  (forall bs, dec_val t bs <> DErr EFuel).
Proof. exact dec_val_total_prefix. Qed.
(* never accepts an out-of-range bool, invalid UTF-8 or duplicate keys *)
Theorem C11_bool_strict : forall b rest v r, dec_bool (b :: rest) = DOk v r -> (b = 0 \/ b = 1) /\ r = rest.
Proof. exact bool_strict. Qed.
Theorem C11_accepts_only_values : forall t bs v r, dec_val t bs = DOk v r -> accepted t v.
Proof. exact dec_val_strict. Qed.
Theorem C11_varint_range_strict : forall lo hi bs z r, dec_varint_in lo hi bs = DOk z r -> (lo <= z <= hi)%Z.
Proof. exact varint_range_strict. Qed.
Theorem C11_varuint_range_strict : forall mx bs v r, dec_varuint_max mx bs = DOk v r -> v <= mx.
Proof. exact varuint_range_strict. Qed.
Theorem C11_dict_keys_unique : forall (K V : Type) (keq : K -> K -> bool) (dk : list byte -> dres K) (dv : list byte -> dres V),
  (forall a, keq a a = true) -> forall bs l rest, dec_dict keq dk dv bs = DOk l rest -> NoDup (map fst l).
Proof. intros K V keq dk dv H. exact (dict_keys_unique keq dk dv H). Qed.
(* cost is governed by the length of the input, not by announced sizes *)
Theorem C11_seq_iterations_bounded : forall (A : Type) (d : list byte -> dres A),
  (forall bs v r, d bs = DOk v r -> exists pre, bs = pre ++ r /\ pre <> []) -> (forall bs, d bs <> DErr EFuel) ->
  forall bs l r, dec_seq d bs = DOk l r -> (length l < length bs)%nat.
Proof. exact @dec_seq_length_bound. Qed.
Theorem C11_seq_reservation_bounded : forall bs n, seq_reservation bs = Some n -> n <= N.of_nat (length bs).
Proof. exact seq_reservation_bounded. Qed.
Theorem C11_str_reservation_bounded : forall bs n, str_reservation bs = Some n -> n <= N.of_nat (length bs).
Proof. exact str_reservation_bounded. Qed.
Theorem C11_skip_tagged_fields_total : forall bs, skip_tagged_fields bs <> DErr EFuel /\
  forall u r, skip_tagged_fields bs = DOk u r -> exists pre, bs = pre ++ r /\ pre <> [].
Proof. exact skip_tagged_fields_total. Qed.
(* the generator-reply decoder *)
Theorem C11_reply_total_prefix : (forall bs, dec_reply bs <> DErr EFuel) /\
  forall bs v r, dec_reply bs = DOk v r -> exists pre, bs = pre ++ r /\ pre <> [].
Proof. exact reply_total_prefix. Qed.
Theorem C11_reply_wellformed : forall bs fs ds r, dec_reply bs = DOk (fs, ds) r ->
  Forall (fun f => utf8_valid (gf_path f) = true /\ utf8_valid (gf_contents f) = true) fs /\
  Forall (fun d => gd_level d <= 2 /\ utf8_valid (gd_message d) = true) ds.
Proof. exact reply_files_wellformed. Qed.
(* a buffer cut anywhere inside an encoded value is an error, never a shorter value; and what is decoded does not depend on
   what follows it in the buffer (for every decodable type, nested to any depth) *)
Theorem C11_truncation_rejected : forall t, wf_ty t -> forall bs v r, dec_val t bs = DOk v r ->
  forall k, (k < length bs - length r)%nat -> exists e, dec_val t (firstn k bs) = DErr e /\ e <> EFuel.
Proof. exact truncated_value_rejected. Qed.
Theorem C11_decoded_value_independent_of_rest : forall t bs v r x, dec_val t bs = DOk v r -> dec_val t (bs ++ x) = DOk v (r ++ x).
Proof. exact decoded_value_independent_of_rest. Qed.

Example C11_instances :
  dec_val (TDict (PU 1) (TP PBool)) [8; 5; 1; 5; 0] = DErr EDupKey /\
  dec_val (TSeq (TP PStr)) [4; 8; 255; 255] = DErr EInvalidUtf8 /\
  dec_val (TP PBool) [2] = DErr EIllegalBool /\
  dec_val (TSeq (TP (PU 1))) [254; 255; 255; 255] = DErr EEob /\
  seq_reservation [254; 255; 255; 255] = Some 0.
Proof. vm_compute. repeat split. Qed.
