(* C14 -- emitted diagnostics are complete, well-formed and match the totals.
   Statements only; proofs in Driver/EmitProofs.v. *)
From Coq Require Import List Bool Arith NArith.
From SliceV Require Import Prep.PrepCore Sema.Lints Driver.Emit Driver.EmitProofs.
Import ListNotations.

(* every diagnostic that is not suppressed is written exactly once, in the order it was recorded, in both formats *)
Theorem C14_json_once_in_order : forall ds, emit_json ds = map json_line (filter shown ds).
Proof. exact emit_json_once_in_order. Qed.
Theorem C14_human_once_in_order : forall files ds, emit_human files ds = map (human_diag files) (filter shown ds).
Proof. exact emit_human_once_in_order. Qed.
(* suppressed lints leave no trace in either format *)
Theorem C14_allowed_leave_no_trace : forall files ds,
  emit_json (filter shown ds) = emit_json ds /\ emit_human files (filter shown ds) = emit_human files ds.
Proof. exact allowed_leave_no_trace. Qed.
(* the summary counts equal the numbers of warnings and errors written *)
Theorem C14_totals_match : forall ds,
  fst (get_totals ds) + snd (get_totals ds) = length (emit_json ds) /\
  snd (get_totals ds) = length (filter (fun d => match e_level d with LError => true | _ => false end) (filter shown ds)) /\
  fst (get_totals ds) = length (filter (fun d => match e_level d with LWarning => true | _ => false end) (filter shown ds)).
Proof. exact totals_match. Qed.
(* each JSON diagnostic is one line: the only newline is the terminating one, whatever the message, file name or notes contain *)
Theorem C14_json_line_is_one_line : forall d, exists body, json_line d = body ++ [10%N] /\ ~ In 10%N body.
Proof. exact json_line_single_line. Qed.
(* strings survive the escaping: reading back what was written gives the original text (quotes, backslashes, control
   and non-ASCII characters included) *)
Theorem C14_json_string_roundtrip : forall t fuel, length t < fuel -> unescape fuel (flat_map escape_char t) = Some t.
Proof. exact escape_roundtrip. Qed.

(* colours disabled: the emitter adds no escape sequence -- ESC (27) can occur in the human output only where the
   diagnostics' own texts, the file names or the source lines quoted in snippets contain it *)
Theorem C14_human_adds_no_escape : forall files d, files_noesc files -> ediag_noesc d -> noesc (human_diag files d).
Proof. exact human_adds_no_escape. Qed.
Theorem C14_emit_human_no_escape : forall files ds, files_noesc files -> Forall ediag_noesc ds -> Forall noesc (emit_human files ds).
Proof. exact emit_human_no_escape. Qed.
Example C14_no_escape_instance :
  let x := {| sp_file := [97]%N; sp_srow := 1; sp_scol := 2; sp_erow := 1; sp_ecol := 3 |} in
  let d := {| e_level := LWarning; e_code := [87]%N; e_msg := [109]%N; e_span := Some x; e_notes := [ {| n_msg := [110]%N; n_span := Some x |} ] |} in
  files_noesc [([97]%N, [9; 98; 99; 13; 10; 100]%N)] /\ ediag_noesc d /\ length (human_diag [([97]%N, [9; 98; 99; 13; 10; 100]%N)] d) > 40.
Proof.
  cbv zeta. split; [|split].
  - intros f [<-|[]]. apply noesc_lit. reflexivity.
  - unfold ediag_noesc. cbn. split; [|split; [|split]]; try (apply noesc_lit; reflexivity). intros n0 [<-|[]]. split; apply noesc_lit; reflexivity.
  - vm_compute. repeat constructor.
Qed.

(* the location as drawn: for a span of positive width on a line, the dashes start in the printed column of the span's
   first character and are as many as the span's characters occupy when printed (a tab is four columns), the line itself
   being printed as prefix ++ spanned part ++ rest -- underline and underlined text line up character for character *)
Theorem C14_underline_matches_span : forall line hs he, hs < he -> he <= length line ->
  highlight line hs he = spaces (1 + length (expand_tabs (firstn hs line))) ++ repeat 45%N (length (expand_tabs (firstn (he - hs) (skipn hs line)))) /\
  expand_tabs line = expand_tabs (firstn hs line) ++ expand_tabs (firstn (he - hs) (skipn hs line)) ++ expand_tabs (skipn he line).
Proof. exact underline_matches_span. Qed.

Example C14_instance :
  emit_json [ {| e_level := LAllowed; e_code := [88]%N; e_msg := [109]%N; e_span := None; e_notes := [] |};
              {| e_level := LError; e_code := [69;48;48;49]%N; e_msg := [97;34;10;1]%N; e_span := None; e_notes := [] |} ]
  = [ [123;34;109;101;115;115;97;103;101;34;58;34;97;92;34;92;110;92;117;48;48;48;49;34;44;34;115;101;118;101;114;105;116;121;34;58;34;101;114;114;111;114;34;44;
       34;115;112;97;110;34;58;110;117;108;108;44;34;110;111;116;101;115;34;58;91;93;44;34;101;114;114;111;114;95;99;111;100;101;34;58;34;69;48;48;49;34;125;10]%N ].
Proof. vm_compute. reflexivity. Qed.
