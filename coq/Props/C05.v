(* C05 -- illegal cycles are always diagnosed; acyclic definitions never are.
   Statements only; proofs in Sema/CycProofs.v and Sema/CyclesProgProofs.v. *)
From Coq Require Import List Bool Arith Relations.
From SliceV Require Import Sema.Cyc Sema.CycProofs Sema.CyclesProg Sema.CyclesProgProofs.
Import ListNotations.

(* the order in which the detector descends equals the declarative `mentions` relation:
   through Sequence, Dictionary key and value, Result success and failure, to any depth *)
Theorem C05_targets_are_mentions : forall t n, In n (targets t) <-> mentions t n.
Proof. exact targets_mentions. Qed.
(* every reported chain is a real path of containment links from the named type back to itself,
   and each link is witnessed by a field of the previous type *)
Theorem C05_reports_are_real_cycles : forall p,
  Forall (fun r => walk (succ_of p) (fst r) (snd r) /\ last (snd r) (fst r) = fst r /\ snd r <> []
                   /\ on_containment_cycle p (fst r)) (detect_prog p).
Proof. exact detect_prog_sound. Qed.
Theorem C05_links_have_fields : forall p a q, walk (succ_of p) a q -> Forall (fun o => o <> None) (chain_fields p a q).
Proof. exact chain_fields_some. Qed.
(* every type lying on a containment cycle is named by a reported cycle *)
Theorem C05_every_cyclic_type_is_named : forall p v, well_scoped p -> v < length p -> on_containment_cycle p v ->
  exists r, In r (detect_prog p) /\ In v (snd r).
Proof. exact detect_prog_complete. Qed.
(* acyclic definitions are never diagnosed *)
Theorem C05_acyclic_never_diagnosed : forall p, (forall v, ~ on_containment_cycle p v) -> detect_prog p = [].
Proof. exact detect_prog_none. Qed.
(* alias-mention graphs and inheritance graphs: a loop is found exactly when some node reaches itself *)
Theorem C05_loop_found_iff_reaches_itself : forall g, gwell_scoped g ->
  (gcyclic g = true <-> exists v, v < length g /\ on_cycle (gsucc g) v).
Proof. exact gcyclic_iff. Qed.
(* following alias-to-alias links with a seen-list terminates: fuel = number of aliases + 1 is never exhausted *)
Theorem C05_alias_walk_terminates : forall next univ, (forall a b, next a = Some b -> In b univ) ->
  forall fuel seen a, NoDup seen -> incl seen univ -> In a univ -> length univ < fuel + length seen ->
  resolve_alias next fuel seen a <> AFuel.
Proof. exact resolve_terminates. Qed.

(* non-vacuity: A{b:B} B{a:Sequence<A?>} C{c:C} D{} *)
Example C05_instance :
  detect_prog [ {| is_enum := false; groups := [[(0, XNode 1)]] |};
                {| is_enum := false; groups := [[(0, XSeq (XNode 0))]] |};
                {| is_enum := false; groups := [[(0, XNode 2)]] |};
                {| is_enum := false; groups := [[]] |} ] = [(0, [1; 0]); (2, [2])].
Proof. vm_compute. reflexivity. Qed.
