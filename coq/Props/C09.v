(* C09 -- reported locations point at the right source text.  Statements only; proofs in Syntax/ParserProofs.v. *)
From Coq Require Import List NArith ZArith Bool.
From SliceV Require Import Syntax.Tokens Syntax.Lexer Syntax.Parser Syntax.ParserProofs Syntax.ParserProofs2 Syntax.ParserProofs3.
Import ListNotations.

(* `written t pts` holds exactly when pts spell t AND every location inside t (the reference itself, nested references, scoped
   names) is the extent start-of-first-token .. end-of-last-token of the tokens it is spelled by; the parser returns that t
   whatever the token locations are: spans of type references and of the identifiers in them are tight at every nesting level *)
Theorem C09_type_reference_spans_exact : forall t pts, written t pts -> forall fuel rest le last dg,
  (length pts < fuel)%nat -> ~ next_is TkQuestion rest -> ~ next_is TkDColon rest ->
  p_typeref fuel (mkps (pts ++ rest) le last dg) = POk_ t (mkps rest le (last_end pts last) dg).
Proof. exact typeref_written. Qed.
(* the same for a whole file (module, struct definitions, fields with tags, attributes with arguments, attributed types): the
   relations `written_file`, `written_struct`, `written_member`, `written_attr`, `writtenA` fix the location of every element
   -- module, definition (from `compact`/`struct` to the name), field (from the tag or the name to the end of its type), tag value,
   identifier, attribute (directive .. closing parenthesis), type reference -- to the extent of its own tokens, and the parser
   returns exactly that file for arbitrary token locations *)
Theorem C09_file_spans_exact : forall f pts, written_file f pts -> forall start,
  p_file (S (S (length pts))) (mkps pts None start []) = POk_ f (mkps [] None (last_end pts start) []).
Proof. exact file_written. Qed.
(* and for files with definitions of every kind (`written_enum`, `written_enumerator`, `written_iface`, `written_operation`,
   `written_return`, `written_custom`, `written_alias` in Syntax/ParserProofs3.v): an enumeration or interface runs from its first
   keyword to its name, an enumerator from its name to the end of its fields or value, an explicit value from the minus sign or
   the literal to the literal's end, an operation from `idempotent` or its name to the closing parenthesis or the end of the return
   type, a single return member over tag, stream marker and type, a custom type or alias from its keyword to its name *)
Theorem C09_any_file_spans_exact : forall f pts, written_file_all f pts -> forall start,
  p_file (S (S (length pts))) (mkps pts None start []) = POk_ f (mkps [] None (last_end pts start) []).
Proof. exact file_written_all. Qed.
(* rows and columns count characters from the start location: a line feed starts a new row at column 1 (CR is one more
   column on its line), any other character -- ASCII, tab or multi-byte -- advances the column by exactly one *)
Theorem C09_columns_count_characters : forall l s, forallb (fun c => negb (c =? 10)%N) s = true ->
  adv_all l s = mkloc (l_row l) (l_col l + length s).
Proof. exact adv_all_line. Qed.
Theorem C09_line_feed_starts_a_row : forall l, adv l 10%N = mkloc (S (l_row l)) 1.
Proof. exact adv_newline. Qed.

Example C09_example : adv_all (mkloc 1 1) [9; 252; 26085; 10; 32]%N = mkloc 2 2.
Proof. vm_compute. reflexivity. Qed.
