(* C08 -- the encoded generator request is decodable and says what the AST says.
   Statements only; proofs in Request/SchemaProofs.v, Request/RequestProofs.v and Request/ConvertProofs.v
   (models: Request/Schema.v, Request/Request.v, and Request/Convert.v for slice_file_converter.rs).
   Gen/CompilerSchema.v is regenerated from slice/Compiler/*.slice, Gen/EncoderDesc.v from slicec/src/definition_types.rs and main.rs. *)
From Coq Require Import List NArith ZArith Bool.
From SliceV Require Import Base.Bytes Codec.Wire Request.Schema Request.SchemaProofs Gen.CompilerSchema Gen.EncoderDesc Request.Request Request.RequestProofs Request.Convert Request.ConvertProofs Request.ConvertTyped.
Import ListNotations.
Open Scope N_scope.

(* for every schema type and every value of it: decoding field by field as the schema dictates (bit-sequence byte for the
   optional field, fields in declaration order, tag-end marker; enums with fields = discriminant, fields, tag-end marker)
   what the encoders wrote gives back the value and consumes exactly those bytes *)
Theorem C08_schema_roundtrip : forall fuel t v rest, (sty_depth t <= fuel)%nat -> has_sty t v ->
  exists bs, enc_sval fuel t v = Some bs /\ bs <> [] /\ dec_sval fuel t (bs ++ rest) = DOk v rest.
Proof. exact schema_roundtrip. Qed.
(* the request: operation name, source files, reference files, then the generator's arguments; nothing is left over *)
Theorem C08_request_roundtrip : forall r rest,
  has_sty YStr (rq_operation r) -> has_sty (YSeq ty_SliceFile) (rq_sources r) -> has_sty (YSeq ty_SliceFile) (rq_references r) ->
  has_sty ty_Arguments (rq_arguments r) ->
  exists bs, enc_request r = Some bs /\ dec_request (bs ++ rest) = DOk r rest.
Proof. exact request_roundtrip. Qed.
(* the Rust encoders list every struct's fields in the schema's order and use the schema's discriminants (re-checked against the
   sources on every run) *)
Theorem C08_encoders_follow_schema : encoders_match_schema = true.
Proof. exact encoders_follow_schema. Qed.
Theorem C08_schema_fits_fuel : (sty_depth (YSeq ty_SliceFile) <= request_fuel)%nat /\ (sty_depth ty_Arguments <= request_fuel)%nat.
Proof. exact request_depth_ok. Qed.

(* the converter (model of slice_file_converter.rs, compared with the implementation on every transmitted file): for every compiled
   file whose type names are not spelled with digits only, the contents it produces pass the well-foundedness check that is also
   run on every decoded request: every numeric type id names an anonymous-type symbol at an earlier position of the same file *)
Theorem C08_converted_ids_wellfounded : forall f, Forall wf_def (cfl_defs f) -> file_ids_wellfounded (conv_file f) = true.
Proof. exact converted_file_ids_wellfounded. Qed.
(* and the definitions are transmitted in source order, each right after the anonymous types it needs: setting the anonymous-type
   symbols aside, the symbols carry the names of the file's definitions in order *)
Theorem C08_converted_definitions_in_order : forall f, Forall wf_def (cfl_defs f) ->
  map symbol_name (filter (fun v => negb (is_anonymous v)) (conv_defs (cfl_defs f))) = map (fun d => Some (def_name d)) (cfl_defs f).
Proof. exact converted_definitions_in_order. Qed.
(* what the converter produces is a SliceFile of the schema (regenerated from slice/Compiler/*.slice on every run) whenever the file's
   strings are valid UTF-8 below 2^62 bytes, its tags and discriminants fit 32 bits, basic enumerator magnitudes fit 64 bits and there
   are fewer than 2^61 symbols; hence its encoding exists and decodes back to exactly that value, consuming exactly its bytes *)
Theorem C08_converted_file_typed : forall f, ok_file f -> room (conv_defs (cfl_defs f)) -> has_sty ty_SliceFile (conv_file f).
Proof. exact converted_file_typed. Qed.
Theorem C08_converted_file_roundtrip : forall f rest, ok_file f -> room (conv_defs (cfl_defs f)) ->
  exists bs, enc_sval request_fuel ty_SliceFile (conv_file f) = Some bs /\ bs <> [] /\ dec_sval request_fuel ty_SliceFile (bs ++ rest) = DOk (conv_file f) rest.
Proof. exact converted_file_roundtrip. Qed.
(* positions are spelled in decimal and read back as the same number *)
Theorem C08_position_spelling : forall n, numeric_id (decimal n) = Some n.
Proof. exact numeric_decimal. Qed.
(* non-vacuity: a struct with a field of type Dictionary<string, Sequence<S>?> becomes three symbols: the sequence (0), the
   dictionary (1) referring to 0, the struct referring to 1 *)
Example C08_converter_instance :
  let s := [83] in let f := mkcfield [102] [] None None (CRef (GDict (CRef (GPrim [115]) false []) (CRef (GSeq (CRef (GNamed [77; 58; 58; 83]) false [])) true [])) false []) in
  let file := mkcfile [97] [77] [] [] [CStruct s [] None false [f]] in
  wf_def (CStruct s [] None false [f]) /\ length (conv_defs (cfl_defs file)) = 3%nat /\
  map is_anonymous (conv_defs (cfl_defs file)) = [true; true; false] /\ file_ids_wellfounded (conv_file file) = true.
Proof. cbv zeta. split; [constructor; [split; reflexivity|constructor]|vm_compute; repeat split]. Qed.
