(* C08 -- the encoded generator request is decodable and says what the AST says.
   Statements only; proofs in Request/SchemaProofs.v and Request/RequestProofs.v.
   Gen/CompilerSchema.v is regenerated from slice/Compiler/*.slice, Gen/EncoderDesc.v from slicec/src/definition_types.rs and main.rs. *)
From Coq Require Import List NArith ZArith Bool.
From SliceV Require Import Base.Bytes Codec.Wire Request.Schema Request.SchemaProofs Gen.CompilerSchema Gen.EncoderDesc Request.Request Request.RequestProofs.
Import ListNotations.
Open Scope N_scope.

(* for every schema type and every value of it: decoding field by field as the schema dictates (bit-sequence byte for the
   optional field, fields in declaration order, tag-end marker; enums with fields = discriminant, fields, tag-end marker)
   what the encoders wrote gives back the value and consumes exactly those bytes *)
Theorem C08_schema_roundtrip : forall fuel t v rest, (sty_depth t <= fuel)%nat -> has_sty t v ->
  exists bs, enc_sval fuel t v = Some bs /\ bs <> [] /\ dec_sval fuel t (bs ++ rest) = DOk v rest.
Proof. exact schema_roundtrip. Qed.
(* the request: operation name, source files, reference files, then the generator's arguments; nothing is left over *)
Theorem C08_request_roundtrip : forall r rest,
  has_sty YStr (rq_operation r) -> has_sty (YSeq ty_SliceFile) (rq_sources r) -> has_sty (YSeq ty_SliceFile) (rq_references r) ->
  has_sty ty_Arguments (rq_arguments r) ->
  exists bs, enc_request r = Some bs /\ dec_request (bs ++ rest) = DOk r rest.
Proof. exact request_roundtrip. Qed.
(* the Rust encoders list every struct's fields in the schema's order and use the schema's discriminants (re-checked against the
   sources on every run) *)
Theorem C08_encoders_follow_schema : encoders_match_schema = true.
Proof. exact encoders_follow_schema. Qed.
Theorem C08_schema_fits_fuel : (sty_depth (YSeq ty_SliceFile) <= request_fuel)%nat /\ (sty_depth ty_Arguments <= request_fuel)%nat.
Proof. exact request_depth_ok. Qed.
