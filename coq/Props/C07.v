(* C07 -- code generation happens only after an error-free compilation.  Statements only; proofs in Driver/MainProofs.v
   (model of main.rs: Driver/Main.v; diagnostic levels as in C13's model Sema/Lints.v). *)
From Coq Require Import List Bool NArith ZArith Arith.
From SliceV Require Import Base.Bytes Codec.Wire Codec.Reply Sema.Lints Driver.Main Driver.MainProofs.
Import ListNotations.
Local Open Scope nat_scope.

(* generators run exactly when no error was reported by compilation and --dry-run was not given: lints (warnings), however
   many and whether suppressed or not, never prevent generation *)
Theorem C07_generation_iff : forall c, generation_runs c = true <-> (forall d, In d (rc_diags c) -> d_lint d <> None) /\ rc_dry_run c = false.
Proof. exact generation_iff. Qed.
Theorem C07_nothing_started_otherwise : forall c, generation_runs c = false -> gen_results c = [].
Proof. exact nothing_started_otherwise. Qed.
Theorem C07_generation_independent_of_suppression : forall c ctx',
  generation_runs {| rc_diags := rc_diags c; rc_ctx := ctx'; rc_dry_run := rc_dry_run c; rc_generators := rc_generators c; rc_fs := rc_fs c |} = generation_runs c.
Proof. exact generation_independent_of_suppression. Qed.
(* the exit status is non-zero exactly when an error was emitted: by compilation, or (generation having run) by a generator
   that failed or a generated file that could not be written *)
Theorem C07_exit_status_iff : forall c, exit_status c <> 0 <->
  has_errors (rc_diags c) = true \/ (generation_runs c = true /\ exists r, In r (gen_results c) /\ gen_errors r <> 0).
Proof. exact exit_status_iff. Qed.
Theorem C07_error_count_is_errors : forall c ds, snd (totals c ds) = length (filter is_error ds).
Proof. exact error_total_is_count. Qed.

(* from the side of what must not happen: any generator result at all (hence any write attempt, printed generator message
   or generator error) presupposes an error-free compilation without --dry-run *)
Theorem C07_file_written_only_after_clean_compile : forall c r, In r (gen_results c) -> has_errors (rc_diags c) = false /\ rc_dry_run c = false.
Proof. exact file_written_only_after_clean_compile. Qed.
(* a single error anywhere among the diagnostics, whatever else was reported: nothing is started, the status is 1 *)
Theorem C07_one_error_stops_everything : forall c d, In d (rc_diags c) -> d_lint d = None -> gen_results c = [] /\ exit_status c = 1.
Proof. exact one_error_stops_everything. Qed.
(* warnings alone: status 0 under --dry-run, otherwise 0 exactly when every generator and every write succeeded *)
Theorem C07_warnings_only_status : forall c, (forall d, In d (rc_diags c) -> d_lint d <> None) ->
  exit_status c = 0 <-> (rc_dry_run c = true \/ forall r, In r (gen_results c) -> gen_errors r = 0).
Proof. exact warnings_only_status. Qed.

Example C07_example :
  let warn := {| d_lint := Some [68%N]; d_file := None; d_scope := None |} in
  let c := {| rc_diags := [warn; warn]; rc_ctx := {| c_cli := []; c_file_allows := []; c_ents := [] |}; rc_dry_run := false;
              rc_generators := [BRuns true false (Some 0%Z) [0%N; 0%N]; BCannotStart]; rc_fs := fun _ => FsWritten |} in
  generation_runs c = true /\ exit_status c = 1 /\ length (gen_results c) = 2.
Proof. vm_compute. repeat split. Qed.
