(* C06 -- conditional compilation selects exactly the right lines, in place.
   Statements only; proofs in Prep/PrepCoreProofs.v and Prep/PrepTextProofs.v. *)
From Coq Require Import List Bool Arith NArith.
From SliceV Require Import Prep.PrepCore Prep.PrepCoreProofs Prep.PrepText Prep.PrepTextProofs.
Import ListNotations.

(* The implementation builds a tree (Conditional / if_section / elif_sections / else_section) and evaluates it;
   the specification reads the lines in order with a stack of {parent, active, taken, seen_else} frames,
   where #define/#undef act only while every enclosing frame is active and only from that line on.
   Both give the same selected lines, the same final symbol set and the same accept/reject verdict. *)
Theorem C06_tree_evaluation_is_line_by_line : forall ls S0, run_impl ls S0 = run_spec ls S0.
Proof. exact prep_refines. Qed.
Theorem C06_text_refines : forall text S0, run_text text S0 = run_text_spec text S0.
Proof. exact text_refines. Qed.
(* malformed or unbalanced directives are rejected, never silently ignored *)
Theorem C06_unbalanced_rejected : forall ls S0 st, run_spec ls S0 = Some st -> count is_endif ls = count is_if ls.
Proof. exact unbalanced_rejected. Qed.
Theorem C06_bad_directive_rejected : forall ls S0, In LBad ls -> run_spec ls S0 = None.
Proof. exact bad_directive_rejected. Qed.
(* nothing shifts: a surviving line keeps its row and column, computed over the original text *)
Theorem C06_line_location_preserved : forall pre l post, Forall no_nl pre -> no_nl l ->
  exists p, l = p ++ skip_ws l /\
    loc_after (join_lines pre ++ p) = line_start_loc (length pre) l /\
    firstn (length (join_lines pre ++ p)) (join_lines (pre ++ l :: post)) = join_lines pre ++ p.
Proof. exact line_location_preserved. Qed.
(* definitions do not leak between files *)
Theorem C06_symbols_do_not_leak : forall texts1 texts2 t S0,
  nth_error (run_files (texts1 ++ t :: texts2) S0) (length texts1) = Some (run_text t S0).
Proof. exact symbols_do_not_leak. Qed.

(* "only inside selected regions", to any nesting depth: wherever the line-by-line reading stands, the current line is
   selected only if every region around it is; a source line, #define or #undef below an unselected region does nothing;
   and once a branch of a conditional was taken no later #elif / #else of it is selected (at most one branch per conditional).
   By C06_tree_evaluation_is_line_by_line this is also what the implementation's tree evaluation does. *)
Theorem C06_selected_means_all_enclosing_selected : forall ls S0 fs st,
  steps ([], (S0, [])) ls = Some (fs, st) -> cur fs = true -> Forall (fun f => active f = true) fs.
Proof. exact selected_means_all_enclosing_selected. Qed.
Theorem C06_inside_unselected_nothing_happens : forall ls S0 fs st l,
  steps ([], (S0, [])) ls = Some (fs, st) -> Exists (fun f => active f = false) fs ->
  match l with LSrc _ | LDef _ | LUndef _ => step (fs, st) l = Some (fs, st) | _ => True end.
Proof. exact inside_unselected_nothing_happens. Qed.
Theorem C06_taken_blocks_later_branches : forall f r st l fs' st', taken f = true -> step (f :: r, st) l = Some (fs', st') ->
  match l with LElif _ | LElse => cur fs' = false | _ => True end.
Proof. exact taken_blocks_later_branches. Qed.
Example C06_nesting_instance :
  let A := [65%N] in
  exists fs st, steps ([], ([], [])) [LIf (smem A); LIf (fun _ => true)] = Some (fs, st) /\ Exists (fun f => active f = false) fs /\ length fs = 2.
Proof. eexists; eexists. vm_compute. split; [reflexivity|]. split; [left; reflexivity|reflexivity]. Qed.

(* non-vacuity: "#if A / src1 / #define B / #elif B / src4 / #else / src6 / #endif / #if B / src9 / #endif" *)
Example C06_instance :
  let A := [65%N] in let B := [66%N] in
  let ls := [LIf (smem A); LSrc 1; LDef B; LElif (smem B); LSrc 4; LElse; LSrc 6; LEndif; LIf (smem B); LSrc 9; LEndif] in
  option_map snd (run_impl ls [A]) = Some [1; 9] /\ option_map snd (run_impl ls []) = Some [6].
Proof. vm_compute. split; reflexivity. Qed.
