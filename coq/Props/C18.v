(* C18 -- a failing generator is reported, never fatal, and never half-trusted.  Statements only; proofs in Driver/MainProofs.v
   and Codec/ReplyProofs.v (models: Driver/Main.v, Codec/Reply.v). *)
From Coq Require Import List Bool NArith ZArith Arith.
From SliceV Require Import Base.Bytes Base.Utf8 Codec.Wire Codec.Reply Codec.ReplyProofs Codec.PrefixProofs Sema.Lints Driver.Main Driver.MainProofs.
Import ListNotations.
Local Open Scope nat_scope.

(* every generator is handled on its own, in the order given: replacing the i-th generator by any other behaviour leaves the
   result of every other generator unchanged -- the others still run and are honoured *)
Theorem C18_generators_independent : forall c, generation_runs c = true -> gen_results c = map (run_generator (rc_fs c)) (rc_generators c).
Proof. exact generators_independent. Qed.
Theorem C18_other_generators_unaffected : forall fs gs i b j, j <> i ->
  nth_error (map (run_generator fs) (firstn i gs ++ b :: skipn (S i) gs)) j = nth_error (map (run_generator fs) gs) j \/ length gs <= i.
Proof. exact other_generators_unaffected. Qed.
(* whatever it did -- could not be started, went away before reading, wrote to stderr, exited non-zero, was killed, replied with
   something undecodable: exactly one error for that generator, no file written, nothing printed; hence a non-zero exit status *)
Theorem C18_failing_generator_reported : forall fs b r, r = run_generator fs b -> gr_error r <> None ->
  gr_files r = [] /\ gr_messages r = [] /\ gen_errors r = 1.
Proof. exact failing_generator_reported. Qed.
Theorem C18_failure_gives_nonzero_exit : forall c, exit_status c <> 0 <->
  has_errors (rc_diags c) = true \/ (generation_runs c = true /\ exists r, In r (gen_results c) /\ gen_errors r <> 0).
Proof. exact exit_status_iff. Qed.
(* files are written only from a reply that decoded completely, from a generator that started, read the request, kept stderr
   empty and exited with status 0 -- and then exactly the decoded files, in order *)
Theorem C18_files_only_from_decoded_reply : forall fs b, gr_files (run_generator fs b) <> [] ->
  exists out files diags rest, b = BRuns true false (Some 0%Z) out /\ dec_reply out = DOk (files, diags) rest /\
    gr_files (run_generator fs b) = map (fun f => (f, fs f)) files.
Proof. exact files_only_from_decoded_reply. Qed.
(* the reply decoder is total and what it hands over is well-formed (valid UTF-8 paths and contents, levels 0..2) *)
Theorem C18_reply_total : (forall bs, dec_reply bs <> DErr EFuel) /\ forall bs v r, dec_reply bs = DOk v r -> exists pre, bs = pre ++ r /\ pre <> [].
Proof. exact reply_total_prefix. Qed.
Theorem C18_reply_wellformed : forall bs fs ds r, dec_reply bs = DOk (fs, ds) r ->
  Forall (fun f => utf8_valid (gf_path f) = true /\ utf8_valid (gf_contents f) = true) fs /\
  Forall (fun d => (gd_level d <= 2)%N /\ utf8_valid (gd_message d) = true) ds.
Proof. exact reply_files_wellformed. Qed.
(* a reply cut anywhere inside the part the decoder reads (exit status 0, nothing on stderr) is reported for that generator as
   a decoding error and no file of it is written; what follows the consumed part does not matter *)
Theorem C18_truncated_reply_rejected : forall bs v r, dec_reply bs = DOk v r ->
  forall k, k < length bs - length r -> exists e, dec_reply (firstn k bs) = DErr e /\ e <> EFuel.
Proof. exact truncated_reply_rejected. Qed.
Theorem C18_truncated_reply_reported : forall fs out v r k, dec_reply out = DOk v r -> k < length out - length r ->
  exists e, run_generator fs (BRuns true false (Some 0%Z) (firstn k out)) = failed (GeDecode e) /\ e <> EFuel.
Proof. exact truncated_reply_reported. Qed.
Theorem C18_reply_independent_of_trailing_bytes : forall bs v r x, dec_reply bs = DOk v r -> dec_reply (bs ++ x) = DOk v (r ++ x).
Proof. exact reply_ext. Qed.
