(* C01 -- every input yields a verdict: no crash, abort or hang.  Statements only.
   What a proof about models can carry here: (1) the inventory of deliberate abort sites of the sources, regenerated on every run,
   is completely classified (a new or edited unwrap/expect/panic!/unreachable!/todo!/assert! breaks this file); (2) the loops
   of the phases that are modelled end within their input-derived bounds: the models' out-of-fuel results are never produced.
   Stack depth and wall-clock time are runtime and are searched by the correspondence streams of vlib/checks/c01.py. *)
From Coq Require Import List Bool NArith ZArith Arith.
From SliceV Require Import Gen.PanicSites Driver.PanicInventory Syntax.Lexer Syntax.LexerProofs Doc.Comment Doc.CommentProofs
  Syntax.Parser Syntax.ParserTotal Driver.Files Driver.FilesProofs Sema.Resolve Sema.ResolveProofs Base.Bytes Codec.Wire Codec.Reply Codec.ReplyProofs Prep.PrepCore Prep.PrepCoreProofs Driver.Emit Driver.SnippetSafe.
Import ListNotations.
Local Open Scope nat_scope.

Theorem C01_abort_sites_all_classified : forallb is_classified panic_sites = true.
Proof. exact inventory_complete. Qed.
(* the Slice lexer takes at most one step per character: any fuel beyond the length of the block gives the same result *)
Theorem C01_lexer_total : forall fuel k attr cur s, length s < fuel -> lex_block (fuel + k) attr cur s = lex_block fuel attr cur s.
Proof. exact lex_block_total. Qed.
(* the parser's recursion is bounded by the number of tokens, on every token sequence, well-formed or not: with the fuel it is
   given (tokens + 2) no production reports out-of-fuel, every production returns with no more tokens than it received *)
Theorem C01_parser_total : forall fuel s, n s + 1 <= fuel -> ok_res 0 s (p_file fuel s).
Proof. exact p_file_ok. Qed.
Theorem C01_parse_total : forall blocks, parse_blocks blocks <> PErr_ PeFuel.
Proof. exact parse_blocks_total. Qed.
(* searching the reference directories ends on every file system, symbolic links that lead back into a directory included *)
Theorem C01_directory_walk_terminates : forall fs k p, walk (S (length (known_ids fs)) + k) [] fs p = walk (S (length (known_ids fs))) [] fs p.
Proof. exact walk_terminates. Qed.
(* the doc-comment parser always returns a comment or a lexical/syntax error *)
Theorem C01_comment_parser_total : forall lines, parse_comment lines <> Err PFuel.
Proof. exact parse_comment_total. Qed.
(* resolving a type reference through any chain or loop of aliases ends: bound, missing or mismatch, never out of steps *)
Theorem C01_resolution_terminates : forall t x ms r, resolve t x ms r <> RFuel.
Proof. exact resolve_terminates. Qed.
(* decoding a generator's reply ends within its input *)
Theorem C01_reply_decoder_total : forall bs, dec_reply bs <> DErr EFuel.
Proof. exact (proj1 reply_total_prefix). Qed.
(* the preprocessor's tree evaluation agrees with the line-by-line machine on every list of lines (so it ends with the input) *)
Theorem C01_preprocessor_total : forall ls S0, run_impl ls S0 = run_spec ls S0.
Proof. exact prep_refines. Qed.
(* showing a snippet: none of the subtractions of get_snippet / get_highlight (start.row - 1, start.col - 1, end.col - 1,
   highlight_end - highlight_start on every line shown, start <= end) goes below zero for a span that runs from a position
   of the text to a later one, unless it starts between a carriage return and its line feed ... *)
Theorem C01_snippet_arithmetic_safe_between_positions : forall f p1 p2 rest, good_at p1 (p2 ++ rest) = true ->
  snippet_safe (p1 ++ p2 ++ rest) (span_of f (pos p1) (pos (p1 ++ p2))).
Proof. exact snippet_safe_between. Qed.
(* ... a span of no width (the end of a directive that ends too early, the end of a file that leaves a region open) is safe wherever it stands ... *)
Theorem C01_snippet_of_no_width_safe_everywhere : forall f p rest, snippet_safe (p ++ rest) (span_of f (pos p) (pos p)).
Proof. exact snippet_safe_zero_width. Qed.
(* ... and no token starts there: every token and lexical error of every block of every text (CRLF or not), and every
   stretch from the start of one token to the end of a later one (what the parser and the validators point at), is safe *)
Theorem C01_snippets_of_lexed_spans_never_underflow : forall (f : list N) (pre body post : list N) (fuel : nat) (attr : bool) (ts : list ptok) (er : option plexerr) (a : bool),
  lex_block fuel attr (pos pre) body = (ts, er, a) ->
  (forall s t e, In (s, t, e) ts -> snippet_safe (pre ++ body ++ post) (span_of f s e)) /\
  (forall (ts1 : list ptok) (s1 : loc) (t1 : Tokens.token) (e1 : loc) (ts2 : list ptok) (s2 : loc) (t2 : Tokens.token) (e2 : loc) (ts3 : list ptok), ts = ts1 ++ (s1, t1, e1) :: ts2 ++ (s2, t2, e2) :: ts3 -> snippet_safe (pre ++ body ++ post) (span_of f s1 e2)) /\
  (forall s x e, er = Some (s, x, e) -> snippet_safe (pre ++ body ++ post) (span_of f s e)).
Proof. exact lexed_spans_render_safely. Qed.
