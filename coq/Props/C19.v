(* C19 -- generator specifications parse back to the path and arguments that were written.
   Statements only; proofs in Cli/PluginSpecProofs.v. *)
From Coq Require Import List Bool NArith.
From SliceV Require Import Cli.PluginSpec Cli.PluginSpecProofs.
Import ListNotations.
Open Scope N_scope.

(* PATH,KEY=VALUE,... with ',' and '=' escaped: exactly that path and those pairs, trimmed, in order *)
Theorem C19_spec_roundtrip : forall p l, no_trailing_bs p -> Forall wf_kv l ->
  trim p <> [] -> Forall (fun kv => trim (fst kv) <> []) l ->
  parse (ps_render p l) = POk (trim p) (map trim2 l).
Proof. exact spec_roundtrip. Qed.
(* a key without '=' has an empty value; one trailing comma is ignored *)
Theorem C19_optional_equals_and_trailing_comma : forall p l tl, no_trailing_bs p -> Forall wf_arg l ->
  (tl = [] \/ tl = [comma]) -> trim p <> [] -> Forall (fun kv => trim (fst kv) <> []) (map snd l) ->
  parse (render_opt p l ++ tl) = POk (trim p) (map trim2 (map snd l)).
Proof. exact spec_roundtrip_opt. Qed.
Theorem C19_rejects_empty_path : forall p l, no_trailing_bs p -> Forall wf_kv l -> trim p = [] ->
  parse (ps_render p l) = PErr EMissingPath.
Proof. exact rejects_empty_path. Qed.
Theorem C19_rejects_empty_key : forall p l, no_trailing_bs p -> Forall wf_kv l -> trim p <> [] ->
  Exists (fun kv => trim (fst kv) = []) l -> parse (ps_render p l) = PErr EMissingKey.
Proof. exact rejects_empty_key. Qed.
Theorem C19_rejects_second_equals : forall p l k v rest, no_trailing_bs p -> Forall wf_kv l ->
  no_trailing_bs k -> no_trailing_bs v ->
  parse (ps_render p l ++ comma :: esc k ++ eqc :: esc v ++ eqc :: rest) = PErr EDoubleEq.
Proof. exact rejects_second_equals. Qed.
(* the empty string is a usage error, not a crash *)
Theorem C19_empty_string_rejected : parse [] = PErr EMissingPath.
Proof. exact empty_string_rejected. Qed.

(* acceptance is sound for every string whatsoever (not only rendered ones): an accepted specification has a non-empty
   path and no empty key; the double-'=' error is decided by the character scan alone *)
Theorem C19_accepted_is_wellformed : forall s p l, parse s = POk p l -> p <> [] /\ Forall (fun kv => fst kv <> []) l.
Proof. exact accepted_is_wellformed. Qed.
Theorem C19_double_eq_iff_scan_fails : forall s, parse s = PErr EDoubleEq <-> parse_raw s = None.
Proof. exact double_eq_iff_scan_fails. Qed.

(* non-vacuity *)
Example C19_instance :
  parse (ps_render [32; 47; 103; 44; 120] [([107; 61], [32; 118; 32]); ([97], [])])
  = POk [47; 103; 44; 120] [([107; 61], [118]); ([97], [])].
Proof. vm_compute. reflexivity. Qed.
