(* C16 -- doc comments keep their text, tags and links.  Statements only; proofs in Doc/CommentProofs.v (model: Doc/Comment.v). *)
From Coq Require Import List NArith Bool.
From SliceV Require Import Cli.PluginSpec Sema.Lookup Sema.Lints Sema.LintsProofs Doc.Comment Doc.CommentProofs.
Import ListNotations.

(* 1. text: a comment written as message lines (text pieces without an opening brace, separated by {@link ...} tags with Slice
      identifiers, any indentation, any characters) has exactly those components as its overview, line by line, each line
      followed by one newline component, with the common indentation removed (2.) *)
Theorem C16_overview_of_written_lines : forall ms, ms <> [] -> Forall (fun m => wfl_msg m /\ line_mode (render_msg m) = LMessage) ms ->
  parse_comment (map render_msg ms) = Ok {| d_overview := Some (sanitize (map opt_msg ms)); d_params := []; d_returns := []; d_see := [] |}.
Proof. exact overview_of_written_lines. Qed.
Theorem C16_message_line_read_back : forall m, wfl_msg m -> line_mode (render_msg m) = LMessage -> lex_line (render_msg m) = line_toks (WMsg m).
Proof. exact lex_line_written. Qed.
Theorem C16_plain_text_line : forall s, s <> [] -> forallb not_lb s = true -> line_mode s = LMessage -> lex_line s = [IT (DKText s); IT DKNewline].
Proof. exact lex_plain_text. Qed.
(* 2. indentation: only white space is removed from a line and never more than the line has; every line that has something
      other than white space on it loses exactly the common indentation k (so relative indentation is kept), k is attained by
      one of those lines (nothing more could be removed), and each written line yields its components and one newline *)
Theorem C16_strip_removes_white_space : forall k t, exists w, t = w ++ strip k t /\ forallb is_ws w = true /\
  match k with Some n => length w = Nat.min n (leading_ws t) | None => length w = leading_ws t end.
Proof. exact strip_removes_white_space. Qed.
Theorem C16_counted_line_loses_exactly_common : forall ls k t rest, common_indent ls = Some k -> In (Some (CText t :: rest)) ls ->
  line_indent (Some (CText t :: rest)) <> None ->
  exists w, t = w ++ strip (Some k) t /\ forallb is_ws w = true /\ length w = k /\
            strip_line (Some k) (Some (CText t :: rest)) = CText (strip (Some k) t) :: rest ++ [nlc].
Proof. exact counted_line_loses_exactly_common. Qed.
Theorem C16_some_line_starts_at_margin : forall ls k, common_indent ls = Some k ->
  exists l, In l ls /\ line_indent l = Some k /\
    match l with Some (CText t :: _) => leading_ws (strip (Some k) t) = 0%nat \/ all_ws t = true | _ => k = 0%nat end.
Proof. exact some_line_starts_at_margin. Qed.
Theorem C16_line_breaks_preserved : forall ls, sanitize ls = flat_map (strip_line (common_indent ls)) ls /\
  forall k l, exists body, strip_line k l = body ++ [nlc] /\
    match l with None => body = [] | Some (CText t :: rest) => body = CText (strip k t) :: rest | Some m => body = m end.
Proof. exact sanitize_line_structure. Qed.
(* 3. tags: every written tag line is read back as that tag with the identifier written; the leading message lines are the
      overview; each param/returns tag owns the message lines after it; tags appear in the comment in the order written *)
Theorem C16_line_read_back : forall w, wf_line w -> parse_line (line_toks w) = Ok (pline_of w).
Proof. exact parse_line_written. Qed.
Theorem C16_lines_grouped : forall ws, Forall wf_line ws -> forall c d, parse_lines (map line_toks ws) c d = group (map pline_of ws) c d.
Proof. exact parse_lines_written. Qed.
Theorem C16_comment_structure : forall ov bs,
  group (map PMsg ov ++ flat_map block_plines bs) (COverview []) doc0 = Ok (fold_left apply_block bs (dflush (COverview ov) doc0)).
Proof. exact comment_structure. Qed.
Theorem C16_tags_in_order : forall bs d,
  let r := fold_left apply_block bs d in
  d_overview r = d_overview d /\ d_params r = d_params d ++ flat_map block_params bs /\
  d_returns r = d_returns d ++ flat_map block_returns bs /\ d_see r = d_see d ++ flat_map block_sees bs.
Proof. exact tags_in_order. Qed.
(* 4. links: bound by the search used for types (Sema.Lookup.find = find_spec, C03), started at the documented element itself *)
Theorem C16_links_bound_like_types : forall t self global id,
  resolve_link t self global id =
    match find_spec _ t self global id with
    | Some (k, e) => if linkable k then LinkTo e else LinkNotLinkable k
    | None => LinkMissing
    end.
Proof. exact resolve_link_spec. Qed.
(* 5. defects are lints: whatever is reported about a comment carries a lint code, so its level is Warning or Allowed, never
      Error, under every configuration (C13's level function) *)
Theorem C16_comment_defects_never_errors : forall c d code, d_lint d = Some code -> level_of c d <> LError.
Proof. intros c d code. exact (lints_never_errors c d code). Qed.

(* non-vacuity: a two-line comment with mixed-width indentation and a link, evaluated *)
Example C16_example :
  parse_comment [[12288; 32; 97; 32; 123; 64; 108; 105; 110; 107; 32; 88; 125]; [32; 32; 32; 98]]%N
  = Ok {| d_overview := Some [CText [97; 32]%N; CLink false [[88]%N]; CText [10]%N; CText [32; 98]%N; CText [10]%N]; d_params := []; d_returns := []; d_see := [] |}.
Proof. vm_compute. reflexivity. Qed.
