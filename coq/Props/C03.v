(* C03 -- type references bind to the entity the scoping rules designate.
   Statements only; proofs in Sema/Lookup.v and Sema/ResolveProofs.v. *)
From Coq Require Import List Bool Arith Permutation.
From SliceV Require Import Sema.Scoped Sema.ScopedProofs Sema.Lookup Sema.Resolve Sema.ResolveProofs.
Import ListNotations.

(* the lookup walks outwards: scope::id, then one segment fewer, ..., finally the global scope;
   a name starting with '::' is looked up globally only *)
Theorem C03_lookup_is_outward_scope_search : forall V (t : table V) scope global id,
  find V t scope global id = find_spec V t scope global id.
Proof. exact find_eq_spec. Qed.
(* a reference that designates a non-alias is bound to exactly that entity iff its kind fits the position *)
Theorem C03_binds_the_designated_entity : forall t x ms r e, designates t ms r = Some e -> is_alias (e_kind e) = false ->
  resolve t x ms r = if kind_ok x (e_kind e) then Bound (e_id e) [] else ErrMismatch.
Proof. exact resolve_direct. Qed.
(* aliases are transparent: bound to the final non-alias target, with the attributes written on each alias's type in chain order *)
Theorem C03_aliases_are_transparent : forall t x ms r e via id k a, designates t ms r = Some e -> is_alias (e_kind e) = true ->
  leads t e via (id, k, a) -> NoDup (e_mscoped e :: via) -> length via <= length t ->
  resolve t x ms r = if kind_ok x k then Bound id a else ErrMismatch.
Proof. exact resolve_alias_transparent. Qed.
(* a reference that designates nothing, or something of the wrong kind, is an error, never a silent binding *)
Theorem C03_missing_is_an_error : forall t x ms r, designates t ms r = None -> resolve t x ms r = ErrMissing.
Proof. exact resolve_missing. Qed.
Theorem C03_never_binds_a_wrong_kind : forall t x ms r id a, resolve t x ms r = Bound id a ->
  (exists k, (k = KAnon \/ k = KPrim \/ True) /\ kind_ok x k = true) \/ exists e, In e (map snd t) /\ e_id e = id /\ kind_ok x (e_kind e) = true.
Proof. exact resolve_never_wrong_kind. Qed.
Theorem C03_resolution_terminates : forall t x ms r, resolve t x ms r <> RFuel.
Proof. exact resolve_terminates. Qed.
(* every definition can be retrieved by its fully scoped name when keys are unique; and then the order in which
   files were added to the table cannot influence a lookup (used by C15) *)
Theorem C03_find_element_by_scoped_name : forall V (t : table V) k v, NoDup (map fst t) -> In (k, v) t -> get V t k = Some v.
Proof. exact get_In. Qed.
Theorem C03_lookup_order_independent : forall V (t t' : table V) k, NoDup (map fst t) -> Permutation t t' -> get V t k = get V t' k.
Proof. exact get_perm. Qed.

(* non-vacuity: module 1 { struct 2; alias 3 = [5,6] 2; alias 4 = [7] 3 }: a reference to 4 binds struct id 70 with attributes 7,5,6 *)
Example C03_instance :
  let t := [([1;2], {| e_kind := KStruct; e_id := 70; e_mscoped := [1;2]; e_under := None |});
            ([1;3], {| e_kind := KAlias; e_id := 80; e_mscoped := [1;3]; e_under := Some (UNamed {| tr_global := false; tr_name := [2]; tr_attrs := [5;6] |} [1]) |});
            ([1;4], {| e_kind := KAlias; e_id := 90; e_mscoped := [1;4]; e_under := Some (UNamed {| tr_global := true; tr_name := [1;3]; tr_attrs := [7] |} [1]) |})] in
  resolve t XType [1] {| tr_global := false; tr_name := [4]; tr_attrs := [] |} = Bound 70 [7;5;6]
  /\ resolve t XIface [1] {| tr_global := false; tr_name := [4]; tr_attrs := [] |} = ErrMismatch.
Proof. vm_compute. split; reflexivity. Qed.

(* every definition, field, enumerator and operation can be retrieved from the AST by its fully scoped name: in the model of the
   lookup table over several files (Sema/Scoped.v), once the redefinition pass is silent every entity entered in the table is what
   its own scoped identifier leads to, whatever the order of the files -- parameters and return members too, where no operation
   uses one name for both (they share an AST scope; Ast::find_node documents that these may not be unique) *)
Theorem C03_entities_retrievable_by_scoped_name : forall fs f k,
  redef_report fs = [] -> Forall ops_ok (all_defs fs) -> In f fs -> In k (entity_keys f) ->
  exists p, sc_lookup k (sc_table fs) = Some (ScEntity (sf_id f) p).
Proof. exact entities_retrievable. Qed.
