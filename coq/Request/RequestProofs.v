From Coq Require Import List NArith ZArith Lia Bool String.
From SliceV Require Import Base.Bytes Base.Utf8 Codec.Wire Request.Schema Request.SchemaProofs Gen.CompilerSchema Gen.EncoderDesc Request.Request.
Import ListNotations.
Close Scope string_scope.
Open Scope N_scope.

(* the regenerated schema fits the fuel, and the regenerated encoder description agrees with it *)
Lemma request_depth_ok : (sty_depth (YSeq ty_SliceFile) <= request_fuel)%nat /\ (sty_depth ty_Arguments <= request_fuel)%nat.
Proof. vm_compute. split; repeat constructor. Qed.
Theorem encoders_follow_schema : encoders_match_schema = true.
Proof. vm_compute. reflexivity. Qed.

(* decoding the request field by field according to the schema gives back what was encoded and leaves exactly what follows *)
Theorem request_roundtrip r rest :
  has_sty YStr (rq_operation r) -> has_sty (YSeq ty_SliceFile) (rq_sources r) -> has_sty (YSeq ty_SliceFile) (rq_references r) ->
  has_sty ty_Arguments (rq_arguments r) ->
  exists bs, enc_request r = Some bs /\ dec_request (bs ++ rest) = DOk r rest.
Proof.
  intros H1 H2 H3 H4. destruct request_depth_ok as [D1 D2]. destruct r as [a b c d]. cbn [rq_operation rq_sources rq_references rq_arguments] in *.
  destruct (schema_roundtrip request_fuel ty_Arguments d rest D2 H4) as (bd & Ed & _ & Dd).
  destruct (schema_roundtrip request_fuel (YSeq ty_SliceFile) c (bd ++ rest) D1 H3) as (bc & Ec & _ & Dc).
  destruct (schema_roundtrip request_fuel (YSeq ty_SliceFile) b (bc ++ bd ++ rest) D1 H2) as (bb & Eb & _ & Db).
  destruct (schema_roundtrip request_fuel YStr a (bb ++ bc ++ bd ++ rest) ltac:(cbn; unfold request_fuel; lia) H1) as (ba & Ea & _ & Da).
  exists (ba ++ bb ++ bc ++ bd). unfold enc_request, dec_request. cbn [rq_operation rq_sources rq_references rq_arguments].
  rewrite Ea. cbn [obind]. rewrite Eb. cbn [obind]. rewrite Ec. cbn [obind]. rewrite Ed. cbn [obind]. split; [reflexivity|].
  rewrite <- !app_assoc, Da. cbn [dbind]. rewrite Db. cbn [dbind]. rewrite Dc. cbn [dbind]. rewrite Dd. reflexivity.
Qed.
