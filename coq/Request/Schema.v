(* A universe of Slice-schema types (as used by slice/Compiler/*.slice) with the codec the schema dictates:
   non-compact structs = bit-sequence byte for the untagged optional field (at most one per struct here), fields in
   declaration order, tag-end marker; enums with fields = varint32 discriminant, the variant's fields, tag-end marker;
   simple enums over uint8; sequences and dictionaries = size + elements.  Model only; proofs in SchemaProofs.v. *)
From Coq Require Import List NArith ZArith Bool.
From SliceV Require Import Base.Bytes Base.Utf8 Codec.Wire.
Import ListNotations.
Open Scope N_scope. Open Scope bool_scope.

Inductive sty :=
| YBool | YStr | YU8 | YU64 | YI32 | YVarInt32
| YSeq (e : sty) | YDict (k v : sty)
| YStruct (fields : list (bool * sty))          (* (is optional, type) per field, in declaration order *)
| YVariant (variants : list (Z * list (bool * sty)))   (* discriminant, fields of that enumerator *)
| YEnumU8 (count : N).                          (* enumerators 0 .. count-1 *)
Inductive sval :=
| SBool (b : bool) | SStr (s : list byte) | SN (n : N) | SZ (z : Z)
| SSeq (l : list sval) | SDict (l : list (sval * sval))
| SStruct (fields : list (option sval))         (* None only for an absent optional field *)
| SVariant (disc : Z) (fields : list (option sval)).

Definition tag_end : list byte := [252].          (* varint32 -1 *)
Definition count_opt (fs : list (bool * sty)) : nat := length (filter fst fs).
Definition present_bit (fs : list (bool * sty)) (vs : list (option sval)) : bool :=
  existsb (fun fv => fst (fst fv) && match snd fv with Some _ => true | None => false end) (combine fs vs).

Definition obind {A B} (o : option A) (f : A -> option B) : option B := match o with Some a => f a | None => None end.

Section Enc.
  Variable enc : sty -> sval -> option (list byte).
  Fixpoint enc_fields (fs : list (bool * sty)) (vs : list (option sval)) : option (list byte) :=
    match fs, vs with
    | [], [] => Some []
    | (opt, t) :: fs', v :: vs' =>
      match v with
      | Some x => obind (enc t x) (fun a => obind (enc_fields fs' vs') (fun b => Some (a ++ b)))
      | None => if opt then enc_fields fs' vs' else None
      end
    | _, _ => None
    end.
  Fixpoint enc_list (t : sty) (l : list sval) : option (list byte) :=
    match l with [] => Some [] | x :: r => obind (enc t x) (fun a => obind (enc_list t r) (fun b => Some (a ++ b))) end.
  Fixpoint enc_pairs (k v : sty) (l : list (sval * sval)) : option (list byte) :=
    match l with [] => Some [] | (a, b) :: r => obind (enc k a) (fun x => obind (enc v b) (fun y => obind (enc_pairs k v r) (fun z => Some (x ++ y ++ z)))) end.
End Enc.
Definition enc_body (enc : sty -> sval -> option (list byte)) (fs : list (bool * sty)) (vs : list (option sval)) : option (list byte) :=
  obind (enc_fields enc fs vs) (fun b =>
    Some ((if Nat.eqb (count_opt fs) 0 then [] else [if present_bit fs vs then 1 else 0]) ++ b ++ tag_end)).
Fixpoint find_variant (d : Z) (vs : list (Z * list (bool * sty))) : option (list (bool * sty)) :=
  match vs with [] => None | (d', fs) :: r => if Z.eqb d d' then Some fs else find_variant d r end.

Fixpoint enc_sval (fuel : nat) (t : sty) (v : sval) : option (list byte) :=
  match fuel with O => None | S f =>
  match t, v with
  | YBool, SBool b => Some (enc_bool b)
  | YStr, SStr s => enc_str s
  | YU8, SN n => Some (enc_uint 1 n)
  | YU64, SN n => Some (enc_uint 8 n)
  | YI32, SZ z => Some (enc_int 4 z)
  | YVarInt32, SZ z => enc_varint z
  | YSeq e, SSeq l => obind (enc_size (N.of_nat (length l))) (fun h => obind (enc_list (enc_sval f) e l) (fun b => Some (h ++ b)))
  | YDict k x, SDict l => obind (enc_size (N.of_nat (length l))) (fun h => obind (enc_pairs (enc_sval f) k x l) (fun b => Some (h ++ b)))
  | YStruct fs, SStruct vs => enc_body (enc_sval f) fs vs
  | YVariant vars, SVariant d vs =>
    match find_variant d vars with
    | Some fs => obind (enc_varint d) (fun h => obind (enc_body (enc_sval f) fs vs) (fun b => Some (h ++ b)))
    | None => None end
  | YEnumU8 c, SN n => if n <? c then Some (enc_uint 1 n) else None
  | _, _ => None
  end end.

Section Dec.
  Variable dec : sty -> list byte -> dres sval.
  Fixpoint dec_fields (present : bool) (fs : list (bool * sty)) (bs : list byte) : dres (list (option sval)) :=
    match fs with
    | [] => DOk [] bs
    | (opt, t) :: fs' =>
      if opt && negb present then dlet (vs, r) <- dec_fields present fs' bs ;; DOk (None :: vs) r
      else dlet (x, r) <- dec t bs ;; dlet (vs, r') <- dec_fields present fs' r ;; DOk (Some x :: vs) r'
    end.
  Fixpoint dec_list (fuel : nat) (count : N) (t : sty) (bs : list byte) : dres (list sval) :=
    if count =? 0 then DOk [] bs else
    match fuel with O => DErr EFuel | S f => dlet (x, r) <- dec t bs ;; dlet (xs, r') <- dec_list f (count - 1) t r ;; DOk (x :: xs) r' end.
  Fixpoint dec_pairs (fuel : nat) (count : N) (k v : sty) (bs : list byte) : dres (list (sval * sval)) :=
    if count =? 0 then DOk [] bs else
    match fuel with O => DErr EFuel | S f =>
      dlet (a, r) <- dec k bs ;; dlet (b, r1) <- dec v r ;; dlet (xs, r') <- dec_pairs f (count - 1) k v r1 ;; DOk ((a, b) :: xs) r' end.
End Dec.
Definition dec_body (dec : sty -> list byte -> dres sval) (fs : list (bool * sty)) (bs : list byte) : dres (list (option sval)) :=
  dlet (present, r) <- (if Nat.eqb (count_opt fs) 0 then DOk false bs else dec_bool bs) ;;
  dlet (vs, r1) <- dec_fields dec present fs r ;;
  dlet (u, r2) <- skip_tagged_fields r1 ;; DOk vs r2.

Fixpoint dec_sval (fuel : nat) (t : sty) (bs : list byte) : dres sval :=
  match fuel with O => DErr EFuel | S f =>
  match t with
  | YBool => dlet (b, r) <- dec_bool bs ;; DOk (SBool b) r
  | YStr => dlet (s, r) <- dec_str bs ;; DOk (SStr s) r
  | YU8 => dlet (n, r) <- dec_uint 1 bs ;; DOk (SN n) r
  | YU64 => dlet (n, r) <- dec_uint 8 bs ;; DOk (SN n) r
  | YI32 => dlet (z, r) <- dec_int 4 bs ;; DOk (SZ z) r
  | YVarInt32 => dlet (z, r) <- dec_varint_in I32_MIN I32_MAX bs ;; DOk (SZ z) r
  | YSeq e => dlet (n, r) <- dec_size bs ;; dlet (l, r') <- dec_list (dec_sval f) (S (length r)) n e r ;; DOk (SSeq l) r'
  | YDict k v => dlet (n, r) <- dec_size bs ;; dlet (l, r') <- dec_pairs (dec_sval f) (S (length r)) n k v r ;; DOk (SDict l) r'
  | YStruct fs => dlet (vs, r) <- dec_body (dec_sval f) fs bs ;; DOk (SStruct vs) r
  | YVariant vars =>
    dlet (d, r) <- dec_varint_in I32_MIN I32_MAX bs ;;
    match find_variant d vars with
    | Some fs => dlet (vs, r') <- dec_body (dec_sval f) fs r ;; DOk (SVariant d vs) r'
    | None => DErr EIllegalValue end
  | YEnumU8 c => dlet (n, r) <- dec_uint 1 bs ;; if n <? c then DOk (SN n) r else DErr EIllegalValue
  end end.

(* the values of a schema type; depth bounds the nesting of the type term *)
Fixpoint sty_depth (t : sty) : nat :=
  match t with
  | YSeq e => S (sty_depth e)
  | YDict k v => S (Nat.max (sty_depth k) (sty_depth v))
  | YStruct fs => S (fold_right (fun ft m => Nat.max (sty_depth (snd ft)) m) 0%nat fs)
  | YVariant vs => S (fold_right (fun dv m => Nat.max (fold_right (fun ft m' => Nat.max (sty_depth (snd ft)) m') 0%nat (snd dv)) m) 0%nat vs)
  | _ => 1%nat
  end.
