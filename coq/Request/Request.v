(* The generator request (C08): "generateCode", the source files, the reference files - decoded field by field according to
   the Compiler schema (Gen/CompilerSchema.v, regenerated from slice/Compiler/*.slice) - followed by the generator's arguments.
   Also the executable checks on a decoded request: numeric type ids refer to earlier anonymous symbols of the same file. *)
From Coq Require Import List NArith ZArith Bool String.
From SliceV Require Import Base.Bytes Base.Utf8 Codec.Wire Request.Schema Gen.CompilerSchema Gen.EncoderDesc.
Import ListNotations.
Close Scope string_scope.
Open Scope N_scope.

Definition request_fuel : nat := 24.
Record request := { rq_operation : sval; rq_sources : sval; rq_references : sval; rq_arguments : sval }.
Definition enc_request (r : request) : option (list byte) :=
  obind (enc_sval request_fuel YStr (rq_operation r)) (fun a =>
  obind (enc_sval request_fuel (YSeq ty_SliceFile) (rq_sources r)) (fun b =>
  obind (enc_sval request_fuel (YSeq ty_SliceFile) (rq_references r)) (fun c =>
  obind (enc_sval request_fuel ty_Arguments (rq_arguments r)) (fun d => Some (a ++ b ++ c ++ d))))).
Definition dec_request (bs : list byte) : dres request :=
  dlet (a, r1) <- dec_sval request_fuel YStr bs ;;
  dlet (b, r2) <- dec_sval request_fuel (YSeq ty_SliceFile) r1 ;;
  dlet (c, r3) <- dec_sval request_fuel (YSeq ty_SliceFile) r2 ;;
  dlet (d, r4) <- dec_sval request_fuel ty_Arguments r3 ;;
  DOk {| rq_operation := a; rq_sources := b; rq_references := c; rq_arguments := d |} r4.

(* the hand-written Rust encoders list their fields in the order the schema declares them, with the schema's discriminants *)
Fixpoint assoc {A} (k : string) (l : list (string * A)) : option A :=
  match l with [] => None | (k', v) :: r => if String.eqb k k' then Some v else assoc k r end.
Fixpoint strs_eqb (a b : list string) : bool :=
  match a, b with [], [] => true | x :: a', y :: b' => String.eqb x y && strs_eqb a' b' | _, _ => false end.
Fixpoint vars_eqb (a b : list (string * Z)) : bool :=
  match a, b with [], [] => true | (x, n) :: a', (y, m) :: b' => String.eqb x y && Z.eqb n m && vars_eqb a' b' | _, _ => false end.
Definition encoders_match_schema : bool :=
  forallb (fun e => match assoc (fst e) schema_fields with Some fs => strs_eqb (snd e) fs | None => false end) encoder_fields &&
  forallb (fun e => match assoc (fst e) schema_variants with Some vs => vars_eqb (snd e) vs | None => false end) encoder_variants &&
  (* every struct and variant type that occurs in a SliceFile has an encoder *)
  forallb (fun s => match assoc (fst s) encoder_fields with Some _ => true | None =>
                      (String.eqb (fst s) "generatedfile"%string || String.eqb (fst s) "diagnostic"%string)%bool end) schema_fields &&
  String.eqb request_operation_name "generateCode"%string && strs_eqb request_sequences ["sourcefiles"%string; "referencefiles"%string].

(* ---------- checks on a decoded request ---------- *)
(* a TypeRef value is the only struct of shape (string, bool, sequence) *)
Fixpoint typeref_ids (fuel : nat) (v : sval) : list (list byte) :=
  match fuel with O => [] | S f =>
  match v with
  | SStruct [Some (SStr id); Some (SBool _); Some (SSeq attrs)] => [id]
  | SStruct fs => flat_map (fun o => match o with Some x => typeref_ids f x | None => [] end) fs
  | SVariant _ fs => flat_map (fun o => match o with Some x => typeref_ids f x | None => [] end) fs
  | SSeq l => flat_map (typeref_ids f) l
  | _ => []
  end end.
Definition is_digit_b (b : byte) : bool := (48 <=? b) && (b <=? 57).
Fixpoint number_of (acc : N) (s : list byte) : N := match s with [] => acc | b :: r => number_of (acc * 10 + (b - 48)) r end.
Definition numeric_id (s : list byte) : option N :=
  match s with [] => None | _ => if forallb is_digit_b s then Some (number_of 0 s) else None end.
Definition is_anonymous (v : sval) : bool := match v with SVariant d _ => ((5 <=? d) && (d <=? 7))%Z | _ => false end.
(* every numeric type id used by the symbol at position i refers to an anonymous-type symbol at a position before i *)
Fixpoint ids_ok_from (i : nat) (before : list sval) (rest : list sval) : bool :=
  match rest with
  | [] => true
  | sym :: r =>
    forallb (fun id => match numeric_id id with
                       | Some n => (N.to_nat n <? i)%nat && match nth_error before (N.to_nat n) with Some a => is_anonymous a | None => false end
                       | None => true end) (typeref_ids 40 sym)
    && ids_ok_from (S i) (before ++ [sym]) r
  end.
Definition file_ids_wellfounded (file : sval) : bool :=
  match file with
  | SStruct [_; _; _; Some (SSeq contents)] => ids_ok_from 0 [] contents
  | _ => false
  end.
Definition request_ids_wellfounded (r : request) : bool :=
  match rq_sources r, rq_references r with
  | SSeq a, SSeq b => forallb file_ids_wellfounded a && forallb file_ids_wellfounded b
  | _, _ => false
  end.
