(* The converter's output is a value of the Compiler schema (C08): for every compiled file whose strings are valid UTF-8 and whose
   numbers are in range, conv_file f has type SliceFile of Gen/CompilerSchema.v (regenerated from slice/Compiler/*.slice on every run,
   so a change of the schema breaks this file), hence -- with the schema round-trip theorem -- its encoding decodes back to it. *)
From Coq Require Import List NArith ZArith Bool Arith Lia.
From SliceV Require Import Base.Bytes Base.Utf8 Codec.Wire Request.Schema Request.SchemaProofs Gen.CompilerSchema Request.Request Request.Convert Request.ConvertProofs.
Import ListNotations.
Local Open Scope nat_scope.

(* ------------------------------------------------------------------------------------------------ strings *)
Definition ok_str (s : cstring) : Prop := utf8_valid s = true /\ (N.of_nat (length s) < 2 ^ 62)%N.
Definition short {A} (l : list A) : Prop := (N.of_nat (length l) < 2 ^ 62)%N.
Lemma ascii_valid_fuel (s : list byte) : forall fuel, length s <= fuel -> forallb (fun b => (b <? 128)%N) s = true -> exists l, utf8_decode_fuel fuel s = Some l.
Proof.
  induction s as [|b r IH]; intros fuel Hf H; [exists []; destruct fuel; reflexivity|]. cbn [forallb] in H. apply andb_true_iff in H as [Hb Hr].
  destruct fuel as [|f]; [cbn in Hf; lia|]. cbn [utf8_decode_fuel decode_cp]. rewrite Hb. cbn [length] in Hf. destruct (IH f ltac:(lia) Hr) as (l & ->). exists (b :: l). reflexivity.
Qed.
Lemma ascii_valid (s : list byte) : forallb (fun b => (b <? 128)%N) s = true -> utf8_valid s = true.
Proof. intros H. unfold utf8_valid, utf8_decode. destruct (ascii_valid_fuel s (length s) (le_n _) H) as (l & E). unfold byte in *. rewrite E. reflexivity. Qed.
Lemma digits_aux_len : forall fuel n acc, length (digits_aux fuel n acc) <= fuel + length acc.
Proof.
  induction fuel as [|f IH]; intros n acc; cbn [digits_aux]; [lia|]. destruct (n <? 10)%N; [cbn [length]; lia|].
  specialize (IH (n / 10)%N ((48 + n mod 10)%N :: acc)). cbn [length] in IH. lia.
Qed.
Lemma digits_aux_ascii : forall fuel n acc, forallb (fun b => (b <? 128)%N) acc = true -> forallb (fun b => (b <? 128)%N) (digits_aux fuel n acc) = true.
Proof.
  induction fuel as [|f IH]; intros n acc H; cbn [digits_aux]; [exact H|].
  assert (Hd : ((48 + n mod 10 <? 128)%N = true)).
  { pose proof (N.mod_lt n 10 ltac:(lia)) as Hm. set (m := (n mod 10)%N) in *. clearbody m. apply N.ltb_lt. lia. }
  destruct (n <? 10)%N; [cbn [forallb]; rewrite Hd, H; reflexivity|]. apply IH. cbn [forallb]. rewrite Hd, H. reflexivity.
Qed.
Lemma decimal_ok n : (n < 2 ^ 61)%N -> ok_str (decimal n).
Proof.
  intros Hn. unfold decimal. split; [apply ascii_valid, digits_aux_ascii; reflexivity|].
  pose proof (digits_aux_len (S (N.to_nat n)) n []) as L. cbn [length] in L.
  assert (N.of_nat (length (digits_aux (S (N.to_nat n)) n [])) <= N.of_nat (S (N.to_nat n) + 0))%N by lia.
  assert (2 ^ 61 + 1 < 2 ^ 62)%N by (vm_compute; reflexivity). lia.
Qed.

(* ------------------------------------------------------------------------------------------------ data in range *)
Definition ok_attr (a : cattr) : Prop := ok_str (ca_dir a) /\ Forall ok_str (ca_args a) /\ short (ca_args a).
Definition ok_attrs (l : list cattr) : Prop := Forall ok_attr l /\ short l.
Definition ok_msg (m : list cmsg) : Prop := Forall (fun c => match c with MText s => ok_str s | MLink i => ok_str i end) m /\ short m.
Definition ok_doc (d : cdoc) : Prop :=
  ok_msg (cd_overview d) /\ Forall ok_str (cd_see d) /\ short (cd_see d) /\ Forall (fun t => ok_msg (snd t)) (cd_params d) /\ Forall (fun t => ok_msg (snd t)) (cd_returns d).
Definition ok_odoc (d : option cdoc) : Prop := match d with Some d => ok_doc d | None => True end.
Definition ok_tag (t : option Z) : Prop := match t with Some z => (I32_MIN <= z <= I32_MAX)%Z | None => True end.
Fixpoint ok_tref (t : ctref) : Prop := match t with CRef tgt _ attrs => ok_target tgt /\ ok_attrs attrs end
with ok_target (t : ctarget) : Prop :=
  match t with
  | GNamed id => ok_str id | GPrim nm => ok_str nm
  | GSeq e => ok_tref e | GDict k v => ok_tref k /\ ok_tref v | GRes s f => ok_tref s /\ ok_tref f
  end.
Definition ok_field (f : cfield) : Prop := ok_str (cf_name f) /\ ok_attrs (cf_attrs f) /\ ok_odoc (cf_doc f) /\ ok_tag (cf_tag f) /\ ok_tref (cf_type f).
Definition ok_param (p : cparam) : Prop := ok_str (cp_name p) /\ ok_attrs (cp_attrs p) /\ ok_tag (cp_tag p) /\ ok_tref (cp_type p).
Definition ok_op (o : cop) : Prop :=
  ok_str (co_name o) /\ ok_attrs (co_attrs o) /\ ok_odoc (co_doc o) /\ Forall ok_param (co_params o) /\ short (co_params o) /\ Forall ok_param (co_rets o) /\ short (co_rets o).
Definition ok_enumerator (basic : bool) (e : cenumerator) : Prop :=
  ok_str (ce_name e) /\ ok_attrs (ce_attrs e) /\ ok_odoc (ce_doc e) /\ Forall ok_field (ce_fields e) /\ short (ce_fields e) /\
  (if basic then (Z.abs_N (ce_value e) < 2 ^ 64)%N else (I32_MIN <= ce_value e <= I32_MAX)%Z).
Definition ok_def (d : cdef) : Prop :=
  match d with
  | CStruct n a doc _ fields => ok_str n /\ ok_attrs a /\ ok_odoc doc /\ Forall ok_field fields /\ short fields
  | CIface n a doc bases ops => ok_str n /\ ok_attrs a /\ ok_odoc doc /\ Forall ok_str bases /\ short bases /\ Forall ok_op ops /\ short ops
  | CEnum n a doc _ _ (Some u) ens => ok_str n /\ ok_attrs a /\ ok_odoc doc /\ ok_str u /\ Forall (ok_enumerator true) ens /\ short ens
  | CEnum n a doc _ _ None ens => ok_str n /\ ok_attrs a /\ ok_odoc doc /\ Forall (ok_enumerator false) ens /\ short ens
  | CCustom n a doc => ok_str n /\ ok_attrs a /\ ok_odoc doc
  | CAlias n a doc t => ok_str n /\ ok_attrs a /\ ok_odoc doc /\ ok_tref t
  end.
Definition ok_file (f : cfile) : Prop :=
  ok_str (cfl_path f) /\ ok_str (cfl_module f) /\ ok_attrs (cfl_mattrs f) /\ ok_attrs (cfl_fattrs f) /\ Forall ok_def (cfl_defs f).

(* ------------------------------------------------------------------------------------------------ values without type references *)
Ltac struct_ok := apply hs_struct; [cbn; lia|].
Lemma ty_str s : ok_str s -> has_sty YStr (SStr s).
Proof. intros [H1 H2]. apply hs_str; assumption. Qed.
Lemma ty_strs l : Forall ok_str l -> short l -> has_sty (YSeq YStr) (SSeq (map SStr l)).
Proof. intros H S. apply hs_seq; [|rewrite map_length; exact S]. apply Forall_forall. intros x Hx. apply in_map_iff in Hx as (s & <- & Hs). apply ty_str. rewrite Forall_forall in H. exact (H s Hs). Qed.
Lemma ty_attr a : ok_attr a -> has_sty ty_Attribute (v_attr a).
Proof. intros (H1 & H2 & H3). unfold ty_Attribute, v_attr. struct_ok. apply fo_some; [apply ty_str; exact H1|apply fo_some; [apply ty_strs; assumption|apply fo_nil]]. Qed.
Lemma ty_attrs l : ok_attrs l -> has_sty (YSeq ty_Attribute) (v_attrs l).
Proof.
  intros [H S]. unfold v_attrs. apply hs_seq; [|rewrite map_length; exact S]. apply Forall_forall. intros x Hx. apply in_map_iff in Hx as (a & <- & Ha).
  apply ty_attr. rewrite Forall_forall in H. exact (H a Ha).
Qed.
Lemma ty_message m : ok_msg m -> has_sty (YSeq ty_MessageComponent) (v_message m).
Proof.
  intros [H S]. unfold v_message. apply hs_seq; [|rewrite map_length; exact S]. apply Forall_forall. intros x Hx. apply in_map_iff in Hx as (c & <- & Hc).
  rewrite Forall_forall in H. specialize (H c Hc). unfold ty_MessageComponent.
  destruct c as [s|i]; cbn [v_component]; (eapply hs_variant; [reflexivity|unfold I32_MIN, I32_MAX; lia|cbn; lia|apply fo_some; [apply ty_str; exact H|apply fo_nil]]).
Qed.
Lemma ty_doc d : ok_doc d -> has_sty ty_DocComment (v_doc d).
Proof. intros (H1 & H2 & H3 & _). unfold ty_DocComment, v_doc. struct_ok. apply fo_some; [apply ty_message; exact H1|apply fo_some; [apply ty_strs; assumption|apply fo_nil]]. Qed.
Lemma ty_tagdoc m : ok_msg m -> has_sty ty_DocComment (v_tagdoc m).
Proof. intros H. unfold ty_DocComment, v_tagdoc. struct_ok. apply fo_some; [apply ty_message; exact H|apply fo_some; [apply (ty_strs []); [constructor|unfold short; cbn; lia]|apply fo_nil]]. Qed.
Definition ty_odoc (o : option sval) : Prop := match o with Some x => has_sty ty_DocComment x | None => True end.
Lemma ty_entity name attrs doc : ok_str name -> ok_attrs attrs -> ty_odoc doc -> has_sty ty_EntityInfo (v_entity name attrs doc).
Proof.
  intros Hn Ha Hd. unfold ty_EntityInfo, v_entity. struct_ok. apply fo_some; [apply ty_str; exact Hn|]. apply fo_some; [apply ty_attrs; exact Ha|].
  destruct doc as [x|]; [apply fo_some; [exact Hd|apply fo_nil]|apply fo_none; apply fo_nil].
Qed.
Lemma ty_odoc_map d : ok_odoc d -> ty_odoc (option_map v_doc d).
Proof. destruct d; cbn; [apply ty_doc|tauto]. Qed.
Lemma ty_typeref id opt attrs : ok_str id -> ok_attrs attrs -> has_sty ty_TypeRef (v_typeref id opt attrs).
Proof. intros Hi Ha. unfold ty_TypeRef, ty_TypeId, v_typeref. struct_ok. apply fo_some; [apply ty_str; exact Hi|apply fo_some; [apply hs_bool|apply fo_some; [apply ty_attrs; exact Ha|apply fo_nil]]]. Qed.

(* ------------------------------------------------------------------------------------------------ the converter *)
(* the symbols so far are Symbols of the schema, and not too many for the positions to be spelled *)
Definition typed (st : list sval) : Prop := Forall (has_sty ty_Symbol) st.
Definition room (st : list sval) : Prop := (N.of_nat (length st) < 2 ^ 61)%N.
Lemma typed_snoc st x : typed st -> has_sty ty_Symbol x -> typed (st ++ [x]).
Proof. intros H Hx. apply Forall_app. split; [exact H|constructor; [exact Hx|constructor]]. Qed.
Lemma sym_two d a b : (d = 6 \/ d = 7)%Z -> has_sty ty_TypeRef a -> has_sty ty_TypeRef b -> has_sty ty_Symbol (SVariant d [Some (SStruct [Some a; Some b])]).
Proof.
  intros Hd Ha Hb. unfold ty_Symbol. destruct Hd as [-> | ->];
    (eapply hs_variant; [reflexivity|unfold I32_MIN, I32_MAX; lia|cbn; lia|apply fo_some; [|apply fo_nil]]; struct_ok; apply fo_some; [exact Ha|apply fo_some; [exact Hb|apply fo_nil]]).
Qed.
Lemma sym_seq a : has_sty ty_TypeRef a -> has_sty ty_Symbol (SVariant 5 [Some (SStruct [Some a])]).
Proof.
  intros Ha. unfold ty_Symbol. eapply hs_variant; [reflexivity|unfold I32_MIN, I32_MAX; lia|cbn; lia|apply fo_some; [|apply fo_nil]]. struct_ok. apply fo_some; [exact Ha|apply fo_nil].
Qed.
(* every position the converter spells is below the final length, which is assumed to leave room *)
Definition tref_typed (t : ctref) : Prop := forall st, ok_tref t -> typed st -> room (snd (conv_tref t st)) ->
  has_sty ty_TypeRef (fst (conv_tref t st)) /\ typed (snd (conv_tref t st)) /\ length st <= length (snd (conv_tref t st)).
Definition target_typed (t : ctarget) : Prop := forall st, ok_target t -> typed st -> room (snd (conv_target t st)) ->
  ok_str (fst (conv_target t st)) /\ typed (snd (conv_target t st)) /\ length st <= length (snd (conv_target t st)).
Lemma room_le a b : length a <= length b -> room b -> room a.
Proof. unfold room. lia. Qed.
Lemma conv_typed : (forall t, tref_typed t) /\ (forall t, target_typed t).
Proof.
  apply ctref_ctarget_ind; unfold tref_typed, target_typed.
  - intros tgt IH opt attrs st [Wt Wa] T R. cbn [conv_tref] in *. destruct (conv_target tgt st) as [id st'] eqn:E. cbn [fst snd] in *.
    specialize (IH st Wt T). rewrite E in IH. cbn [fst snd] in IH. destruct (IH R) as (Hid & T' & L). split; [apply ty_typeref; assumption|split; assumption].
  - intros id st W T R. cbn [conv_target fst snd]. split; [exact W|split; [exact T|lia]].
  - intros nm st W T R. cbn [conv_target fst snd]. split; [exact W|split; [exact T|lia]].
  - intros e IH st W T R. cbn [conv_target] in *. destruct (conv_tref e st) as [r st1] eqn:E. cbn [fst snd] in *. unfold room in R. rewrite app_length in R. cbn [length] in R.
    specialize (IH st W T). rewrite E in IH. cbn [fst snd] in IH. destruct (IH ltac:(unfold room in *; lia)) as (Hr & T1 & L1).
    split; [apply decimal_ok; unfold room in R; lia|split; [apply typed_snoc; [exact T1|apply sym_seq; exact Hr]|rewrite app_length; cbn [length]; lia]].
  - intros k IHk v IHv st [Wk Wv] T R. cbn [conv_target] in *. destruct (conv_tref k st) as [rk st1] eqn:Ek. destruct (conv_tref v st1) as [rv st2] eqn:Ev. cbn [fst snd] in *.
    unfold room in R. rewrite app_length in R. cbn [length] in R.
    specialize (IHv st1 Wv). rewrite Ev in IHv. cbn [fst snd] in IHv. specialize (IHk st Wk T). rewrite Ek in IHk. cbn [fst snd] in IHk.
    assert (L2' : length st1 <= length st2).
    { clear -Ev. pose proof (proj1 conv_tref_ok v) as P. unfold tref_post in P. (* length only: by the structure of the converter *)
      revert st1 rv st2 Ev. generalize v. clear. intros v. intros st1 rv st2 Ev.
      assert (G : forall t st, length st <= length (snd (conv_tref t st))).
      { apply (ctref_ind2 (fun t => forall st, length st <= length (snd (conv_tref t st))) (fun t => forall st, length st <= length (snd (conv_target t st)))).
        - intros tgt IH opt attrs st. cbn [conv_tref]. specialize (IH st). destruct (conv_target tgt st). exact IH.
        - intros; cbn; lia. - intros; cbn; lia.
        - intros e IH st. cbn [conv_target]. specialize (IH st). destruct (conv_tref e st). cbn [snd] in *. rewrite app_length. cbn. lia.
        - intros a IHa b IHb st. cbn [conv_target]. specialize (IHa st). destruct (conv_tref a st) as [ra s1]. specialize (IHb s1). destruct (conv_tref b s1) as [rb s2]. cbn [snd] in *. rewrite app_length. cbn. lia.
        - intros a IHa b IHb st. cbn [conv_target]. specialize (IHa st). destruct (conv_tref a st) as [ra s1]. specialize (IHb s1). destruct (conv_tref b s1) as [rb s2]. cbn [snd] in *. rewrite app_length. cbn. lia. }
      specialize (G v st1). rewrite Ev in G. exact G. }
    destruct (IHk ltac:(unfold room in *; lia)) as (Hk & T1 & L1). destruct (IHv T1 ltac:(unfold room in *; lia)) as (Hv & T2 & L2).
    split; [apply decimal_ok; unfold room in R; lia|split; [apply typed_snoc; [exact T2|apply sym_two; [left; reflexivity|exact Hk|exact Hv]]|rewrite app_length; cbn [length]; lia]].
  - intros k IHk v IHv st [Wk Wv] T R. cbn [conv_target] in *. destruct (conv_tref k st) as [rk st1] eqn:Ek. destruct (conv_tref v st1) as [rv st2] eqn:Ev. cbn [fst snd] in *.
    unfold room in R. rewrite app_length in R. cbn [length] in R.
    specialize (IHv st1 Wv). rewrite Ev in IHv. cbn [fst snd] in IHv. specialize (IHk st Wk T). rewrite Ek in IHk. cbn [fst snd] in IHk.
    assert (L2' : length st1 <= length st2).
    { assert (G : forall t st, length st <= length (snd (conv_tref t st))).
      { apply (ctref_ind2 (fun t => forall st, length st <= length (snd (conv_tref t st))) (fun t => forall st, length st <= length (snd (conv_target t st)))).
        - intros tgt IH opt attrs st0. cbn [conv_tref]. specialize (IH st0). destruct (conv_target tgt st0). exact IH.
        - intros; cbn; lia. - intros; cbn; lia.
        - intros e IH st0. cbn [conv_target]. specialize (IH st0). destruct (conv_tref e st0). cbn [snd] in *. rewrite app_length. cbn. lia.
        - intros a IHa b IHb st0. cbn [conv_target]. specialize (IHa st0). destruct (conv_tref a st0) as [ra s1]. specialize (IHb s1). destruct (conv_tref b s1) as [rb s2]. cbn [snd] in *. rewrite app_length. cbn. lia.
        - intros a IHa b IHb st0. cbn [conv_target]. specialize (IHa st0). destruct (conv_tref a st0) as [ra s1]. specialize (IHb s1). destruct (conv_tref b s1) as [rb s2]. cbn [snd] in *. rewrite app_length. cbn. lia. }
      specialize (G v st1). rewrite Ev in G. exact G. }
    destruct (IHk ltac:(unfold room in *; lia)) as (Hk & T1 & L1). destruct (IHv T1 ltac:(unfold room in *; lia)) as (Hv & T2 & L2).
    split; [apply decimal_ok; unfold room in R; lia|split; [apply typed_snoc; [exact T2|apply sym_two; [right; reflexivity|exact Hk|exact Hv]]|rewrite app_length; cbn [length]; lia]].
Qed.

Lemma conv_tref_len : forall t st, length st <= length (snd (conv_tref t st)).
Proof.
  apply (ctref_ind2 (fun t => forall st, length st <= length (snd (conv_tref t st))) (fun t => forall st, length st <= length (snd (conv_target t st)))).
  - intros tgt IH opt attrs st0. cbn [conv_tref]. specialize (IH st0). destruct (conv_target tgt st0). exact IH.
  - intros; cbn; lia. - intros; cbn; lia.
  - intros e IH st0. cbn [conv_target]. specialize (IH st0). destruct (conv_tref e st0). cbn [snd] in *. rewrite app_length. cbn. lia.
  - intros a IHa b IHb st0. cbn [conv_target]. specialize (IHa st0). destruct (conv_tref a st0) as [ra s1]. specialize (IHb s1). destruct (conv_tref b s1) as [rb s2]. cbn [snd] in *. rewrite app_length. cbn. lia.
  - intros a IHa b IHb st0. cbn [conv_target]. specialize (IHa st0). destruct (conv_tref a st0) as [ra s1]. specialize (IHb s1). destruct (conv_tref b s1) as [rb s2]. cbn [snd] in *. rewrite app_length. cbn. lia.
Qed.
Definition tref_ty := proj1 conv_typed.
Lemma ty_tag t : ok_tag t -> match v_tag t with Some x => has_sty YVarInt32 x | None => True end.
Proof. destruct t; cbn; [apply hs_varint32|tauto]. Qed.
Lemma member_struct ent tag tr : has_sty ty_EntityInfo ent -> ok_tag tag -> has_sty ty_TypeRef tr -> has_sty ty_Field (SStruct [Some ent; v_tag tag; Some tr]).
Proof.
  intros He Ht Hr. unfold ty_Field. struct_ok. apply fo_some; [exact He|]. destruct tag as [z|]; cbn [v_tag option_map].
  - apply fo_some; [apply hs_varint32; exact Ht|apply fo_some; [exact Hr|apply fo_nil]].
  - apply fo_none. apply fo_some; [exact Hr|apply fo_nil].
Qed.
(* the contents only grow *)
Lemma conv_fields_len fs : forall st, length st <= length (snd (conv_fields fs st)).
Proof.
  induction fs as [|f r IH]; intros st; cbn [conv_fields]; [cbn; lia|]. unfold conv_field. pose proof (conv_tref_len (cf_type f) st) as L.
  destruct (conv_tref (cf_type f) st) as [tr st1]. specialize (IH st1). destruct (conv_fields r st1) as [vs st2]. cbn [snd] in *. lia.
Qed.
Lemma conv_params_len docof ps : forall st, length st <= length (snd (conv_params docof ps st)).
Proof.
  induction ps as [|p r IH]; intros st; cbn [conv_params]; [cbn; lia|]. unfold conv_param. pose proof (conv_tref_len (cp_type p) st) as L.
  destruct (conv_tref (cp_type p) st) as [tr st1]. specialize (IH st1). destruct (conv_params docof r st1) as [vs st2]. cbn [snd] in *. lia.
Qed.
Lemma conv_op_len o st : length st <= length (snd (conv_op o st)).
Proof.
  unfold conv_op. pose proof (conv_params_len (param_doc (co_doc o)) (co_params o) st) as L1. destruct (conv_params (param_doc (co_doc o)) (co_params o) st) as [ps st1].
  cbv zeta. set (single := match co_rets o with [_] => true | _ => false end).
  pose proof (conv_params_len (return_doc (co_doc o) single) (co_rets o) st1) as L2. destruct (conv_params (return_doc (co_doc o) single) (co_rets o) st1) as [rs st2]. cbn [snd] in *. lia.
Qed.
Lemma conv_ops_len os : forall st, length st <= length (snd (conv_ops os st)).
Proof.
  induction os as [|o r IH]; intros st; cbn [conv_ops]; [cbn; lia|]. pose proof (conv_op_len o st) as L. destruct (conv_op o st) as [v st1].
  specialize (IH st1). destruct (conv_ops r st1) as [vs st2]. cbn [snd] in *. lia.
Qed.
Lemma conv_variants_len es : forall st, length st <= length (snd (conv_variants es st)).
Proof.
  induction es as [|e r IH]; intros st; cbn [conv_variants]; [cbn; lia|]. unfold conv_variant. pose proof (conv_fields_len (ce_fields e) st) as L.
  destruct (conv_fields (ce_fields e) st) as [fs st1]. specialize (IH st1). destruct (conv_variants r st1) as [vs st2]. cbn [snd] in *. lia.
Qed.

(* lists of members, threading the contents *)
Lemma conv_fields_typed fs : forall st, Forall ok_field fs -> typed st -> room (snd (conv_fields fs st)) ->
  Forall (has_sty ty_Field) (fst (conv_fields fs st)) /\ typed (snd (conv_fields fs st)) /\ length (fst (conv_fields fs st)) = length fs.
Proof.
  induction fs as [|f r IH]; intros st W T R; cbn [conv_fields] in *; [cbn; split; [constructor|split; [exact T|reflexivity]]|].
  inversion W as [|? ? (Wn & Wa & Wd & Wt & Wty) Wr]; subst. unfold conv_field in *.
  pose proof (tref_ty (cf_type f) st Wty T) as H. destruct (conv_tref (cf_type f) st) as [tr st1]. cbn [fst snd] in *.
  pose proof (conv_fields_len r st1) as L. specialize (IH st1 Wr). destruct (conv_fields r st1) as [vs st2]. cbn [fst snd] in *.
  destruct (H (room_le _ _ L R)) as (Htr & T1 & _). destruct (IH T1 R) as (Hvs & T2 & Hl).
  split; [constructor; [apply member_struct; [apply ty_entity; [exact Wn|exact Wa|apply ty_odoc_map; exact Wd]|exact Wt|exact Htr]|exact Hvs]|split; [exact T2|cbn [length]; rewrite Hl; reflexivity]].
Qed.
Lemma conv_params_typed docof ps : (forall p, ty_odoc (docof p)) -> forall st, Forall ok_param ps -> typed st -> room (snd (conv_params docof ps st)) ->
  Forall (has_sty ty_Field) (fst (conv_params docof ps st)) /\ typed (snd (conv_params docof ps st)) /\ length (fst (conv_params docof ps st)) = length ps.
Proof.
  intros Hd. induction ps as [|p r IH]; intros st W T R; cbn [conv_params] in *; [cbn; split; [constructor|split; [exact T|reflexivity]]|].
  inversion W as [|? ? (Wn & Wa & Wt & Wty) Wr]; subst. unfold conv_param in *.
  pose proof (tref_ty (cp_type p) st Wty T) as H. destruct (conv_tref (cp_type p) st) as [tr st1]. cbn [fst snd] in *.
  pose proof (conv_params_len docof r st1) as L. specialize (IH st1 Wr). destruct (conv_params docof r st1) as [vs st2]. cbn [fst snd] in *.
  destruct (H (room_le _ _ L R)) as (Htr & T1 & _). destruct (IH T1 R) as (Hvs & T2 & Hl).
  split; [constructor; [apply member_struct; [apply ty_entity; [exact Wn|exact Wa|apply Hd]|exact Wt|exact Htr]|exact Hvs]|split; [exact T2|cbn [length]; rewrite Hl; reflexivity]].
Qed.
Lemma find_ok {A} (P : A -> Prop) f l : Forall P l -> match find f l with Some x => P x | None => True end.
Proof. intros H. destruct (find f l) as [x|] eqn:E; [|exact I]. apply find_some in E as [Hin _]. rewrite Forall_forall in H. exact (H x Hin). Qed.
Lemma param_doc_ty d p : ok_odoc d -> ty_odoc (param_doc d p).
Proof.
  intros H. unfold param_doc. destruct d as [d|]; [|exact I]. destruct H as (_ & _ & _ & Hp & _).
  pose proof (find_ok _ (fun t => cstring_eqb (fst t) (cp_name p)) _ Hp) as F. destruct (find _ (cd_params d)); cbn; [apply ty_tagdoc; exact F|exact I].
Qed.
Lemma return_doc_ty d single p : ok_odoc d -> ty_odoc (return_doc d single p).
Proof.
  intros H. unfold return_doc. destruct d as [d|]; [|exact I]. destruct H as (_ & _ & _ & _ & Hr).
  pose proof (find_ok _ (fun t => match fst t with None => single | Some nm => cstring_eqb nm (cp_name p) end) _ Hr) as F. destruct (find _ (cd_returns d)); cbn; [apply ty_tagdoc; exact F|exact I].
Qed.
Lemma seq_ty t l n : Forall (has_sty t) l -> length l = n -> (N.of_nat n < 2 ^ 62)%N -> has_sty (YSeq t) (SSeq l).
Proof. intros H E S. apply hs_seq; [exact H|rewrite E; exact S]. Qed.
Lemma conv_op_typed o st : ok_op o -> typed st -> room (snd (conv_op o st)) -> has_sty ty_Operation (fst (conv_op o st)) /\ typed (snd (conv_op o st)).
Proof.
  intros (Wn & Wa & Wd & Wp & Sp & Wr & Sr) T R. unfold conv_op in *.
  pose proof (conv_params_typed (param_doc (co_doc o)) (co_params o) (fun p => param_doc_ty _ p Wd) st Wp T) as H1.
  destruct (conv_params (param_doc (co_doc o)) (co_params o) st) as [ps st1]. cbv zeta in *. set (single := match co_rets o with [_] => true | _ => false end) in *.
  pose proof (conv_params_len (return_doc (co_doc o) single) (co_rets o) st1) as L.
  pose proof (conv_params_typed (return_doc (co_doc o) single) (co_rets o) (fun p => return_doc_ty _ single p Wd) st1 Wr) as H2.
  destruct (conv_params (return_doc (co_doc o) single) (co_rets o) st1) as [rs st2]. cbn [fst snd] in *.
  destruct (H1 (room_le _ _ L R)) as (Hps & T1 & Lp). destruct (H2 T1 R) as (Hrs & T2 & Lr). split; [|exact T2].
  unfold ty_Operation. struct_ok. apply fo_some; [apply ty_entity; [exact Wn|exact Wa|apply ty_odoc_map; exact Wd]|].
  apply fo_some; [apply hs_bool|]. apply fo_some; [eapply seq_ty; [exact Hps|exact Lp|exact Sp]|]. apply fo_some; [apply hs_bool|].
  apply fo_some; [eapply seq_ty; [exact Hrs|exact Lr|exact Sr]|]. apply fo_some; [apply hs_bool|apply fo_nil].
Qed.
Lemma conv_ops_typed os : forall st, Forall ok_op os -> typed st -> room (snd (conv_ops os st)) ->
  Forall (has_sty ty_Operation) (fst (conv_ops os st)) /\ typed (snd (conv_ops os st)) /\ length (fst (conv_ops os st)) = length os.
Proof.
  induction os as [|o r IH]; intros st W T R; cbn [conv_ops] in *; [cbn; split; [constructor|split; [exact T|reflexivity]]|].
  inversion W as [|? ? Wo Wr]; subst. pose proof (conv_op_typed o st Wo T) as H. destruct (conv_op o st) as [v st1]. cbn [fst snd] in *.
  pose proof (conv_ops_len r st1) as L. specialize (IH st1 Wr). destruct (conv_ops r st1) as [vs st2]. cbn [fst snd] in *.
  destruct (H (room_le _ _ L R)) as (Hv & T1). destruct (IH T1 R) as (Hvs & T2 & Hl).
  split; [constructor; assumption|split; [exact T2|cbn [length]; rewrite Hl; reflexivity]].
Qed.
Lemma conv_variants_typed es : forall st, Forall (ok_enumerator false) es -> typed st -> room (snd (conv_variants es st)) ->
  Forall (has_sty ty_Variant) (fst (conv_variants es st)) /\ typed (snd (conv_variants es st)) /\ length (fst (conv_variants es st)) = length es.
Proof.
  induction es as [|e r IH]; intros st W T R; cbn [conv_variants] in *; [cbn; split; [constructor|split; [exact T|reflexivity]]|].
  inversion W as [|? ? (Wn & Wa & Wd & Wf & Sf & Wv) Wr]; subst. unfold conv_variant in *.
  pose proof (conv_fields_typed (ce_fields e) st Wf T) as H. destruct (conv_fields (ce_fields e) st) as [fs st1]. cbn [fst snd] in *.
  pose proof (conv_variants_len r st1) as L. specialize (IH st1 Wr). destruct (conv_variants r st1) as [vs st2]. cbn [fst snd] in *.
  destruct (H (room_le _ _ L R)) as (Hfs & T1 & Lf). destruct (IH T1 R) as (Hvs & T2 & Hl).
  split; [constructor; [|exact Hvs]|split; [exact T2|cbn [length]; rewrite Hl; reflexivity]].
  unfold ty_Variant. struct_ok. apply fo_some; [apply ty_entity; [exact Wn|exact Wa|apply ty_odoc_map; exact Wd]|].
  apply fo_some; [apply hs_i32; exact Wv|]. apply fo_some; [eapply seq_ty; [exact Hfs|exact Lf|exact Sf]|apply fo_nil].
Qed.
Lemma ty_enumerator e : ok_enumerator true e -> has_sty ty_Enumerator (v_enumerator e).
Proof.
  intros (Wn & Wa & Wd & _ & _ & Wv). unfold ty_Enumerator, v_enumerator. struct_ok. apply fo_some; [apply ty_entity; [exact Wn|exact Wa|apply ty_odoc_map; exact Wd]|].
  apply fo_some; [apply hs_u64; exact Wv|]. apply fo_some; [apply hs_bool|apply fo_nil].
Qed.

(* ------------------------------------------------------------------------------------------------ definitions and files *)
Lemma symbol_ty d body fs : find_variant d [(0%Z, [(false, ty_Interface)]); (1%Z, [(false, ty_BasicEnum)]); (2%Z, [(false, ty_VariantEnum)]); (3%Z, [(false, ty_Struct)]); (4%Z, [(false, ty_CustomType)]);
                                            (5%Z, [(false, ty_SequenceType)]); (6%Z, [(false, ty_DictionaryType)]); (7%Z, [(false, ty_ResultType)]); (8%Z, [(false, ty_TypeAlias)])] = Some [(false, fs)] ->
  (0 <= d <= 8)%Z -> has_sty fs body -> has_sty ty_Symbol (SVariant d [Some body]).
Proof.
  intros Hf Hd Hb. unfold ty_Symbol. eapply hs_variant; [exact Hf|unfold I32_MIN, I32_MAX; lia|cbn; lia|apply fo_some; [exact Hb|apply fo_nil]].
Qed.
Lemma conv_def_len d st : length st <= length (conv_def d st).
Proof.
  destruct d as [name attrs doc compact fields|name attrs doc bases ops|name attrs doc compact unchecked under ens|name attrs doc|name attrs doc t]; cbn [conv_def].
  - pose proof (conv_fields_len fields st). destruct (conv_fields fields st). cbn [snd] in *. rewrite app_length. lia.
  - pose proof (conv_ops_len ops st). destruct (conv_ops ops st). cbn [snd] in *. rewrite app_length. lia.
  - destruct under; [rewrite app_length; lia|]. pose proof (conv_variants_len ens st). destruct (conv_variants ens st). cbn [snd] in *. rewrite app_length. lia.
  - rewrite app_length. lia.
  - pose proof (conv_tref_len t st). destruct (conv_tref t st). cbn [snd] in *. rewrite app_length. lia.
Qed.
Lemma conv_def_typed d st : ok_def d -> typed st -> room (conv_def d st) -> typed (conv_def d st).
Proof.
  intros W T R. destruct d as [name attrs doc compact fields|name attrs doc bases ops|name attrs doc compact unchecked under ens|name attrs doc|name attrs doc t]; cbn [conv_def ok_def] in *.
  - destruct W as (Wn & Wa & Wd & Wf & Sf). pose proof (conv_fields_typed fields st Wf T) as H. destruct (conv_fields fields st) as [fs st1]. cbn [fst snd] in *.
    destruct (H ltac:(unfold room in *; rewrite app_length in R; lia)) as (Hfs & T1 & Lf). apply typed_snoc; [exact T1|]. apply (symbol_ty 3 _ ty_Struct eq_refl ltac:(lia)).
    unfold ty_Struct. struct_ok. apply fo_some; [apply ty_entity; [exact Wn|exact Wa|apply ty_odoc_map; exact Wd]|]. apply fo_some; [apply hs_bool|].
    apply fo_some; [eapply seq_ty; [exact Hfs|exact Lf|exact Sf]|apply fo_nil].
  - destruct W as (Wn & Wa & Wd & Wb & Sb & Wo & So). pose proof (conv_ops_typed ops st Wo T) as H. destruct (conv_ops ops st) as [os st1]. cbn [fst snd] in *.
    destruct (H ltac:(unfold room in *; rewrite app_length in R; lia)) as (Hos & T1 & Lo). apply typed_snoc; [exact T1|]. apply (symbol_ty 0 _ ty_Interface eq_refl ltac:(lia)).
    unfold ty_Interface, ty_EntityId. struct_ok. apply fo_some; [apply ty_entity; [exact Wn|exact Wa|apply ty_odoc_map; exact Wd]|]. apply fo_some; [apply ty_strs; assumption|].
    apply fo_some; [eapply seq_ty; [exact Hos|exact Lo|exact So]|apply fo_nil].
  - destruct under as [under|].
    + destruct W as (Wn & Wa & Wd & Wu & We & Se). apply typed_snoc; [exact T|]. apply (symbol_ty 1 _ ty_BasicEnum eq_refl ltac:(lia)).
      unfold ty_BasicEnum, ty_TypeId. struct_ok. apply fo_some; [apply ty_entity; [exact Wn|exact Wa|apply ty_odoc_map; exact Wd]|]. apply fo_some; [apply hs_bool|].
      apply fo_some; [apply ty_str; exact Wu|]. apply fo_some; [|apply fo_nil]. apply hs_seq; [|rewrite map_length; exact Se].
      apply Forall_forall. intros x Hx. apply in_map_iff in Hx as (e & <- & He). apply ty_enumerator. rewrite Forall_forall in We. exact (We e He).
    + destruct W as (Wn & Wa & Wd & We & Se). pose proof (conv_variants_typed ens st We T) as H. destruct (conv_variants ens st) as [vs st1]. cbn [fst snd] in *.
      destruct (H ltac:(unfold room in *; rewrite app_length in R; lia)) as (Hvs & T1 & Lv). apply typed_snoc; [exact T1|]. apply (symbol_ty 2 _ ty_VariantEnum eq_refl ltac:(lia)).
      unfold ty_VariantEnum. struct_ok. apply fo_some; [apply ty_entity; [exact Wn|exact Wa|apply ty_odoc_map; exact Wd]|]. apply fo_some; [apply hs_bool|]. apply fo_some; [apply hs_bool|].
      apply fo_some; [eapply seq_ty; [exact Hvs|exact Lv|exact Se]|apply fo_nil].
  - destruct W as (Wn & Wa & Wd). apply typed_snoc; [exact T|]. apply (symbol_ty 4 _ ty_CustomType eq_refl ltac:(lia)).
    unfold ty_CustomType. struct_ok. apply fo_some; [apply ty_entity; [exact Wn|exact Wa|apply ty_odoc_map; exact Wd]|apply fo_nil].
  - destruct W as (Wn & Wa & Wd & Wt). pose proof (tref_ty t st Wt T) as H. destruct (conv_tref t st) as [tr st1]. cbn [fst snd] in *.
    destruct (H ltac:(unfold room in *; rewrite app_length in R; lia)) as (Htr & T1 & _). apply typed_snoc; [exact T1|]. apply (symbol_ty 8 _ ty_TypeAlias eq_refl ltac:(lia)).
    unfold ty_TypeAlias. struct_ok. apply fo_some; [apply ty_entity; [exact Wn|exact Wa|apply ty_odoc_map; exact Wd]|]. apply fo_some; [exact Htr|apply fo_nil].
Qed.
Lemma conv_defs_typed ds : forall st, Forall ok_def ds -> typed st -> room (fold_left (fun st d => conv_def d st) ds st) -> typed (fold_left (fun st d => conv_def d st) ds st).
Proof.
  induction ds as [|d r IH]; intros st W T R; cbn [fold_left] in *; [exact T|]. inversion W as [|? ? Wd Wr]; subst.
  assert (L : length (conv_def d st) <= length (fold_left (fun st d => conv_def d st) r (conv_def d st))).
  { generalize (conv_def d st). clear. induction r as [|x r IH]; intros s; cbn [fold_left]; [lia|]. specialize (IH (conv_def x s)). pose proof (conv_def_len x s). lia. }
  apply IH; [exact Wr| |exact R]. apply conv_def_typed; [exact Wd|exact T|exact (room_le _ _ L R)].
Qed.
(* for every compiled file with well-formed strings and numbers in range, and fewer than 2^61 symbols: what the converter produces
   is a SliceFile of the schema *)
Theorem converted_file_typed f : ok_file f -> room (conv_defs (cfl_defs f)) -> has_sty ty_SliceFile (conv_file f).
Proof.
  intros (Wp & Wm & Wma & Wfa & Wd) R. unfold conv_file, ty_SliceFile, ty_Module. struct_ok.
  apply fo_some; [apply ty_str; exact Wp|]. apply fo_some; [struct_ok; apply fo_some; [apply ty_str; exact Wm|apply fo_some; [apply ty_attrs; exact Wma|apply fo_nil]]|].
  apply fo_some; [apply ty_attrs; exact Wfa|]. apply fo_some; [|apply fo_nil].
  apply hs_seq; [exact (conv_defs_typed (cfl_defs f) [] Wd (Forall_nil _) R)|]. unfold room in R. assert (2 ^ 61 < 2 ^ 62)%N by (vm_compute; reflexivity). lia.
Qed.
(* hence its encoding exists and decodes back to exactly that value, consuming exactly its bytes *)
Corollary converted_file_roundtrip f rest : ok_file f -> room (conv_defs (cfl_defs f)) ->
  exists bs, enc_sval request_fuel ty_SliceFile (conv_file f) = Some bs /\ bs <> [] /\ dec_sval request_fuel ty_SliceFile (bs ++ rest) = DOk (conv_file f) rest.
Proof.
  intros W R. apply schema_roundtrip; [|apply converted_file_typed; assumption].
  vm_compute. repeat constructor.
Qed.
