(* What the converter model guarantees for every compiled file (C08): the contents it produces pass the executable check of
   Request.v -- every numeric type id names an anonymous-type symbol at an earlier position of the same file -- and the
   definitions appear in source order, each right after the anonymous types it needs. *)
From Coq Require Import List NArith ZArith Bool Arith Lia ZifyBool ZifyNat ZifyN.
From SliceV Require Import Base.Bytes Codec.Wire Request.Schema Request.Request Request.Convert.
Ltac Zify.zify_post_hook ::= Z.div_mod_to_equations.
Import ListNotations.
Local Open Scope nat_scope.

(* ------------------------------------------------------------------------------------------------ decimal spelling *)
Lemma digits_aux_spec : forall fuel n acc, (n < N.of_nat fuel)%N -> forallb is_digit_b acc = true ->
  forallb is_digit_b (digits_aux fuel n acc) = true /\ digits_aux fuel n acc <> [] /\
  exists k, forall a, number_of a (digits_aux fuel n acc) = number_of (a * 10 ^ k + n)%N acc.
Proof.
  induction fuel as [|f IH]; intros n acc Hn Hacc; [lia|]. cbn [digits_aux].
  assert (Hd : is_digit_b (48 + n mod 10)%N = true).
  { unfold is_digit_b. pose proof (N.mod_lt n 10 ltac:(lia)) as Hm. set (m := (n mod 10)%N) in *. clearbody m. apply andb_true_iff. split; apply N.leb_le; lia. }
  destruct (N.ltb_spec n 10) as [Hlt|Hge].
  - split; [cbn [forallb]; rewrite Hd, Hacc; reflexivity|]. split; [discriminate|]. exists 1%N. intros a. cbn [number_of].
    rewrite N.mod_small by lia. f_equal. lia.
  - assert (Hn' : (n / 10 < N.of_nat f)%N).
    { pose proof (N.div_mod n 10 ltac:(lia)). pose proof (N.mod_lt n 10 ltac:(lia)). lia. }
    destruct (IH (n / 10)%N ((48 + n mod 10)%N :: acc) Hn' ltac:(cbn [forallb]; rewrite Hd, Hacc; reflexivity)) as (H1 & H2 & k & H3).
    split; [exact H1|]. split; [exact H2|]. exists (k + 1)%N. intros a. rewrite H3. cbn [number_of]. f_equal.
    pose proof (N.div_mod n 10 ltac:(lia)). rewrite N.pow_add_r, N.pow_1_r. lia.
Qed.
Theorem numeric_decimal n : numeric_id (decimal n) = Some n.
Proof.
  unfold decimal. destruct (digits_aux_spec (S (N.to_nat n)) n [] ltac:(lia) eq_refl) as (H1 & H2 & k & H3).
  unfold numeric_id. destruct (digits_aux (S (N.to_nat n)) n []) as [|b r] eqn:E; [congruence|]. rewrite H1. rewrite H3. cbn [number_of]. f_equal; lia.
Qed.

(* ------------------------------------------------------------------------------------------------ the check, restated *)
Definition id_okb (st : list sval) (id : list byte) : bool :=
  match numeric_id id with
  | Some n => (N.to_nat n <? length st) && match nth_error st (N.to_nat n) with Some a => is_anonymous a | None => false end
  | None => true
  end.
Opaque typeref_ids.
Lemma ids_ok_from_snoc x : forall r b, ids_ok_from (length b) b (r ++ [x]) = ids_ok_from (length b) b r && forallb (id_okb (b ++ r)) (typeref_ids 40 x).
Proof.
  induction r as [|y r IH]; intros b; cbn [app ids_ok_from].
  - rewrite app_nil_r, andb_true_r. reflexivity.
  - specialize (IH (b ++ [y])). rewrite app_length in IH. cbn [length] in IH. rewrite Nat.add_1_r in IH. rewrite IH. rewrite <- app_assoc. cbn [app]. rewrite andb_assoc. reflexivity.
Qed.
Transparent typeref_ids.
Definition good (st : list sval) : Prop := ids_ok_from 0 [] st = true.
(* every type id occurring in v, to whatever depth it is searched, is fine with respect to the symbols st *)
Definition val_ok (st : list sval) (v : sval) : Prop := forall fuel, forallb (id_okb st) (typeref_ids fuel v) = true.
Lemma good_snoc st x : good st -> val_ok st x -> good (st ++ [x]).
Proof. unfold good. intros G V. pose proof (ids_ok_from_snoc x st []) as H. cbn [length app] in H. rewrite H, G, (V 40). reflexivity. Qed.
Lemma id_okb_mono st ext id : id_okb st id = true -> id_okb (st ++ ext) id = true.
Proof.
  unfold id_okb. destruct (numeric_id id) as [n|]; [|tauto]. intros H. apply andb_true_iff in H as [H1 H2]. apply Nat.ltb_lt in H1.
  apply andb_true_iff. split; [apply Nat.ltb_lt; rewrite app_length; lia|]. rewrite nth_error_app1 by exact H1. exact H2.
Qed.
Lemma val_ok_mono st ext v : val_ok st v -> val_ok (st ++ ext) v.
Proof. intros H fuel. specialize (H fuel). rewrite forallb_forall in *. intros id Hid. apply id_okb_mono. apply H. exact Hid. Qed.

(* building blocks *)
Lemma forallb_flat_map {A B} (p : B -> bool) (f : A -> list B) l : forallb p (flat_map f l) = forallb (fun x => forallb p (f x)) l.
Proof. induction l as [|x l IH]; cbn [flat_map forallb]; [reflexivity|]. rewrite forallb_app, IH. reflexivity. Qed.
Lemma val_ok_str st s : val_ok st (SStr s). Proof. intros [|f]; reflexivity. Qed.
Lemma val_ok_bool st b : val_ok st (SBool b). Proof. intros [|f]; reflexivity. Qed.
Lemma val_ok_n st n : val_ok st (SN n). Proof. intros [|f]; reflexivity. Qed.
Lemma val_ok_z st z : val_ok st (SZ z). Proof. intros [|f]; reflexivity. Qed.
Lemma val_ok_seq st l : Forall (val_ok st) l -> val_ok st (SSeq l).
Proof.
  intros H [|f]; [reflexivity|]. cbn [typeref_ids]. rewrite forallb_flat_map. apply forallb_forall. intros x Hx.
  rewrite Forall_forall in H. exact (H x Hx f).
Qed.
Definition opt_ok (st : list sval) (o : option sval) : Prop := match o with Some x => val_ok st x | None => True end.
Lemma fields_ok st fs f : Forall (opt_ok st) fs -> forallb (id_okb st) (flat_map (fun o => match o with Some x => typeref_ids f x | None => [] end) fs) = true.
Proof.
  intros H. rewrite forallb_flat_map. apply forallb_forall. intros o Ho. rewrite Forall_forall in H. specialize (H o Ho). destruct o as [x|]; [exact (H f)|reflexivity].
Qed.
Lemma val_ok_variant st d fs : Forall (opt_ok st) fs -> val_ok st (SVariant d fs).
Proof. intros H [|f]; [reflexivity|]. cbn [typeref_ids]. apply fields_ok. exact H. Qed.
(* a struct that does not look like a TypeRef: its first field is not a string *)
Lemma val_ok_struct st x fs : (forall s, x <> SStr s) -> val_ok st x -> Forall (opt_ok st) fs -> val_ok st (SStruct (Some x :: fs)).
Proof.
  intros Hx Vx H [|f]; [reflexivity|].
  assert (E : typeref_ids (S f) (SStruct (Some x :: fs)) = flat_map (fun o => match o with Some y => typeref_ids f y | None => [] end) (Some x :: fs)).
  { destruct x; try reflexivity. exfalso. eapply Hx. reflexivity. }
  rewrite E. apply fields_ok. constructor; [exact Vx|exact H].
Qed.
Lemma val_ok_struct2 st a b : val_ok st a -> val_ok st b -> val_ok st (SStruct [Some a; Some b]).
Proof.
  intros Va Vb [|f]; [reflexivity|].
  assert (E : typeref_ids (S f) (SStruct [Some a; Some b]) = typeref_ids f a ++ typeref_ids f b ++ []) by (destruct a; try reflexivity; destruct b; reflexivity).
  rewrite E, app_nil_r, forallb_app, (Va f), (Vb f). reflexivity.
Qed.
Lemma val_ok_typeref st id opt attrs : id_okb st id = true -> val_ok st (v_typeref id opt attrs).
Proof. intros H [|f]; [reflexivity|]. cbn [typeref_ids v_typeref v_attrs forallb]. rewrite H. reflexivity. Qed.

(* values without type references *)
Lemma val_ok_attrs st l : val_ok st (v_attrs l).
Proof.
  apply val_ok_seq. apply Forall_forall. intros x Hx. apply in_map_iff in Hx as (a & <- & _). unfold v_attr.
  apply val_ok_struct2; [apply val_ok_str|]. apply val_ok_seq. apply Forall_forall. intros y Hy. apply in_map_iff in Hy as (s & <- & _). apply val_ok_str.
Qed.
Lemma val_ok_message st m : val_ok st (v_message m).
Proof.
  apply val_ok_seq. apply Forall_forall. intros x Hx. apply in_map_iff in Hx as (c & <- & _).
  destruct c; apply val_ok_variant; (constructor; [apply val_ok_str|constructor]).
Qed.
Lemma val_ok_strs st l : val_ok st (SSeq (map SStr l)).
Proof. apply val_ok_seq. apply Forall_forall. intros y Hy. apply in_map_iff in Hy as (s & <- & _). apply val_ok_str. Qed.
Lemma val_ok_doc st d : val_ok st (v_doc d).
Proof. apply val_ok_struct2; [apply val_ok_message|apply val_ok_strs]. Qed.
Lemma val_ok_tagdoc st m : val_ok st (v_tagdoc m).
Proof. apply val_ok_struct2; [apply val_ok_message|apply (val_ok_strs st [])]. Qed.
Lemma val_ok_entity st name attrs doc : opt_ok st doc -> val_ok st (v_entity name attrs doc).
Proof.
  intros Hd [|f]; [reflexivity|].
  change (typeref_ids (S f) (v_entity name attrs doc))
    with (typeref_ids f (SStr name) ++ typeref_ids f (v_attrs attrs) ++ match doc with Some x => typeref_ids f x | None => [] end ++ []).
  rewrite !forallb_app. rewrite (val_ok_str st name f), (val_ok_attrs st attrs f). destruct doc as [x|]; [rewrite (Hd f)|]; reflexivity.
Qed.
Lemma entity_not_str name attrs doc : forall s, v_entity name attrs doc <> SStr s.
Proof. discriminate. Qed.
Lemma opt_doc_ok st (d : option cdoc) : opt_ok st (option_map v_doc d).
Proof. destruct d; cbn; [apply val_ok_doc|exact I]. Qed.

(* ------------------------------------------------------------------------------------------------ well-formed input *)
(* names are not spelled with digits only (identifiers start with a letter, primitive names are words) *)
Fixpoint wf_tref (t : ctref) : Prop := match t with CRef tgt _ _ => wf_target tgt end
with wf_target (t : ctarget) : Prop :=
  match t with
  | GNamed id => numeric_id id = None | GPrim nm => numeric_id nm = None
  | GSeq e => wf_tref e | GDict k v => wf_tref k /\ wf_tref v | GRes s f => wf_tref s /\ wf_tref f
  end.
Definition wf_def (d : cdef) : Prop :=
  match d with
  | CStruct _ _ _ _ fields => Forall (fun f => wf_tref (cf_type f)) fields
  | CIface _ _ _ _ ops => Forall (fun o => Forall (fun p => wf_tref (cp_type p)) (co_params o) /\ Forall (fun p => wf_tref (cp_type p)) (co_rets o)) ops
  | CEnum _ _ _ _ _ _ ens => Forall (fun e => Forall (fun f => wf_tref (cf_type f)) (ce_fields e)) ens
  | CCustom _ _ _ => True
  | CAlias _ _ _ t => wf_tref t
  end.

(* ------------------------------------------------------------------------------------------------ the converter *)
(* only anonymous-type symbols are added *)
Definition extends (st st' : list sval) : Prop := exists ext, st' = st ++ ext /\ forallb is_anonymous ext = true.
Lemma extends_refl st : extends st st. Proof. exists []. rewrite app_nil_r. split; reflexivity. Qed.
Lemma extends_trans a b c : extends a b -> extends b c -> extends a c.
Proof. intros (x & -> & Hx) (y & -> & Hy). exists (x ++ y). rewrite app_assoc, forallb_app, Hx, Hy. split; reflexivity. Qed.
Lemma extends_snoc a b x : extends a b -> is_anonymous x = true -> extends a (b ++ [x]).
Proof. intros (e & -> & He) Hx. exists (e ++ [x]). rewrite app_assoc, forallb_app, He. cbn. rewrite Hx. split; reflexivity. Qed.
Lemma val_ok_ext st st' v : extends st st' -> val_ok st v -> val_ok st' v.
Proof. intros (e & -> & _). apply val_ok_mono. Qed.

Lemma anonymous_id_ok st x : is_anonymous x = true -> id_okb (st ++ [x]) (decimal (N.of_nat (length st))) = true.
Proof.
  intros H. unfold id_okb. rewrite numeric_decimal, Nat2N.id. apply andb_true_iff. split; [apply Nat.ltb_lt; rewrite app_length; cbn; lia|].
  rewrite nth_error_app2 by lia. rewrite Nat.sub_diag. exact H.
Qed.
Scheme ctref_ind2 := Induction for ctref Sort Prop with ctarget_ind2 := Induction for ctarget Sort Prop.
Combined Scheme ctref_ctarget_ind from ctref_ind2, ctarget_ind2.
Definition tref_post (t : ctref) : Prop := forall st, wf_tref t -> good st ->
  let '(r, st') := conv_tref t st in good st' /\ extends st st' /\ val_ok st' r /\ forall s, r <> SStr s.
Definition target_post (t : ctarget) : Prop := forall st, wf_target t -> good st ->
  let '(id, st') := conv_target t st in good st' /\ extends st st' /\ id_okb st' id = true.
Lemma two_post k v d : tref_post k -> tref_post v -> (5 <=? d)%Z && (d <=? 7)%Z = true -> forall st, wf_tref k -> wf_tref v -> good st ->
  let '(rk, st1) := conv_tref k st in let '(rv, st2) := conv_tref v st1 in
  good (st2 ++ [SVariant d [Some (SStruct [Some rk; Some rv])]]) /\ extends st (st2 ++ [SVariant d [Some (SStruct [Some rk; Some rv])]]) /\
  id_okb (st2 ++ [SVariant d [Some (SStruct [Some rk; Some rv])]]) (decimal (N.of_nat (length st2))) = true.
Proof.
  intros IHk IHv Hd st Wk Wv G. specialize (IHk st Wk G). destruct (conv_tref k st) as [rk st1]. destruct IHk as (G1 & E1 & V1 & _).
  specialize (IHv st1 Wv G1). destruct (conv_tref v st1) as [rv st2]. destruct IHv as (G2 & E2 & V2 & _).
  split; [|split].
  - apply good_snoc; [exact G2|]. apply val_ok_variant. constructor; [|constructor]. apply val_ok_struct2; [exact (val_ok_ext _ _ _ E2 V1)|exact V2].
  - apply extends_snoc; [exact (extends_trans _ _ _ E1 E2)|exact Hd].
  - apply anonymous_id_ok. exact Hd.
Qed.
Lemma conv_tref_ok : (forall t, tref_post t) /\ (forall t, target_post t).
Proof.
  apply ctref_ctarget_ind; unfold tref_post, target_post.
  - (* reference *) intros tgt IH opt attrs st W G. cbn [conv_tref]. cbn [wf_tref] in W. specialize (IH st W G). destruct (conv_target tgt st) as [id st'].
    destruct IH as (G' & E & Hid). split; [exact G'|split; [exact E|split; [apply val_ok_typeref; exact Hid|discriminate]]].
  - (* named *) intros id st W G. cbn [conv_target]. split; [exact G|split; [apply extends_refl|]]. unfold id_okb. cbn [wf_target] in W. rewrite W. reflexivity.
  - (* primitive *) intros nm st W G. cbn [conv_target]. split; [exact G|split; [apply extends_refl|]]. unfold id_okb. cbn [wf_target] in W. rewrite W. reflexivity.
  - (* sequence *) intros e IH st W G. cbn [conv_target]. cbn [wf_target] in W. specialize (IH st W G). destruct (conv_tref e st) as [r st1]. destruct IH as (G1 & E1 & V1 & _).
    split; [|split].
    + apply good_snoc; [exact G1|]. apply val_ok_variant. constructor; [|constructor]. intros [|f]; [reflexivity|].
      assert (E : typeref_ids (S f) (SStruct [Some r]) = typeref_ids f r ++ []) by (destruct r; reflexivity). rewrite E, app_nil_r. exact (V1 f).
    + apply extends_snoc; [exact E1|reflexivity].
    + apply anonymous_id_ok. reflexivity.
  - (* dictionary *) intros k IHk v IHv st [Wk Wv] G. cbn [conv_target]. pose proof (two_post k v 6%Z IHk IHv eq_refl st Wk Wv G) as T.
    destruct (conv_tref k st) as [rk st1]. destruct (conv_tref v st1) as [rv st2]. exact T.
  - (* result *) intros k IHk v IHv st [Wk Wv] G. cbn [conv_target]. pose proof (two_post k v 7%Z IHk IHv eq_refl st Wk Wv G) as T.
    destruct (conv_tref k st) as [rk st1]. destruct (conv_tref v st1) as [rv st2]. exact T.
Qed.

Definition tref_ok := proj1 conv_tref_ok.

(* ------------------------------------------------------------------------------------------------ members *)
Lemma conv_field_ok f st : wf_tref (cf_type f) -> good st -> let '(v, st') := conv_field f st in good st' /\ extends st st' /\ val_ok st' v.
Proof.
  intros W G. unfold conv_field. pose proof (tref_ok (cf_type f) st W G) as H. destruct (conv_tref (cf_type f) st) as [tr st']. destruct H as (G' & E & V & _).
  split; [exact G'|split; [exact E|]]. apply val_ok_struct; [apply entity_not_str|apply val_ok_entity, opt_doc_ok|].
  constructor; [destruct (cf_tag f); cbn; [apply val_ok_z|exact I]|constructor; [exact V|constructor]].
Qed.
Lemma conv_fields_ok fs : forall st, Forall (fun f => wf_tref (cf_type f)) fs -> good st ->
  let '(vs, st') := conv_fields fs st in good st' /\ extends st st' /\ Forall (val_ok st') vs.
Proof.
  induction fs as [|f r IH]; intros st W G; cbn [conv_fields]; [split; [exact G|split; [apply extends_refl|constructor]]|].
  inversion W as [|? ? Wf Wr]; subst. pose proof (conv_field_ok f st Wf G) as H. destruct (conv_field f st) as [v st1]. destruct H as (G1 & E1 & V1).
  specialize (IH st1 Wr G1). destruct (conv_fields r st1) as [vs st2]. destruct IH as (G2 & E2 & V2).
  split; [exact G2|split; [exact (extends_trans _ _ _ E1 E2)|constructor; [exact (val_ok_ext _ _ _ E2 V1)|exact V2]]].
Qed.
Lemma conv_params_ok docof ps : (forall p st, opt_ok st (docof p)) -> forall st, Forall (fun p => wf_tref (cp_type p)) ps -> good st ->
  let '(vs, st') := conv_params docof ps st in good st' /\ extends st st' /\ Forall (val_ok st') vs.
Proof.
  intros Hd. induction ps as [|p r IH]; intros st W G; cbn [conv_params]; [split; [exact G|split; [apply extends_refl|constructor]]|].
  inversion W as [|? ? Wp Wr]; subst. unfold conv_param.
  pose proof (tref_ok (cp_type p) st Wp G) as H. destruct (conv_tref (cp_type p) st) as [tr st1]. destruct H as (G1 & E1 & V1 & _).
  specialize (IH st1 Wr G1). destruct (conv_params docof r st1) as [vs st2]. destruct IH as (G2 & E2 & V2).
  split; [exact G2|split; [exact (extends_trans _ _ _ E1 E2)|constructor; [|exact V2]]].
  apply (val_ok_ext _ _ _ E2). apply val_ok_struct; [apply entity_not_str|apply val_ok_entity, Hd|].
  constructor; [destruct (cp_tag p); cbn; [apply val_ok_z|exact I]|constructor; [exact V1|constructor]].
Qed.
Lemma param_doc_ok d p st : opt_ok st (param_doc d p).
Proof. unfold param_doc. destruct d as [d|]; [|exact I]. destruct (find _ (cd_params d)); cbn; [apply val_ok_tagdoc|exact I]. Qed.
Lemma return_doc_ok d single p st : opt_ok st (return_doc d single p).
Proof. unfold return_doc. destruct d as [d|]; [|exact I]. destruct (find _ (cd_returns d)); cbn; [apply val_ok_tagdoc|exact I]. Qed.
Definition wf_op (o : cop) : Prop := Forall (fun p => wf_tref (cp_type p)) (co_params o) /\ Forall (fun p => wf_tref (cp_type p)) (co_rets o).
Lemma conv_op_ok o st : wf_op o -> good st -> let '(v, st') := conv_op o st in good st' /\ extends st st' /\ val_ok st' v.
Proof.
  intros [Wp Wr] G. unfold conv_op.
  pose proof (conv_params_ok (param_doc (co_doc o)) (co_params o) (param_doc_ok _) st Wp G) as H. destruct (conv_params (param_doc (co_doc o)) (co_params o) st) as [ps st1]. destruct H as (G1 & E1 & V1).
  cbv zeta. set (single := match co_rets o with [_] => true | _ => false end).
  pose proof (conv_params_ok (return_doc (co_doc o) single) (co_rets o) (return_doc_ok _ _) st1 Wr G1) as H. destruct (conv_params (return_doc (co_doc o) single) (co_rets o) st1) as [rs st2]. destruct H as (G2 & E2 & V2).
  split; [exact G2|split; [exact (extends_trans _ _ _ E1 E2)|]].
  apply val_ok_struct; [apply entity_not_str|apply val_ok_entity, opt_doc_ok|].
  repeat constructor; try apply val_ok_bool; apply val_ok_seq; [|exact V2]. eapply Forall_impl; [|exact V1]. intros v. apply val_ok_ext. exact E2.
Qed.
Lemma conv_ops_ok os : forall st, Forall wf_op os -> good st -> let '(vs, st') := conv_ops os st in good st' /\ extends st st' /\ Forall (val_ok st') vs.
Proof.
  induction os as [|o r IH]; intros st W G; cbn [conv_ops]; [split; [exact G|split; [apply extends_refl|constructor]]|].
  inversion W as [|? ? Wo Wr]; subst. pose proof (conv_op_ok o st Wo G) as H. destruct (conv_op o st) as [v st1]. destruct H as (G1 & E1 & V1).
  specialize (IH st1 Wr G1). destruct (conv_ops r st1) as [vs st2]. destruct IH as (G2 & E2 & V2).
  split; [exact G2|split; [exact (extends_trans _ _ _ E1 E2)|constructor; [exact (val_ok_ext _ _ _ E2 V1)|exact V2]]].
Qed.
Lemma conv_variants_ok es : forall st, Forall (fun e => Forall (fun f => wf_tref (cf_type f)) (ce_fields e)) es -> good st ->
  let '(vs, st') := conv_variants es st in good st' /\ extends st st' /\ Forall (val_ok st') vs.
Proof.
  induction es as [|e r IH]; intros st W G; cbn [conv_variants]; [split; [exact G|split; [apply extends_refl|constructor]]|].
  inversion W as [|? ? We Wr]; subst. unfold conv_variant.
  pose proof (conv_fields_ok (ce_fields e) st We G) as H. destruct (conv_fields (ce_fields e) st) as [fs st1]. destruct H as (G1 & E1 & V1).
  specialize (IH st1 Wr G1). destruct (conv_variants r st1) as [vs st2]. destruct IH as (G2 & E2 & V2).
  split; [exact G2|split; [exact (extends_trans _ _ _ E1 E2)|constructor; [|exact V2]]].
  apply (val_ok_ext _ _ _ E2). apply val_ok_struct; [apply entity_not_str|apply val_ok_entity, opt_doc_ok|].
  repeat constructor; [apply val_ok_z|apply val_ok_seq; exact V1].
Qed.
Lemma val_ok_enumerator st e : val_ok st (v_enumerator e).
Proof. apply val_ok_struct; [apply entity_not_str|apply val_ok_entity, opt_doc_ok|]. repeat constructor; [apply val_ok_n|apply val_ok_bool]. Qed.

(* ------------------------------------------------------------------------------------------------ definitions and files *)
Definition def_name (d : cdef) : cstring :=
  match d with CStruct n _ _ _ _ | CIface n _ _ _ _ | CEnum n _ _ _ _ _ _ | CCustom n _ _ | CAlias n _ _ _ => n end.
(* the name in the EntityInfo of a definition symbol *)
Definition symbol_name (v : sval) : option cstring :=
  match v with SVariant _ [Some (SStruct (Some (SStruct (Some (SStr n) :: _)) :: _))] => Some n | _ => None end.
(* one definition: the anonymous types it needs, then exactly one symbol that is not anonymous and carries its name *)
Lemma conv_def_ok d st : wf_def d -> good st ->
  good (conv_def d st) /\ exists ext sym, conv_def d st = st ++ ext ++ [sym] /\ forallb is_anonymous ext = true /\ is_anonymous sym = false /\ symbol_name sym = Some (def_name d).
Proof.
  intros W G. destruct d as [name attrs doc compact fields|name attrs doc bases ops|name attrs doc compact unchecked under ens|name attrs doc|name attrs doc t]; cbn [conv_def wf_def def_name] in *.
  - pose proof (conv_fields_ok fields st W G) as H. destruct (conv_fields fields st) as [fs st1]. destruct H as (G1 & (ext & -> & He) & V1). split.
    + apply good_snoc; [exact G1|]. apply val_ok_variant. constructor; [|constructor]. apply val_ok_struct; [apply entity_not_str|apply val_ok_entity, opt_doc_ok|].
      repeat constructor; [apply val_ok_bool|apply val_ok_seq; exact V1].
    + eexists ext, _. rewrite <- app_assoc. repeat split; [exact He].
  - pose proof (conv_ops_ok ops st W G) as H. destruct (conv_ops ops st) as [os st1]. destruct H as (G1 & (ext & -> & He) & V1). split.
    + apply good_snoc; [exact G1|]. apply val_ok_variant. constructor; [|constructor]. apply val_ok_struct; [apply entity_not_str|apply val_ok_entity, opt_doc_ok|].
      repeat constructor; [apply val_ok_strs|apply val_ok_seq; exact V1].
    + eexists ext, _. rewrite <- app_assoc. repeat split; [exact He].
  - destruct under as [under|].
    + split.
      * apply good_snoc; [exact G|]. apply val_ok_variant. constructor; [|constructor]. apply val_ok_struct; [apply entity_not_str|apply val_ok_entity, opt_doc_ok|].
        repeat constructor; [apply val_ok_bool|apply val_ok_str|]. apply val_ok_seq. apply Forall_forall. intros x Hx. apply in_map_iff in Hx as (e & <- & _). apply val_ok_enumerator.
      * exists [], (SVariant 1 [Some (SStruct [Some (v_entity name attrs (option_map v_doc doc)); Some (SBool unchecked); Some (SStr under); Some (SSeq (map v_enumerator ens))])]).
        repeat split.
    + pose proof (conv_variants_ok ens st W G) as H. destruct (conv_variants ens st) as [vs st1]. destruct H as (G1 & (ext & -> & He) & V1). split.
      * apply good_snoc; [exact G1|]. apply val_ok_variant. constructor; [|constructor]. apply val_ok_struct; [apply entity_not_str|apply val_ok_entity, opt_doc_ok|].
        repeat constructor; [apply val_ok_bool|apply val_ok_bool|apply val_ok_seq; exact V1].
      * eexists ext, _. rewrite <- app_assoc. repeat split; [exact He].
  - split.
    + apply good_snoc; [exact G|]. apply val_ok_variant. constructor; [|constructor]. apply val_ok_struct; [apply entity_not_str|apply val_ok_entity, opt_doc_ok|constructor].
    + exists [], (SVariant 4 [Some (SStruct [Some (v_entity name attrs (option_map v_doc doc))])]). repeat split.
  - pose proof (tref_ok t st W G) as H. destruct (conv_tref t st) as [tr st1]. destruct H as (G1 & (ext & -> & He) & V1 & _). split.
    + apply good_snoc; [exact G1|]. apply val_ok_variant. constructor; [|constructor]. apply val_ok_struct; [apply entity_not_str|apply val_ok_entity, opt_doc_ok|].
      repeat constructor. exact V1.
    + eexists ext, _. rewrite <- app_assoc. repeat split; [exact He].
Qed.
Lemma conv_defs_gen ds : forall st, Forall wf_def ds -> good st ->
  good (fold_left (fun st d => conv_def d st) ds st) /\
  map symbol_name (filter (fun v => negb (is_anonymous v)) (fold_left (fun st d => conv_def d st) ds st)) =
  map symbol_name (filter (fun v => negb (is_anonymous v)) st) ++ map (fun d => Some (def_name d)) ds.
Proof.
  induction ds as [|d r IH]; intros st W G; cbn [fold_left map]; [rewrite app_nil_r; split; [exact G|reflexivity]|].
  inversion W as [|? ? Wd Wr]; subst. destruct (conv_def_ok d st Wd G) as (G1 & ext & sym & E & He & Hs & Hn).
  destruct (IH (conv_def d st) Wr G1) as (G2 & H2). split; [exact G2|]. rewrite H2, E. rewrite !filter_app, !map_app.
  assert (F : filter (fun v => negb (is_anonymous v)) ext = []).
  { clear -He. induction ext as [|x l IHl]; [reflexivity|]. cbn [forallb] in He. apply andb_true_iff in He as [Hx Hl]. cbn [filter]. rewrite Hx. cbn [negb]. exact (IHl Hl). }
  rewrite F. cbn [filter map app]. rewrite Hs. cbn [negb map app]. rewrite Hn. rewrite <- app_assoc. reflexivity.
Qed.
(* for every compiled file: the contents pass the well-foundedness check that is also run on the decoded request ... *)
Theorem converted_file_ids_wellfounded f : Forall wf_def (cfl_defs f) -> file_ids_wellfounded (conv_file f) = true.
Proof. intros W. unfold conv_file, file_ids_wellfounded, conv_defs. exact (proj1 (conv_defs_gen (cfl_defs f) [] W eq_refl)). Qed.
(* ... and lists the definitions in source order: setting the anonymous-type symbols aside, the names are those of the definitions *)
Theorem converted_definitions_in_order f : Forall wf_def (cfl_defs f) ->
  map symbol_name (filter (fun v => negb (is_anonymous v)) (conv_defs (cfl_defs f))) = map (fun d => Some (def_name d)) (cfl_defs f).
Proof. intros W. exact (proj2 (conv_defs_gen (cfl_defs f) [] W eq_refl)). Qed.
