(* Round trip of the schema-dictated codec, for every schema type and every value of it (C08). *)
From Coq Require Import List NArith ZArith Lia ZifyBool ZifyN ZifyNat Bool.
From SliceV Require Import Base.Bytes Base.Utf8 Gen.VarintArms Codec.Wire Codec.WireProofs Codec.CollProofs Request.Schema.
Import ListNotations.
Open Scope N_scope.

Inductive has_sty : sty -> sval -> Prop :=
| hs_bool b : has_sty YBool (SBool b)
| hs_str s : utf8_valid s = true -> N.of_nat (length s) < 2 ^ 62 -> has_sty YStr (SStr s)
| hs_u8 n : n < 256 -> has_sty YU8 (SN n)
| hs_u64 n : n < 2 ^ 64 -> has_sty YU64 (SN n)
| hs_i32 z : (I32_MIN <= z <= I32_MAX)%Z -> has_sty YI32 (SZ z)
| hs_varint32 z : (I32_MIN <= z <= I32_MAX)%Z -> has_sty YVarInt32 (SZ z)
| hs_seq e l : Forall (has_sty e) l -> N.of_nat (length l) < 2 ^ 62 -> has_sty (YSeq e) (SSeq l)
| hs_dict k v l : Forall (fun kv => has_sty k (fst kv) /\ has_sty v (snd kv)) l -> N.of_nat (length l) < 2 ^ 62 -> has_sty (YDict k v) (SDict l)
| hs_struct fs vs : (count_opt fs <= 1)%nat -> fields_ok fs vs -> has_sty (YStruct fs) (SStruct vs)
| hs_variant vars d fs vs : find_variant d vars = Some fs -> (I32_MIN <= d <= I32_MAX)%Z -> (count_opt fs <= 1)%nat -> fields_ok fs vs ->
    has_sty (YVariant vars) (SVariant d vs)
| hs_enum c n : n < c -> c <= 256 -> has_sty (YEnumU8 c) (SN n)
with fields_ok : list (bool * sty) -> list (option sval) -> Prop :=
| fo_nil : fields_ok [] []
| fo_some o t fs x vs : has_sty t x -> fields_ok fs vs -> fields_ok ((o, t) :: fs) (Some x :: vs)
| fo_none t fs vs : fields_ok fs vs -> fields_ok ((true, t) :: fs) (None :: vs).

Definition fields_depth (fs : list (bool * sty)) : nat := fold_right (fun ft m => Nat.max (sty_depth (snd ft)) m) 0%nat fs.
Lemma fields_depth_in fs o t : In (o, t) fs -> (sty_depth t <= fields_depth fs)%nat.
Proof.
  unfold fields_depth. induction fs as [|[o' t'] fs IH]; [contradiction|]. cbn [fold_right snd].
  intros [E|H]; [inversion E; subst; lia|specialize (IH H); lia].
Qed.
Lemma variants_depth_in vars d fs : find_variant d vars = Some fs -> (S (fields_depth fs) <= sty_depth (YVariant vars))%nat.
Proof.
  cbn [sty_depth]. induction vars as [|[d' fs'] vars IH]; [discriminate|]. cbn [find_variant fold_right snd].
  destruct (Z.eqb d d'); [intros E; inversion E; subst; unfold fields_depth; lia|intros H; specialize (IH H); lia].
Qed.

(* the tag-end marker is what skip_tagged_fields stops at *)
Lemma skip_tag_end rest : skip_tagged_fields (tag_end ++ rest) = DOk tt rest.
Proof. unfold skip_tagged_fields, tag_end. cbn [app length skip_tagged]. reflexivity. Qed.

(* optional fields agree with the presence bit *)
Fixpoint agree (present : bool) (fs : list (bool * sty)) (vs : list (option sval)) : Prop :=
  match fs, vs with
  | (o, _) :: fs', v :: vs' => (o = true -> present = match v with Some _ => true | None => false end) /\ agree present fs' vs'
  | [], [] => True
  | _, _ => False
  end.
Lemma no_opt_agree p fs vs : count_opt fs = 0%nat -> fields_ok fs vs -> agree p fs vs /\ present_bit fs vs = false.
Proof.
  intros Hc H. induction H as [|o t fs x vs Hx Hf IH|t fs vs Hf IH]; [cbn; auto| |].
  - unfold count_opt in *. cbn [filter fst] in Hc. destruct o; [discriminate|]. destruct (IH Hc) as [Ha Hp].
    split; [cbn; split; [discriminate|exact Ha]|]. unfold present_bit in *. cbn. exact Hp.
  - unfold count_opt in Hc. cbn in Hc. discriminate.
Qed.
Lemma agree_present fs vs : (count_opt fs <= 1)%nat -> fields_ok fs vs -> agree (present_bit fs vs) fs vs.
Proof.
  intros Hc H. induction H as [|o t fs x vs Hx Hf IH|t fs vs Hf IH]; [exact I| |].
  - destruct o.
    + assert (Hc0 : count_opt fs = 0%nat) by (unfold count_opt in *; cbn in Hc; lia).
      destruct (no_opt_agree true fs vs Hc0 Hf) as [Ha _].
      unfold present_bit. cbn. split; auto.
    + assert (Hc' : (count_opt fs <= 1)%nat) by (unfold count_opt in *; cbn in Hc; lia).
      unfold present_bit in *. cbn. split; [discriminate|apply IH; exact Hc'].
  - assert (Hc0 : count_opt fs = 0%nat) by (unfold count_opt in *; cbn in Hc; lia).
    destruct (no_opt_agree false fs vs Hc0 Hf) as [Ha Hp].
    unfold present_bit in *. cbn. rewrite Hp. split; auto.
Qed.

Section Step.
  Variable f : nat.
  Hypothesis IH : forall t v rest, (sty_depth t <= f)%nat -> has_sty t v ->
    exists bs, enc_sval f t v = Some bs /\ bs <> [] /\ dec_sval f t (bs ++ rest) = DOk v rest.

  Lemma fields_roundtrip fs vs present rest : fields_ok fs vs -> (fields_depth fs <= f)%nat -> agree present fs vs ->
    exists b, enc_fields (enc_sval f) fs vs = Some b /\ dec_fields (dec_sval f) present fs (b ++ rest) = DOk vs rest.
  Proof.
    intros H. induction H as [|o t fs x vs Hx Hf IHf|t fs vs Hf IHf]; intros Hd Ha.
    - exists []. split; reflexivity.
    - cbn in Hd. destruct Ha as [Ho Ha]. destruct (IHf ltac:(unfold fields_depth in *; lia) Ha) as (b & Hb & Hdec).
      destruct (IH t x (b ++ rest) ltac:(lia) Hx) as (a & Ea & _ & Da).
      exists (a ++ b). cbn [enc_fields dec_fields]. rewrite Ea. cbn [obind]. rewrite Hb. cbn [obind]. split; [reflexivity|].
      replace (o && negb present) with false.
      2:{ destruct o; [rewrite (Ho eq_refl); reflexivity|reflexivity]. }
      rewrite <- app_assoc, Da. cbn [dbind]. rewrite Hdec. reflexivity.
    - cbn in Hd. destruct Ha as [Ho Ha]. destruct (IHf ltac:(unfold fields_depth in *; lia) Ha) as (b & Hb & Hdec).
      exists b. cbn [enc_fields dec_fields]. split; [exact Hb|]. pose proof (Ho eq_refl) as Hp. subst present. cbn [andb negb]. rewrite Hdec. reflexivity.
  Qed.

  Lemma body_roundtrip fs vs rest : fields_ok fs vs -> (count_opt fs <= 1)%nat -> (fields_depth fs <= f)%nat ->
    exists b, enc_body (enc_sval f) fs vs = Some b /\ b <> [] /\ dec_body (dec_sval f) fs (b ++ rest) = DOk vs rest.
  Proof.
    intros Hf Hc Hd. pose proof (agree_present fs vs Hc Hf) as Ha.
    unfold enc_body, dec_body.
    destruct (Nat.eqb_spec (count_opt fs) 0) as [E0|E0].
    - destruct (no_opt_agree false fs vs E0 Hf) as [Ha' _].
      destruct (fields_roundtrip fs vs false (tag_end ++ rest) Hf Hd Ha') as (b & Hb & Hdec).
      rewrite Hb. cbn [obind app]. eexists. split; [reflexivity|]. split; [destruct b; discriminate|].
      cbn [dbind]. rewrite <- app_assoc, Hdec. cbn [dbind]. rewrite skip_tag_end. reflexivity.
    - destruct (fields_roundtrip fs vs (present_bit fs vs) (tag_end ++ rest) Hf Hd Ha) as (b & Hb & Hdec).
      rewrite Hb. cbn [obind]. eexists. split; [reflexivity|]. split; [discriminate|].
      cbn [app]. change ((if present_bit fs vs then 1 else 0) :: (b ++ tag_end) ++ rest) with (enc_bool (present_bit fs vs) ++ ((b ++ tag_end) ++ rest)).
      rewrite bool_roundtrip. cbn [dbind]. rewrite <- app_assoc, Hdec. cbn [dbind]. rewrite skip_tag_end. reflexivity.
  Qed.

  Lemma list_roundtrip e l rest fuel : Forall (has_sty e) l -> (sty_depth e <= f)%nat -> (length l <= fuel)%nat ->
    exists bs, enc_list (enc_sval f) e l = Some bs /\ (length l <= length bs)%nat /\
               dec_list (dec_sval f) fuel (N.of_nat (length l)) e (bs ++ rest) = DOk l rest.
  Proof.
    intros HP Hd. revert fuel. induction HP as [|x l Hx Hl IHl]; intros fuel Hf.
    - exists []. cbn. destruct fuel; auto.
    - destruct fuel as [|fu]; [cbn in Hf; lia|].
      destruct (IHl fu ltac:(cbn in Hf; lia)) as (bs & Hbs & Hlen & Hdl).
      destruct (IH e x (bs ++ rest) Hd Hx) as (b & Hb & Hne & Hdb).
      exists (b ++ bs). cbn [enc_list]. rewrite Hb. cbn [obind]. rewrite Hbs. cbn [obind]. split; [reflexivity|].
      split. { rewrite app_length. cbn [length]. destruct b; [congruence|cbn; lia]. }
      cbn [dec_list length]. destruct (N.eqb_spec (N.of_nat (S (length l))) 0); [lia|].
      rewrite <- app_assoc, Hdb. cbn [dbind].
      replace (N.of_nat (S (length l)) - 1) with (N.of_nat (length l)) by lia. rewrite Hdl. reflexivity.
  Qed.
  Lemma pairs_roundtrip k v l rest fuel : Forall (fun kv => has_sty k (fst kv) /\ has_sty v (snd kv)) l ->
    (sty_depth k <= f)%nat -> (sty_depth v <= f)%nat -> (length l <= fuel)%nat ->
    exists bs, enc_pairs (enc_sval f) k v l = Some bs /\ (length l <= length bs)%nat /\
               dec_pairs (dec_sval f) fuel (N.of_nat (length l)) k v (bs ++ rest) = DOk l rest.
  Proof.
    intros HP Hk Hv. revert fuel. induction HP as [|[a b] l [Ha Hb] Hl IHl]; intros fuel Hf.
    - exists []. cbn. destruct fuel; auto.
    - destruct fuel as [|fu]; [cbn in Hf; lia|]. cbn [fst snd] in *.
      destruct (IHl fu ltac:(cbn in Hf; lia)) as (bs & Hbs & Hlen & Hdl).
      destruct (IH v b (bs ++ rest) Hv Hb) as (eb & Eb & _ & Db).
      destruct (IH k a (eb ++ bs ++ rest) Hk Ha) as (ea & Ea & Nea & Da).
      exists (ea ++ eb ++ bs). cbn [enc_pairs]. rewrite Ea. cbn [obind]. rewrite Eb. cbn [obind]. rewrite Hbs. cbn [obind]. split; [reflexivity|].
      split. { rewrite !app_length. cbn [length]. destruct ea; [congruence|cbn; lia]. }
      cbn [dec_pairs length]. destruct (N.eqb_spec (N.of_nat (S (length l))) 0); [lia|].
      rewrite <- !app_assoc, Da. cbn [dbind]. rewrite Db. cbn [dbind].
      replace (N.of_nat (S (length l)) - 1) with (N.of_nat (length l)) by lia. rewrite Hdl. reflexivity.
  Qed.
End Step.

Lemma nonempty_of_len (bs : list byte) : (length bs = 1 \/ length bs = 2 \/ length bs = 4 \/ length bs = 8)%nat -> bs <> [].
Proof. destruct bs; cbn; [lia|discriminate]. Qed.

(* decoding, field by field as the schema dictates, what the encoders wrote gives back the value and leaves exactly the rest *)
Theorem schema_roundtrip : forall fuel t v rest, (sty_depth t <= fuel)%nat -> has_sty t v ->
  exists bs, enc_sval fuel t v = Some bs /\ bs <> [] /\ dec_sval fuel t (bs ++ rest) = DOk v rest.
Proof.
  induction fuel as [|f IH]; intros t v rest Hd Ht; [destruct t; cbn in Hd; lia|].
  inversion Ht; subst; cbn [enc_sval dec_sval].
  - eexists. split; [reflexivity|]. split; [destruct b; discriminate|]. rewrite bool_roundtrip. reflexivity.
  - destruct (str_roundtrip s rest H H0) as (bs & Hb & Hdec). exists bs. rewrite Hb, Hdec. split; auto. split; [|reflexivity].
    unfold enc_str in Hb. destruct (enc_size _) as [h|] eqn:E; [|discriminate]. inversion Hb. apply varuint_length in E. destruct h; [cbn in E; lia|discriminate].
  - eexists. split; [reflexivity|]. split; [discriminate|]. rewrite uint_roundtrip by (cbn; lia). reflexivity.
  - eexists. split; [reflexivity|]. split; [discriminate|]. rewrite uint_roundtrip by (change (256 ^ N.of_nat 8) with (2 ^ 64); lia). reflexivity.
  - eexists. split; [reflexivity|]. split; [discriminate|]. rewrite int_roundtrip; [reflexivity|lia|].
    unfold I32_MIN, I32_MAX in H. change (2 ^ (8 * Z.of_nat 4 - 1))%Z with 2147483648%Z. lia.
  - assert (Hr : (- 2 ^ 61 <= z < 2 ^ 61)%Z) by (unfold I32_MIN, I32_MAX in H; lia).
    destruct (varint_roundtrip z rest Hr) as (bs & Hb & Hdec). exists bs. rewrite Hb. split; auto.
    split; [apply nonempty_of_len; eapply varint_length; eauto|].
    unfold dec_varint_in. rewrite Hdec. cbn [dbind].
    replace ((I32_MIN <=? z)%Z && (z <=? I32_MAX)%Z) with true by lia. reflexivity.
  - cbn [sty_depth] in Hd.
    destruct (list_roundtrip f (IH) e l rest (S (length l)) H ltac:(lia) ltac:(lia)) as (bs & Hbs & Hlen & _).
    destruct (varuint_roundtrip (N.of_nat (length l)) (bs ++ rest) H0) as (h & Hh & Hdh).
    unfold enc_size. rewrite Hh. cbn [obind]. rewrite Hbs. cbn [obind]. eexists. split; [reflexivity|].
    split; [apply varuint_length in Hh; destruct h; [cbn in Hh; lia|discriminate]|].
    unfold dec_size. rewrite <- app_assoc, Hdh. cbn [dbind].
    destruct (list_roundtrip f (IH) e l rest (S (length (bs ++ rest))) H ltac:(lia)) as (bs' & Hbs' & _ & Hd').
    { rewrite app_length. lia. }
    rewrite Hbs in Hbs'. inversion Hbs'; subst bs'. rewrite Hd'. reflexivity.
  - cbn [sty_depth] in Hd.
    destruct (pairs_roundtrip f (IH) k v0 l rest (S (length l)) H ltac:(lia) ltac:(lia) ltac:(lia)) as (bs & Hbs & Hlen & _).
    destruct (varuint_roundtrip (N.of_nat (length l)) (bs ++ rest) H0) as (h & Hh & Hdh).
    unfold enc_size. rewrite Hh. cbn [obind]. rewrite Hbs. cbn [obind]. eexists. split; [reflexivity|].
    split; [apply varuint_length in Hh; destruct h; [cbn in Hh; lia|discriminate]|].
    unfold dec_size. rewrite <- app_assoc, Hdh. cbn [dbind].
    destruct (pairs_roundtrip f (IH) k v0 l rest (S (length (bs ++ rest))) H ltac:(lia) ltac:(lia)) as (bs' & Hbs' & _ & Hd').
    { rewrite app_length. lia. }
    rewrite Hbs in Hbs'. inversion Hbs'; subst bs'. rewrite Hd'. reflexivity.
  - cbn [sty_depth] in Hd. fold (fields_depth fs) in Hd.
    destruct (body_roundtrip f (IH) fs vs rest H0 H ltac:(lia)) as (b & Hb & Hne & Hdec).
    exists b. rewrite Hb, Hdec. auto.
  - pose proof (variants_depth_in vars d fs H) as Hvd.
    destruct (body_roundtrip f (IH) fs vs rest H2 H1 ltac:(lia)) as (b & Hb & Hne & Hdec).
    assert (Hr : (- 2 ^ 61 <= d < 2 ^ 61)%Z) by (unfold I32_MIN, I32_MAX in H0; lia).
    destruct (varint_roundtrip d (b ++ rest) Hr) as (h & Hh & Hdh).
    rewrite H, Hh. cbn [obind]. rewrite Hb. cbn [obind]. eexists. split; [reflexivity|].
    split; [pose proof (nonempty_of_len h (varint_length _ _ Hh)); destruct h; [congruence|discriminate]|].
    unfold dec_varint_in. rewrite <- app_assoc, Hdh. cbn [dbind].
    replace ((I32_MIN <=? d)%Z && (d <=? I32_MAX)%Z) with true by lia. cbn [dbind]. rewrite H, Hdec. reflexivity.
  - destruct (N.ltb_spec n c); [|lia]. eexists. split; [reflexivity|]. split; [discriminate|].
    rewrite uint_roundtrip by (cbn; lia). cbn [dbind]. destruct (N.ltb_spec n c); [reflexivity|lia].
Qed.
