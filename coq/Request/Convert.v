(* Executable model of slicec/src/slice_file_converter.rs (C08): from a compiled file -- as the AST says it: definitions in source
   order with their attributes, documentation, members and patched type references -- to the SliceFile value of the Compiler
   schema that is encoded into the generator request.  Anonymous types (sequences, dictionaries, results) become symbols of
   their own, inserted before the symbol that uses them and referred to by their position in the file's contents.  Model only;
   proofs in ConvertProofs.v. *)
From Coq Require Import List NArith ZArith Bool.
From SliceV Require Import Base.Bytes Request.Schema.
Import ListNotations.
Open Scope N_scope.

Definition cstring := list byte.
Record cattr := mkcattr { ca_dir : cstring; ca_args : list cstring }.
Inductive ctarget := GNamed (id : cstring) | GPrim (name : cstring) | GSeq (e : ctref) | GDict (k v : ctref) | GRes (s f : ctref)
with ctref := CRef (tgt : ctarget) (opt : bool) (attrs : list cattr).
(* a message component: text, or a link (the scoped identifier it was resolved to, else the identifier as written) *)
Inductive cmsg := MText (s : cstring) | MLink (id : cstring).
Record cdoc := mkcdoc { cd_overview : list cmsg; cd_see : list cstring;
                        cd_params : list (cstring * list cmsg);               (* @param name: message *)
                        cd_returns : list (option cstring * list cmsg) }.     (* @returns [name]: message *)
Record cfield := mkcfield { cf_name : cstring; cf_attrs : list cattr; cf_doc : option cdoc; cf_tag : option Z; cf_type : ctref }.
Record cparam := mkcparam { cp_name : cstring; cp_attrs : list cattr; cp_tag : option Z; cp_stream : bool; cp_type : ctref }.
Record cop := mkcop { co_name : cstring; co_attrs : list cattr; co_doc : option cdoc; co_idem : bool; co_params : list cparam; co_rets : list cparam }.
Record cenumerator := mkcenumerator { ce_name : cstring; ce_attrs : list cattr; ce_doc : option cdoc; ce_value : Z; ce_fields : list cfield }.
Inductive cdef :=
| CStruct (name : cstring) (attrs : list cattr) (doc : option cdoc) (compact : bool) (fields : list cfield)
| CIface (name : cstring) (attrs : list cattr) (doc : option cdoc) (bases : list cstring) (ops : list cop)
| CEnum (name : cstring) (attrs : list cattr) (doc : option cdoc) (compact unchecked : bool) (under : option cstring) (ens : list cenumerator)
| CCustom (name : cstring) (attrs : list cattr) (doc : option cdoc)
| CAlias (name : cstring) (attrs : list cattr) (doc : option cdoc) (t : ctref).
Record cfile := mkcfile { cfl_path : cstring; cfl_module : cstring; cfl_mattrs : list cattr; cfl_fattrs : list cattr; cfl_defs : list cdef }.

(* ---------- values without type references ---------- *)
Definition v_attr (a : cattr) : sval := SStruct [Some (SStr (ca_dir a)); Some (SSeq (map SStr (ca_args a)))].
Definition v_attrs (l : list cattr) : sval := SSeq (map v_attr l).
Definition v_component (c : cmsg) : sval := match c with MText s => SVariant 0 [Some (SStr s)] | MLink i => SVariant 1 [Some (SStr i)] end.
Definition v_message (m : list cmsg) : sval := SSeq (map v_component m).
Definition v_doc (d : cdoc) : sval := SStruct [Some (v_message (cd_overview d)); Some (SSeq (map SStr (cd_see d)))].
(* the documentation of a parameter or return member is its tag's message, without see-tags *)
Definition v_tagdoc (m : list cmsg) : sval := SStruct [Some (v_message m); Some (SSeq [])].
Definition v_entity (name : cstring) (attrs : list cattr) (doc : option sval) : sval := SStruct [Some (SStr name); Some (v_attrs attrs); doc].
Definition v_tag (t : option Z) : option sval := option_map SZ t.

(* ---------- decimal spelling of a position ---------- *)
Fixpoint digits_aux (fuel : nat) (n : N) (acc : list byte) : list byte :=
  match fuel with
  | O => acc
  | S f => let acc' := (48 + n mod 10) :: acc in if n <? 10 then acc' else digits_aux f (n / 10) acc'
  end.
Definition decimal (n : N) : list byte := digits_aux (S (N.to_nat n)) n [].

(* ---------- type references: anonymous types are appended to the contents, innermost first ---------- *)
Definition v_typeref (id : cstring) (opt : bool) (attrs : list cattr) : sval := SStruct [Some (SStr id); Some (SBool opt); Some (v_attrs attrs)].
Fixpoint conv_tref (t : ctref) (st : list sval) : sval * list sval :=
  match t with
  | CRef tgt opt attrs => let '(id, st') := conv_target tgt st in (v_typeref id opt attrs, st')
  end
with conv_target (t : ctarget) (st : list sval) : cstring * list sval :=
  match t with
  | GNamed id => (id, st)
  | GPrim nm => (nm, st)
  | GSeq e => let '(r, st1) := conv_tref e st in (decimal (N.of_nat (length st1)), st1 ++ [SVariant 5 [Some (SStruct [Some r])]])
  | GDict k v => let '(rk, st1) := conv_tref k st in let '(rv, st2) := conv_tref v st1 in
                 (decimal (N.of_nat (length st2)), st2 ++ [SVariant 6 [Some (SStruct [Some rk; Some rv])]])
  | GRes s f => let '(rs, st1) := conv_tref s st in let '(rf, st2) := conv_tref f st1 in
                (decimal (N.of_nat (length st2)), st2 ++ [SVariant 7 [Some (SStruct [Some rs; Some rf])]])
  end.

(* ---------- members ---------- *)
Definition conv_field (f : cfield) (st : list sval) : sval * list sval :=
  let '(tr, st') := conv_tref (cf_type f) st in
  (SStruct [Some (v_entity (cf_name f) (cf_attrs f) (option_map v_doc (cf_doc f))); v_tag (cf_tag f); Some tr], st').
Fixpoint conv_fields (fs : list cfield) (st : list sval) : list sval * list sval :=
  match fs with [] => ([], st) | f :: r => let '(v, st1) := conv_field f st in let '(vs, st2) := conv_fields r st1 in (v :: vs, st2) end.
Definition conv_param (doc : option sval) (p : cparam) (st : list sval) : sval * list sval :=
  let '(tr, st') := conv_tref (cp_type p) st in
  (SStruct [Some (v_entity (cp_name p) (cp_attrs p) doc); v_tag (cp_tag p); Some tr], st').
Fixpoint conv_params (docof : cparam -> option sval) (ps : list cparam) (st : list sval) : list sval * list sval :=
  match ps with [] => ([], st) | p :: r => let '(v, st1) := conv_param (docof p) p st in let '(vs, st2) := conv_params docof r st1 in (v :: vs, st2) end.

Fixpoint cstring_eqb (a b : cstring) : bool := match a, b with [], [] => true | x :: a', y :: b' => (x =? y) && cstring_eqb a' b' | _, _ => false end.
(* the first @param tag with the parameter's name *)
Definition param_doc (d : option cdoc) (p : cparam) : option sval :=
  match d with
  | None => None
  | Some d => option_map (fun t => v_tagdoc (snd t)) (find (fun t => cstring_eqb (fst t) (cp_name p)) (cd_params d))
  end.
(* the first @returns tag for this return member: the one without a name when it is the only return value, the one with its name otherwise *)
Definition return_doc (d : option cdoc) (single : bool) (p : cparam) : option sval :=
  match d with
  | None => None
  | Some d => option_map (fun t => v_tagdoc (snd t))
                (find (fun t => match fst t with None => single | Some nm => cstring_eqb nm (cp_name p) end) (cd_returns d))
  end.
Definition last_streamed (ps : list cparam) : bool := match rev ps with p :: _ => cp_stream p | [] => false end.
Definition conv_op (o : cop) (st : list sval) : sval * list sval :=
  let '(ps, st1) := conv_params (param_doc (co_doc o)) (co_params o) st in
  let single := match co_rets o with [_] => true | _ => false end in
  let '(rs, st2) := conv_params (return_doc (co_doc o) single) (co_rets o) st1 in
  (SStruct [Some (v_entity (co_name o) (co_attrs o) (option_map v_doc (co_doc o))); Some (SBool (co_idem o));
            Some (SSeq ps); Some (SBool (last_streamed (co_params o))); Some (SSeq rs); Some (SBool (last_streamed (co_rets o)))], st2).
Fixpoint conv_ops (os : list cop) (st : list sval) : list sval * list sval :=
  match os with [] => ([], st) | o :: r => let '(v, st1) := conv_op o st in let '(vs, st2) := conv_ops r st1 in (v :: vs, st2) end.
Definition conv_variant (e : cenumerator) (st : list sval) : sval * list sval :=
  let '(fs, st1) := conv_fields (ce_fields e) st in
  (SStruct [Some (v_entity (ce_name e) (ce_attrs e) (option_map v_doc (ce_doc e))); Some (SZ (ce_value e)); Some (SSeq fs)], st1).
Fixpoint conv_variants (es : list cenumerator) (st : list sval) : list sval * list sval :=
  match es with [] => ([], st) | e :: r => let '(v, st1) := conv_variant e st in let '(vs, st2) := conv_variants r st1 in (v :: vs, st2) end.
Definition v_enumerator (e : cenumerator) : sval :=
  SStruct [Some (v_entity (ce_name e) (ce_attrs e) (option_map v_doc (ce_doc e))); Some (SN (Z.abs_N (ce_value e))); Some (SBool (ce_value e <? 0)%Z)].

(* ---------- definitions and files ---------- *)
Definition conv_def (d : cdef) (st : list sval) : list sval :=
  match d with
  | CStruct name attrs doc compact fields =>
    let '(fs, st1) := conv_fields fields st in
    st1 ++ [SVariant 3 [Some (SStruct [Some (v_entity name attrs (option_map v_doc doc)); Some (SBool compact); Some (SSeq fs)])]]
  | CIface name attrs doc bases ops =>
    let '(os, st1) := conv_ops ops st in
    st1 ++ [SVariant 0 [Some (SStruct [Some (v_entity name attrs (option_map v_doc doc)); Some (SSeq (map SStr bases)); Some (SSeq os)])]]
  | CEnum name attrs doc compact unchecked (Some under) ens =>
    st ++ [SVariant 1 [Some (SStruct [Some (v_entity name attrs (option_map v_doc doc)); Some (SBool unchecked); Some (SStr under); Some (SSeq (map v_enumerator ens))])]]
  | CEnum name attrs doc compact unchecked None ens =>
    let '(vs, st1) := conv_variants ens st in
    st1 ++ [SVariant 2 [Some (SStruct [Some (v_entity name attrs (option_map v_doc doc)); Some (SBool compact); Some (SBool unchecked); Some (SSeq vs)])]]
  | CCustom name attrs doc => st ++ [SVariant 4 [Some (SStruct [Some (v_entity name attrs (option_map v_doc doc))])]]
  | CAlias name attrs doc t =>
    let '(tr, st1) := conv_tref t st in
    st1 ++ [SVariant 8 [Some (SStruct [Some (v_entity name attrs (option_map v_doc doc)); Some tr])]]
  end.
Definition conv_defs (ds : list cdef) : list sval := fold_left (fun st d => conv_def d st) ds [].
Definition conv_file (f : cfile) : sval :=
  SStruct [Some (SStr (cfl_path f)); Some (SStruct [Some (SStr (cfl_module f)); Some (v_attrs (cfl_mattrs f))]); Some (v_attrs (cfl_fattrs f));
           Some (SSeq (conv_defs (cfl_defs f)))].
